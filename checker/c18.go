package main

import (
	"fmt"
	"go/constant"
	"go/token"
	"go/types"
	"strings"

	"golang.org/x/tools/go/ssa"
)

func init() { register("C18", checkC18) }

// metricEvent is one Inc/Dec of an exported metric, resolved to the metric's
// registered name.
type metricEvent struct {
	Metric string // subsystem_name
	Op     string // Inc | Dec
	Label  ssa.Value
	In     ssa.Instruction
}

type metricIndex struct {
	c    *Ctx
	ir   *initReader
	name map[*ssa.Global]string
}

func newMetricIndex(c *Ctx) *metricIndex {
	mi := &metricIndex{c: c, ir: newInitReader(c), name: map[*ssa.Global]string{}}
	for _, rel := range []string{"", "internal/pkg/transport"} {
		p := c.Pkg(rel)
		if p == nil {
			continue
		}
		for _, m := range p.Members {
			if g, ok := m.(*ssa.Global); ok {
				if n := mi.metricName(mi.ir.global(g)); n != "" {
					mi.name[g] = n
				}
			}
		}
	}
	return mi
}

func constStr(g *GVal) string {
	if g == nil || g.Kind != "const" || g.Const == nil {
		return ""
	}
	s := g.Const.ExactString()
	return strings.Trim(s, "\"")
}

func (mi *metricIndex) metricName(v *GVal) string {
	if v == nil || v.Kind != "call" {
		return ""
	}
	if strings.HasPrefix(v.Callee, "github.com/prometheus/client_golang/prometheus/promauto.New") && len(v.Args) >= 1 {
		o := v.Args[0]
		if o.Kind == "struct" {
			sub := constStr(o.Fields["Subsystem"])
			nm := constStr(o.Fields["Name"])
			if nm != "" {
				return sub + "_" + nm
			}
		}
		return ""
	}
	if strings.HasSuffix(v.Callee, ".WithLabelValues") && len(v.Args) >= 1 {
		return mi.metricName(v.Args[0])
	}
	return ""
}

// eventOf classifies an instruction as a metric event.
func (mi *metricIndex) eventOf(in ssa.Instruction) (metricEvent, bool) {
	cc := asCall(in)
	if cc == nil || !cc.IsInvoke() {
		return metricEvent{}, false
	}
	op := cc.Method.Name()
	if op != "Inc" && op != "Dec" && op != "Add" && op != "Sub" && op != "Set" {
		return metricEvent{}, false
	}
	recv := cc.Value
	var label ssa.Value
	if call, ok := recv.(*ssa.Call); ok && isCallTo(call, fnCounterVecWLV, "(*github.com/prometheus/client_golang/prometheus.GaugeVec).WithLabelValues") {
		recv = call.Call.Args[0]
		if len(call.Call.Args) > 1 {
			if sl, ok := call.Call.Args[1].(*ssa.Slice); ok {
				if al, ok := sl.X.(*ssa.Alloc); ok {
					for _, ref := range *al.Referrers() {
						if ia, ok := ref.(*ssa.IndexAddr); ok {
							for _, r2 := range *ia.Referrers() {
								if st, ok := r2.(*ssa.Store); ok {
									label = st.Val
								}
							}
						}
					}
				}
			}
		}
	}
	ld, ok := recv.(*ssa.UnOp)
	if !ok || ld.Op != token.MUL {
		return metricEvent{}, false
	}
	g, ok := ld.X.(*ssa.Global)
	if !ok {
		return metricEvent{}, false
	}
	n, ok := mi.name[g]
	if !ok {
		return metricEvent{}, false
	}
	return metricEvent{Metric: n, Op: op, Label: label, In: in}, true
}

func (mi *metricIndex) pathEvents(p CPath) []metricEvent {
	var out []metricEvent
	for _, in := range p.Instrs() {
		if e, ok := mi.eventOf(in); ok {
			out = append(out, e)
		}
	}
	return out
}

func countEv(evs []metricEvent, metric, op string) int {
	n := 0
	for _, e := range evs {
		if e.Metric == metric && e.Op == op {
			n++
		}
	}
	return n
}

// errOutcome: does this path return a non-nil error (1), nil (0), or unknown (-1)?
func (c *Ctx) errOutcome(fn *ssa.Function, p CPath) int {
	ret, ok := p.Last().(*ssa.Return)
	if !ok {
		return -1
	}
	idx := errResultIndex(fn)
	if idx < 0 {
		return -1
	}
	v := p.Resolve(ret.Results[idx])
	if isNilConst(v) {
		return 0
	}
	ds := pathDecisions(p)
	if c.nonNilOnPath(p, ds, v) {
		return 1
	}
	// the last test of this value against nil on the path decides (a value defined in a loop
	// or in a helper spliced more than once may have been tested in an earlier life)
	out := -1
	for _, tk := range p.Ifs() {
		ifi := tk.If
		op, x, y, neg, isBin := condOf(ifi.Cond)
		if !isBin || (op != token.NEQ && op != token.EQL) {
			continue
		}
		arm := tk.Arm
		if neg {
			arm = !arm
		}
		var e ssa.Value
		if isNilConst(y) {
			e = x
		} else if isNilConst(x) {
			e = y
		}
		if e == nil || !(e == v || p.Resolve(e) == v) {
			continue
		}
		if (op == token.NEQ) == arm {
			out = 1
		} else {
			// found nil by a test on the path (in the function, or in a function literal it defers)
			out = 0
		}
	}
	return out
}

// flagInit: the initial value of a captured one-bit flag at the backoff.Retry
// of the enclosing function — the cell is allocated there, and the enclosing
// function stores at most one constant into it, before the Retry (none: false).
func flagInit(cell *ssa.FreeVar, s SendClosure) (bool, bool) {
	bind, _ := freeVarBinding(cell).(*ssa.Alloc)
	if bind == nil || bind.Parent() != s.Parent {
		return false, false
	}
	val, n := false, 0
	for _, ref := range *bind.Referrers() {
		st, isSt := ref.(*ssa.Store)
		if !isSt {
			continue
		}
		n++
		k, isK := st.Val.(*ssa.Const)
		if !isK || k.Value == nil || k.Value.Kind() != constant.Bool || !mustPrecede(s.Parent, st, s.Retry) {
			return false, false
		}
		val = constant.BoolVal(k.Value)
	}
	return val, n <= 1
}

func checkC18(c *Ctx, r *Report) {
	r.Explain = "Metric accounting as path counting: metrics are resolved to their registered names from the package initialisers; on every CFG path of each SendCommand implementation, of the command send closures, of the session/connection open functions and of the close functions, the number of Inc/Dec events per metric is compared with the outcome of that path (error returned or not, first attempt or retry, reply accepted or not); all other touch points of these metrics are reported. Exact per path; says nothing about totals over histories beyond what per-call exactness implies."
	r.NotDecided = []string{"totals over arbitrary histories (follow from per-call exactness by induction, not checked as such)", "prometheus client internals"}
	r.Trusted = []string{"go/types, go/ssa (x/tools v0.29.0)", "prometheus Counter.Inc/Gauge.Inc/Dec change the value by exactly one", "deferred calls run exactly once on every exit"}
	checkCodeLabelDistinct(c, r)
	mi := newMetricIndex(c)
	r.Rule("metrics-resolved", "package-level collectors resolve to registered metric names", 10)
	want := []string{"command_attempts_total", "command_failures_total", "command_retries_total", "command_responses_total", "session_open_attempts_total", "session_open_failures_total", "sessions_open", "connection_open_attempts_total", "connection_open_failures_total", "connections_open"}
	have := map[string]bool{}
	for _, n := range mi.name {
		have[n] = true
	}
	for _, w := range want {
		r.Check(have[w], "metric "+w, token.NoPos, "resolved", "no package-level collector registers metric "+w)
	}

	anchored := map[ssa.Instruction]bool{}

	// A. SendCommand implementations
	impls := c.sendCommandImpls()
	if len(impls) < 2 {
		r.Rule("sendcommand-accounting", "", 2)
		r.Lost("SendCommand implementations")
	}
	for _, fn := range impls {
		name := c.FnName(fn)
		r.Fn(name)
		cmdParam := fn.Params[len(fn.Params)-1]
		complete := enumPaths(fn, 2, 1000000, func(p CPath) {
			if _, isRet := p.Last().(*ssa.Return); !isRet {
				return
			}
			evs := mi.pathEvents(p)
			for _, e := range evs {
				anchored[e.In] = true
			}
			out := c.errOutcome(fn, p)
			label := exitLabel(p)
			r.Rule("sendcommand-accounting", "per SendCommand call: exactly one command_attempts_total increment, before anything else observable; exactly one command_failures_total increment on every error-returning path and none on success; both labelled with the command's Name()", 8)
			att := countEv(evs, "command_attempts_total", "Inc")
			fail := countEv(evs, "command_failures_total", "Inc")
			labelsOK := true
			for _, e := range evs {
				if e.Metric == "command_attempts_total" || e.Metric == "command_failures_total" {
					call, ok := e.Label.(*ssa.Call)
					if !ok || !call.Call.IsInvoke() || call.Call.Method.Name() != "Name" || p.Resolve(call.Call.Value) != ssa.Value(cmdParam) {
						labelsOK = false
					}
				}
			}
			// attempts must precede the first call that can send
			first := true
			seenAtt := false
			for _, in := range p.Instrs() {
				if e, ok := mi.eventOf(in); ok && e.Metric == "command_attempts_total" {
					seenAtt = true
				}
				if call, ok := in.(*ssa.Call); ok && !seenAtt {
					// a helper whose body is on this path is judged by its body; any other module
					// function that can transmit must come after the attempt is counted
					if p.fl != nil && p.fl.Spliced(call) {
						continue
					}
					if f := call.Call.StaticCallee(); f != nil && c.InModule(f) && c.reachesSend(f) {
						first = false
					}
				}
			}
			switch {
			case out < 0:
				r.Unk(name+"|path "+label, p.Last().Pos(), "cannot decide whether this path returns an error")
			case att != 1 || !first:
				r.Bad(name+"|path "+label, p.Last().Pos(), fmt.Sprintf("command_attempts_total incremented %d times on this path (want exactly once, before the exchange)", att))
			case fail != out:
				r.Bad(name+"|path "+label, p.Last().Pos(), fmt.Sprintf("command_failures_total incremented %d times on a path that returns error=%v", fail, out == 1))
			case !labelsOK:
				r.Bad(name+"|path "+label, p.Last().Pos(), "attempt/failure counters not labelled with the command's Name()")
			default:
				r.OK(name+"|path "+label, p.Last().Pos(), fmt.Sprintf("attempts=1 failures=%d error=%v", fail, out == 1))
			}
		})
		if !complete {
			r.Unk(name+"|paths", fn.Pos(), "too many paths")
		}
	}

	// B. command send closures
	for _, s := range c.SendClosures() {
		fname := c.FnName(s.Fn)
		r.Fn(fname)
		if hasLoop(s.Fn) {
			r.Rule("closure-accounting", "", 1)
			r.Unk(fname+"|loop", s.Fn.Pos(), "loop in closure")
			continue
		}
		// the state that tells the first invocation from the later ones: a scalar cell shared
		// with the starting function (a captured flag, or a field of the operation's state
		// object — a boolean, an enumeration or a counter) that the operation itself updates
		var stateCell Cell
		haveCell, cellWhy := false, "no first-attempt state: the operation reads no scalar cell shared with its caller that it also updates"
		var v0 int64
		later := map[int64]bool{}
		if s.Command {
			var cands []Cell
			for _, cl := range scalarCellsOf(s.Fn) {
				written := false
				viewInstrs(s.Fn, func(in ssa.Instruction) {
					if c2, _, ok := cellStoreView(s.Fn, in); ok && c2 == cl {
						written = true
					}
				})
				if written {
					cands = append(cands, cl)
				}
			}
			if len(cands) == 1 {
				stateCell = cands[0]
				var okInit bool
				v0, okInit = cellInitial(stateCell, s.Parent, s.Retry)
				if !okInit {
					cellWhy = "the state's initial value before backoff.Retry cannot be determined (not a fresh per-call cell with at most one constant store before Retry)"
				} else {
					haveCell = true
					var steps []cellStep
					okSteps := true
					enumPaths(s.Fn, 1, 4096, func(p CPath) {
						st, ok := cellStepOf(p, stateCell)
						if !ok {
							okSteps = false
						}
						steps = append(steps, st)
					})
					if !okSteps {
						haveCell = false
						cellWhy = "the operation uses its first-attempt state in a way that cannot be read as test-then-update"
					}
					// values the cell can hold at the start of the 2nd, 3rd, … invocation
					frontier := []int64{v0}
					for round := 0; round < 8 && len(frontier) > 0; round++ {
						var next []int64
						for _, v := range frontier {
							for _, st := range steps {
								if !st.Pred(v) {
									continue
								}
								nv := st.Next(v)
								if !later[nv] {
									later[nv] = true
									next = append(next, nv)
								}
							}
						}
						frontier = next
					}
					if len(frontier) > 0 {
						// still growing: a counter; large values stand for the rest
						later[1<<40] = true
						later[1<<40+1] = true
					}
				}
			} else if len(cands) > 1 {
				cellWhy = "more than one candidate for the first-attempt state"
			}
		}
		enumPaths(s.Fn, 1, 4096, func(p CPath) {
			evs := mi.pathEvents(p)
			for _, e := range evs {
				anchored[e.In] = true
			}
			ds := pathDecisions(p)
			label := exitLabel(p)
			retries := countEv(evs, "command_retries_total", "Inc")
			resp := countEv(evs, "command_responses_total", "Inc")
			if !s.Command {
				r.Rule("payload-closure-silent", "handshake payload closures touch no command metric", 1)
				r.Check(len(evs) == 0, fname+"|path "+label, p.Last().Pos(), "no metric events", "RMCP+ payload closure changes command metrics")
				return
			}
			r.Rule("closure-accounting", "per closure invocation: command_retries_total is incremented exactly on invocations after the first (captured one-bit flag, initialised true, cleared on first use); command_responses_total exactly once, labelled with the decoded completion code, on exactly the paths that reach the final/temporary classification", 10)
			// first or later invocation: decided by which values of the state let this path run
			okRetry := false
			why := ""
			if !haveCell {
				why = cellWhy
			} else {
				st, _ := cellStepOf(p, stateCell)
				first := st.Pred(v0)
				again := false
				for v := range later {
					if st.Pred(v) {
						again = true
					}
				}
				switch {
				case first && again:
					why = fmt.Sprintf("this path runs on the first invocation and on later ones alike (retries incremented %d times): the first-attempt state is not consulted, or does not separate them", retries)
				case first:
					okRetry = retries == 0
					if !okRetry {
						why = fmt.Sprintf("first invocation: retries incremented %d times", retries)
					}
				case again:
					okRetry = retries == 1
					if !okRetry {
						why = fmt.Sprintf("re-invocation: retries incremented %d times (want 1)", retries)
					}
				default:
					okRetry = true // no state value lets this path run
				}
				if later[v0] && why == "" {
					okRetry = false
					why = "the first-attempt state can return to its initial value: a later invocation would be taken for the first"
				}
			}
			wantResp := 0
			if hasDecision(ds, "temporary", true) || hasDecision(ds, "temporary", false) {
				wantResp = 1
			}
			labelOK := true
			for _, e := range evs {
				if e.Metric == "command_responses_total" {
					call, ok := e.Label.(*ssa.Call)
					if !ok || calleeName(&call.Call) != "(github.com/gebn/bmc/pkg/ipmi.CompletionCode).String" {
						labelOK = false
						continue
					}
					ld, ok := p.Resolve(call.Call.Args[0]).(*ssa.UnOp)
					if !ok || !strings.HasSuffix(p.AP(ld.X).SelString(), fMsg+".CompletionCode") {
						labelOK = false
					}
				}
			}
			switch {
			case !okRetry:
				r.Bad(fname+"|path "+label+" ["+decisionsString(ds)+"]", p.Last().Pos(), why)
			case resp != wantResp:
				r.Bad(fname+"|path "+label+" ["+decisionsString(ds)+"]", p.Last().Pos(), fmt.Sprintf("command_responses_total incremented %d times, want %d on this path", resp, wantResp))
			case !labelOK:
				r.Bad(fname+"|path "+label+" ["+decisionsString(ds)+"]", p.Last().Pos(), "command_responses_total not labelled with the decoded completion code")
			default:
				r.OK(fname+"|path "+label+" ["+decisionsString(ds)+"]", p.Last().Pos(), fmt.Sprintf("retries=%d responses=%d", retries, resp))
			}
		})
		if s.Command {
			r.Rule("first-attempt-flag", "the first-attempt state is a fresh cell per call with one constant initial value before backoff.Retry, left for good by the first invocation", 2)
			r.Check(haveCell && !later[v0], c.FnName(s.Parent)+"|first-attempt flag", s.Parent.Pos(), "a fresh cell per call with one constant initial value before Retry, never restored", "the first-attempt state is not a fresh per-call cell with a single constant initial value set before backoff.Retry ("+cellWhy+")")
		}
	}

	// C. open / close accounting
	type triple struct{ att, fail, gauge string }
	triples := []triple{
		{"session_open_attempts_total", "session_open_failures_total", "sessions_open"},
		{"connection_open_attempts_total", "connection_open_failures_total", "connections_open"},
	}
	for _, fn := range c.LibFuncs() {
		if fn.Parent() != nil {
			continue
		}
		var evs []metricEvent
		rawInstrs(fn, false, func(in ssa.Instruction) {
			if e, ok := mi.eventOf(in); ok {
				evs = append(evs, e)
			}
		})
		for _, t := range triples {
			if countEv(evs, t.att, "Inc") > 0 {
				name := c.FnName(fn)
				r.Fn(name)
				r.Rule("open-accounting", "per open call: attempts incremented exactly once before the attempt; failures exactly once on every error-returning path; the open gauge incremented exactly once on every success path and never otherwise", 4)
				enumPaths(fn, 2, 1000000, func(p CPath) {
					if _, isRet := p.Last().(*ssa.Return); !isRet {
						return
					}
					pe := mi.pathEvents(p)
					for _, e := range pe {
						anchored[e.In] = true
					}
					out := c.errOutcome(fn, p)
					label := exitLabel(p)
					a, f, g := countEv(pe, t.att, "Inc"), countEv(pe, t.fail, "Inc"), countEv(pe, t.gauge, "Inc")
					// attempts before any module call
					first := true
					seen := false
					for _, in := range p.Instrs() {
						if e, ok := mi.eventOf(in); ok && e.Metric == t.att {
							seen = true
						}
						if call, ok := in.(*ssa.Call); ok && !seen {
							if cf := call.Call.StaticCallee(); cf != nil && c.InModule(cf) {
								first = false
							}
						}
					}
					switch {
					case out < 0:
						r.Unk(name+"|path "+label, p.Last().Pos(), "cannot decide whether this path returns an error")
					case a != 1 || !first || f != out || g != 1-out || countEv(pe, t.gauge, "Dec") != 0:
						r.Bad(name+"|path "+label, p.Last().Pos(), fmt.Sprintf("%s=%d %s=%d %s+%d on a path returning error=%v", t.att, a, t.fail, f, t.gauge, g, out == 1))
					default:
						r.OK(name+"|path "+label, p.Last().Pos(), fmt.Sprintf("attempts=1 failures=%d gauge+%d", f, g))
					}
				})
			}
			if countEv(evs, t.gauge, "Dec") > 0 {
				name := c.FnName(fn)
				r.Fn(name)
				r.Rule("close-accounting", "per close call: the open gauge is decremented exactly once on every exit and nothing else is counted", 2)
				enumPaths(fn, 2, 1000000, func(p CPath) {
					pe := mi.pathEvents(p)
					for _, e := range pe {
						anchored[e.In] = true
					}
					d := countEv(pe, t.gauge, "Dec")
					r.Check(d == 1 && countEv(pe, t.gauge, "Inc") == 0, name+"|path "+exitLabel(p), p.Last().Pos(), "gauge-1", fmt.Sprintf("%s decremented %d times on this exit (want exactly 1)", t.gauge, d))
				})
			}
		}
	}

	// D. no other touch points
	r.Rule("no-stray-updates", "the accounted metrics are updated nowhere else in the library", 0)
	for _, fn := range c.LibFuncs() {
		rawInstrs(fn, false, func(in ssa.Instruction) {
			if e, ok := mi.eventOf(in); ok && !anchored[in] {
				for _, w := range want {
					if e.Metric == w {
						r.Bad(c.FnName(fn)+"|"+e.Op+" "+e.Metric, in.Pos(), "metric updated outside the accounted functions")
					}
				}
			}
		})
	}

	// D'. every way into session establishment is accounted: whoever calls the (unexported)
	// constructor counts the attempt — an entry point that reaches it directly opens sessions
	// nobody counted, and each of their closes drags the open gauge down
	r.Rule("constructor-callers-accounted", "every function that calls the session constructor increments session_open_attempts_total itself", 1)
	if m := c.findCtor(); m == nil || m.Fn == nil {
		r.Lost("session constructor")
	} else {
		nCallers := 0
		for _, fn := range c.LibFuncs() {
			if fn == m.Fn {
				continue
			}
			calls := false
			rawInstrs(fn, false, func(in ssa.Instruction) {
				if cc := asCall(in); cc != nil && cc.StaticCallee() == m.Fn {
					calls = true
				}
			})
			if !calls {
				continue
			}
			nCallers++
			counts := false
			viewInstrs(fn, func(in ssa.Instruction) {
				if e, ok := mi.eventOf(in); ok && e.Metric == "session_open_attempts_total" && e.Op == "Inc" {
					counts = true
				}
			})
			r.Check(counts, c.FnName(fn)+"|calls the constructor", fn.Pos(), "counts the attempt", c.FnName(fn)+" calls the session constructor without counting the attempt: sessions opened through it appear in no open counter, and their closes still decrement the gauge")
		}
		if nCallers == 0 {
			r.Unk("constructor callers", m.Fn.Pos(), "no static caller of the session constructor found")
		}
	}

	// E. and no transmission happens outside the accounted operations (shared with C09, C04, C10, C13),
	// nor more than one per accounted Send: "retries = transmissions beyond the first" counts
	// calls of Transport.Send
	checkSendSites(c, r)
	checkOneWriteOneRead(c, r)
}

// checkCodeLabelDistinct: "responses per completion code" counts per *label*, and the label is
// CompletionCode.String(). Two codes are counted apart only if their labels differ: every
// return of String is a formatting call (fmt.Sprint*, strconv.*) that is given the receiver's
// numeric value — the description alone ("Unknown" for most codes) does not tell codes apart.
func checkCodeLabelDistinct(c *Ctx, r *Report) {
	r.Rule("code-label-distinct", "the label of command_responses_total, CompletionCode.String(), contains the code's numeric value on every return, so distinct codes have distinct series", 1)
	fn := c.Method("pkg/ipmi", "CompletionCode", "String")
	if fn == nil || len(fn.Params) == 0 {
		r.Lost("ipmi.CompletionCode.String")
		return
	}
	recv := fn.Params[0]
	var fromRecv func(v ssa.Value, depth int) bool
	fromRecv = func(v ssa.Value, depth int) bool {
		if v == recv {
			return true
		}
		if depth == 0 {
			return false
		}
		switch x := v.(type) {
		case *ssa.Convert:
			return fromRecv(x.X, depth-1)
		case *ssa.ChangeType:
			return fromRecv(x.X, depth-1)
		case *ssa.UnOp:
			// a spilled value receiver: load of an alloc that was stored the parameter
			if al, ok := x.X.(*ssa.Alloc); ok && x.Op == token.MUL {
				for _, ref := range *al.Referrers() {
					if st, ok := ref.(*ssa.Store); ok && st.Addr == al && fromRecv(st.Val, depth-1) {
						return true
					}
				}
			}
		}
		return false
	}
	isInt := func(t types.Type) bool {
		b, ok := t.Underlying().(*types.Basic)
		return ok && b.Info()&types.IsInteger != 0
	}
	// numeric values of the receiver boxed for a formatting call (named type with a String
	// method excluded: that would print the description again)
	numericBoxed := false
	rawInstrs(fn, false, func(in ssa.Instruction) {
		if mi, ok := in.(*ssa.MakeInterface); ok && isInt(mi.X.Type()) && fromRecv(mi.X, 4) {
			if _, named := mi.X.Type().(*types.Named); !named {
				numericBoxed = true
			}
		}
	})
	var judge func(v ssa.Value, depth int) bool
	judge = func(v ssa.Value, depth int) bool {
		if depth == 0 {
			return false
		}
		switch x := v.(type) {
		case *ssa.Phi:
			for _, e := range x.Edges {
				if !judge(e, depth-1) {
					return false
				}
			}
			return true
		case *ssa.BinOp: // concatenation: one side suffices
			return x.Op == token.ADD && (judge(x.X, depth-1) || judge(x.Y, depth-1))
		case *ssa.Call:
			name := calleeName(&x.Call)
			switch {
			case strings.HasPrefix(name, "fmt.Sprint"):
				return numericBoxed
			case strings.HasPrefix(name, "strconv.Itoa"), strings.HasPrefix(name, "strconv.Format"):
				return len(x.Call.Args) > 0 && isInt(x.Call.Args[0].Type()) && fromRecv(x.Call.Args[0], 4)
			}
		}
		return false
	}
	ok, n := true, 0
	for _, b := range fn.Blocks {
		if len(b.Instrs) == 0 {
			continue
		}
		if ret, isRet := b.Instrs[len(b.Instrs)-1].(*ssa.Return); isRet && len(ret.Results) == 1 {
			n++
			if !judge(ret.Results[0], 6) {
				ok = false
			}
		}
	}
	r.Check(ok && n > 0, c.FnName(fn)+"|numeric value in every label", fn.Pos(), fmt.Sprintf("%d returns, each a formatting of the code's numeric value", n), "a return of CompletionCode.String() is not a formatting call given the code's numeric value: codes that share a description (every code without a table entry) share one series of command_responses_total")
}
