package main

import (
	"fmt"
	"go/token"
	"go/types"
	"strings"

	"golang.org/x/tools/go/ssa"
)

func init() { register("C12", checkC12) }

// openRequestLiteral: the Open Session Request literal handed to the call that performs the
// Open Session exchange — the constructor's own call, or, when that is a wrapper spliced into
// the view, the innermost call returning the response.
func (c *Ctx) openRequestLiteral(m *ctorModel) *ssa.Alloc {
	if m == nil || m.OpenCall == nil {
		return nil
	}
	openReq := m.OpenCall
	osr := c.Named("pkg/ipmi", "OpenSessionRsp")
	reqT := c.Named("pkg/ipmi", "OpenSessionReq")
	viewInstrs(m.Fn, func(in ssa.Instruction) {
		call, ok := in.(*ssa.Call)
		if !ok || !resultPtrTo(call, osr) {
			return
		}
		as := callArgs(&call.Call)
		if len(as) == 0 {
			return
		}
		if al := allocThrough(as[len(as)-1]); al != nil && isPtrTo(al.Type(), reqT) {
			openReq = call
		}
	})
	args := callArgs(&openReq.Call)
	if len(args) == 0 {
		return nil
	}
	return allocThrough(args[len(args)-1])
}

func checkC12(c *Ctx, r *Report) {
	r.Explain = "Cipher-suite selection and confirmation: (1) the default preference list and the two suite constants, read from the package initialisers, equal [17,3] and the specification triples; (2) in the selector: an empty list is replaced by the defaults, a single suite is returned without any call that can reach the transport, otherwise the returning loop walks the caller's list in ascending index order and returns the first element found in a set built from the advertised suites, exhaustion returns the no-supported-suite sentinel; (3) in the constructor the Open Session Request proposes the chosen suite's three algorithms respectively, every path that returns a session has compared each of the three algorithms in the Open Session Response equal with the proposed one, and the session records them; (4) the algorithm constructors never return (nil, nil) — an unsupported or None algorithm is an error — so no nil layer or hash is registered, invoked or used to sign. Decides structure on all paths; the discovery exchange itself is C16."
	r.NotDecided = []string{"contents of the BMC's advertised list (C16)", "behaviour of BMCs that answer with wildcard payloads"}
	r.Trusted = []string{"go/types, go/ssa (x/tools v0.29.0)", "cipher suite IDs 3 and 17 per IPMI v2.0 table 22-20"}
	ir := newInitReader(c)

	// ---- (1) tables
	r.Rule("default-suites", "defaults are suite 17 then suite 3; suite 17 = (HMAC-SHA256, HMAC-SHA256-128, AES-CBC-128), suite 3 = (HMAC-SHA1, HMAC-SHA1-96, AES-CBC-128)", 3)
	suiteTriple := func(g *GVal) string {
		if g == nil || g.Kind != "struct" {
			return "?"
		}
		get := func(n string) string {
			if v, ok := g.Fields[n]; ok {
				if i, ok := v.Int(); ok {
					return fmt.Sprint(i)
				}
				return "?"
			}
			return "0"
		}
		return get("AuthenticationAlgorithm") + "/" + get("IntegrityAlgorithm") + "/" + get("ConfidentialityAlgorithm")
	}
	s17, g17 := ir.GlobalInit("pkg/ipmi", "CipherSuite17")
	s3, g3 := ir.GlobalInit("pkg/ipmi", "CipherSuite3")
	if g17 == nil || g3 == nil {
		r.Lost("ipmi.CipherSuite17 / ipmi.CipherSuite3")
	} else {
		r.Check(suiteTriple(s17) == "3/4/1", "ipmi.CipherSuite17", g17.Pos(), "3/4/1", "suite 17 is "+suiteTriple(s17)+", want auth 3 / integrity 4 / confidentiality 1")
		r.Check(suiteTriple(s3) == "1/1/1", "ipmi.CipherSuite3", g3.Pos(), "1/1/1", "suite 3 is "+suiteTriple(s3)+", want auth 1 / integrity 1 / confidentiality 1")
	}
	// the default list: find the package-level []ipmi.CipherSuite in package bmc
	var defG *ssa.Global
	cs := c.Named("pkg/ipmi", "CipherSuite")
	if p := c.Pkg(""); p != nil && cs != nil {
		for _, mbr := range p.Members {
			if g, ok := mbr.(*ssa.Global); ok {
				if sl, ok := g.Type().(*types.Pointer).Elem().(*types.Slice); ok {
					if n, ok := sl.Elem().(*types.Named); ok && n.Obj() == cs.Obj() {
						defG = g
					}
				}
			}
		}
	}
	if defG == nil {
		r.Lost("package-level default []ipmi.CipherSuite")
	} else {
		dv := ir.global(defG)
		var got []string
		if dv.Kind == "slice" {
			for _, e := range dv.Elems {
				got = append(got, suiteTriple(e))
			}
		}
		r.Check(strings.Join(got, ",") == "3/4/1,1/1/1", "bmc."+defG.Name(), defG.Pos(), "[17,3]", "default preference list is ["+strings.Join(got, ",")+"], want [suite 17, suite 3]")
	}

	// ---- (2) selector
	var sel *ssa.Function
	for _, fn := range c.LibFuncs() {
		if fn.Pkg == nil || !c.libFn(fn) || fn.Signature.Results().Len() != 2 {
			continue
		}
		if isPtrTo(fn.Signature.Results().At(0).Type(), cs) {
			sel = fn
		}
	}
	// the list the selector works on is the caller's: from the exported entry point that takes
	// the options down to the selector's argument, the preference list is the options' own
	// CipherSuites field — not a filtered, reordered or defaulted copy (which would make "empty"
	// and "one suite" mean something else than the caller's empty and the caller's one suite)
	r.Rule("preferences-unaltered", "the preference list handed to the cipher suite selector is the CipherSuites field of the options the caller passed to the exported constructor, unmodified", 1)
	if optsT := c.Named("", "V2SessionOpts"); sel != nil && optsT != nil {
		nSites := 0
		for _, root := range c.LibFuncs() {
			if root.Parent() != nil || unexportedName(root) || !c.libFn(root) {
				continue
			}
			var optsP *ssa.Parameter
			for _, p := range root.Params {
				if isPtrTo(p.Type(), optsT) {
					optsP = p
				}
			}
			if optsP == nil {
				continue
			}
			root := root
			viewInstrs(root, func(in ssa.Instruction) {
				call, ok := in.(*ssa.Call)
				if !ok || call.Call.StaticCallee() != sel {
					return
				}
				var listArg ssa.Value
				for _, a := range callArgs(&call.Call) {
					if sl, ok := a.Type().(*types.Slice); ok {
						if n, ok := sl.Elem().(*types.Named); ok && n.Obj() == cs.Obj() {
							listArg = a
						}
					}
				}
				if listArg == nil {
					return
				}
				nSites++
				ok2, why := true, ""
				origins := viewOrigins(root, listArg)
				if len(origins) == 0 {
					origins = []ssa.Value{listArg}
				}
				for _, o := range origins {
					ld, isLd := stripConv(o).(*ssa.UnOp)
					if !isLd || ld.Op != token.MUL {
						ok2, why = false, "it is "+exprText(o)
						continue
					}
					// (read through single-writer fields of a per-call state object)
					if cr, last := canonRootSel(ld.X); last == "CipherSuites" && cr != nil {
						if cr == ssa.Value(optsP) {
							continue
						}
						// the state object was given the options by a spliced helper: its parameter is
						// the exported function's argument
						os := viewOrigins(root, cr)
						all := len(os) > 0
						for _, o2 := range os {
							if o2 != ssa.Value(optsP) {
								all = false
							}
						}
						if all {
							continue
						}
					}
					aps := viewAPs(root, ld.X)
					if len(aps) == 0 {
						ok2, why = false, "it does not resolve to a field of the options"
					}
					for _, a := range aps {
						if a.Root != ssa.Value(optsP) || a.SelString() != "CipherSuites" {
							ok2, why = false, "it is read from "+a.String()
						}
					}
				}
				r.Check(ok2, c.FnName(root)+"|selector list", call.Pos(), "← opts.CipherSuites of the caller's options", "the list the cipher suite selector works on is not the caller's preference list: "+why+" — the caller's empty list, single suite or order is not what the selection sees")
			})
		}
		if nSites == 0 {
			r.Unk("selector call", sel.Pos(), "no exported constructor's view calls the selector with a preference list")
		}
		// and nothing in the library writes a preference list into an options value (a narrowed
		// or defaulted copy would reach the selector under the caller's name)
		for _, fn := range c.LibFuncs() {
			fn := fn
			rawInstrs(fn, false, func(in ssa.Instruction) {
				st, ok := in.(*ssa.Store)
				if !ok {
					return
				}
				fa, ok := st.Addr.(*ssa.FieldAddr)
				if !ok || !isPtrTo(fa.X.Type(), optsT) {
					return
				}
				if f := structField(fa.X.Type(), fa.Field); f != nil && f.Name() == "CipherSuites" {
					r.Bad(c.FnName(fn)+"|store to CipherSuites", st.Pos(), "the library writes a preference list into a V2SessionOpts value: what the selector sees is no longer what the caller passed")
				}
			})
		}
	} else {
		r.Lost("V2SessionOpts / cipher suite selector")
	}

	r.Rule("selector", "selection: defaults when empty; single suite without discovery; first caller preference that is advertised; sentinel when none", 4)
	if sel == nil || defG == nil {
		r.Lost("cipher suite selector (function returning *ipmi.CipherSuite)")
	} else {
		name := c.FnName(sel)
		r.Fn(name)
		var desired *ssa.Parameter
		for _, p := range sel.Params {
			if sl, ok := p.Type().(*types.Slice); ok {
				if n, ok := sl.Elem().(*types.Named); ok && n.Obj() == cs.Obj() {
					desired = p
				}
			}
		}
		// effective list: phi(desired, load defaults) on len(desired)==0
		var eff *ssa.Phi
		allInstrs(sel, false, func(in ssa.Instruction) {
			if ph, ok := in.(*ssa.Phi); ok && len(ph.Edges) == 2 {
				hasP, hasD := false, false
				for _, e := range ph.Edges {
					if e == ssa.Value(desired) {
						hasP = true
					}
					if ld, ok := e.(*ssa.UnOp); ok && ld.Op == token.MUL && ld.X == ssa.Value(defG) {
						hasD = true
					}
				}
				if hasP && hasD {
					eff = ph
				}
			}
		})
		if desired == nil || eff == nil {
			r.Bad(name+"|defaults when empty", sel.Pos(), "the caller's list is not replaced by the defaults when empty (no φ(desired, defaults))")
		} else {
			// the defaults edge must come from the arm where len(desired)==0
			ok := false
			for i, e := range eff.Edges {
				if ld, isLd := e.(*ssa.UnOp); isLd && ld.X == ssa.Value(defG) {
					pred := eff.Block().Preds[i]
					for _, ifi := range ifsOf(sel) {
						op, x, y, neg, isBin := condOf(ifi.Cond)
						if !isBin || op != token.EQL || neg {
							continue
						}
						if call, isCall := x.(*ssa.Call); isCall {
							if b, isB := call.Call.Value.(*ssa.Builtin); isB && b.Name() == "len" && call.Call.Args[0] == ssa.Value(desired) {
								if k, isK := constInt(y); isK && k == 0 && ifi.Block().Succs[0] == pred {
									ok = true
								}
							}
						}
					}
				}
			}
			r.Check(ok, name+"|defaults when empty", sel.Pos(), "defaults used exactly when the caller's list is empty", "the defaults are not selected by len(desired)==0")

			// discovery call(s): any call that can reach the transport
			var disc []ssa.Instruction
			allInstrs(sel, false, func(in ssa.Instruction) {
				if cc := asCall(in); cc != nil {
					if f := cc.StaticCallee(); f != nil && c.InModule(f) && c.reachesSend(f) {
						disc = append(disc, in)
					} else if cc.IsInvoke() {
						disc = append(disc, in)
					}
				}
			})
			// single-suite return: returns &eff[0] under len(eff)==1, not reachable from discovery
			okSingle := false
			whySingle := "no return of the only suite under len==1"
			for _, ret := range returnsOf(sel) {
				ia, isIA := ret.Results[0].(*ssa.IndexAddr)
				if !isIA || ia.X != ssa.Value(eff) {
					continue
				}
				if k, isK := constInt(ia.Index); !isK || k != 0 {
					continue
				}
				okSingle = true
				for _, d := range disc {
					if canReach(d, ret) {
						okSingle = false
						whySingle = "a call that can reach the transport precedes the single-suite return (discovery performed although one suite was given)"
					}
				}
				// on every path that takes this return, len(list) == 1 was found to hold: no other
				// condition (a favourite suite, a flag) lets a multi-suite list skip discovery
				enumPaths(sel, 1, 20000, func(p CPath) {
					if p.Last() != ssa.Instruction(ret) {
						return
					}
					found := false
					for _, rel := range p.relations() {
						if rel.Op != token.EQL {
							continue
						}
						for _, pr := range [][2]ssa.Value{{rel.X, rel.Y}, {rel.Y, rel.X}} {
							call, isCall := p.Resolve(pr[0]).(*ssa.Call)
							if !isCall {
								continue
							}
							if b, isB := call.Call.Value.(*ssa.Builtin); !isB || b.Name() != "len" || p.Resolve(call.Call.Args[0]) != p.Resolve(ssa.Value(eff)) {
								continue
							}
							if k, isK := constInt(p.Resolve(pr[1])); isK && k == 1 {
								found = true
							}
						}
					}
					if !found {
						okSingle = false
						whySingle = "a list of more than one suite can reach the no-discovery return (a path to it does not establish len == 1)"
					}
				})
				// guarded by len(eff)==1
				guard := false
				for _, ifi := range ifsOf(sel) {
					op, x, y, neg, isBin := condOf(ifi.Cond)
					if isBin && op == token.EQL && !neg {
						if call, isCall := x.(*ssa.Call); isCall {
							if b, isB := call.Call.Value.(*ssa.Builtin); isB && b.Name() == "len" && call.Call.Args[0] == ssa.Value(eff) {
								if k, isK := constInt(y); isK && k == 1 && ifi.Block().Succs[0] == ret.Block() {
									guard = true
								}
							}
						}
					}
				}
				if !guard {
					okSingle = false
					whySingle = "single-suite return not guarded by len==1"
				}
			}
			r.Check(okSingle, name+"|single suite without discovery", sel.Pos(), "returned directly", whySingle)

			// preference loop: find the membership test — a comma-ok lookup, keyed by the element of the
			// caller's list at an ascending induction index, in a set built from the discovery result
			okLoop, whyLoop := false, "no ascending loop over the caller's list testing membership in the advertised set"
			ascending := func(idx ssa.Value) bool {
				if bo, isBo := idx.(*ssa.BinOp); isBo && bo.Op == token.ADD {
					if ph, isPh := bo.X.(*ssa.Phi); isPh {
						if k, isK := constInt(bo.Y); isK && k == 1 {
							for _, e := range ph.Edges {
								if k0, isK0 := constInt(e); isK0 && k0 == -1 {
									return true
								}
							}
						}
					}
				} else if ph, isPh := idx.(*ssa.Phi); isPh {
					z, inc := false, false
					for _, e := range ph.Edges {
						if k0, isK0 := constInt(e); isK0 && k0 == 0 {
							z = true
						}
						if bo, isBo := e.(*ssa.BinOp); isBo && bo.Op == token.ADD && bo.X == ssa.Value(ph) {
							if k, isK := constInt(bo.Y); isK && k == 1 {
								inc = true
							}
						}
					}
					return z && inc
				}
				return false
			}
			// element of eff: value → index
			elemIndex := func(v ssa.Value) ssa.Value {
				ld, ok := v.(*ssa.UnOp)
				if !ok || ld.Op != token.MUL {
					return nil
				}
				switch a := ld.X.(type) {
				case *ssa.IndexAddr:
					if a.X == ssa.Value(eff) {
						return a.Index
					}
				case *ssa.Alloc:
					if sv := singleStore(a); sv != nil {
						if l2, ok := sv.(*ssa.UnOp); ok && l2.Op == token.MUL {
							if ia, ok := l2.X.(*ssa.IndexAddr); ok && ia.X == ssa.Value(eff) {
								return ia.Index
							}
						}
					}
				}
				return nil
			}
			loops := naturalLoops(sel)
			for _, ifi := range ifsOf(sel) {
				ex, isEx := ifi.Cond.(*ssa.Extract)
				if !isEx {
					// the test may be the result of a helper that does the lookup (`set.contains(x)`)
					if os := viewOrigins(sel, ifi.Cond); len(os) == 1 {
						ex, isEx = os[0].(*ssa.Extract)
					}
				}
				if !isEx || ex.Index != 1 {
					continue
				}
				lk, isLk := ex.Tuple.(*ssa.Lookup)
				if !isLk || !lk.CommaOk {
					continue
				}
				// only tests made by the selector itself (the If may sit in the helper: then the
				// selector's own branch on the helper's result is the one that matters)
				if ifi.Parent() != sel {
					continue
				}
				idx := elemIndex(viewVal(sel, lk.Index))
				if idx == nil {
					whyLoop = "the membership test is not keyed by an element of the caller's preference list"
					continue
				}
				if !ascending(idx) {
					whyLoop = "the caller's list is not walked in ascending order from its first element"
					continue
				}
				// set filled from the discovery result
				filled := false
				for _, o := range viewOrigins(sel, lk.X) {
					mm, isMM := o.(*ssa.MakeMap)
					if !isMM {
						continue
					}
					for _, ref := range *mm.Referrers() {
						mu, isMU := ref.(*ssa.MapUpdate)
						if !isMU {
							continue
						}
						for _, l := range leavesOf(mu.Key) {
							ld2, ok := l.(*ssa.UnOp)
							if !ok || ld2.Op != token.MUL {
								continue
							}
							for _, ap := range viewAPs(sel, ld2.X) {
								root := ap.Root
								// the element of a slice being ranged over: follow to the slice
								for i := 0; i < 4; i++ {
									if ld3, isLd := root.(*ssa.UnOp); isLd && ld3.Op == token.MUL {
										aps := viewAPs(sel, ld3.X)
										if len(aps) == 1 {
											root = aps[0].Root
											continue
										}
									}
									break
								}
								if ex2, ok := root.(*ssa.Extract); ok {
									if call, ok := ex2.Tuple.(*ssa.Call); ok {
										for _, d := range disc {
											if d == ssa.Instruction(call) {
												filled = true
											}
										}
									}
								}
							}
						}
					}
				}
				if !filled {
					whyLoop = "the membership set is not built from the advertised suites"
					continue
				}
				L := innermostLoop(loops, ifi.Block())
				if L == nil {
					whyLoop = "the membership test is not inside a loop over the caller's list"
					continue
				}
				memberEdge := edge{ifi.Block(), ifi.Block().Succs[0]}
				// shape A: return of the element under the member edge, inside the loop region
				for _, ret := range returnsOf(sel) {
					if isNilConst(ret.Results[0]) {
						continue
					}
					var ridx ssa.Value
					switch x := ret.Results[0].(type) {
					case *ssa.Alloc:
						if sv := singleStore(x); sv != nil {
							if l2, ok := sv.(*ssa.UnOp); ok && l2.Op == token.MUL {
								if ia, ok := l2.X.(*ssa.IndexAddr); ok && ia.X == ssa.Value(eff) {
									ridx = ia.Index
								}
							}
						}
					case *ssa.IndexAddr:
						if x.X == ssa.Value(eff) {
							ridx = x.Index
						}
					}
					if ridx != nil && ridx == idx && !reachAvoiding(sel, nil, nil, map[edge]bool{memberEdge: true})[ret.Block()] {
						okLoop = true
					}
				}
				// shape B: members appended, in loop order, to an initially empty list; the first one is returned
				for _, b := range L.blockList() {
					for _, in := range b.Instrs {
						call, ok := in.(*ssa.Call)
						if !ok {
							continue
						}
						bi, ok := call.Call.Value.(*ssa.Builtin)
						if !ok || bi.Name() != "append" {
							continue
						}
						// guarded by the member edge
						if reachAvoiding(sel, nil, nil, map[edge]bool{memberEdge: true})[b] {
							continue
						}
						acc, isPhi := call.Call.Args[0].(*ssa.Phi)
						if !isPhi || acc.Block() != L.Header {
							continue
						}
						// appended element is the tested element
						appended := false
						if sl, ok := call.Call.Args[1].(*ssa.Slice); ok {
							if al, ok := sl.X.(*ssa.Alloc); ok {
								for _, ref := range *al.Referrers() {
									if ia, ok := ref.(*ssa.IndexAddr); ok {
										for _, r2 := range *ia.Referrers() {
											if st, ok := r2.(*ssa.Store); ok && elemIndex(st.Val) == idx {
												appended = true
											}
										}
									}
								}
							}
						}
						// accumulator starts empty and is only updated by this append
						startsEmpty, onlyThis := false, true
						aliasing := false
						for i, e := range acc.Edges {
							if !L.Blocks[L.Header.Preds[i]] {
								switch x := e.(type) {
								case *ssa.Slice:
									// list[:0] of a fresh list is empty; list[:0] of the preference list itself
									// shares its backing array: appending overwrites the caller's (or the
									// default) preferences, so the next selection runs on a changed list
									if k, isK := constInt(x.High); isK && k == 0 {
										if x.X == ssa.Value(eff) || x.X == ssa.Value(desired) {
											aliasing = true
										} else {
											startsEmpty = true
										}
									}
								case *ssa.Const:
									startsEmpty = x.Value == nil
								case *ssa.MakeSlice:
									if k, isK := constInt(x.Len); isK && k == 0 {
										startsEmpty = true
									}
								}
							} else if e != ssa.Value(call) && e != ssa.Value(acc) {
								// other in-loop updates (φ of call/acc through the non-member arm are fine)
								if ph2, ok := e.(*ssa.Phi); ok {
									for _, e2 := range ph2.Edges {
										if e2 != ssa.Value(call) && e2 != ssa.Value(acc) {
											onlyThis = false
										}
									}
								} else {
									onlyThis = false
								}
							}
						}
						if aliasing {
							whyLoop = "the advertised preferences are collected into the preference list's own backing array: the caller's (or the default) list is overwritten and later selections run on a changed list"
						}
						if !appended || !startsEmpty || !onlyThis {
							continue
						}
						// a return of &acc[0] after the loop
						for _, ret := range returnsOf(sel) {
							if ia, ok := ret.Results[0].(*ssa.IndexAddr); ok && ia.X == ssa.Value(acc) {
								if k, isK := constInt(ia.Index); isK && k == 0 && !L.Blocks[ret.Block()] {
									okLoop = true
								}
							}
						}
					}
				}
				if !okLoop {
					whyLoop = "the suite returned is not the first element of the caller's list (in list order) found in the advertised set"
				}
			}
			// shape C: membership decided by scanning the advertised records (possibly in a helper)
			// instead of a set — per path: a preference is returned only where it was found equal to
			// the suite of an advertised record, and the preferences are walked in ascending order
			if !okLoop {
				goodC, nC := true, 0
				whyC := ""
				completeC := enumPaths(sel, 2, 200000, func(p CPath) {
					ret, isRet := p.Last().(*ssa.Return)
					if !isRet || ret.Parent() != sel || isNilConst(p.Resolve(ret.Results[0])) {
						return
					}
					occs := p.OccsPos()
					discAt := -1
					var discCall *ssa.Call
					for i, oc := range occs {
						for _, d := range disc {
							if oc.In == d {
								discAt = i
								discCall, _ = oc.In.(*ssa.Call)
							}
						}
					}
					if discAt < 0 || discCall == nil {
						return // the single-suite return
					}
					nC++
					// the returned element: &eff[idx] or the address of a copy of eff[idx]
					rv := p.Resolve(ret.Results[0])
					var ridx ssa.Value
					var copyCell *ssa.Alloc
					switch x := rv.(type) {
					case *ssa.Alloc:
						copyCell = x
						for i := len(occs) - 1; i >= 0; i-- {
							if st, ok := occs[i].In.(*ssa.Store); ok && st.Addr == ssa.Value(x) {
								ridx = elemIndex(st.Val)
								break
							}
						}
					case *ssa.IndexAddr:
						if x.X == ssa.Value(eff) {
							ridx = x.Index
						}
					}
					if ridx == nil || !ascending(ridx) {
						goodC, whyC = false, "the suite returned is not an element of the caller's list at an ascending index"
						return
					}
					// found equal to an advertised record's suite on this path
					member := false
					for _, rel := range p.relations() {
						if rel.Op != token.EQL {
							continue
						}
						for _, pr := range [][2]ssa.Value{{rel.X, rel.Y}, {rel.Y, rel.X}} {
							a, isA := p.Resolve(pr[0]).(*ssa.UnOp)
							b, isB := p.Resolve(pr[1]).(*ssa.UnOp)
							if !isA || !isB || a.Op != token.MUL || b.Op != token.MUL {
								continue
							}
							// one side: the preference (the copy that is returned, or eff[idx])
							isPref := false
							if copyCell != nil && (a.X == ssa.Value(copyCell) || p.AP(a.X).Root == ssa.Value(copyCell)) {
								isPref = true
							}
							if ia, ok := a.X.(*ssa.IndexAddr); ok && ia.X == ssa.Value(eff) && ia.Index == ridx {
								isPref = true
							}
							// other side: the suite of a record of the discovery result
							ap := p.AP(b.X)
							isAdv := false
							// (the suite is an embedded struct of the record: its selector is elided from
							// access paths, so it is recognised by its type)
							if ex, ok := ap.Root.(*ssa.Extract); ok && ex.Tuple == ssa.Value(discCall) && strings.HasSuffix(types.TypeString(b.Type(), nil), "pkg/ipmi.CipherSuite") {
								isAdv = true
							}
							if isPref && isAdv {
								member = true
							}
						}
					}
					if !member {
						goodC, whyC = false, "a preference is returned on a path that did not find it among the advertised suites"
					}
				})
				if completeC && nC > 0 && goodC {
					okLoop = true
				} else if whyC != "" {
					whyLoop = whyC
				}
			}
			r.Check(okLoop, name+"|first advertised preference", sel.Pos(), "ascending walk of the caller's list, membership in the advertised set, first member returned", whyLoop)

			// exhaustion sentinel; discovery error propagated
			okSent := false
			for _, ret := range returnsOf(sel) {
				if !isNilConst(ret.Results[0]) {
					continue
				}
				if ld, isLd := ret.Results[1].(*ssa.UnOp); isLd {
					if g, isG := ld.X.(*ssa.Global); isG && g.Name() == "ErrNoSupportedCipherSuite" && c.sentinelError(g) {
						okSent = true
					}
				}
			}
			r.Check(okSent, name+"|no supported suite", sel.Pos(), "returns (nil, ErrNoSupportedCipherSuite)", "exhausting the caller's list does not return the no-supported-cipher-suite sentinel")
		}
	}

	// ---- (3) constructor: proposal, confirmation, recording
	m := c.findCtor()
	if m == nil || m.OpenCall == nil || m.OpenRsp == nil {
		r.Rule("proposal", "", 3)
		r.Lost("session constructor / open session call")
		return
	}
	name := c.FnName(m.Fn)
	r.Fn(name)
	// chosen suite: result of the selector call
	var chosen ssa.Value
	allInstrs(m.Fn, false, func(in ssa.Instruction) {
		if call, ok := in.(*ssa.Call); ok && sel != nil && call.Call.StaticCallee() == sel {
			chosen = extractOf(call, 0)
		}
	})
	if chosen == nil && sel != nil {
		// the selection is made by a stage of the handshake spliced into the view
		viewInstrs(m.Fn, func(in ssa.Instruction) {
			if call, ok := in.(*ssa.Call); ok && call.Call.StaticCallee() == sel {
				chosen = extractOf(call, 0)
			}
		})
	}
	// the request: the literal handed to the call that performs the Open Session exchange — the
	// constructor's own call, or, when that is a wrapper spliced into the view, the innermost
	// call returning the response
	reqLit := c.openRequestLiteral(m)
	// a field of the chosen suite, read where the request is built (possibly in a helper that
	// received the suite as an argument)
	isChosenField := func(v ssa.Value, field string) bool {
		if fieldLoadOf(v, chosen, field) {
			return true
		}
		ld, ok := v.(*ssa.UnOp)
		if !ok || ld.Op != token.MUL || chosen == nil {
			return false
		}
		aps := viewAPs(m.Fn, ld.X)
		if len(aps) == 0 {
			return false
		}
		// what the chosen suite itself denotes in the view (the selector may be spliced too)
		caps := viewAPs(m.Fn, chosen)
		for _, a := range aps {
			if a.Root == chosen && a.SelString() == field {
				continue
			}
			match := false
			for _, ca := range caps {
				want := strings.TrimPrefix(ca.SelString()+"."+field, ".")
				if a.Root == ca.Root && a.SelString() == want {
					match = true
				}
			}
			if !match {
				return false
			}
		}
		return true
	}
	algs := []struct{ payload, field string }{
		{"AuthenticationPayload", "AuthenticationAlgorithm"},
		{"IntegrityPayload", "IntegrityAlgorithm"},
		{"ConfidentialityPayload", "ConfidentialityAlgorithm"},
	}
	r.Rule("proposal", "the Open Session Request proposes exactly the chosen suite's authentication, integrity and confidentiality algorithms, respectively, with no wildcard", 3)
	proposed := map[string]ssa.Value{}
	if reqLit == nil || chosen == nil {
		r.Unk(name+"|request literal", m.OpenCall.Pos(), "request is not a composite literal or the selector call was not found")
	} else {
		f, _, _ := complitFieldsAlloc(reqLit)
		for _, a := range algs {
			v := f[a.payload+".Algorithm"]
			proposed[a.payload] = v
			_, wild := f[a.payload+".Wildcard"]
			r.Check(v != nil && isChosenField(v, a.field) && !wild, name+"|propose "+a.payload, reqLit.Pos(), "← chosen."+a.field, "the "+a.payload+" proposed is not the chosen suite's "+a.field)
		}
	}
	// confirmation must-check
	nS := 0
	m.successPaths(func(p CPath) {
		nS++
		label := exitLabel(p)
		for _, a := range algs {
			r.Rule("confirmation", "a session is returned only if each algorithm in the Open Session Response was compared equal with the one proposed", 3)
			ok := false
			for _, rel := range p.relations() {
				if rel.Op != token.EQL {
					continue
				}
				for _, pr := range [][2]ssa.Value{{rel.X, rel.Y}, {rel.Y, rel.X}} {
					if !p.loadOfField(pr[0], m.OpenRsp, a.payload+".Algorithm") {
						continue
					}
					// other side: the chosen suite's field (what was proposed)
					if chosen != nil && p.loadOfField(pr[1], chosen, a.field) {
						ok = true
					}
				}
			}
			r.Check(ok, name+"|confirm "+a.payload+"|path "+label, p.Last().Pos(), "response algorithm compared with the proposal", "a session is returned without checking that the BMC's "+a.payload+" equals the proposed algorithm: a weaker or different algorithm is silently accepted")
		}
	})
	if nS == 0 {
		r.Rule("confirmation", "", 3)
		r.Unk(name+"|success paths", m.Fn.Pos(), "no success path")
	}
	// what is compared is what the BMC sent: the three algorithm numbers are the low six bits
	// of byte 4 of each payload (layout rule shared with C07/C08)
	r.Rule("response-algorithm-layout", "the Open Session Response's authentication, integrity and confidentiality algorithm are decoded from bits [5:0] of the algorithm byte of their payloads", 4)
	compareSpec(c, r, specsFor(responseSpecs, "OpenSessionRsp", "AuthenticationPayload", "IntegrityPayload", "ConfidentialityPayload"), "field", nil)
	// recording
	r.Rule("recorded", "the session records the negotiated algorithms and is built from hash/cipher objects constructed for exactly those algorithms", 5)
	lit, _, _ := complitFieldsAlloc(m.Lit)
	c.checkStateReads(r, m, name, func(f *types.Var) bool {
		// the negotiation's values: the response and the chosen suite
		return isPtrTo(f.Type(), c.Named("pkg/ipmi", "OpenSessionRsp")) || isPtrTo(f.Type(), c.Named("pkg/ipmi", "CipherSuite"))
	})
	for _, a := range algs {
		v := lit[a.field]
		ld, isLd := v.(*ssa.UnOp)
		ok := isLd && apOf(ld.X).Root == m.OpenRsp && apOf(ld.X).SelString() == a.payload+".Algorithm"
		if !ok {
			ok = selLoadOf(v, m.OpenRsp, a.payload+".Algorithm")
		}
		if !ok && chosen != nil {
			ok = fieldLoadOf(v, chosen, a.field)
		}
		r.Check(ok, name+"|record "+a.field, m.Lit.Pos(), "recorded", "the session's "+a.field+" field is not the negotiated algorithm")
	}
	// hasher/cipher constructed from the negotiated algorithm
	for _, w := range []struct{ field, payload, alg string }{{fInteg, "IntegrityPayload", "IntegrityAlgorithm"}, {fConf, "ConfidentialityPayload", "ConfidentialityAlgorithm"}} {
		v := lit[w.field]
		ok := false
		if ex, isEx := v.(*ssa.Extract); isEx && ex.Index == 0 {
			if call, isCall := ex.Tuple.(*ssa.Call); isCall && len(call.Call.Args) >= 1 {
				a0 := call.Call.Args[0]
				if ld, isLd := a0.(*ssa.UnOp); isLd {
					ap := apOf(ld.X)
					if (ap.Root == m.OpenRsp && ap.SelString() == w.payload+".Algorithm") || selLoadOf(a0, m.OpenRsp, w.payload+".Algorithm") || (chosen != nil && fieldLoadOf(a0, chosen, w.alg)) {
						ok = true
					}
				}
			}
		}
		r.Check(ok, name+"|construct "+w.field, m.Lit.Pos(), "built for the negotiated algorithm", "the session's "+w.field+" is not constructed from the negotiated "+w.alg)
	}

	// the objects the session is built from are the specified ones for the negotiated numbers,
	// and a number outside the tables is refused (tables shared with C01)
	checkAlgorithmTables(c, r)

	// ---- (4) no (nil, nil) constructors
	r.Rule("no-nil-algorithm", "algorithm constructors return a usable object or an error, never (nil, nil): a None/unsupported algorithm cannot lead to a nil hash or layer being registered, invoked or used to sign", 2)
	ia := c.Named("pkg/ipmi", "IntegrityAlgorithm")
	ca := c.Named("pkg/ipmi", "ConfidentialityAlgorithm")
	aa := c.Named("pkg/ipmi", "AuthenticationAlgorithm")
	for _, fn := range c.LibFuncs() {
		if fn.Signature.Recv() != nil || len(fn.Params) < 1 || fn.Pkg == nil || !c.libFn(fn) || fn.Signature.Results().Len() != 2 {
			continue
		}
		t, _ := fn.Params[0].Type().(*types.Named)
		if t == nil || !((ia != nil && t.Obj() == ia.Obj()) || (ca != nil && t.Obj() == ca.Obj()) || (aa != nil && t.Obj() == aa.Obj())) {
			continue
		}
		fname := c.FnName(fn)
		r.Fn(fname)
		bad := false
		var pos token.Pos = fn.Pos()
		for _, ret := range returnsOf(fn) {
			for _, v0 := range possibleValues(ret.Results[0]) {
				for _, v1 := range possibleValues(ret.Results[1]) {
					if isNilConst(v0) && isNilConst(v1) {
						bad = true
						pos = ret.Pos()
					}
				}
			}
		}
		r.Check(!bad, fname+"|(nil,nil)", pos, "never returns (nil, nil)", "returns (nil, nil) for some algorithm: the caller registers/invokes a nil layer or signs with a nil hash (panic or unauthenticated packets)")
	}

	// ---- (5) the advertised set: every algorithm combination of a record is a suite the selector
	// can match (shared with C16) — a record listing several confidentiality or integrity
	// algorithms must not lose any of them
	// … and the advertisement the selector works from is the whole one: discovery reads every
	// page, and a page that fails makes discovery fail rather than end (shared with C16/C05)
	// "or fails with the no-supported-cipher-suite error": the sentinel keeps its identity through
	// every exported entry point above the selector
	checkSentinelReachesCaller(c, r, "ErrNoSupportedCipherSuite")
	checkChunkLoop(c, r)
	if parser := c.cipherSuiteParser(); parser != nil {
		checkCipherSuiteParser(c, r, parser)
	} else {
		r.Rule("expansion-order", "", 1)
		r.Lost("cipher suite record parser")
	}

}

// cipherSuiteParser: the function of package bmc taking a byte slice and
// returning ([]ipmi.CipherSuiteRecord, error).
func (c *Ctx) cipherSuiteParser() *ssa.Function {
	recT := c.Named("pkg/ipmi", "CipherSuiteRecord")
	for _, fn := range c.LibFuncs() {
		if fn.Pkg == nil || !c.libFn(fn) || fn.Parent() != nil || fn.Signature.Results().Len() != 2 || len(fn.Params) != 1 {
			continue
		}
		if _, isSl := fn.Params[0].Type().(*types.Slice); !isSl {
			continue
		}
		if sl, ok := fn.Signature.Results().At(0).Type().(*types.Slice); ok {
			if n, ok := sl.Elem().(*types.Named); ok && recT != nil && n.Obj() == recT.Obj() {
				return fn
			}
		}
	}
	return nil
}

// allocThrough: the composite literal a value denotes — the literal itself, or the one an
// unexported builder function returns on all its paths.
func allocThrough(v ssa.Value) *ssa.Alloc {
	if al, ok := v.(*ssa.Alloc); ok {
		return al
	}
	call, ok := v.(*ssa.Call)
	if !ok {
		return nil
	}
	f := call.Call.StaticCallee()
	if f == nil || f.Blocks == nil || f.Object() == nil || f.Object().Exported() || f.Signature.Results().Len() != 1 {
		return nil
	}
	var out *ssa.Alloc
	for _, ret := range returnsOf(f) {
		al, ok := ret.Results[0].(*ssa.Alloc)
		if !ok || (out != nil && out != al) {
			return nil
		}
		out = al
	}
	return out
}
