package main

import (
	"fmt"
	"os"
)

func init() {
	if os.Getenv("DBG_NAMES") != "" {
		debugNames = func() { fmt.Fprintln(os.Stderr, "names:", fSess, fMsg, fRmcp, fBuf, fConf, fInteg, fReading) }
	}
}
