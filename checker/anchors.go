package main

import (
	"go/types"
	"sort"

	"golang.org/x/tools/go/ssa"
)

const (
	fnBackoffRetry     = "github.com/cenkalti/backoff/v4.Retry"
	fnBackoffWithCtx   = "github.com/cenkalti/backoff/v4.WithContext"
	fnBackoffReset     = "(github.com/cenkalti/backoff/v4.BackOff).Reset"
	fnTransportSend    = "(github.com/gebn/bmc/internal/pkg/transport.Transport).Send"
	fnSerializeLayers  = "github.com/google/gopacket.SerializeLayers"
	fnDLCPut           = "(github.com/google/gopacket.DecodingLayerContainer).Put"
	fnDLCLayersDecoder = "(github.com/google/gopacket.DecodingLayerContainer).LayersDecoder"
	fnHmacEqual        = "crypto/hmac.Equal"
	fnSubtleCompare    = "crypto/subtle.ConstantTimeCompare"
	fnCtxWithTimeout   = "context.WithTimeout"
	fnCtxWithDeadline  = "context.WithDeadline"
	fnCtxBackground    = "context.Background"
	fnCtxTODO          = "context.TODO"
	fnInnermostEquals  = "(github.com/gebn/bmc/pkg/layerexts.DecodedTypes).InnermostEquals"
	fnCounterInc       = "(github.com/prometheus/client_golang/prometheus.Counter).Inc"
	fnGaugeInc         = "(github.com/prometheus/client_golang/prometheus.Gauge).Inc"
	fnGaugeDec         = "(github.com/prometheus/client_golang/prometheus.Gauge).Dec"
	fnCounterVecWLV    = "(*github.com/prometheus/client_golang/prometheus.CounterVec).WithLabelValues"
	fnIsTemporary      = "(github.com/gebn/bmc/pkg/ipmi.CompletionCode).IsTemporary"
)

// SendClosure is a function value passed as the operation to backoff.Retry
// that (itself) contains a call to Transport.Send.
type SendClosure struct {
	Fn      *ssa.Function // the closure
	Parent  *ssa.Function // function that calls backoff.Retry
	Retry   *ssa.Call
	Send    *ssa.Call
	Session bool // parent's receiver is *bmc.V2Session (in-session traffic)
	Command bool // parent takes an ipmi.Command (else ipmi.Payload)
}

// retryOp resolves the function passed as first argument of a backoff.Retry call.
func retryOp(call *ssa.Call) *ssa.Function {
	if len(call.Call.Args) < 1 {
		return nil
	}
	v := stripConv(call.Call.Args[0])
	switch x := v.(type) {
	case *ssa.MakeClosure:
		if f, ok := x.Fn.(*ssa.Function); ok {
			return f
		}
	case *ssa.Function:
		return x
	}
	return nil
}

type RetrySite struct {
	Parent *ssa.Function
	Call   *ssa.Call
	Op     *ssa.Function
}

func (c *Ctx) RetrySites() []RetrySite {
	var out []RetrySite
	for _, fn := range c.LibFuncs() {
		for _, b := range fn.Blocks {
			for _, in := range b.Instrs {
				if call, ok := in.(*ssa.Call); ok && isCallTo(in, fnBackoffRetry) {
					out = append(out, RetrySite{Parent: fn, Call: call, Op: retryOp(call)})
				}
			}
		}
	}
	return out
}

func recvNamed(fn *ssa.Function) *types.Named {
	if fn == nil || fn.Signature.Recv() == nil {
		return nil
	}
	t := fn.Signature.Recv().Type()
	if p, ok := t.(*types.Pointer); ok {
		t = p.Elem()
	}
	n, _ := t.(*types.Named)
	return n
}

func hasParamOfType(fn *ssa.Function, t types.Type) bool {
	for _, p := range fn.Params {
		if types.Identical(p.Type(), t) {
			return true
		}
	}
	return false
}

func (c *Ctx) SendClosures() []SendClosure {
	var out []SendClosure
	v2s := c.Named("", "V2Session")
	cmdT := c.Named("pkg/ipmi", "Command")
	for _, rs := range c.RetrySites() {
		if rs.Op == nil {
			continue
		}
		var send *ssa.Call
		n := 0
		allInstrs(rs.Op, false, func(in ssa.Instruction) {
			if call, ok := in.(*ssa.Call); ok && isCallTo(in, fnTransportSend) {
				send = call
				n++
			}
		})
		if n == 0 {
			continue
		}
		sc := SendClosure{Fn: rs.Op, Parent: rs.Parent, Retry: rs.Call, Send: send}
		if rn := recvNamed(rs.Parent); rn != nil && v2s != nil && rn.Obj() == v2s.Obj() {
			sc.Session = true
		}
		if cmdT != nil && hasParamOfType(rs.Parent, cmdT) {
			sc.Command = true
		}
		out = append(out, sc)
	}
	sort.Slice(out, func(i, j int) bool { return out[i].Fn.Pos() < out[j].Fn.Pos() })
	return out
}

// sendCount counts Transport.Send calls inside fn.
func sendCount(fn *ssa.Function) int {
	_, n := fnContainsCallTo(fn, fnTransportSend)
	return n
}

// decodeCall finds, in fn, calls of a function value loaded from a field of
// type gopacket.DecodingLayerFunc (the connection's `decode`).
func isDecodeCall(in ssa.Instruction) bool {
	call, ok := in.(*ssa.Call)
	if !ok || call.Call.IsInvoke() || call.Call.StaticCallee() != nil {
		return false
	}
	t := call.Call.Value.Type()
	if n, ok := t.(*types.Named); ok {
		return n.Obj().Pkg() != nil && n.Obj().Pkg().Path() == "github.com/google/gopacket" && n.Obj().Name() == "DecodingLayerFunc"
	}
	return false
}

// registeredLayerFields lists, for a constructor function, the selector
// strings of the struct fields whose address is passed to
// DecodingLayerContainer.Put (these are overwritten by every decode).
func registeredLayerFields(fn *ssa.Function) []string {
	var out []string
	allInstrs(fn, false, func(in ssa.Instruction) {
		if !isCallTo(in, fnDLCPut) {
			return
		}
		cc := asCall(in)
		if len(cc.Args) != 1 {
			return
		}
		a := apOf(cc.Args[0])
		if len(a.Sel) > 0 {
			out = append(out, a.SelString())
		}
	})
	return out
}

// wholeStore: a Store whose address is a struct-typed field location (whole
// value overwrite of a layer).
func storeSel(in ssa.Instruction) (sel string, root ssa.Value, st *ssa.Store, ok bool) {
	st, ok = in.(*ssa.Store)
	if !ok {
		return "", nil, nil, false
	}
	a := apOf(st.Addr)
	return a.SelString(), a.Root, st, true
}

// socket primitives (type-resolved names; net.UDPConn embeds net.conn)
var sockWrites = []string{"(*net.conn).Write", "(*net.UDPConn).Write", "(*net.UDPConn).WriteTo", "(*net.UDPConn).WriteToUDP", "(*net.UDPConn).WriteMsgUDP", "(*net.UDPConn).WriteToUDPAddrPort", "(*net.UDPConn).WriteMsgUDPAddrPort"}
var sockReads = []string{"(*net.conn).Read", "(*net.UDPConn).Read", "(*net.UDPConn).ReadFrom", "(*net.UDPConn).ReadFromUDP", "(*net.UDPConn).ReadMsgUDP", "(*net.UDPConn).ReadFromUDPAddrPort", "(*net.UDPConn).ReadMsgUDPAddrPort"}
var sockWriteDeadline = []string{"(*net.conn).SetWriteDeadline", "(*net.conn).SetDeadline", "(*net.UDPConn).SetWriteDeadline", "(*net.UDPConn).SetDeadline"}
var sockReadDeadline = []string{"(*net.conn).SetReadDeadline", "(*net.conn).SetDeadline", "(*net.UDPConn).SetReadDeadline", "(*net.UDPConn).SetDeadline"}
