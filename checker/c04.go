package main

import (
	"go/token"
	"strings"

	"golang.org/x/tools/go/ssa"
)

func init() { register("C04", checkC04) }

// successReturns lists Return instructions whose error result may be the nil constant.
func successReturns(fn *ssa.Function) []*ssa.Return {
	var out []*ssa.Return
	idx := errResultIndex(fn)
	if idx < 0 {
		return nil
	}
	for _, ret := range returnsOf(fn) {
		for _, v := range possibleValues(ret.Results[idx]) {
			if isNilConst(v) {
				out = append(out, ret)
				break
			}
		}
	}
	return out
}

// edgeWhere returns the CFG edge of ifi on which cond-as-written is `want`.
func edgeWhere(ifi *ssa.If, want bool) edge {
	b := ifi.Block()
	_, _, _, neg, _ := condOf(ifi.Cond)
	_ = neg
	if want {
		return edge{b, b.Succs[0]}
	}
	return edge{b, b.Succs[1]}
}

// callResultIf finds If instructions whose condition is (possibly negated)
// the boolean result of a call to one of names; returns the edge on which the
// call returned true.
func trueEdgesOfCall(fn *ssa.Function, names ...string) (edges []edge, calls []*ssa.Call) {
	for _, ifi := range viewIfs(fn) {
		b := ifi.Block()
		v := ifi.Cond
		neg := false
		for {
			if u, ok := v.(*ssa.UnOp); ok && u.Op == token.NOT {
				neg = !neg
				v = u.X
				continue
			}
			break
		}
		// subtle.ConstantTimeCompare(...) == 1
		if bo, ok := v.(*ssa.BinOp); ok && (bo.Op == token.EQL || bo.Op == token.NEQ) {
			if k, isK := constInt(bo.Y); isK && k == 1 {
				if call, ok := bo.X.(*ssa.Call); ok && isCallTo(call, fnSubtleCompare) {
					v = call
					if bo.Op == token.NEQ {
						neg = !neg
					}
				}
			}
		}
		call, ok := v.(*ssa.Call)
		if !ok || !isCallTo(call, names...) {
			continue
		}
		if neg {
			edges = append(edges, edge{b, b.Succs[1]})
		} else {
			edges = append(edges, edge{b, b.Succs[0]})
		}
		calls = append(calls, call)
	}
	return
}

func checkC04(c *Ctx, r *Report) {
	r.Explain = "Acceptance of replies inside a session, as must-pass-through facts: (1) in the in-session send closure every path on which the decoded completion code is classified has tested the decoded session layer's Authenticated flag true and compared its session ID equal with the session's LocalID; (2) in ipmi.V2Session.DecodeFromBytes every success exit is behind either the unauthenticated arm or the true arm of a constant-time comparison between the received signature (the tail of the input from the split point) and the integrity hash of exactly the input up to the same split point, neither operand re-sliced; (3) in ipmi.AES128CBC.DecodeFromBytes every success path has bounded the pad length P (the last byte) by the block size and, on engine E2's comparison events, compared the P bytes before it with 1,2,…,P on every iteration of a loop that ends exactly at the pad-length byte, and no success path has an unequal comparison; (4) decode errors and a wrong innermost layer make the closure return non-nil. Decides the presence of the checks on all paths; equality of HMAC values is the trusted primitive's."
	r.NotDecided = []string{"value-level: that a flipped bit changes the HMAC (property of HMAC, trusted)", "replay protection by BMC-to-console sequence numbers (not implemented by the library and not part of the property)"}
	r.Trusted = []string{"go/types, go/ssa (x/tools v0.29.0)", "crypto/hmac.Equal and crypto/subtle.ConstantTimeCompare compare whole slices", "hash.Hash semantics"}

	// ---- (1) accept path of the in-session closure
	found := false
	for _, s := range c.SendClosures() {
		if !s.Session {
			continue
		}
		found = true
		fname := c.FnName(s.Fn)
		r.Fn(fname)
		if hasLoop(s.Fn) {
			r.Rule("accept-authenticated", "", 1)
			r.Unk(fname+"|loop", s.Fn.Pos(), "loop in closure")
			continue
		}
		enumPaths(s.Fn, 1, 8192, func(p CPath) {
			ds := pathDecisions(p)
			if !hasDecision(ds, "temporary", true) && !hasDecision(ds, "temporary", false) {
				return
			}
			idx := pathIndex(p)
			decodeAt := decodeIndex(p, idx)
			label := exitLabel(p)
			// Authenticated tested true
			r.Rule("accept-authenticated", "a reply's completion code is used only if the decoded session wrapper's Authenticated flag was tested true (the decoder verifies the signature only when the flag is set)", 2)
			okAuth := false
			for _, bf := range p.boolFacts() {
				if bf.True && decodedLoad(p, bf.V, fSess+".Authenticated", idx, decodeAt) {
					okAuth = true
				}
			}
			r.Check(okAuth, fname+"|Authenticated|path "+label, s.Send.Pos(), "flag tested true", "a reply with the authenticated flag cleared (no AuthCode, signature never verified) is accepted as the command's response")
			r.Rule("accept-session-id", "a reply's completion code is used only if the decoded session ID was compared equal with the session's LocalID", 2)
			okID, _ := passedEquality(p, idx, decodeAt, fSess+".ID", func(l ssa.Value) bool {
				ld, ok := l.(*ssa.UnOp)
				return ok && ld.Op == token.MUL && p.AP(ld.X).SelString() == "LocalID"
			})
			r.Check(okID, fname+"|ID|path "+label, s.Send.Pos(), "session ID compared with LocalID", "a reply addressed to a different session ID is accepted as the command's response")
		})
	}
	if !found {
		r.Rule("accept-authenticated", "", 2)
		r.Lost("in-session send closure")
	}

	// ---- (2) signature verification in the v2.0 session decoder
	r.Rule("signature-verified", "every success exit of ipmi.V2Session.DecodeFromBytes is behind the unauthenticated arm or the true arm of a constant-time comparison of the received signature with the integrity hash", 1)
	dec := c.Method("pkg/ipmi", "V2Session", "DecodeFromBytes")
	if dec == nil {
		r.Lost("ipmi.V2Session.DecodeFromBytes")
	} else {
		name := c.FnName(dec)
		r.Fn(name)
		eqEdges, eqCalls := trueEdgesOfCall(dec, fnHmacEqual, fnSubtleCompare)
		// the "not authenticated" edge: an If on the Authenticated flag (load of the field or the value stored to it)
		var unauthEdges []edge
		var authVal ssa.Value
		allInstrs(dec, false, func(in ssa.Instruction) {
			if sel, _, st, ok := storeSel(in); ok && sel == "Authenticated" {
				authVal = st.Val
			}
		})
		for _, b := range dec.Blocks {
			ifi, ok := b.Instrs[len(b.Instrs)-1].(*ssa.If)
			if !ok {
				continue
			}
			v := ifi.Cond
			neg := false
			for {
				if u, ok := v.(*ssa.UnOp); ok && u.Op == token.NOT {
					neg = !neg
					v = u.X
					continue
				}
				break
			}
			isAuth := v == authVal
			if ld, ok := v.(*ssa.UnOp); ok && ld.Op == token.MUL && apOf(ld.X).SelString() == "Authenticated" {
				isAuth = true
			}
			if isAuth {
				// edge where Authenticated is false
				if neg {
					unauthEdges = append(unauthEdges, edge{b, b.Succs[0]})
				} else {
					unauthEdges = append(unauthEdges, edge{b, b.Succs[1]})
				}
			}
		}
		avoid := map[edge]bool{}
		for _, e := range eqEdges {
			avoid[e] = true
		}
		for _, e := range unauthEdges {
			avoid[e] = true
		}
		reach := reachAvoiding(dec, nil, nil, avoid)
		succ := successReturns(dec)
		if len(succ) == 0 || len(unauthEdges) == 0 {
			r.Unk(name+"|shape", dec.Pos(), "cannot find success exits / the Authenticated test")
		}
		for _, ret := range succ {
			r.Check(!reach[ret.Block()], name+"|success exit", ret.Pos(), "behind signature comparison or unauthenticated arm", "a success exit is reachable without the signature comparison having succeeded while the authenticated flag is set")
		}
		// and the unauthenticated arm must not be reachable after... (authenticated packets cannot take it): by construction of the edge.
		r.Rule("signature-operands", "the comparison is between the whole received signature data[k:] and the whole hash of data[:k] under the session's integrity algorithm, same split point k", 1)
		if len(eqCalls) == 0 {
			r.Bad(name+"|hmac.Equal", dec.Pos(), "no constant-time comparison of the signature")
		}
		for _, call := range eqCalls {
			args := call.Call.Args
			var sig, sum ssa.Value
			for _, a := range args {
				if cl, ok := a.(*ssa.Call); ok {
					sum = cl
				} else {
					sig = a
				}
			}
			ok := true
			why := ""
			var sigSlice *ssa.Slice
			if sig == nil || sum == nil {
				ok, why = false, "operands are not (received signature, computed hash)"
			} else {
				// received signature: data[k:] directly or loaded from the Signature field which was stored data[k:]
				switch x := sig.(type) {
				case *ssa.Slice:
					sigSlice = x
				case *ssa.UnOp:
					if x.Op == token.MUL && apOf(x.X).SelString() == "Signature" {
						// the last store to the field before the comparison (a nil store on the
						// unauthenticated or truncated arms never reaches it)
						allInstrs(dec, false, func(in ssa.Instruction) {
							if sel, _, st, isSt := storeSel(in); isSt && sel == "Signature" {
								if sl, isSl := st.Val.(*ssa.Slice); isSl && mustPrecede(dec, st, call) {
									sigSlice = sl
								}
							}
						})
					}
				}
				data := dec.Params[1]
				if sigSlice == nil || viewVal(dec, sigSlice.X) != ssa.Value(data) || sigSlice.High != nil || sigSlice.Low == nil {
					ok, why = false, "the received signature is not the whole tail data[k:] of the input"
				}
				sc := sum.(*ssa.Call)
				callee := sc.Call.StaticCallee()
				if ok && (callee == nil || len(sc.Call.Args) != 2) {
					ok, why = false, "computed side is not hash(alg, bytes)"
				}
				if ok {
					// hash argument: load of the IntegrityAlgorithm field
					hl, isLd := sc.Call.Args[0].(*ssa.UnOp)
					if !isLd || apOf(hl.X).SelString() != "IntegrityAlgorithm" {
						ok, why = false, "hash is not keyed by the layer's IntegrityAlgorithm"
					}
					bs, isSl := sc.Call.Args[1].(*ssa.Slice)
					if ok && (!isSl || viewVal(dec, bs.X) != ssa.Value(data) || bs.Low != nil || bs.High == nil) {
						ok, why = false, "hashed bytes are not the prefix data[:k] of the input"
					}
					if ok && bs.High != sigSlice.Low {
						ok, why = false, "hashed prefix and signature tail use different split points"
					}
					// callee must write the bytes, take Sum(nil) and return it unsliced
					if ok {
						if w := hashHelperShape(callee); w != "" {
							ok, why = false, "hash helper: "+w
						}
					}
				}
			}
			r.Check(ok, name+"|hmac.Equal operands", call.Pos(), "Equal(data[k:], H(data[:k]))", why)
		}
	}

	// ---- (3) confidentiality pad validation (shared with C01)
	checkPadValidated(c, r)

	// ---- (4) closure rejects on decode error / wrong innermost layer (shared shape with C10)
	r.Rule("reject-undecodable", "a reply that fails to decode (bad signature, bad pad, truncated) or lacks the message layer makes the in-session closure return non-nil", 2)
	for _, s := range c.SendClosures() {
		if !s.Session || hasLoop(s.Fn) {
			continue
		}
		fname := c.FnName(s.Fn)
		enumPaths(s.Fn, 1, 8192, func(p CPath) {
			ds := pathDecisions(p)
			ret, _ := p.Last().(*ssa.Return)
			if ret == nil {
				return
			}
			rv := p.Resolve(ret.Results[0])
			if hasDecision(ds, "decode-err", true) {
				r.Check(c.nonNilOnPath(p, ds, rv), fname+"|decode-error path", ret.Pos(), "decode error → not accepted", "decode error path returns nil: the reply would be accepted")
			} else if hasDecision(ds, "innermost-err", true) {
				r.Check(c.nonNilOnPath(p, ds, rv), fname+"|innermost-layer path", ret.Pos(), "missing message layer → not accepted", "reply without a message layer is accepted")
			}
		})
		// the decode error tested must be the decoder's own result, and the decode must precede the completion-code read
		var dc ssa.Instruction
		allInstrs(s.Fn, false, func(in ssa.Instruction) {
			if isDecodeCall(in) {
				dc = in
			}
		})
		if dc == nil {
			r.Bad(fname+"|decode call", s.Fn.Pos(), "the closure never runs the connection's decoder on the reply")
		} else {
			call := dc.(*ssa.Call)
			isEx := false
			os := viewOrigins(s.Fn, call.Call.Args[0])
			for _, o := range os {
				ex, ok := o.(*ssa.Extract)
				isEx = ok && ex.Tuple == ssa.Value(s.Send) && ex.Index == 0
				if !isEx {
					break
				}
			}
			r.Check(isEx && len(os) > 0, fname+"|decode(reply)", dc.Pos(), "the decoder runs on the bytes returned by Transport.Send", "the decoder is not run on the bytes returned by this attempt's Transport.Send")
		}
	}

	// a command whose retries were given up is a failed command (rule shared by C04, C10, C13)
	checkRetryFailureReturned(c, r)

	// the acceptance rules above are rules about the retried operations: nothing is transmitted,
	// and hence no reply taken, anywhere else (shared with C09, C10, C13, C18)
	checkSendSites(c, r)
	checkRefusedLeavesNoTrace(c, r)
	// every method a caller can invoke on the session is the session's own (none promoted from the
	// session-less connection, whose replies need no AuthCode), and the reply that was checked is
	// the reply that is decoded: the socket is read in transport.Send only (shared with C03, C11)
	checkSessionAPIOwnMethods(c, r)
	checkOneWriteOneRead(c, r)

	// "a valid AuthCode under the session's K1": the integrity algorithm the session verifies with
	// is the negotiated one at its specified length — a hash truncated to nothing accepts an empty
	// AuthCode (tables shared with C01–C03, C12)
	checkAlgorithmTables(c, r)

	// "such datagrams are treated as if no valid response had arrived": the errors that say a
	// reply was rejected are not turned into success further up — every context-taking method of
	// the session examines the errors it is given (rule shared with C13)
	{
		var fns []*ssa.Function
		v2s := c.Named("", "V2Session")
		for _, fn := range c.ctxFuncs() {
			if rn := recvNamed(fn); rn != nil && v2s != nil && rn.Obj() == v2s.Obj() {
				fns = append(fns, fn)
			}
		}
		for _, s := range c.SendClosures() {
			if s.Session {
				fns = append(fns, s.Fn)
			}
		}
		checkErrorsExamined(c, r, "errors-examined", "every context-taking method of the session, and the in-session operation handed to backoff.Retry, returns success only on paths where every error a module call returned was compared with nil", 5, fns)
	}
}

// phiCountsFromOne: phi with one constant edge 1 and one edge phi+1.
func phiCountsFromOne(ph *ssa.Phi) bool {
	one, inc := false, false
	for _, e := range ph.Edges {
		if k, ok := constInt(e); ok && k == 1 {
			one = true
		}
		if bo, ok := e.(*ssa.BinOp); ok && bo.Op == token.ADD && bo.X == ssa.Value(ph) {
			if k, ok := constInt(bo.Y); ok && k == 1 {
				inc = true
			}
		}
	}
	return one && inc
}

// hashHelperShape verifies that a helper h(alg, b) writes exactly b into alg,
// returns alg.Sum(nil) unsliced and resets the hash. Returns "" when OK.
func hashHelperShape(fn *ssa.Function) string {
	if fn == nil || len(fn.Params) != 2 {
		return "unexpected signature"
	}
	h, b := fn.Params[0], fn.Params[1]
	var write, sum, reset *ssa.Call
	allInstrs(fn, false, func(in ssa.Instruction) {
		call, ok := in.(*ssa.Call)
		if !ok || !call.Call.IsInvoke() || viewVal(fn, call.Call.Value) != ssa.Value(h) {
			return
		}
		switch call.Call.Method.Name() {
		case "Write":
			if len(call.Call.Args) == 1 && viewVal(fn, call.Call.Args[0]) == ssa.Value(b) {
				if write != nil {
					write = nil
				} else {
					write = call
				}
			}
		case "Sum":
			if len(call.Call.Args) == 1 && isNilConst(call.Call.Args[0]) {
				sum = call
			}
		case "Reset":
			reset = call
		}
	})
	if write == nil {
		return "does not write exactly the given bytes once"
	}
	if sum == nil {
		return "does not take Sum(nil)"
	}
	if reset == nil {
		return "does not reset the hash"
	}
	if !mustPrecede(fn, write, sum) || !mustPrecede(fn, sum, reset) {
		return "Write/Sum/Reset out of order"
	}
	for _, ret := range returnsOf(fn) {
		for _, v := range viewOrigins(fn, ret.Results[0]) {
			if isNilConst(v) {
				// the nil-hash arm (no integrity algorithm)
				continue
			}
			if v != ssa.Value(sum) {
				return "returns something other than the whole Sum(nil): " + strings.TrimSpace(v.String())
			}
		}
	}
	return ""
}

// checkPadValidated: rule (3) of C04. Shared with C01: a conforming encrypted reply of any
// length is only returned to the caller if the pad is looked for where the peer put it.
func checkPadValidated(c *Ctx, r *Report) {
	r.Rule("pad-validated", "ipmi.AES128CBC.DecodeFromBytes succeeds only after bounding the pad length by the block size and comparing every pad byte with a counter starting at 1", 3)
	aes := c.Method("pkg/ipmi", "AES128CBC", "DecodeFromBytes")
	if aes == nil {
		r.Lost("ipmi.AES128CBC.DecodeFromBytes")
	} else {
		name := c.FnName(aes)
		r.Fn(name)
		// Decided on engine E2's comparison events, whatever form the loop takes: on every
		// success path (1) the pad-length byte P — the last byte of the input — is at most
		// the block size; (2) a loop compares consecutive bytes, from index (last − P) up to
		// the pad-length byte, with 1,2,3,…, on every iteration; (3) no comparison of an
		// input byte came out unequal on a path that succeeds.
		evs, why := extractEvents(c, aes, nil)
		nOK := 0
		okCmp, okMis, okLoop, okBound := true, true, true, true
		whyCmp := why
		for _, le := range evs {
			if !le.OK {
				continue
			}
			nOK++
			// the pad-length byte: a loaded input byte at index len(data)−1
			var padSym Sym = -1
			var lastIdx Lin
			for sy, ref := range le.Elem {
				if ref.Org != "d" || len(ref.Idx.T) != 1 || ref.Idx.C != -1 {
					continue
				}
				for ls, k := range ref.Idx.T {
					if k == 1 && strings.HasPrefix(le.SymName(ls), "len(") && (padSym < 0 || sy < padSym) {
						padSym, lastIdx = sy, ref.Idx
					}
				}
			}
			if padSym < 0 {
				okCmp, whyCmp = false, "the pad-length byte (last input byte) is never read"
				continue
			}
			P := linSym(padSym)
			if !entails(le.Cons, leq(P, linConst(16))) {
				okBound = false
			}
			for _, ev := range le.eventsOf("cmp", "d") {
				if strings.HasPrefix(ev.Val, "ne") {
					okMis = false
				}
			}
			found := false
			last := "no loop compares the pad bytes with 1,2,3,…"
			for _, ev := range le.eventsOf("loop:cmp", "d") {
				if !strings.HasPrefix(ev.Val, "eq") {
					continue
				}
				run, w := runOf(ev)
				if w != "" {
					last = w
					continue
				}
				if !linEq(run.V0, linConst(1)) || run.VAdv != 1 {
					last = "the expected pad values do not start at 1 and rise by 1"
					continue
				}
				if !linEq(run.Idx0, lastIdx.add(P, -1)) {
					last = "the comparison does not start at the first pad byte (last − pad length)"
					continue
				}
				if cov, w := run.coversUpTo(lastIdx, le.Cons); !cov {
					last = w
					continue
				}
				// on every way round the loop
				every := true
				for _, mk := range le.Events {
					if mk.Kind != "loop:path" || mk.Loop == nil || mk.Loop.Pos != ev.Loop.Pos {
						continue
					}
					has := false
					for _, e2 := range le.eventsOf("loop:cmp", "d") {
						if e2.Loop != nil && strings.Join(e2.Loop.Guard, " ∧ ") == mk.Name && strings.HasPrefix(e2.Val, "eq") && e2.Pos == ev.Pos {
							has = true
						}
					}
					if !has {
						every = false
					}
				}
				if !every {
					okLoop = false
					last = "an iteration can continue without the pad byte having compared equal"
					continue
				}
				found = true
			}
			if !found {
				okCmp, whyCmp = false, last
			}
		}
		if nOK == 0 {
			r.Unk(name+"|pad-byte comparison", aes.Pos(), "no success path extracted: "+why)
		} else {
			r.Check(okCmp, name+"|pad-byte comparison", aes.Pos(), "a loop compares pad byte k with k, k = 1…n, for exactly the n bytes before the pad-length byte", "no loop comparing each confidentiality pad byte with its expected value 1,2,3,…: "+whyCmp)
			r.Check(okMis, name+"|pad mismatch is an error", aes.Pos(), "no success path has an unequal pad comparison", "a mismatching pad byte does not lead to an error return")
			r.Check(okLoop, name+"|success passes the pad loop", aes.Pos(), "every iteration compares", "the pad comparison is skipped on some iterations")
			r.Check(okBound, name+"|pad length bounded", aes.Pos(), "pad length ≤ block size on success", "the pad-length byte is not bounded by the block size before use")
		}
	}
}
