#!/usr/bin/env python3
"""Seeded-change corpus maintenance.

  seedmatrix.py confirm <src-out-dir> <id>     confirm one candidate (dir holding m<k>.diff,
                                               m<k>_demo_test.go, m<k>.md given as <dir>:<k>)
                                               and store it as /verif/seeded/<id>/
  seedmatrix.py matrix [-j N] [id ...]         run every claimed check against each stored
                                               change (scratch worktree per worker, never /repo)
                                               and rewrite meta.json detected_by / findings
  seedmatrix.py table                          regenerate /verif/seeded/TABLE.md

A change is kept only if, in a scratch worktree of /repo HEAD: the diff applies, the tree
builds, the unedited suite passes, the demonstration fails with the change and passes without.
Scratch worktrees live under /tmp and are removed as soon as each step is done.
"""
import json, os, re, subprocess, sys, shutil, glob, concurrent.futures as cf

ENV = dict(os.environ, GOFLAGS="-mod=mod", GOPROXY="off", GOSUMDB="off", GOTOOLCHAIN="local", GOWORK="off")
SEEDED = "/verif/seeded"


def sh(cmd, cwd=None, timeout=1800, env=None):
    p = subprocess.run(cmd, shell=True, cwd=cwd, env=env or ENV, capture_output=True, text=True, timeout=timeout)
    return p.returncode, p.stdout + p.stderr


def worktree(path):
    sh(f"git -C /repo worktree remove --force {path}")
    shutil.rmtree(path, ignore_errors=True)
    return sh(f"git -C /repo worktree add -f --detach {path} HEAD")


def drop(path):
    sh(f"git -C /repo worktree remove --force {path}")
    shutil.rmtree(path, ignore_errors=True)


def pkgdir_of(demo):
    src = open(demo).read()
    m = re.search(r'^package\s+(\w+)', src, re.M)
    pkg = m.group(1) if m else "bmc"
    d = {"bmc": ".", "bmc_test": ".", "ipmi": "pkg/ipmi", "ipmi_test": "pkg/ipmi", "dcmi": "pkg/dcmi", "dcmi_test": "pkg/dcmi",
         "transport": "internal/pkg/transport", "bcd": "internal/pkg/bcd", "complement": "internal/pkg/complement"}.get(pkg, ".")
    tests = re.findall(r'^func (Test\w+)\(', src, re.M)
    return d, tests


def confirm(src, k, sid):
    diff = f"{src}/m{k}.diff"
    demo = f"{src}/m{k}_demo_test.go"
    notes = f"{src}/m{k}.md"
    res = {"id": sid}
    if not os.path.exists(diff) or not os.path.exists(demo):
        res["status"] = "missing diff or demo"
        return res
    wt = f"/tmp/seedconf_{sid}"
    rc, o = worktree(wt)
    if rc != 0:
        res["status"] = "worktree failed " + o[-200:]
        return res
    try:
        rc, o = sh(f"git apply --whitespace=nowarn {diff}", wt)
        if rc != 0:
            res["status"] = "does not apply to HEAD: " + o[-300:]
            return res
        rc, o = sh("go build ./...", wt)
        if rc != 0:
            res["status"] = "build fails: " + o[-300:]
            return res
        rc, o = sh("go test -vet=off -count=1 ./...", wt)
        if rc != 0:
            res["status"] = "suite fails with change: " + o[-300:]
            return res
        d, tests = pkgdir_of(demo)
        dst = os.path.join(wt, d, f"zz_m{k}_demo_test.go")
        shutil.copy(demo, dst)
        run = "-run '^(" + "|".join(tests) + ")$'" if tests else ""
        cmd = f"go test -vet=off -count=1 {run} ./{d}"
        rc1, o1 = sh(cmd, wt, timeout=1500)
        fails = rc1 != 0 and "[build failed]" not in o1 and "[setup failed]" not in o1
        sh("git checkout -- .", wt)
        rc2, o2 = sh(cmd, wt, timeout=1500)
        if not fails:
            res["status"] = "demo does not fail with change: " + o1[-300:]
            return res
        if rc2 != 0:
            res["status"] = "demo fails without change: " + o2[-300:]
            return res
        out = f"{SEEDED}/{sid}"
        os.makedirs(out, exist_ok=True)
        shutil.copy(diff, f"{out}/patch.diff")
        shutil.copy(demo, f"{out}/demo_test.go.txt")
        if os.path.exists(notes):
            shutil.copy(notes, f"{out}/notes.md")
        summary, needs = "", ""
        if os.path.exists(notes):
            txt = open(notes).read()
            lines = [l.strip() for l in txt.splitlines() if l.strip()]
            summary = lines[0].lstrip("# ")[:300] if lines else ""
            m = re.search(r'(?is)(needs?|trigger|manifest)[^\n]*\n(.{0,600})', txt)
            if m:
                needs = " ".join(m.group(0).split())[:700]
        meta = {
            "id": sid, "breaks_property": sid.split("-")[0], "summary": summary, "needs_to_manifest": needs,
            "source": "independent sub-agent given only the property text and a scratch worktree of /repo (round 2)",
            "confirmed": {"applies_to_repo_head": True, "builds": True, "existing_suite_passes_with_change": True,
                          "demo_fails_with_change": True, "demo_passes_without_change": True},
            "demo": {"package_dir": d, "tests": tests},
            "what_was_run": [
                "git worktree add --detach <scratch> HEAD (of /repo); git apply patch.diff; go build ./...; go test -vet=off -count=1 ./...",
                f"copy demo to ./{d}/zz_demo_test.go; {cmd}   (fails with the change, passes after git checkout -- .)",
            ],
        }
        json.dump(meta, open(f"{out}/meta.json", "w"), indent=1)
        res["status"] = "confirmed"
    finally:
        drop(wt)
    return res


def claimed():
    return [c["property_id"] for c in json.load(open("/verif/MANIFEST.json"))["checks"]]


def run_matrix_one(sid, worker):
    d = f"{SEEDED}/{sid}"
    wt = f"/tmp/seedmx_{sid}"
    out = f"/tmp/seedmxout_{sid}"
    rc, o = worktree(wt)
    det, findings = [], {}
    try:
        rc, o = sh(f"git apply --whitespace=nowarn {d}/patch.diff", wt)
        if rc != 0:
            return sid, None, {"error": "patch does not apply: " + o[-200:]}
        os.makedirs(out, exist_ok=True)
        shutil.copy("/verif/known_findings.jsonl", out)
        for p in claimed():
            rc, o = sh(f"{FROZEN} check -p {p} -tier quick -repo {wt} -out {out}", "/verif", timeout=2400)
            if rc != 0:
                det.append(p)
                lines = [l.replace(wt + "/", "")[:420] for l in o.splitlines() if "[violated]" in l or "[undecided]" in l or l.startswith("FATAL")]
                findings[p] = lines[:4]
    finally:
        drop(wt)
        shutil.rmtree(out, ignore_errors=True)
    return sid, det, findings


FROZEN = "/tmp/bmcverif_frozen"


def freeze():
    """The matrix runs against one frozen build of the checker, so that work on the sources
    while it runs cannot change (or break) the binary half-way through."""
    rc, o = sh(f"go build -o {FROZEN} .", "/verif/checker", env=dict(ENV, CGO_ENABLED="0"))
    if rc != 0:
        raise SystemExit("checker does not build: " + o[-500:])


def matrix(ids, jobs):
    freeze()
    ids = ids or sorted(x for x in os.listdir(SEEDED) if os.path.isdir(f"{SEEDED}/{x}"))
    with cf.ThreadPoolExecutor(max_workers=jobs) as ex:
        futs = {}
        for i, sid in enumerate(ids):
            futs[ex.submit(run_matrix_one, sid, i % jobs if jobs > 1 else 0)] = sid
        # one worker id per concurrent slot would collide; use unique dirs instead
        for f in cf.as_completed(futs):
            sid, det, findings = f.result()
            mp = f"{SEEDED}/{sid}/meta.json"
            meta = json.load(open(mp))
            if det is None:
                meta["matrix_error"] = findings.get("error")
            else:
                owner = meta["breaks_property"]
                meta["detected_by"] = det
                meta["owner_detects"] = owner in det
                meta["findings"] = findings
                wr = [w for w in meta.get("what_was_run", []) if "check.sh" not in w]
                wr.append("VERIF_REPO=<scratch with patch> VERIF_OUT=<tmp> ./check.sh <every claimed property> quick   (final checker)")
                meta["what_was_run"] = wr
            json.dump(meta, open(mp, "w"), indent=1)
            print(sid, "detected by:", det, flush=True)


def table():
    rows = []
    for sid in sorted(os.listdir(SEEDED)):
        mp = f"{SEEDED}/{sid}/meta.json"
        if not os.path.exists(mp):
            continue
        m = json.load(open(mp))
        det = m.get("detected_by") or []
        owner = m["breaks_property"]
        others = [p for p in det if p != owner]
        rows.append(f"| {sid} | {owner} | {'yes' if owner in det else 'NO'} | {', '.join(others) or '–'} | {(m.get('summary') or '')[:110].replace('|', '/')} |")
    hdr = "| change | breaks | caught by its own check | also caught by | what it does |\n|---|---|---|---|---|\n"
    open(f"{SEEDED}/TABLE.md", "w").write("# Seeded changes and the checks that catch them\n\nGenerated by tools/seedmatrix.py from the meta.json files. The column \"caught by its own check\" is from a pass with the final checker over the whole corpus (tools/seedowner.py); \"also caught by\" is from the last full matrix run of each round (every claimed check against every change) and is a lower bound — rules have only been added since.\n\n" + hdr + "\n".join(rows) + "\n")
    print(len(rows), "rows")


def main():
    if len(sys.argv) < 2:
        print(__doc__)
        return
    cmd = sys.argv[1]
    if cmd == "confirm":
        src, k = sys.argv[2].rsplit(":", 1)
        print(json.dumps(confirm(src, int(k), sys.argv[3])))
    elif cmd == "matrix":
        args = sys.argv[2:]
        jobs = 1
        if args and args[0] == "-j":
            jobs = int(args[1])
            args = args[2:]
        matrix(args, jobs)
        table()
    elif cmd == "table":
        table()


main()
