package main

import (
	"fmt"
	"go/constant"
	"go/token"
	"os"
	"sort"
	"strings"
	"sync"
	"unicode"
	"unicode/utf8"

	"golang.org/x/tools/go/ssa"
)

// The flattened view of a function: its control-flow graph with the bodies of
// the module's unexported helpers spliced in at their (static) call sites.
//
// Every flow rule (paths, must-precede, reach-avoiding, instruction scans)
// works on this view rather than on the bare function, so that extracting a
// helper from a function, or inlining one into it — edits that cannot change
// behaviour — leave every rule's verdict unchanged. Nothing is executed: the
// view is a graph over the SSA instructions of the functions involved.
//
// Policy (fixed, stated in DESIGN.md): a call is spliced when its callee is
// resolved statically, lies in the module under analysis, has a body, has an
// unexported name (or is a function literal called directly), is not already
// on the splice stack (no recursion) and the stack is at most flatMaxDepth
// deep. Exported functions and methods are API boundaries whose names are
// stable; they stay calls.

const flatMaxDepth = 4

// FCtx is one splice context: the chain of call instructions from the root.
type FCtx struct {
	Parent *FCtx
	Call   *ssa.Call  // the spliced call instruction (nil for the root and for deferred closures)
	Defer  *ssa.Defer // the defer statement whose function literal runs here (spliced at the function's exits)
	Recv   ssa.Value  // for an interface method call resolved to Fn: the concrete receiver value
	Fn     *ssa.Function
	Depth  int
}

// FB is a segment of a basic block in a context: Instrs()[Lo:Hi).
type FB struct {
	Ctx          *FCtx
	B            *ssa.BasicBlock
	Lo, Hi       int
	Succs, Preds []*FB
	Index        int
}

func (s *FB) Instrs() []ssa.Instruction { return s.B.Instrs[s.Lo:s.Hi] }

// Last is the last instruction of the segment.
func (s *FB) Last() ssa.Instruction {
	if s.Hi > s.Lo {
		return s.B.Instrs[s.Hi-1]
	}
	return nil
}

// Flat is the flattened view rooted at Root.
type Flat struct {
	Root   *ssa.Function
	Blocks []*FB // Blocks[0] is the entry
	Ctxs   []*FCtx
	segs   map[*ssa.BasicBlock][]*FB
	first  map[*FCtx]map[*ssa.BasicBlock]*FB // first segment of a block in a context
	byCall map[*ssa.Call][]*FCtx             // contexts created by a call instruction
	byFn   map[*ssa.Function][]*FCtx
	cont   map[*FCtx]*FB // continuation segment after the spliced call
	raw    bool

	pathOnce sync.Once
	paths    [][]*FB // feasible entry→exit paths, each segment visited at most twice
	pathsAll bool    // the enumeration is complete (else the graph-level fallback is used)
}

// flatPathLimit bounds the cached enumeration of feasible paths per view.
const flatPathLimit = 150000

// feasiblePaths enumerates (once) the feasible paths of the view.
func (fl *Flat) feasiblePaths() ([][]*FB, bool) {
	fl.pathOnce.Do(func() {
		fl.pathsAll = enumPathsIn(fl, 2, flatPathLimit, func(p CPath) {
			fl.paths = append(fl.paths, p.Segs)
		})
		if !fl.pathsAll {
			fl.paths = nil
		}
	})
	return fl.paths, fl.pathsAll
}

// instrPos locates an instruction on a path: the indices of the segments holding it.
func instrPositions(path []*FB, in ssa.Instruction, k int) []int {
	var out []int
	for i, s := range path {
		if s.B == in.Block() && s.Lo <= k && k < s.Hi {
			out = append(out, i)
		}
	}
	return out
}

var (
	flatMu    sync.Mutex
	flatCache = map[*ssa.Function]*Flat{}
	rawCache  = map[*ssa.Function]*Flat{}
	// flatModule decides module membership; set by loadRepo.
	flatInModule func(*ssa.Function) bool
)

// flatOpaque lists helpers that a rule treats as anchors in their own right
// (analysed separately, referred to by their call): they are never spliced.
var flatOpaque = map[*ssa.Function]bool{}

// markOpaque registers anchors; views built earlier are discarded.
func markOpaque(fns ...*ssa.Function) {
	changed := false
	for _, f := range fns {
		if f != nil && !flatOpaque[f] {
			flatOpaque[f] = true
			changed = true
		}
	}
	if changed {
		flatMu.Lock()
		flatCache = map[*ssa.Function]*Flat{}
		flatMu.Unlock()
	}
}

func resetFlatCache() {
	flatOpaque = map[*ssa.Function]bool{}
	flatMu.Lock()
	flatCache = map[*ssa.Function]*Flat{}
	rawCache = map[*ssa.Function]*Flat{}
	flatMu.Unlock()
}

func unexportedName(f *ssa.Function) bool {
	if f.Parent() != nil {
		return true // function literal
	}
	n := f.Name()
	if o := f.Object(); o != nil {
		n = o.Name()
	}
	r, _ := utf8.DecodeRuneInString(n)
	if !unicode.IsUpper(r) {
		return true
	}
	// an exported plain function of an internal package is private to the module all the
	// same (code moved out of a big package has to be exported there): a helper like any
	// other — except the value primitives the engines have contracts for, and the transport
	if f.Signature.Recv() == nil && f.Pkg != nil {
		path := f.Pkg.Pkg.Path()
		if strings.Contains(path, "/internal/") && !modulePrimitivePkg(path) {
			return true
		}
	}
	return false
}

// modulePrimitivePkg: internal packages whose functions stay calls in every view — the
// conversions E1/E2 model by contract (BCD, complements) and the UDP transport.
func modulePrimitivePkg(path string) bool {
	for _, p := range []string{"/internal/pkg/bcd", "/internal/pkg/complement", "/internal/pkg/transport"} {
		if strings.HasSuffix(path, p) {
			return true
		}
	}
	return false
}

// spliceTarget returns the callee to splice at this call, or nil.
func spliceTarget(in ssa.Instruction, ctx *FCtx) *ssa.Function {
	call, ok := in.(*ssa.Call)
	if !ok {
		return nil
	}
	f := call.Call.StaticCallee()
	if f == nil && !call.Call.IsInvoke() {
		// a call of a function value that can only be one function literal of the module
		f = staticFuncValue(call.Call.Value, 0)
	}
	if f == nil && call.Call.IsInvoke() {
		f, _ = devirtualise(call, ctx)
	}
	if f == nil || f.Blocks == nil || flatInModule == nil || !flatInModule(f) || !unexportedName(f) {
		return nil
	}
	// synthetic functions are not spliced, except instances of generic functions and the
	// wrappers that forward a promoted method to the embedded field's method
	if (f.Synthetic != "" && !strings.HasPrefix(f.Synthetic, "instance of") && !strings.HasPrefix(f.Synthetic, "wrapper for")) || flatOpaque[f] {
		return nil
	}
	if ctx.Depth >= flatMaxDepth {
		return nil
	}
	for p := ctx; p != nil; p = p.Parent {
		if p.Fn == f {
			return nil
		}
	}
	if f.Recover != nil && mayRecover(f) {
		return nil // a function that recovers is not a straight splice
	}
	return f
}

// mayRecover: go/ssa gives every function with a defer statement a recover block, reached
// only if a deferred function calls recover(). The function may recover if one of its
// deferred calls runs module code that contains a call of the recover builtin.
func mayRecover(f *ssa.Function) bool {
	hasRecover := func(g *ssa.Function) bool {
		found := false
		var walk func(h *ssa.Function)
		walk = func(h *ssa.Function) {
			for _, b := range h.Blocks {
				for _, in := range b.Instrs {
					if cc := asCall(in); cc != nil {
						if bi, ok := cc.Value.(*ssa.Builtin); ok && bi.Name() == "recover" {
							found = true
						}
					}
				}
			}
			for _, an := range h.AnonFuncs {
				walk(an)
			}
		}
		walk(g)
		return found
	}
	for _, b := range f.Blocks {
		for _, in := range b.Instrs {
			d, ok := in.(*ssa.Defer)
			if !ok {
				continue
			}
			if g := closureFn(d.Call.Value); g != nil {
				if hasRecover(g) {
					return true
				}
				continue
			}
			if g := d.Call.StaticCallee(); g != nil && flatInModule != nil && flatInModule(g) && hasRecover(g) {
				return true
			}
		}
	}
	return false
}

func flatOf(fn *ssa.Function) *Flat { return flatBuild(fn, false) }

// rawOf is the view of fn alone, nothing spliced (for rules that carry their
// own interprocedural summaries).
func rawOf(fn *ssa.Function) *Flat { return flatBuild(fn, true) }

func flatBuild(fn *ssa.Function, raw bool) *Flat {
	cache := flatCache
	if raw {
		cache = rawCache
	}
	flatMu.Lock()
	if fl, ok := cache[fn]; ok {
		flatMu.Unlock()
		return fl
	}
	flatMu.Unlock()
	fl := &Flat{Root: fn, raw: raw, segs: map[*ssa.BasicBlock][]*FB{}, first: map[*FCtx]map[*ssa.BasicBlock]*FB{}, byCall: map[*ssa.Call][]*FCtx{}, byFn: map[*ssa.Function][]*FCtx{}, cont: map[*FCtx]*FB{}}
	if len(fn.Blocks) > 0 {
		root := &FCtx{Fn: fn}
		fl.Ctxs = append(fl.Ctxs, root)
		fl.byFn[fn] = append(fl.byFn[fn], root)
		fl.build(root)
	}
	for i, b := range fl.Blocks {
		b.Index = i
	}
	flatMu.Lock()
	cache[fn] = fl
	flatMu.Unlock()
	return fl
}

func link(a, b *FB) {
	a.Succs = append(a.Succs, b)
	b.Preds = append(b.Preds, a)
}

// build creates the segments of ctx.Fn and returns its entry segment and the
// segments that end in a Return.
func (fl *Flat) build(ctx *FCtx) (entry *FB, rets []*FB) {
	fn := ctx.Fn
	fl.first[ctx] = map[*ssa.BasicBlock]*FB{}
	lastSeg := map[*ssa.BasicBlock]*FB{}
	type pending struct {
		seg  *FB
		call *ssa.Call
		dfr  *ssa.Defer
		next *FB
		f    *ssa.Function
	}
	var splices []pending
	plan := map[*ssa.RunDefers][]*ssa.Defer{}
	if !fl.raw && ctx.Depth < flatMaxDepth {
		plan = deferPlan(fn)
	}
	for _, b := range fn.Blocks {
		lo := 0
		var prev *FB
		newSeg := func(lo, hi int) *FB {
			s := &FB{Ctx: ctx, B: b, Lo: lo, Hi: hi}
			fl.Blocks = append(fl.Blocks, s)
			fl.segs[b] = append(fl.segs[b], s)
			return s
		}
		for i, in := range b.Instrs {
			if rd, isRD := in.(*ssa.RunDefers); isRD && len(plan[rd]) > 0 {
				// the function literals deferred on every path to this exit run here, last first
				for k, d := range plan[rd] {
					hi := i + 1
					segLo := lo
					if k > 0 {
						segLo = hi // an empty connector between two deferred literals
					}
					s := newSeg(segLo, hi)
					if prev == nil {
						fl.first[ctx][b] = s
					} else {
						splices[len(splices)-1].next = s
					}
					splices = append(splices, pending{seg: s, dfr: d, f: closureFn(d.Call.Value)})
					prev = s
				}
				lo = i + 1
				continue
			}
			f := spliceTarget(in, ctx)
			if f == nil || fl.raw {
				continue
			}
			s := newSeg(lo, i+1)
			if prev == nil {
				fl.first[ctx][b] = s
			}
			if prev != nil {
				// prev's continuation is s: recorded when prev's splice is built
				splices[len(splices)-1].next = s
			}
			splices = append(splices, pending{seg: s, call: in.(*ssa.Call), f: f})
			prev = s
			lo = i + 1
		}
		s := newSeg(lo, len(b.Instrs))
		if prev == nil {
			fl.first[ctx][b] = s
		} else {
			splices[len(splices)-1].next = s
		}
		lastSeg[b] = s
	}
	for _, b := range fn.Blocks {
		for _, sc := range b.Succs {
			link(lastSeg[b], fl.first[ctx][sc])
		}
		if ls := lastSeg[b]; ls.Last() != nil {
			if _, ok := ls.Last().(*ssa.Return); ok {
				rets = append(rets, ls)
			}
		}
	}
	for _, sp := range splices {
		sub := &FCtx{Parent: ctx, Call: sp.call, Defer: sp.dfr, Fn: sp.f, Depth: ctx.Depth + 1}
		if sp.call != nil && sp.call.Call.IsInvoke() {
			_, sub.Recv = devirtualise(sp.call, ctx)
		}
		fl.Ctxs = append(fl.Ctxs, sub)
		if sp.call != nil {
			fl.byCall[sp.call] = append(fl.byCall[sp.call], sub)
		}
		fl.byFn[sp.f] = append(fl.byFn[sp.f], sub)
		fl.cont[sub] = sp.next
		e, rs := fl.build(sub)
		link(sp.seg, e)
		for _, r := range rs {
			link(r, sp.next)
		}
	}
	return fl.first[ctx][fn.Blocks[0]], rets
}

// Spliced reports whether the call instruction is replaced by its callee's body in this view.
func (fl *Flat) Spliced(call *ssa.Call) bool { return len(fl.byCall[call]) > 0 }

// Funcs lists the functions whose bodies are part of the view (root first).
func (fl *Flat) Funcs() []*ssa.Function {
	seen := map[*ssa.Function]bool{}
	var out []*ssa.Function
	for _, c := range fl.Ctxs {
		if !seen[c.Fn] {
			seen[c.Fn] = true
			out = append(out, c.Fn)
		}
	}
	return out
}

// All visits every instruction occurrence of the view in block order.
func (fl *Flat) All(f func(in ssa.Instruction, s *FB)) {
	for _, s := range fl.Blocks {
		for _, in := range s.Instrs() {
			f(in, s)
		}
	}
}

// segOf returns the segments containing the instruction.
func (fl *Flat) segsOf(in ssa.Instruction) []*FB {
	var out []*FB
	k := -1
	for _, s := range fl.segs[in.Block()] {
		if k < 0 {
			k = instrIndex(in)
		}
		if s.Lo <= k && k < s.Hi {
			out = append(out, s)
		}
	}
	return out
}

// Contains reports whether the instruction's function is part of the view.
func (fl *Flat) Contains(in ssa.Instruction) bool {
	return in.Block() != nil && len(fl.segs[in.Block()]) > 0
}

// reach computes the segments reachable from the given start segments without
// entering avoided segments or crossing avoided edges.
func (fl *Flat) reach(starts []*FB, avoid func(*FB) bool, avoidEdge func(a, b *FB) bool) map[*FB]bool {
	seen := map[*FB]bool{}
	var stack []*FB
	for _, s := range starts {
		if avoid != nil && avoid(s) {
			continue
		}
		if !seen[s] {
			seen[s] = true
			stack = append(stack, s)
		}
	}
	for len(stack) > 0 {
		b := stack[len(stack)-1]
		stack = stack[:len(stack)-1]
		for _, s := range b.Succs {
			if seen[s] || (avoid != nil && avoid(s)) || (avoidEdge != nil && avoidEdge(b, s)) {
				continue
			}
			seen[s] = true
			stack = append(stack, s)
		}
	}
	return seen
}

// reachBlocks: the blocks visited after entering block from (the entry when
// nil) on some feasible path, never entering an avoided block or crossing an
// avoided edge.
func (fl *Flat) reachBlocks(from *ssa.BasicBlock, avoidB map[*ssa.BasicBlock]bool, avoidE map[edge]bool) map[*ssa.BasicBlock]bool {
	out := map[*ssa.BasicBlock]bool{}
	if len(fl.Blocks) == 0 {
		return out
	}
	paths, ok := fl.feasiblePaths()
	if !ok {
		var starts []*FB
		if from == nil {
			starts = []*FB{fl.Blocks[0]}
		} else {
			for _, s := range fl.segs[from] {
				if s.Lo == 0 {
					starts = append(starts, s)
				}
			}
		}
		r := fl.reach(starts, func(s *FB) bool { return avoidB[s.B] }, func(a, b *FB) bool {
			return a.Ctx == b.Ctx && avoidE[edge{a.B, b.B}]
		})
		for s := range r {
			out[s.B] = true
		}
		return out
	}
	for _, p := range paths {
		for i, s := range p {
			if !(from == nil && i == 0) && !(from != nil && s.B == from && s.Lo == 0) {
				continue
			}
			for j := i; j < len(p); j++ {
				t := p[j]
				if avoidB[t.B] {
					break
				}
				if j > i && p[j-1].Ctx == t.Ctx && avoidE[edge{p[j-1].B, t.B}] {
					break
				}
				out[t.B] = true
			}
		}
	}
	return out
}

// MustPrecede: on every path of the view from the root entry to any occurrence
// of b, some occurrence of a has executed before.
func (fl *Flat) MustPrecede(a, b ssa.Instruction) bool {
	as, bs := fl.segsOf(a), fl.segsOf(b)
	if len(as) == 0 || len(bs) == 0 || len(fl.Blocks) == 0 {
		return false
	}
	ia, ib := instrIndex(a), instrIndex(b)
	if paths, ok := fl.feasiblePaths(); ok {
		for _, p := range paths {
			pa := instrPositions(p, a, ia)
			for _, j := range instrPositions(p, b, ib) {
				found := false
				for _, i := range pa {
					if i < j || (i == j && ia < ib) {
						found = true
					}
				}
				if !found {
					return false
				}
			}
		}
		return true
	}
	inA := map[*FB]bool{}
	for _, s := range as {
		inA[s] = true
	}
	// occurrences of b in the same segment after a are fine; others must be unreachable once a's segments are removed
	var need []*FB
	for _, s := range bs {
		if inA[s] && ia < ib {
			continue
		}
		need = append(need, s)
	}
	if len(need) == 0 {
		return true
	}
	r := fl.reach([]*FB{fl.Blocks[0]}, func(s *FB) bool { return inA[s] }, nil)
	for _, s := range need {
		if r[s] {
			return false
		}
		// b sits in a segment that also holds a, but before it: reachable iff the segment is
		if inA[s] {
			// the segment was avoided as a whole; check whether it is reachable at all
			r2 := fl.reach([]*FB{fl.Blocks[0]}, nil, nil)
			if r2[s] {
				return false
			}
		}
	}
	return true
}

// CanReach: is there a path in the view from (after) a to b?
func (fl *Flat) CanReach(a, b ssa.Instruction) bool {
	as, bs := fl.segsOf(a), fl.segsOf(b)
	if len(as) == 0 || len(bs) == 0 {
		return false
	}
	ia, ib := instrIndex(a), instrIndex(b)
	if paths, ok := fl.feasiblePaths(); ok {
		for _, p := range paths {
			pb := instrPositions(p, b, ib)
			for _, i := range instrPositions(p, a, ia) {
				for _, j := range pb {
					if i < j || (i == j && ia < ib) {
						return true
					}
				}
			}
		}
		return false
	}
	inB := map[*FB]bool{}
	for _, s := range bs {
		inB[s] = true
	}
	for _, s := range as {
		if inB[s] && ia < ib {
			return true
		}
		r := fl.reach(s.Succs, nil, nil)
		for t := range r {
			if inB[t] {
				return true
			}
		}
	}
	return false
}

// ---------------------------------------------------------------- paths

// TakenIf is a conditional branch on a path together with the arm taken.
type TakenIf struct {
	If  *ssa.If
	Arm bool
	Pos int // index of the segment in the path
}

// A CPath is one entry-to-exit path through the flattened view.
type CPath struct {
	Segs   []*FB
	fl     *Flat
	prefix bool // a path under construction: the active splice of a function is its latest
}

func (p CPath) Instrs() []ssa.Instruction {
	var out []ssa.Instruction
	for _, s := range p.Segs {
		out = append(out, s.Instrs()...)
	}
	return out
}

// Last returns the terminating instruction of the path.
func (p CPath) Last() ssa.Instruction {
	for i := len(p.Segs) - 1; i >= 0; i-- {
		if l := p.Segs[i].Last(); l != nil {
			return l
		}
	}
	return nil
}

// Ifs lists the conditional branches taken along the path, in order.
func (p CPath) Ifs() []TakenIf {
	var out []TakenIf
	for k, s := range p.Segs {
		if k+1 >= len(p.Segs) {
			break
		}
		if ifi, ok := s.Last().(*ssa.If); ok && len(s.Succs) == 2 {
			out = append(out, TakenIf{If: ifi, Arm: p.Segs[k+1] == s.Succs[0], Pos: k})
		}
	}
	return out
}

// Took reports, for an If instruction on the path, which arm was taken
// (true arm = Succs[0]); ok=false when the If is not on the path or is last.
func (p CPath) Took(ifi *ssa.If) (arm bool, ok bool) {
	for _, t := range p.Ifs() {
		if t.If == ifi {
			return t.Arm, true
		}
	}
	return false, false
}

// posOf returns the index of the first segment on the path holding the instruction.
func (p CPath) posOf(in ssa.Instruction) int {
	if in.Block() == nil {
		return -1
	}
	k := -1
	for i, s := range p.Segs {
		if s.B != in.Block() {
			continue
		}
		if k < 0 {
			k = instrIndex(in)
		}
		if s.Lo <= k && k < s.Hi {
			return i
		}
	}
	return -1
}

// PhiValue resolves a phi on this path to the incoming value selected by the
// predecessor actually taken.
func (p CPath) PhiValue(phi *ssa.Phi) ssa.Value {
	for k, s := range p.Segs {
		if s.B == phi.Block() && s.Lo == 0 && k > 0 {
			prev := p.Segs[k-1]
			for i, pr := range s.B.Preds {
				if pr == prev.B && prev.Ctx == s.Ctx {
					return phi.Edges[i]
				}
			}
		}
	}
	return nil
}

// ctxOn returns the splice context of fn on this path when it is unique.
func (p CPath) ctxOn(fn *ssa.Function) *FCtx {
	var found *FCtx
	for _, s := range p.Segs {
		if s.Ctx.Fn == fn && s.Ctx != found {
			if found != nil && !p.prefix {
				return nil
			}
			found = s.Ctx
		}
	}
	return found
}

// returnOf returns the Return instruction through which the path left ctx.
func (p CPath) returnOf(ctx *FCtx) *ssa.Return {
	var last *ssa.Return
	for _, s := range p.Segs {
		if s.Ctx == ctx {
			if r, ok := s.Last().(*ssa.Return); ok {
				last = r
			}
		}
	}
	return last
}

// Occ is an instruction occurrence on a path together with its splice context.
type Occ struct {
	In  ssa.Instruction
	Ctx *FCtx
}

// Upto is the path as far as (and including) its k-th segment: values resolve to
// what they were at that point (the latest execution of a loop-carried phi or
// of a repeated load before it).
func (p CPath) Upto(k int) CPath {
	if k+1 > len(p.Segs) {
		k = len(p.Segs) - 1
	}
	return CPath{Segs: p.Segs[:k+1], fl: p.fl, prefix: true}
}

// OccsPos lists the instruction occurrences with the index of their segment.
func (p CPath) OccsPos() []OccPos {
	var out []OccPos
	for k, s := range p.Segs {
		for _, in := range s.Instrs() {
			out = append(out, OccPos{In: in, Ctx: s.Ctx, Seg: k})
		}
	}
	return out
}

// OccPos is an occurrence with its position on the path.
type OccPos struct {
	In  ssa.Instruction
	Ctx *FCtx
	Seg int
}

// Occs lists the instruction occurrences of the path in order.
func (p CPath) Occs() []Occ {
	var out []Occ
	for _, s := range p.Segs {
		for _, in := range s.Instrs() {
			out = append(out, Occ{In: in, Ctx: s.Ctx})
		}
	}
	return out
}

// ctxOfValue: the context a value lives in when that is unambiguous on the path.
func (p CPath) ctxOfValue(v ssa.Value) *FCtx {
	var fn *ssa.Function
	switch x := v.(type) {
	case *ssa.Parameter:
		fn = x.Parent()
	case *ssa.FreeVar:
		fn = x.Parent()
	case ssa.Instruction:
		fn = x.Parent()
	}
	if fn == nil {
		return nil
	}
	return p.ctxOn(fn)
}

// stepIn resolves one level of v, which lives in context cur (nil: unknown):
// parameters of spliced callees to the argument at the call (in the caller's
// context), results of spliced calls to the returned value (in the callee's
// context), phis and private cells along the path. ok=false when v is
// already resolved.
func (p CPath) stepIn(cur *FCtx, v ssa.Value) (ssa.Value, *FCtx, bool) {
	if cur == nil {
		cur = p.ctxOfValue(v)
	}
	switch x := v.(type) {
	case *ssa.Parameter:
		fn := x.Parent()
		if p.fl == nil || fn == p.fl.Root {
			return v, cur, false
		}
		var ctx *FCtx
		for c2 := cur; c2 != nil; c2 = c2.Parent {
			if c2.Fn == fn {
				ctx = c2
				break
			}
		}
		if ctx == nil {
			ctx = p.ctxOn(fn)
		}
		if ctx == nil || ctx.Call == nil {
			return v, cur, false
		}
		for i, prm := range fn.Params {
			if prm == x {
				if a := ctx.arg(i); a != nil {
					return a, ctx.Parent, true
				}
			}
		}
		return v, cur, false
	case *ssa.Call:
		if p.fl == nil {
			return v, cur, false
		}
		for _, ctx := range p.fl.byCall[x] {
			if cur != nil && ctx.Parent != cur {
				continue
			}
			if r := p.returnOf(ctx); r != nil && len(r.Results) == 1 {
				return r.Results[0], ctx, true
			}
		}
		return v, cur, false
	case *ssa.Extract:
		if call, ok := x.Tuple.(*ssa.Call); ok && p.fl != nil {
			for _, ctx := range p.fl.byCall[call] {
				if cur != nil && ctx.Parent != cur {
					continue
				}
				if r := p.returnOf(ctx); r != nil {
					if x.Index < len(r.Results) {
						return r.Results[x.Index], ctx, true
					}
					if len(r.Results) == 1 {
						// return g(...): the tuple of another call is forwarded
						if inner, isCall := r.Results[0].(*ssa.Call); isCall {
							return &ssa.Extract{Tuple: inner, Index: x.Index}, ctx, true
						}
					}
				}
			}
		}
		return v, cur, false
	case *ssa.Phi:
		// the latest execution of the phi on the path (use Upto to ask about an earlier point)
		for k := len(p.Segs) - 1; k > 0; k-- {
			s := p.Segs[k]
			if s.B == x.Block() && s.Lo == 0 && (cur == nil || s.Ctx == cur) {
				prev := p.Segs[k-1]
				for i, pr := range s.B.Preds {
					if pr == prev.B && prev.Ctx == s.Ctx {
						return x.Edges[i], s.Ctx, true
					}
				}
			}
		}
		return v, cur, false
	}
	if al := privateCell(v); al != nil {
		// the value at the latest execution of the load on the path: the last store to the
		// cell before it. The stores are made by the function that owns the cell; the load
		// is the owner's too, or that of a function literal it deferred (spliced at its exit).
		owner := cur
		if _, viaFree := v.(*ssa.UnOp).X.(*ssa.FreeVar); viaFree {
			owner = nil
			for c2 := cur; c2 != nil; c2 = c2.Parent {
				if c2.Fn == al.Parent() {
					owner = c2
					break
				}
			}
			if owner == nil && cur != nil {
				return v, cur, false
			}
		}
		var last, atLoad ssa.Value
		for _, s := range p.Segs {
			if cur != nil && s.Ctx != cur && s.Ctx != owner {
				continue
			}
			for _, in := range s.Instrs() {
				if in == v.(ssa.Instruction) && (cur == nil || s.Ctx == cur) {
					atLoad = last
				}
				if st, ok := in.(*ssa.Store); ok && st.Addr == ssa.Value(al) && (owner == nil || s.Ctx == owner) {
					last = st.Val
				}
			}
		}
		if atLoad != nil {
			return atLoad, owner, true
		}
	}
	return v, cur, false
}

// step is stepIn without a known context.
func (p CPath) step(v ssa.Value) (ssa.Value, bool) {
	nv, _, ok := p.stepIn(nil, v)
	return nv, ok
}

// ResolveIn follows phis, private cells, spliced parameters and spliced call
// results along the path, starting from a value of context cur.
func (p CPath) ResolveIn(cur *FCtx, v ssa.Value) ssa.Value {
	for i := 0; i < 64; i++ {
		nv, nc, ok := p.stepIn(cur, v)
		if !ok {
			return v
		}
		v, cur = nv, nc
	}
	return v
}

// Resolve is ResolveIn for a value whose context is unambiguous on the path.
func (p CPath) Resolve(v ssa.Value) ssa.Value { return p.ResolveIn(nil, v) }

// AP is apOf made path-aware: the access path is continued through the
// parameters of spliced helpers into the caller's values.
func (p CPath) AP(v ssa.Value) AP { return p.APIn(nil, v) }

// APIn is AP for a value of context cur.
func (p CPath) APIn(cur *FCtx, v ssa.Value) AP {
	ap := apOf(v)
	for i := 0; i < 16; i++ {
		if ap.Root == nil {
			return ap
		}
		nv, nc, ok := p.stepIn(cur, ap.Root)
		if !ok {
			return ap
		}
		inner := apOf(nv)
		// a parameter holding a pointer to a field: the callee's selections continue the caller's
		ap = AP{Root: inner.Root, Sel: append(append([]string{}, inner.Sel...), ap.Sel...)}
		cur = nc
	}
	return ap
}

// enumPaths enumerates entry→exit paths of fn's flattened view, visiting each
// segment at most maxVisits times. It returns false if more than limit paths
// exist (caller must treat that as undecided).
func enumPaths(fn *ssa.Function, maxVisits, limit int, visit func(CPath)) bool {
	return enumPathsIn(flatOf(fn), maxVisits, limit, visit)
}

// enumPathsRaw enumerates the paths of fn alone (no helper is spliced in).
func enumPathsRaw(fn *ssa.Function, maxVisits, limit int, visit func(CPath)) bool {
	return enumPathsIn(rawOf(fn), maxVisits, limit, visit)
}

func enumPathsIn(fl *Flat, maxVisits, limit int, visit func(CPath)) bool {
	if len(fl.Blocks) == 0 {
		return true
	}
	count := 0
	visits := map[*FB]int{}
	var cur []*FB
	ok := true
	// facts decided by the branches taken so far: value → truth (for booleans) or
	// "is nil" (for nil comparisons). Splicing makes a callee's exits and the
	// caller's test of its result parts of one path; without these facts the
	// enumeration would pair a helper's success exit with the caller's error arm.
	truth := map[ssa.Value]bool{}
	isNil := map[ssa.Value]bool{}
	type undo struct {
		m   map[ssa.Value]bool
		k   ssa.Value
		v   bool
		had bool
	}
	var trail []undo
	set := func(m map[ssa.Value]bool, k ssa.Value, v bool) {
		old, had := m[k]
		trail = append(trail, undo{m, k, old, had})
		m[k] = v
	}
	del := func(m map[ssa.Value]bool, k ssa.Value) {
		if old, had := m[k]; had {
			trail = append(trail, undo{m, k, old, true})
			delete(m, k)
		}
	}
	rollback := func(n int) {
		for len(trail) > n {
			u := trail[len(trail)-1]
			trail = trail[:len(trail)-1]
			if u.had {
				u.m[u.k] = u.v
			} else {
				delete(u.m, u.k)
			}
		}
	}
	// decide evaluates a branch condition on the path so far: (value, known).
	// When unknown, rec returns the key under which the arm taken is recorded.
	var decide func(p CPath, c ssa.Value) (val, known bool, m map[ssa.Value]bool, key ssa.Value, flip bool)
	decide = func(p CPath, c ssa.Value) (bool, bool, map[ssa.Value]bool, ssa.Value, bool) {
		neg := false
		for {
			if u, isU := c.(*ssa.UnOp); isU && u.Op == token.NOT {
				neg = !neg
				c = u.X
				continue
			}
			break
		}
		if bo, isB := c.(*ssa.BinOp); isB && (bo.Op == token.EQL || bo.Op == token.NEQ) {
			var side ssa.Value
			if isNilConst(bo.Y) {
				side = bo.X
			} else if isNilConst(bo.X) {
				side = bo.Y
			}
			if side != nil {
				v := p.Resolve(side)
				want := bo.Op == token.EQL // condition true iff v is nil (EQL) / non-nil (NEQ)
				if neg {
					want = !want
				}
				// cond == (isNil(v) == want)
				if isNilConst(v) {
					return want, true, nil, nil, false
				}
				if knownNonNil(v) {
					return !want, true, nil, nil, false
				}
				if n, has := isNil[v]; has {
					return n == want, true, nil, nil, false
				}
				// unknown: taking the true arm means isNil(v) == want
				return false, false, isNil, v, !want
			}
		}
		v := p.Resolve(c)
		if k, isK := v.(*ssa.Const); isK && k.Value != nil && k.Value.Kind() == constant.Bool {
			return constant.BoolVal(k.Value) != neg, true, nil, nil, false
		}
		if t, has := truth[v]; has {
			return t != neg, true, nil, nil, false
		}
		return false, false, truth, v, neg
	}
	var rec func(b *FB)
	rec = func(b *FB) {
		if !ok {
			return
		}
		if visits[b] >= maxVisits {
			return
		}
		mark := len(trail)
		// (re-)entering a segment redefines its values: facts about them lapse
		for _, in := range b.Instrs() {
			if v, isV := in.(ssa.Value); isV {
				del(truth, v)
				del(isNil, v)
			}
		}
		if b.Ctx.Call != nil && b.Lo == 0 && b.B == b.Ctx.Fn.Blocks[0] {
			for _, prm := range b.Ctx.Fn.Params {
				del(truth, prm)
				del(isNil, prm)
			}
		}
		visits[b]++
		cur = append(cur, b)
		switch {
		case len(b.Succs) == 0:
			count++
			if count > limit {
				ok = false
			} else {
				visit(CPath{Segs: append([]*FB{}, cur...), fl: fl})
			}
		case len(b.Succs) == 2:
			if ifi, isIf := b.Last().(*ssa.If); isIf {
				p := CPath{Segs: cur, fl: fl, prefix: true}
				val, known, m, key, flip := decide(p, ifi.Cond)
				for i, s := range b.Succs {
					arm := i == 0
					if known && arm != val {
						continue
					}
					m2 := len(trail)
					if !known && m != nil && key != nil {
						set(m, key, arm != flip)
					}
					rec(s)
					rollback(m2)
				}
				break
			}
			fallthrough
		default:
			for _, s := range b.Succs {
				rec(s)
			}
		}
		cur = cur[:len(cur)-1]
		visits[b]--
		rollback(mark)
	}
	rec(fl.Blocks[0])
	if os.Getenv("BMCVERIF_PATHSTATS") != "" {
		fmt.Fprintf(os.Stderr, "PATHSTATS %s visits=%d limit=%d paths=%d complete=%v\n", fl.Root.String(), maxVisits, limit, count, ok)
	}
	return ok
}

// knownNonNil: the value cannot be nil — a freshly constructed interface or
// object, or the result of an error constructor.
func knownNonNil(v ssa.Value) bool {
	switch x := v.(type) {
	case *ssa.MakeInterface, *ssa.Alloc, *ssa.MakeClosure, *ssa.MakeMap, *ssa.MakeChan, *ssa.MakeSlice, *ssa.FieldAddr, *ssa.IndexAddr, *ssa.Function:
		return true
	case *ssa.Call:
		// constructors of the standard library and of the module's dependencies that are
		// documented to return a usable (non-nil) object: a nil test of their result is dead code
		switch calleeName(&x.Call) {
		case "fmt.Errorf", "errors.New",
			"crypto/hmac.New", "crypto/sha1.New", "crypto/sha256.New", "crypto/md5.New",
			"github.com/google/gopacket.NewSerializeBuffer", "github.com/prometheus/client_golang/prometheus.NewTimer",
			"github.com/cenkalti/backoff/v4.NewExponentialBackOff", "github.com/cenkalti/backoff/v4.WithContext":
			return true
		}
	case *ssa.UnOp:
		if x.Op == token.MUL {
			if g, ok := x.X.(*ssa.Global); ok && flatSentinel != nil && flatSentinel(g) {
				return true
			}
		}
	}
	return false
}

// flatSentinel reports whether a package-level variable is an error sentinel
// (initialised once with errors.New and never reassigned); set by loadRepo.
var flatSentinel func(*ssa.Global) bool

// ---------------------------------------------------------------- graph-level helpers over the view

// flatAP resolves an access path through spliced parameters when the callee
// is spliced exactly once in the view of root.
func flatAP(root *ssa.Function, v ssa.Value) AP {
	fl := flatOf(root)
	ap := apOf(v)
	for i := 0; i < 16; i++ {
		prm, ok := ap.Root.(*ssa.Parameter)
		if !ok || prm.Parent() == fl.Root {
			return ap
		}
		ctxs := fl.byFn[prm.Parent()]
		if len(ctxs) != 1 || ctxs[0].Call == nil {
			return ap
		}
		var arg ssa.Value
		for j, q := range prm.Parent().Params {
			if q == prm && ctxs[0].arg(j) != nil {
				arg = ctxs[0].arg(j)
			}
		}
		if arg == nil {
			return ap
		}
		inner := apOf(arg)
		ap = AP{Root: inner.Root, Sel: append(append([]string{}, inner.Sel...), ap.Sel...)}
	}
	return ap
}

var _ = token.NoPos

// Val resolves a parameter of a helper spliced exactly once in the view to the
// argument at its call (transitively); other values are returned unchanged.
func (fl *Flat) Val(v ssa.Value) ssa.Value {
	for i := 0; i < 16; i++ {
		prm, ok := v.(*ssa.Parameter)
		if !ok || prm.Parent() == fl.Root {
			return v
		}
		ctxs := fl.byFn[prm.Parent()]
		if len(ctxs) != 1 || ctxs[0].Call == nil {
			return v
		}
		var arg ssa.Value
		for j, q := range prm.Parent().Params {
			if q == prm && ctxs[0].arg(j) != nil {
				arg = ctxs[0].arg(j)
			}
		}
		if arg == nil {
			return v
		}
		v = arg
	}
	return v
}

// viewVal is Val in the view of root.
func viewVal(root *ssa.Function, v ssa.Value) ssa.Value { return flatOf(root).Val(v) }

// privateTo reports whether fn's body is part of root's view and fn can only
// run as part of it: every static call of fn in the module lies in a function
// of the view, and fn is never used as a value. Such a helper is, for
// who-may-do-X rules, part of root.
func (c *Ctx) privateTo(root, fn *ssa.Function) bool {
	if fn == root {
		return true
	}
	fl := flatOf(root)
	in := map[*ssa.Function]bool{}
	for _, f := range fl.Funcs() {
		in[f] = true
	}
	if !in[fn] {
		return false
	}
	ok := true
	for _, g := range c.ModFn {
		if g.Blocks == nil {
			continue
		}
		rawInstrs(g, false, func(i ssa.Instruction) {
			if !ok {
				return
			}
			var ops []*ssa.Value
			for _, op := range i.Operands(ops) {
				if op == nil || *op != ssa.Value(fn) {
					continue
				}
				// fn used as an operand: only as the callee of a static call inside the view
				cc := asCall(i)
				if cc == nil || cc.Value != ssa.Value(fn) || !in[g] {
					ok = false
				}
			}
		})
	}
	return ok
}

// Origins expands a value, without regard to paths, into the values it can
// stem from in the view: phi edges, the stores into a private cell, the
// argument bound to a spliced helper's parameter, and the values a spliced
// call can return. Nil constants are dropped when other origins exist (an
// error exit's nil result is not an origin of the success value).
func (fl *Flat) Origins(v ssa.Value) []ssa.Value {
	seen := map[ssa.Value]bool{}
	var out []ssa.Value
	var walk func(x ssa.Value, depth int)
	walk = func(x ssa.Value, depth int) {
		if seen[x] || depth > 24 {
			return
		}
		seen[x] = true
		switch y := x.(type) {
		case *ssa.Phi:
			for _, e := range y.Edges {
				walk(e, depth+1)
			}
			return
		case *ssa.Parameter:
			if y.Parent() != fl.Root {
				n := 0
				for _, ctx := range fl.byFn[y.Parent()] {
					if ctx.Call == nil {
						continue
					}
					for j, q := range y.Parent().Params {
						if q == y && ctx.arg(j) != nil {
							walk(ctx.arg(j), depth+1)
							n++
						}
					}
				}
				if n > 0 {
					return
				}
			}
		case *ssa.Call:
			if ctxs := fl.byCall[y]; len(ctxs) > 0 {
				for _, ret := range returnsOf(ctxs[0].Fn) {
					if len(ret.Results) == 1 {
						walk(ret.Results[0], depth+1)
					}
				}
				return
			}
		case *ssa.Extract:
			if call, ok := y.Tuple.(*ssa.Call); ok {
				if ctxs := fl.byCall[call]; len(ctxs) > 0 {
					for _, ret := range returnsOf(ctxs[0].Fn) {
						if y.Index < len(ret.Results) {
							walk(ret.Results[y.Index], depth+1)
						}
					}
					return
				}
			}
		}
		if al := privateCell(x); al != nil {
			n := 0
			for _, ref := range *al.Referrers() {
				if st, ok := ref.(*ssa.Store); ok {
					walk(st.Val, depth+1)
					n++
				}
			}
			if n > 0 {
				return
			}
		}
		out = append(out, x)
	}
	walk(v, 0)
	var nonNil []ssa.Value
	for _, o := range out {
		if !isNilConst(o) {
			nonNil = append(nonNil, o)
		}
	}
	if len(nonNil) > 0 {
		return nonNil
	}
	return out
}

// APs are the access paths v can denote in the view: apOf continued through
// the origins of its root.
func (fl *Flat) APs(v ssa.Value) []AP {
	var out []AP
	seen := map[string]bool{}
	var walk func(ap AP, depth int)
	walk = func(ap AP, depth int) {
		if ap.Root == nil || depth > 8 {
			out = append(out, ap)
			return
		}
		os := fl.Origins(ap.Root)
		if len(os) == 1 && os[0] == ap.Root {
			k := fmt.Sprintf("%p|%s", ap.Root, ap.SelString())
			if !seen[k] {
				seen[k] = true
				out = append(out, ap)
			}
			return
		}
		for _, o := range os {
			inner := apOf(o)
			walk(AP{Root: inner.Root, Sel: append(append([]string{}, inner.Sel...), ap.Sel...)}, depth+1)
		}
	}
	walk(apOf(v), 0)
	return out
}

func viewOrigins(root *ssa.Function, v ssa.Value) []ssa.Value { return flatOf(root).Origins(v) }
func viewAPs(root *ssa.Function, v ssa.Value) []AP            { return flatOf(root).APs(v) }

// viewLoops: the natural loops of every function of fn's flattened view, nested
// across splices: a helper's loops lie inside the loops that enclose its call,
// and those enclosing loops' block sets include the helper's blocks.
func viewLoops(fn *ssa.Function) []*Loop {
	fl := flatOf(fn)
	per := map[*ssa.Function][]*Loop{}
	var all []*Loop
	for _, f := range fl.Funcs() {
		ls := naturalLoops(f)
		per[f] = ls
		all = append(all, ls...)
	}
	// contexts are created parents first
	for _, ctx := range fl.Ctxs {
		if ctx.Call == nil || ctx.Parent == nil {
			continue
		}
		// only the first splice of a helper defines its place
		if first := fl.byFn[ctx.Fn]; len(first) > 0 && first[0] != ctx {
			continue
		}
		enclosing := innermostLoop(all, ctx.Call.Block())
		if enclosing == nil {
			continue
		}
		for _, l := range per[ctx.Fn] {
			if l.Parent == nil {
				l.Parent = enclosing
			}
		}
		for e := enclosing; e != nil; e = e.Parent {
			for _, b := range ctx.Fn.Blocks {
				e.Blocks[b] = true
			}
		}
	}
	return all
}

// onlySpliced: fn is an unexported helper that only ever runs spliced into
// other functions' views: it has static callers in the module, every use of it
// is such a call, and it is not a root in its own right.
func (c *Ctx) onlySpliced(fn *ssa.Function) bool {
	if fn.Parent() != nil || !unexportedName(fn) || flatOpaque[fn] || fn.Synthetic != "" {
		return false
	}
	calls, other := 0, 0
	for _, g := range c.ModFn {
		if g.Blocks == nil {
			continue
		}
		rawInstrs(g, false, func(i ssa.Instruction) {
			var ops []*ssa.Value
			for _, op := range i.Operands(ops) {
				if op == nil || *op != ssa.Value(fn) {
					continue
				}
				if cc := asCall(i); cc != nil && cc.Value == ssa.Value(fn) {
					if _, isCall := i.(*ssa.Call); isCall {
						calls++
						continue
					}
				}
				other++
			}
		})
	}
	return calls > 0 && other == 0
}

// deferPlan: for each exit (RunDefers) of fn, the defer statements whose operand is a
// parameterless function literal of the module and that were executed on every path to
// that exit, last registered first — the literals' bodies run there. A function in which
// such a defer reaches an exit on some paths only (a conditional defer) gets no plan: its
// defers stay where they are written.
func deferPlan(fn *ssa.Function) map[*ssa.RunDefers][]*ssa.Defer {
	var ds []*ssa.Defer
	var rds []*ssa.RunDefers
	for _, b := range fn.Blocks {
		for _, in := range b.Instrs {
			switch x := in.(type) {
			case *ssa.Defer:
				mc, ok := x.Call.Value.(*ssa.MakeClosure)
				if !ok || len(x.Call.Args) != 0 {
					continue
				}
				f, ok := mc.Fn.(*ssa.Function)
				if !ok || f.Parent() != fn || len(f.Params) != 0 || f.Signature.Results().Len() != 0 || f.Recover != nil {
					continue
				}
				ds = append(ds, x)
			case *ssa.RunDefers:
				rds = append(rds, x)
			}
		}
	}
	out := map[*ssa.RunDefers][]*ssa.Defer{}
	if len(ds) == 0 {
		return out
	}
	dominates := func(d *ssa.Defer, r *ssa.RunDefers) bool {
		if d.Block() == r.Block() {
			return instrIndex(d) < instrIndex(r)
		}
		return d.Block().Dominates(r.Block())
	}
	reaches := func(d *ssa.Defer, r *ssa.RunDefers) bool {
		if d.Block() == r.Block() && instrIndex(d) < instrIndex(r) {
			return true
		}
		seen := map[*ssa.BasicBlock]bool{}
		stack := append([]*ssa.BasicBlock{}, d.Block().Succs...)
		for len(stack) > 0 {
			b := stack[len(stack)-1]
			stack = stack[:len(stack)-1]
			if seen[b] {
				continue
			}
			seen[b] = true
			if b == r.Block() {
				return true
			}
			stack = append(stack, b.Succs...)
		}
		return false
	}
	for _, r := range rds {
		for _, d := range ds {
			if dominates(d, r) {
				out[r] = append(out[r], d)
			} else if reaches(d, r) {
				return map[*ssa.RunDefers][]*ssa.Defer{}
			}
		}
		// a defer inside a loop would register more than once
		for _, d := range out[r] {
			if reachesItself(d.Block()) {
				return map[*ssa.RunDefers][]*ssa.Defer{}
			}
		}
		// registration order is dominance order; they run in reverse
		sort.SliceStable(out[r], func(i, j int) bool {
			a, b := out[r][i], out[r][j]
			if a.Block() == b.Block() {
				return instrIndex(a) > instrIndex(b)
			}
			return b.Block().Dominates(a.Block())
		})
	}
	return out
}

func reachesItself(b *ssa.BasicBlock) bool {
	seen := map[*ssa.BasicBlock]bool{}
	stack := append([]*ssa.BasicBlock{}, b.Succs...)
	for len(stack) > 0 {
		x := stack[len(stack)-1]
		stack = stack[:len(stack)-1]
		if x == b {
			return true
		}
		if seen[x] {
			continue
		}
		seen[x] = true
		stack = append(stack, x.Succs...)
	}
	return false
}

// arg: the value bound to parameter i of the spliced function in this context.
func (ctx *FCtx) arg(i int) ssa.Value {
	if ctx == nil || ctx.Call == nil {
		return nil
	}
	cc := &ctx.Call.Call
	if cc.IsInvoke() {
		if i == 0 {
			return ctx.Recv
		}
		i--
	}
	if i >= 0 && i < len(cc.Args) {
		return cc.Args[i]
	}
	return nil
}

// flatProg is the program (for method lookup); set by loadRepo.
var flatProg *ssa.Program

// devirtualise resolves an interface method call whose receiver is, through the
// parameters of the enclosing spliced helpers, a value converted to the interface from a
// known concrete type: the method of that type is what runs, and the converted value is
// its receiver. (`sendCommand(ctx, s, cmd)` with `s *V2Session` and, inside,
// `x.exchange(...)` on the interface parameter x.)
func devirtualise(call *ssa.Call, ctx *FCtx) (*ssa.Function, ssa.Value) {
	if flatProg == nil || !call.Call.IsInvoke() {
		return nil, nil
	}
	v := call.Call.Value
	cur := ctx
	for i := 0; i < 16; i++ {
		switch x := v.(type) {
		case *ssa.Parameter:
			if cur == nil || cur.Fn != x.Parent() || cur.Call == nil {
				return nil, nil
			}
			idx := -1
			for j, q := range cur.Fn.Params {
				if q == x {
					idx = j
				}
			}
			a := cur.arg(idx)
			if a == nil {
				return nil, nil
			}
			v, cur = a, cur.Parent
			continue
		case *ssa.ChangeInterface:
			v = x.X
			continue
		case *ssa.MakeInterface:
			t := x.X.Type()
			sel := flatProg.MethodSets.MethodSet(t).Lookup(call.Call.Method.Pkg(), call.Call.Method.Name())
			if sel == nil {
				return nil, nil
			}
			return flatProg.MethodValue(sel), x.X
		}
		return nil, nil
	}
	return nil, nil
}

// viewCallee: the function a call of root's view runs — its static callee, or, for an
// interface method call resolved while the view was built, the method spliced there.
func viewCallee(root *ssa.Function, call *ssa.Call) *ssa.Function {
	if f := call.Call.StaticCallee(); f != nil {
		return f
	}
	ctxs := flatOf(root).byCall[call]
	if len(ctxs) == 0 {
		return nil
	}
	f := ctxs[0].Fn
	for _, c := range ctxs[1:] {
		if c.Fn != f {
			return nil
		}
	}
	return f
}

// staticFuncValue: the function literal a function-typed value denotes when that is decided
// by the code alone: the literal itself, a variable assigned once (read directly or as a
// captured variable), or the result of a module function that returns one literal
// (`count := newCounter(); … count()`).
func staticFuncValue(v ssa.Value, depth int) *ssa.Function {
	if depth > 6 {
		return nil
	}
	switch x := v.(type) {
	case *ssa.MakeClosure:
		f, ok := x.Fn.(*ssa.Function)
		if !ok || f.Parent() == nil {
			return nil
		}
		return f
	case *ssa.UnOp:
		if x.Op != token.MUL {
			return nil
		}
		var al *ssa.Alloc
		switch a := x.X.(type) {
		case *ssa.Alloc:
			al = a
		case *ssa.FreeVar:
			al, _ = freeVarBinding(a).(*ssa.Alloc)
		}
		if al == nil {
			return nil
		}
		if sv := singleStore(al); sv != nil {
			return staticFuncValue(sv, depth+1)
		}
	case *ssa.Call:
		g := x.Call.StaticCallee()
		if g == nil || g.Blocks == nil || flatInModule == nil || !flatInModule(g) {
			return nil
		}
		var out *ssa.Function
		n := 0
		for _, b := range g.Blocks {
			if len(b.Instrs) == 0 {
				continue
			}
			if ret, ok := b.Instrs[len(b.Instrs)-1].(*ssa.Return); ok && len(ret.Results) == 1 {
				n++
				out = staticFuncValue(ret.Results[0], depth+1)
			}
		}
		if n == 1 {
			return out
		}
	}
	return nil
}
