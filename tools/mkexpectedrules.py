#!/usr/bin/env python3
"""Regenerates checker/expected_rules.go from the rule lists of a run on the reference tree.

usage: tools/mkexpectedrules.py [evidence-dir]   (default: /verif/evidence)
Run the 20 checks on /repo first; the table lists, per property, every rule the check
declared.  The checker reports `rule-not-reached` (undecided) when a later run ends without
declaring one of them."""
import json, sys, os
ev = sys.argv[1] if len(sys.argv) > 1 else os.path.join(os.path.dirname(__file__), '..', 'evidence')
out = ["// Code generated from the rule lists of a run on the reference tree (tools/mkexpectedrules.py); edit by regenerating.", "", "package main", "",
       "// expectedRules: every rule a property's check declares on the reference tree. A run that",
       "// does not reach one of them (an early return on a shape the check did not anticipate) has",
       "// not decided the property: reported as undecided, never as a pass.",
       "var expectedRules = map[string][]string{"]
for i in range(1, 21):
    p = f"C{i:02d}"
    d = json.load(open(os.path.join(ev, f"{p}.json")))
    names = [r['name'].split('.', 1)[1] for r in d['coverage']['rules']]
    out.append(f'\t"{p}": {{' + ", ".join(f'"{n}"' for n in names) + "},")
out.append("}")
open(os.path.join(os.path.dirname(__file__), '..', 'checker', 'expected_rules.go'), 'w').write("\n".join(out) + "\n")
