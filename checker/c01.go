package main

import (
	"fmt"
	"go/token"
	"go/types"
	"sort"
	"strings"

	"golang.org/x/tools/go/ssa"
)

func init() { register("C01", checkC01) }

// ---------------------------------------------------------------- hash transcripts

// transcriptFuncs finds the module functions that compute a digest over the two RAKP
// messages: they return []byte, take one hash.Hash, and reach RAKP Message 1 and 2 through
// their parameters — either directly (hash.Hash, *ipmi.RAKPMessage1, *ipmi.RAKPMessage2), or
// through one parameter or receiver of a module struct type that holds both messages.
func (c *Ctx) transcriptFuncs() []*ssa.Function {
	var out []*ssa.Function
	for _, fn := range c.LibFuncs() {
		if c.transcriptParams(fn) != nil {
			out = append(out, fn)
		}
	}
	return out
}

// trParams says where a transcript function takes its hash and its messages from.
type trParams struct {
	Hash   int // index in fn.Params
	M1, M2 int // index in fn.Params of the *RAKPMessage1 / *RAKPMessage2 parameter, or -1
	Holder int // index of the struct parameter holding both messages, or -1
	F1, F2 *types.Var
}

func (c *Ctx) transcriptParams(fn *ssa.Function) *trParams {
	m1 := c.Named("pkg/ipmi", "RAKPMessage1")
	m2 := c.Named("pkg/ipmi", "RAKPMessage2")
	if m1 == nil || m2 == nil || fn.Signature.Results().Len() != 1 || fn.Synthetic != "" {
		return nil
	}
	if sl, ok := fn.Signature.Results().At(0).Type().Underlying().(*types.Slice); !ok || !isByte(sl.Elem()) {
		return nil
	}
	tp := &trParams{Hash: -1, M1: -1, M2: -1, Holder: -1}
	for i, p := range fn.Params {
		switch {
		case isHashHash(p.Type()):
			if tp.Hash >= 0 {
				return nil
			}
			tp.Hash = i
		case isPtrTo(p.Type(), m1):
			if tp.M1 >= 0 {
				return nil
			}
			tp.M1 = i
		case isPtrTo(p.Type(), m2):
			if tp.M2 >= 0 {
				return nil
			}
			tp.M2 = i
		default:
			t := p.Type()
			if pt, ok := t.Underlying().(*types.Pointer); ok {
				t = pt.Elem()
			}
			st, ok := t.Underlying().(*types.Struct)
			if !ok || !isStateStructType(t) {
				continue
			}
			var f1, f2 *types.Var
			n1, n2 := 0, 0
			for j := 0; j < st.NumFields(); j++ {
				if isPtrTo(st.Field(j).Type(), m1) {
					f1 = st.Field(j)
					n1++
				}
				if isPtrTo(st.Field(j).Type(), m2) {
					f2 = st.Field(j)
					n2++
				}
			}
			if n1 == 1 && n2 == 1 {
				if tp.Holder >= 0 {
					return nil
				}
				tp.Holder, tp.F1, tp.F2 = i, f1, f2
			}
		}
	}
	if tp.Hash < 0 {
		return nil
	}
	if tp.M1 >= 0 && tp.M2 >= 0 && tp.Holder < 0 {
		return tp
	}
	if tp.M1 < 0 && tp.M2 < 0 && tp.Holder >= 0 {
		return tp
	}
	return nil
}

func isHashHash(t types.Type) bool {
	n, ok := t.(*types.Named)
	return ok && n.Obj().Pkg() != nil && n.Obj().Pkg().Path() == "hash" && n.Obj().Name() == "Hash"
}

func isPtrTo(t types.Type, n *types.Named) bool {
	p, ok := t.(*types.Pointer)
	if !ok || n == nil {
		return false
	}
	nn, ok := p.Elem().(*types.Named)
	return ok && nn.Obj() == n.Obj()
}

// describeHashArg renders the provenance/encoding of one h.Write argument on
// path p (the argument is evaluated at position `at`).
func describeHashArg(fn *ssa.Function, p CPath, idx map[ssa.Instruction]int, at int, arg ssa.Value) string {
	m1, m2 := fn.Params[1], fn.Params[2]
	nameOf := func(base ssa.Value) string {
		switch base {
		case ssa.Value(m1):
			return "m1"
		case ssa.Value(m2):
			return "m2"
		}
		return ""
	}
	fieldOf := func(addr ssa.Value) string {
		fa, ok := addr.(*ssa.FieldAddr)
		if !ok {
			return ""
		}
		b := nameOf(fa.X)
		f := structField(fa.X.Type(), fa.Field)
		if b == "" || f == nil {
			return ""
		}
		return b + "." + f.Name()
	}
	fieldLoad := func(v ssa.Value) string {
		if ld, ok := v.(*ssa.UnOp); ok && ld.Op == token.MUL {
			return fieldOf(ld.X)
		}
		return ""
	}
	arg = p.Resolve(arg)
	switch x := arg.(type) {
	case *ssa.Slice:
		whole := x.Low == nil && x.High == nil
		if !whole {
			return "slice?"
		}
		// array field of a message
		if f := fieldOf(x.X); f != "" {
			return f
		}
		if al, ok := x.X.(*ssa.Alloc); ok {
			at0 := at
			// [4]byte buffer filled by the latest PutUint32 before this write
			var last string
			lastAt := -1
			for _, ref := range *al.Referrers() {
				sl, ok := ref.(*ssa.Slice)
				if !ok {
					continue
				}
				for _, r2 := range *sl.Referrers() {
					call, ok := r2.(*ssa.Call)
					if !ok {
						continue
					}
					k, onPath := idx[call]
					if !onPath || k > at0 || k < lastAt {
						continue
					}
					cn := calleeName(&call.Call)
					switch cn {
					case "(encoding/binary.littleEndian).PutUint32":
						last, lastAt = "le32("+fieldLoad(p.Resolve(call.Call.Args[2]))+")", k
					case "(encoding/binary.bigEndian).PutUint32":
						last, lastAt = "be32("+fieldLoad(p.Resolve(call.Call.Args[2]))+")", k
					case "(encoding/binary.littleEndian).PutUint16":
						last, lastAt = "le16("+fieldLoad(p.Resolve(call.Call.Args[2]))+")", k
					}
				}
			}
			if last != "" {
				return last
			}
			// one-element literal []byte{v}
			var elem ssa.Value
			n := 0
			for _, ref := range *al.Referrers() {
				if ia, ok := ref.(*ssa.IndexAddr); ok {
					for _, r2 := range *ia.Referrers() {
						if st, ok := r2.(*ssa.Store); ok {
							elem = st.Val
							n++
						}
					}
				}
			}
			if n == 1 {
				return describeByte(fn, p, elem)
			}
		}
	case *ssa.Convert:
		// []byte(string field)
		if f := fieldLoad(x.X); f != "" {
			return "bytes(" + f + ")"
		}
	}
	return "?" + arg.String()
}

// describeByte renders a single byte written to the hash.
func describeByte(fn *ssa.Function, p CPath, v ssa.Value) string {
	m1 := fn.Params[1]
	v = p.Resolve(v)
	isLoadOf := func(x ssa.Value, name string) bool {
		return fieldLoadOf(x, m1, name)
	}
	// uint8(len(m1.Username))
	if cv, ok := v.(*ssa.Convert); ok {
		if call, ok := cv.X.(*ssa.Call); ok {
			if b, ok := call.Call.Value.(*ssa.Builtin); ok && b.Name() == "len" && isLoadOf(call.Call.Args[0], "Username") {
				if bt, ok := cv.Type().Underlying().(*types.Basic); ok && bt.Kind() == types.Uint8 {
					return "len8(m1.Username)"
				}
			}
		}
	}
	// role byte
	base := func(x ssa.Value) bool {
		x = p.Resolve(x)
		if bo, ok := x.(*ssa.BinOp); ok && bo.Op == token.AND {
			if k, isK := constInt(bo.Y); isK && k == 0xF {
				x = bo.X
			}
		}
		return x != stripConv(x) && isLoadOf(stripConv(x), "MaxPrivilegeLevel")
	}
	lookup := -1 // value of PrivilegeLevelLookup on this path
	for _, tk := range p.Ifs() {
		ifi := tk.If
		cond := ifi.Cond
		neg := false
		for {
			if u, ok := cond.(*ssa.UnOp); ok && u.Op == token.NOT {
				neg = !neg
				cond = u.X
				continue
			}
			break
		}
		if isLoadOf(cond, "PrivilegeLevelLookup") {
			arm := tk.Arm
			if neg {
				arm = !arm
			}
			if arm {
				lookup = 1
			} else {
				lookup = 0
			}
		}
	}
	if base(v) && lookup == 1 {
		return "role(level,lookup)"
	}
	if bo, ok := v.(*ssa.BinOp); ok && bo.Op == token.OR && lookup == 0 {
		if k, isK := constInt(bo.Y); isK && k == 16 && base(bo.X) {
			return "role(level,name-only|0x10)"
		}
	}
	return "?byte:" + v.String()
}

// transcriptOf extracts, per path, the sequence of hash inputs; returns the
// set of distinct transcripts (role arms normalised) and a shape verdict.
//
// What is hashed is decided on bit provenance (engine E2): the hash input is an
// append-only byte stream and every Write contributes its bytes, each with the
// message field bits it carries — whichever helpers, buffers or encodings the
// code uses to get them there. That the whole digest is taken after the last
// write, the hash is reset and the digest returned is decided on the paths of
// the flattened view.
func transcriptOf(c *Ctx, fn *ssa.Function) (seqs map[string]bool, shape string) {
	seqs = map[string]bool{}
	tp := c.transcriptParams(fn)
	if tp == nil {
		return seqs, "not a transcript function"
	}
	h := fn.Params[tp.Hash]
	// the requested privilege level occupies four bits on the wire (IPMI defines levels 0–5);
	// the two messages are named by their type, however the function gets hold of them
	evs, why := extractEventsNamed(c, fn, map[string]int{"m1.MaxPrivilegeLevel": 4}, nil, rakpTypeNames(c))
	if why != "" {
		return seqs, why
	}
	roleKinds := map[string]bool{}
	for _, le := range evs {
		var items []string
		for _, ev := range le.Events {
			if ev.Kind == "hash" {
				items = append(items, ev.Val)
			}
		}
		parts := describeHashItems(items, le, roleKinds)
		seqs[strings.Join(parts, ",")] = true
	}
	complete := enumPaths(fn, 1, 4096, func(p CPath) {
		idx := pathIndex(p)
		var sum, reset *ssa.Call
		lastWrite := -1
		for _, in := range p.Instrs() {
			call, ok := in.(*ssa.Call)
			if !ok || !call.Call.IsInvoke() || p.Resolve(call.Call.Value) != ssa.Value(h) {
				continue
			}
			switch call.Call.Method.Name() {
			case "Write":
				lastWrite = idx[call]
			case "Sum":
				if isNilConst(call.Call.Args[0]) && sum == nil {
					sum = call
				} else {
					shape = "Sum not Sum(nil) or repeated"
				}
			case "Reset":
				reset = call
			case "Size", "BlockSize":
			default:
				shape = "unexpected hash method " + call.Call.Method.Name()
			}
		}
		ret, _ := p.Last().(*ssa.Return)
		if sum == nil || reset == nil || idx[sum] > idx[reset] || idx[sum] < lastWrite {
			shape = "missing Sum(nil) after the last write, followed by Reset"
		} else if ret == nil || ret.Parent() != fn || p.Resolve(ret.Results[0]) != ssa.Value(sum) {
			shape = "does not return the whole Sum(nil)"
		}
	})
	if !complete {
		shape = "too many paths"
	}
	usesRole := false
	for s := range seqs {
		if strings.Contains(s, "role") {
			usesRole = true
		}
	}
	if usesRole && !(roleKinds["role(level,lookup)"] && roleKinds["role(level,name-only|0x10)"] && len(roleKinds) == 2) {
		shape = "role byte is not level | (name-only ? 0x10 : 0)"
	}
	return seqs, shape
}

// describeHashItems turns the byte-level hash input of one digest computation (E2 hash
// events, in order) into the specification's vocabulary: le32(field), whole array fields,
// the role byte (by the path's decision on PrivilegeLevelLookup), len8 and bytes of the
// username. Anything else is kept verbatim, prefixed "?".
func describeHashItems(items []string, le layoutEvents, roleKinds map[string]bool) []string {
	var parts []string
	for i := 0; i < len(items); i++ {
		it := items[i]
		// four consecutive bytes of one 32-bit field, least significant first
		if strings.HasSuffix(it, "[7:0]") && i+3 < len(items) {
			base := strings.TrimSuffix(it, "[7:0]")
			if items[i+1] == base+"[15:8]" && items[i+2] == base+"[23:16]" && items[i+3] == base+"[31:24]" {
				parts = append(parts, "le32("+strings.TrimPrefix(base, "f:")+")")
				i += 3
				continue
			}
		}
		lookup, decided := le.Bools["m1.PrivilegeLevelLookup"]
		switch {
		case it == "f:m1.MaxPrivilegeLevel[3:0]" && decided && lookup:
			roleKinds["role(level,lookup)"] = true
			parts = append(parts, "role")
		case it == "{0b1,f:m1.MaxPrivilegeLevel[3:0]}" && decided && !lookup:
			roleKinds["role(level,name-only|0x10)"] = true
			parts = append(parts, "role")
		case strings.HasPrefix(it, "copy(f:") && strings.HasSuffix(it, "[0:16])"):
			parts = append(parts, strings.TrimSuffix(strings.TrimPrefix(it, "copy(f:"), "[0:16])"))
		case it == "lin(wrap8(len(f:m1.Username)))" || it == "lin(len(f:m1.Username))":
			parts = append(parts, "len8(m1.Username)")
		case it == "copy(f:m1.Username)":
			parts = append(parts, "bytes(m1.Username)")
		default:
			parts = append(parts, "?"+it)
		}
	}
	return parts
}

var specTranscripts = map[string]string{
	"rakp2": "le32(m2.RemoteConsoleSessionID),le32(m1.ManagedSystemSessionID),m1.RemoteConsoleRandom,m2.ManagedSystemRandom,m2.ManagedSystemGUID,role,len8(m1.Username),bytes(m1.Username)",
	"rakp3": "m2.ManagedSystemRandom,le32(m2.RemoteConsoleSessionID),role,len8(m1.Username),bytes(m1.Username)",
	"sik":   "m1.RemoteConsoleRandom,m2.ManagedSystemRandom,role,len8(m1.Username),bytes(m1.Username)",
	"rakp4": "m1.RemoteConsoleRandom,le32(m1.ManagedSystemSessionID),m2.ManagedSystemGUID",
}

// classifyTranscript returns which specification transcript fn computes ("" if none).
func classifyTranscript(c *Ctx, fn *ssa.Function) (kind string, got string, shape string) {
	seqs, shape := transcriptOf(c, fn)
	if len(seqs) != 1 {
		var all []string
		for s := range seqs {
			all = append(all, s)
		}
		return "", strings.Join(all, " | "), "hash inputs differ between paths"
	}
	for s := range seqs {
		got = s
	}
	for k, want := range specTranscripts {
		if got == want {
			return k, got, shape
		}
	}
	return "", got, shape
}

func checkC01(c *Ctx, r *Report) {
	r.Explain = "Structure of the RMCP+ key schedule: (1) the hash-input transcript of each of the four RAKP computations, extracted by engine E2 as the byte stream written into the hash on every path (each byte with the message-field bits it carries, whichever helpers and buffers feed it), equals the sequence in IPMI v2.0 §13.28/13.31/13.32 and each returns the whole Sum(nil); (2) the role byte in all of them is level | (name-only ? 0x10 : 0), agreeing with byte 24 of RAKP Message 1; (3) key wiring in the session constructor — which secret keys which HMAC, which algorithm tables map to which hash constructors and truncation lengths, K_n = HMAC_SIK(20 × byte n), AES key = first 16 bytes of K2; (4) order and data flow of the handshake driver. Decides what is hashed, with which key, in which order; the HMAC/AES primitives are trusted."
	r.NotDecided = []string{"that HMAC-SHA1/MD5/SHA256 and AES compute their standard functions (Go standard library)", "that a handshake against a real BMC succeeds (needs a peer)", "value-level equality of keys for all inputs"}
	r.Trusted = []string{"go/types, go/ssa (x/tools v0.29.0)", "crypto/hmac, crypto/sha1, crypto/sha256, crypto/md5, crypto/aes", "transcripts transcribed from IPMI v2.0 §13.20–13.23, 13.28, 13.31, 13.32"}

	// ---- (1)+(2) transcripts
	r.Rule("hash-transcripts", "each RAKP computation hashes exactly the specified fields in the specified order and encoding, on every path, and returns the whole digest", 4)
	found := map[string]*trSite{}
	if m0 := c.findCtor(); m0 != nil && m0.M1 != nil && m0.M2 != nil {
		sites, extra := c.transcriptSites(m0)
		for _, k := range []string{"rakp2", "rakp3", "sik", "rakp4"} {
			st := sites[k]
			if st == nil {
				r.Bad("missing "+k+" transcript", token.NoPos, "nothing computes the "+k+" hash input sequence "+specTranscripts[k]+" (neither a function of the transcript signature nor the session constructor itself)")
				continue
			}
			where := c.FnName(m0.Fn) + " (written out)"
			if st.Fn != nil {
				where = c.FnName(st.Fn)
				r.Fn(where)
			}
			if st.Shape != "" {
				r.Bad(where+"|transcript", st.Pos, k+": "+st.Shape)
				continue
			}
			found[k] = st
			r.OK(where+"|transcript", st.Pos, k+" = "+st.Got)
		}
		for _, e := range extra {
			r.Bad(e[:strings.Index(e+":", ":")]+"|transcript", token.NoPos, e)
		}
	} else {
		r.Lost("session constructor with RAKP1 and RAKP2 values")
	}

	// role byte agreement with RAKP Message 1 byte 24
	checkRoleByteWire(c, r)
	// usernames of exactly 16 bytes are sent, longer ones refused (rule shared with C06)
	checkUsernameGuard(c, r)
	// "its response is returned to the caller": the confidentiality pad of a reply of any length is
	// found where the BMC put it (rule shared with C04)
	checkPadValidated(c, r)

	// ---- (3) key wiring
	checkKeyWiring(c, r, found)

	// ---- (4) driver order
	checkDriverOrder(c, r, found)

	// ---- (5) "every command subsequently sent on that session passes the BMC's integrity check
	// and decryption": the statements of C03 (every in-session packet is built, signed, padded and
	// encrypted as specified, from clean hash state) and C09 (session sequence numbers belong to
	// the session, start at 1 and advance by one per datagram — a BMC's sliding window drops
	// anything else) are clauses of this property; their rule sets are run as part of it
	r.shareWhole(c, checkC03)
	r.shareWhole(c, checkC09)

	// ---- (6) what is hashed is what was exchanged: the fields of RAKP Message 2 that go into the
	// transcripts (BMC random, GUID, echoed session ID) are the wire bytes in wire order (layout
	// shared with C07)
	r.Rule("rakp2-fields-on-the-wire", "RAKP Message 2 is decoded into the specified bytes, in wire order", 4)
	compareSpec(c, r, specsFor(responseSpecs, "RAKPMessage2", "OpenSessionRsp", "RAKPMessage4"), "field", nil)
}

func keysOf2(m map[[2]string]bool) [][2]string {
	var out [][2]string
	for k := range m {
		out = append(out, k)
	}
	sort.Slice(out, func(i, j int) bool { return out[i][0]+out[i][1] < out[j][0]+out[j][1] })
	return out
}

func ifs(b bool, s string) string {
	if b {
		return s
	}
	return ""
}

// roleByteWire decides byte 24 of RAKPMessage1.SerializeTo on bit provenance
// (engine E2): on every success path the byte is the low nibble of
// MaxPrivilegeLevel with bit 4 set exactly when PrivilegeLevelLookup is false,
// however the serialiser is factored into helpers.
func roleByteWire(c *Ctx, fn *ssa.Function) (bool, string) {
	evs, why := extractEvents(c, fn, nil)
	if why != "" {
		return false, why
	}
	n := 0
	for _, le := range evs {
		if !le.OK {
			continue
		}
		got, has := le.lastWrites("wire")["pre[24]"]
		if !has {
			return false, "a success path does not write byte 24"
		}
		lookup, decided := le.Bools["PrivilegeLevelLookup"]
		if !decided {
			return false, "byte 24 is " + got + " on a path that does not depend on PrivilegeLevelLookup"
		}
		want := "{0b1,f:MaxPrivilegeLevel[3:0]}"
		if lookup {
			want = "f:MaxPrivilegeLevel[3:0]"
		}
		if got != want {
			return false, fmt.Sprintf("byte 24 is %s when PrivilegeLevelLookup=%v, want %s", got, lookup, want)
		}
		n++
	}
	if n == 0 {
		return false, "no success path"
	}
	return true, ""
}

// ---------------------------------------------------------------- key wiring

func hashCtorName(v *GVal) string {
	if v == nil {
		return ""
	}
	if v.Kind == "func" {
		return v.Func.String()
	}
	return v.String()
}

func checkKeyWiring(c *Ctx, r *Report, tr map[string]*trSite) {
	m := c.findCtor()
	r.Rule("key-wiring", "AuthCode HMAC keyed by the password; SIK HMAC keyed by KG, or the password exactly when KG is empty; ICV and K_n HMACs keyed by the SIK; integrity hash keyed by K(1), cipher by the first 16 bytes of K(2)", 6)
	if m == nil || m.Opts == nil || m.M1 == nil || m.M2 == nil {
		r.Lost("session constructor with opts, RAKP1 and RAKP2 values")
		return
	}
	name := c.FnName(m.Fn)
	r.Fn(name)
	optField := func(v ssa.Value, field string) bool {
		ld, ok := v.(*ssa.UnOp)
		if !ok || ld.Op != token.MUL {
			return false
		}
		a := apOf(ld.X)
		if a.Root == ssa.Value(m.Opts) && a.SelString() == field {
			return true
		}
		root, last := canonRootSel(ld.X)
		return root == ssa.Value(m.Opts) && last == field
	}
	// hashFrom: the keyed hash a value denotes — made by a method of the algorithm's parameter
	// set from a key, or by hmac.New(hash constructor, key) written out
	hashFrom := func(v ssa.Value) (method string, key ssa.Value) {
		call, ok := v.(*ssa.Call)
		if !ok {
			return "", nil
		}
		if calleeName(&call.Call) == "crypto/hmac.New" && len(call.Call.Args) == 2 {
			return "hmac.New", call.Call.Args[1]
		}
		f := call.Call.StaticCallee()
		if f == nil || f.Signature.Recv() == nil {
			return "", nil
		}
		args := callArgs(&call.Call)
		if len(args) != 1 {
			return "", nil
		}
		return f.Name(), args[0]
	}
	s2, s3, ss, s4 := tr["rakp2"], tr["rakp3"], tr["sik"], tr["rakp4"]
	if s2 == nil || s3 == nil || ss == nil || s4 == nil || s2.Hash == nil || s3.Hash == nil || ss.Hash == nil || s4.Hash == nil {
		r.Bad(name+"|transcript calls", m.Fn.Pos(), "the constructor does not make all four RAKP computations")
		return
	}
	c.checkStateReads(r, m, name, nil)
	for _, st := range []*trSite{s2, s3, ss, s4} {
		r.Check(st.OverM1M2, name+"|"+st.Kind+" messages", st.Pos, "computed over the RAKP1 sent and the RAKP2 received", "computation is not over the RAKP Message 1 that was sent and the RAKP Message 2 that was received")
	}
	cs := ss.Result
	// AuthCode hash: same hash object for RAKP2 and RAKP3, keyed by opts.Password
	_, key2 := hashFrom(s2.Hash)
	r.Check(key2 != nil && optField(key2, "Password") && s3.Hash == s2.Hash, name+"|authcode key", s2.Pos, "RAKP2/RAKP3 AuthCode HMAC keyed by opts.Password", "the RAKP2/RAKP3 AuthCode HMAC is not keyed by the caller's password")
	// SIK hash key: phi(opts.KG, opts.Password) selected by len(KG)==0
	_, keyS := hashFrom(ss.Hash)
	// decided per feasible success path of the flattened view: the key resolves to opts.KG on
	// paths where len(opts.KG) was found non-zero and to opts.Password where it was found zero
	okS := true
	whyS := ""
	nS := 0
	optFieldOn := func(p CPath, v ssa.Value) string {
		ld, ok := p.Resolve(v).(*ssa.UnOp)
		if !ok || ld.Op != token.MUL {
			return ""
		}
		a := p.AP(ld.X)
		if a.Root != ssa.Value(m.Opts) {
			if root, last := canonRootSel(ld.X); root == ssa.Value(m.Opts) {
				return last
			}
			return ""
		}
		return a.SelString()
	}
	completeS := m.successPaths(func(p CPath) {
		nS++
		which := optFieldOn(p, keyS)
		if which != "KG" && which != "Password" {
			okS, whyS = false, "SIK HMAC key is not KG-or-password"
			return
		}
		// the KG-length test on this path
		empty, tested := false, false
		for _, tk := range p.Ifs() {
			op, x, y, neg, isBin := condOf(tk.If.Cond)
			if !isBin {
				continue
			}
			call, isCall := p.Resolve(x).(*ssa.Call)
			k, isK := constInt(y)
			if !isCall || !isK || k != 0 {
				continue
			}
			if b, ok := call.Call.Value.(*ssa.Builtin); !ok || b.Name() != "len" || optFieldOn(p, call.Call.Args[0]) != "KG" {
				continue
			}
			arm := tk.Arm != neg
			switch op {
			case token.EQL:
				empty, tested = arm, true
			case token.NEQ, token.GTR:
				empty, tested = !arm, true
			}
		}
		switch {
		case !tested:
			okS, whyS = false, "SIK HMAC key does not depend on whether KG is set"
		case empty != (which == "Password"):
			okS, whyS = false, "password is used as the SIK key on the wrong arm of the KG-length test"
		}
	})
	if !completeS || nS == 0 {
		okS, whyS = false, "could not enumerate the constructor's success paths"
	}
	r.Check(okS, name+"|SIK key", ss.Pos, "SIK HMAC keyed by KG, or by the password exactly when len(KG)==0", whyS)
	// ICV hash keyed by the SIK value
	_, key4 := hashFrom(s4.Hash)
	r.Check(key4 != nil && canonEq(key4, cs), name+"|ICV key", s4.Pos, "RAKP4 ICV HMAC keyed by the computed SIK", "the RAKP4 ICV HMAC is not keyed by the SIK computed from this exchange")
	// K generator keyed by the SIK; session.SIK field = sik; generator stored in session
	lit, _, _ := complitFieldsAlloc(m.Lit)
	var kgen ssa.Value
	if v, ok := lit["AdditionalKeyMaterialGenerator"]; ok {
		kgen = v
	}
	okK := false
	if kgen != nil {
		// MakeInterface(load of complit{hash: hashGenerator.K(sik)})
		inner := stripConv(kgen)
		if f, _, ok := complitFields(inner); ok {
			if hv, has := f[fAkmHash]; has {
				if _, key := hashFrom(canonValue(hv)); key != nil && canonEq(key, cs) {
					okK = true
				}
			}
		}
	}
	r.Check(okK, name+"|K_n key", m.Lit.Pos(), "additional key material HMAC keyed by the SIK and stored in the session", "the K_n generator stored in the session is not an HMAC keyed by the computed SIK")
	r.Check(lit["SIK"] != nil && canonEq(lit["SIK"], cs), name+"|session.SIK", m.Lit.Pos(), "session SIK field is the computed SIK", "the session's SIK field is not the SIK computed from this exchange")

	// same hash family for all HMACs: all from methods of one params object selected by the response's authentication algorithm
	checkAlgorithmTables(c, r)
}

// complitFieldsAlloc reads the field stores of a composite literal cell directly.
func complitFieldsAlloc(al *ssa.Alloc) (map[string]ssa.Value, *ssa.Alloc, bool) {
	out := map[string]ssa.Value{}
	var walk func(addr ssa.Value)
	walk = func(addr ssa.Value) {
		for _, ref := range *addr.Referrers() {
			switch x := ref.(type) {
			case *ssa.FieldAddr:
				if x.X == addr {
					walk(x)
				}
			case *ssa.Store:
				if x.Addr == addr && addr != ssa.Value(al) {
					out[apOf(addr).SelString()] = x.Val
				}
			}
		}
	}
	walk(al)
	return out, al, true
}

// switchArms maps, for a function that switches on its first parameter
// against constants and returns composite values, each constant to the return
// reached when the parameter equals it.
func switchArms(fn *ssa.Function) map[int64]*ssa.Return {
	out := map[int64]*ssa.Return{}
	if fn == nil || len(fn.Params) == 0 {
		return out
	}
	p := fn.Params[0]
	for _, ifi := range ifsOf(fn) {
		op, x, y, neg, isBin := condOf(ifi.Cond)
		if !isBin || op != token.EQL || neg || x != ssa.Value(p) {
			continue
		}
		k, isK := constInt(y)
		if !isK {
			continue
		}
		b := ifi.Block().Succs[0]
		for len(b.Succs) == 1 {
			b = b.Succs[0]
		}
		if ret, ok := b.Instrs[len(b.Instrs)-1].(*ssa.Return); ok {
			out[k] = ret
		}
	}
	return out
}

// algorithmCtors finds the three constructors by the type of their first
// parameter (authentication, integrity, confidentiality algorithm).
func (c *Ctx) algorithmCtors() (authFn, integFn, ciphFn *ssa.Function) {
	aa := c.Named("pkg/ipmi", "AuthenticationAlgorithm")
	ia := c.Named("pkg/ipmi", "IntegrityAlgorithm")
	ca := c.Named("pkg/ipmi", "ConfidentialityAlgorithm")
	for _, fn := range c.LibFuncs() {
		if fn.Signature.Recv() != nil || len(fn.Params) < 1 || fn.Pkg == nil || !c.libFn(fn) || fn.Signature.Results().Len() != 2 {
			continue
		}
		t, _ := fn.Params[0].Type().(*types.Named)
		if t == nil {
			continue
		}
		switch {
		case aa != nil && t.Obj() == aa.Obj():
			authFn = fn
		case ia != nil && t.Obj() == ia.Obj():
			integFn = fn
		case ca != nil && t.Obj() == ca.Obj():
			ciphFn = fn
		}
	}
	return
}

// authPairs lists, over every feasible path of the authentication parameter
// constructor that returns a usable object, the (hash constructor, ICV length)
// it holds. ok=false if some pair could not be read.
func (c *Ctx) authPairs() (pairs [][2]string, ok bool) {
	authFn, _, _ := c.algorithmCtors()
	if authFn == nil {
		return nil, false
	}
	hashField, lenField := authParamFields(authFn)
	ok = true
	seen := map[[2]string]bool{}
	complete := enumPaths(authFn, 1, 8192, func(p CPath) {
		ret, isRet := p.Last().(*ssa.Return)
		if !isRet || ret.Parent() != authFn {
			return
		}
		r0 := p.Resolve(ret.Results[0])
		if isNilConst(r0) || !isNilConst(p.Resolve(ret.Results[1])) {
			return
		}
		f := p.objFields(p.objOf(r0))
		pr := [2]string{"?", "0"}
		if fnv, isF := stripConv(f[hashField]).(*ssa.Function); isF {
			pr[0] = fnv.String()
		} else {
			ok = false
		}
		if v, has := f[lenField]; has {
			if n, isN := constInt(v); isN {
				pr[1] = fmt.Sprint(n)
			} else {
				ok = false
			}
		}
		if !seen[pr] {
			seen[pr] = true
			pairs = append(pairs, pr)
		}
	})
	return pairs, ok && complete && len(pairs) > 0
}

// authParamFields: the names of the two fields of the authentication
// parameter object the constructor returns — the hash constructor (the field
// of type func() hash.Hash) and the ICV length (the integer field) — found by
// type so that renaming them changes nothing.
func authParamFields(authFn *ssa.Function) (hashField, lenField string) {
	hashField, lenField = "hashGen", "icvLength"
	pt, ok := authFn.Signature.Results().At(0).Type().(*types.Pointer)
	if !ok {
		return
	}
	st, ok := pt.Elem().Underlying().(*types.Struct)
	if !ok {
		return
	}
	var hs, ls []string
	for i := 0; i < st.NumFields(); i++ {
		f := st.Field(i)
		if types.TypeString(f.Type(), nil) == "func() hash.Hash" {
			hs = append(hs, f.Name())
		}
		if b, ok := f.Type().Underlying().(*types.Basic); ok && b.Info()&types.IsInteger != 0 {
			ls = append(ls, f.Name())
		}
	}
	if len(hs) == 1 {
		hashField = hs[0]
	}
	if len(ls) == 1 {
		lenField = ls[0]
	}
	return
}

func checkAlgorithmTables(c *Ctx, r *Report) {
	r.Rule("algorithm-tables", "authentication algorithm → (hash constructor, ICV truncation) and integrity algorithm → (hash constructor, truncation) tables equal IPMI v2.0 tables 13-17/13-18; truncatedHash.Sum returns len(b)+length bytes; K_n hashes 20 copies of byte n", 8)
	authFn, integFn, ciphFn := c.algorithmCtors()
	if authFn == nil || integFn == nil || ciphFn == nil {
		r.Lost("algorithm constructor functions (by parameter type)")
		return
	}
	r.Fn(c.FnName(authFn))
	r.Fn(c.FnName(integFn))
	r.Fn(c.FnName(ciphFn))
	hashField, lenField := authParamFields(authFn)
	// The three tables are read per feasible path of the flattened view: which constant the
	// algorithm parameter compared equal with on the path, and what the returned object's
	// fields hold at the return — literal, field assignments and helper constructors alike.
	// authentication: 1→(sha1.New,12) 2→(md5.New,0) 3→(sha256.New,16)
	wantAuth := map[int64][2]string{1: {"crypto/sha1.New", "12"}, 2: {"crypto/md5.New", "0"}, 3: {"crypto/sha256.New", "16"}}
	gotAuth := map[int64]map[[2]string]bool{}
	refusedOK := true
	var refusedPos token.Pos
	completeA := enumPaths(authFn, 1, 8192, func(p CPath) {
		ret, isRet := p.Last().(*ssa.Return)
		if !isRet || ret.Parent() != authFn {
			return
		}
		k, has := p.caseOf(authFn.Params[0])
		r0 := p.Resolve(ret.Results[0])
		usable := !isNilConst(r0) && isNilConst(p.Resolve(ret.Results[1]))
		if _, listed := wantAuth[k]; !has || !listed {
			if usable {
				refusedOK, refusedPos = false, ret.Pos()
			}
			return
		}
		got := [2]string{"?", "0"}
		f := p.objFields(p.objOf(r0))
		if v, ok := f[hashField]; ok {
			if fnv, ok := stripConv(v).(*ssa.Function); ok {
				got[0] = fnv.String()
			}
		}
		if v, ok := f[lenField]; ok {
			if n, isN := constInt(v); isN {
				got[1] = fmt.Sprint(n)
			} else {
				got[1] = "?"
			}
		}
		if !usable {
			got = [2]string{"refused", ""}
		}
		if gotAuth[k] == nil {
			gotAuth[k] = map[[2]string]bool{}
		}
		gotAuth[k][got] = true
	})
	if !completeA {
		r.Unk(c.FnName(authFn)+"|paths", authFn.Pos(), "too many paths")
	}
	for k, w := range wantAuth {
		ok := len(gotAuth[k]) == 1 && gotAuth[k][w]
		r.Check(ok, c.FnName(authFn)+fmt.Sprintf("|algorithm %d", k), authFn.Pos(), fmt.Sprintf("%v", w), fmt.Sprintf("authentication algorithm %d maps to %v, specification says %v", k, keysOf2(gotAuth[k]), w))
	}
	// any other constant must not return a usable generator
	r.Check(refusedOK, c.FnName(authFn)+"|other algorithms", refusedPos, "refused", "an authentication algorithm outside the specification table yields a generator")
	// ICV(): truncation applied iff icvLength != 0; K/SIK/AuthCode = hmac.New(hashGen, key)
	var paramsT *types.Named
	if pt, ok := authFn.Signature.Results().At(0).Type().(*types.Pointer); ok {
		paramsT, _ = pt.Elem().(*types.Named)
	}
	// every method of the parameter set that makes a keyed hash from a key (AuthCode, SIK, K —
	// however many of them there are; a caller may also write hmac.New(hashGen, key) itself,
	// which the key-wiring rule reads the same way)
	var makers []string
	if paramsT != nil {
		for i := 0; i < paramsT.NumMethods(); i++ {
			m := paramsT.Method(i)
			sig := m.Type().(*types.Signature)
			if sig.Params().Len() == 1 && sig.Results().Len() == 1 && isHashHash(sig.Results().At(0).Type()) {
				if mf := c.Prog.FuncValue(m); mf != nil && mf.Blocks != nil {
					usesNew := false
					rawInstrs(mf, false, func(in ssa.Instruction) {
						if call, ok := in.(*ssa.Call); ok && calleeName(&call.Call) == "crypto/hmac.New" {
							usesNew = true
						}
					})
					if usesNew || m.Name() == "K" || m.Name() == "SIK" || m.Name() == "AuthCode" {
						makers = append(makers, m.Name())
					}
				}
			}
		}
		sort.Strings(makers)
	}
	if len(makers) == 0 {
		r.Bad("authenticationAlgorithmParams|keyed hash makers", authFn.Pos(), "the parameter set has no method making an HMAC over the algorithm's hash")
	}
	for _, mn := range makers {
		okm := false
		if paramsT != nil {
			if mf := c.MethodOf(paramsT, mn); mf != nil && mf.Blocks != nil {
				r.Fn(c.FnName(mf))
				allInstrs(mf, false, func(in ssa.Instruction) {
					if call, ok := in.(*ssa.Call); ok && calleeName(&call.Call) == "crypto/hmac.New" {
						if ld, ok := call.Call.Args[0].(*ssa.UnOp); ok && apOf(ld.X).SelString() == hashField && viewVal(mf, call.Call.Args[1]) == ssa.Value(mf.Params[1]) {
							okm = true
						}
					}
				})
			}
		}
		r.Check(okm, "authenticationAlgorithmParams."+mn+"|hmac.New(hashGen,key)", authFn.Pos(), "HMAC over the algorithm's hash keyed by the argument", "method "+mn+" does not return hmac.New(hashGen, key)")
	}
	// ICV(sik): the SIK-keyed HMAC, whole when the algorithm's ICV length is 0 (MD5-128) and
	// truncated to exactly that length otherwise — decided per path of the method
	if paramsT != nil {
		if icv := c.MethodOf(paramsT, "ICV"); icv != nil && icv.Blocks != nil {
			r.Fn(c.FnName(icv))
			okICV, nICV, whyICV := true, 0, ""
			isK := func(p CPath, v ssa.Value) bool {
				for i := 0; i < 6; i++ {
					v = p.Resolve(v)
					switch x := v.(type) {
					case *ssa.MakeInterface:
						v = x.X
						continue
					case *ssa.ChangeInterface:
						v = x.X
						continue
					}
					break
				}
				call, ok := v.(*ssa.Call)
				if !ok {
					return false
				}
				f := call.Call.StaticCallee()
				return f != nil && f.Name() == "K" && len(call.Call.Args) == 2 && p.Resolve(call.Call.Args[0]) == ssa.Value(icv.Params[0]) && p.Resolve(call.Call.Args[1]) == ssa.Value(icv.Params[1])
			}
			completeV := enumPaths(icv, 1, 1024, func(p CPath) {
				ret, isRet := p.Last().(*ssa.Return)
				if !isRet || ret.Parent() != icv {
					return
				}
				nICV++
				zero, decided := false, false
				for _, rel := range p.relations() {
					for _, pr := range [][2]ssa.Value{{rel.X, rel.Y}, {rel.Y, rel.X}} {
						if !p.loadOfField(pr[0], icv.Params[0], lenField) {
							continue
						}
						if k, isC := constInt(p.Resolve(pr[1])); isC && k == 0 {
							switch rel.Op {
							case token.EQL:
								zero, decided = true, true
							case token.NEQ, token.GTR:
								zero, decided = false, true
							}
						}
					}
				}
				rv := ret.Results[0]
				switch {
				case !decided:
					okICV, whyICV = false, "whether the ICV is truncated is not decided by icvLength == 0"
				case zero:
					if !isK(p, rv) {
						okICV, whyICV = false, "with ICV length 0 the result is not the whole SIK-keyed HMAC"
					}
				default:
					f := p.objFields(p.objOf(rv))
					ln, hasLen := f[fTruncLen]
					if !isK(p, f["Hash"]) || !hasLen || !p.loadOfField(ln, icv.Params[0], lenField) {
						okICV, whyICV = false, "with a non-zero ICV length the result is not the SIK-keyed HMAC truncated to that length"
					}
				}
			})
			r.Check(completeV && okICV && nICV >= 2, "authenticationAlgorithmParams.ICV|truncate iff icvLength != 0", icv.Pos(), "whole HMAC for length 0, truncated to icvLength otherwise", "the RAKP4 ICV hash is not HMAC_SIK truncated exactly when the algorithm specifies a truncation: "+whyICV)
		} else {
			r.Lost("authenticationAlgorithmParams.ICV")
		}
	}
	// integrity: 1→(sha1,12) 2→(md5,full) 4→(sha256,16); hash keyed by g.K(1)
	wantInt := map[int64][2]string{1: {"crypto/sha1.New", "12"}, 2: {"crypto/md5.New", "full"}, 4: {"crypto/sha256.New", "16"}}
	gparam := integFn.Params[1]
	gotInt := map[int64]map[[2]string]bool{}
	keyOKs := map[int64]bool{}
	refusedInt, refusedIntPos, nRefused := true, integFn.Pos(), 0
	completeI := enumPaths(integFn, 1, 8192, func(p CPath) {
		ret, isRet := p.Last().(*ssa.Return)
		if !isRet || ret.Parent() != integFn {
			return
		}
		k, has := p.caseOf(integFn.Params[0])
		if _, listed := wantInt[k]; !has || !listed {
			// an algorithm the table does not list (None, MD5-128, OEM numbers, anything
			// unknown) is refused: no hasher comes back without an error
			if c.errOutcome(integFn, p) != 1 && !isNilConst(p.Resolve(ret.Results[0])) {
				refusedInt, refusedIntPos = false, ret.Pos()
			}
			nRefused++
			return
		}
		got := [2]string{"?", "?"}
		keyOK := false
		v := p.Resolve(ret.Results[0])
		for {
			if mi, ok := v.(*ssa.MakeInterface); ok {
				v = p.Resolve(mi.X)
				continue
			}
			if ct, ok := v.(*ssa.ChangeInterface); ok {
				v = p.Resolve(ct.X)
				continue
			}
			break
		}
		var hm ssa.Value
		if call, ok := v.(*ssa.Call); ok {
			hm = call
			got[1] = "full"
		} else if obj := p.objOf(v); obj != nil {
			f := p.objFields(obj)
			hm = f["Hash"]
			for {
				if mi, ok := hm.(*ssa.MakeInterface); ok {
					hm = p.Resolve(mi.X)
					continue
				}
				if ct, ok := hm.(*ssa.ChangeInterface); ok {
					hm = p.Resolve(ct.X)
					continue
				}
				break
			}
			if n, isN := constInt(f[fTruncLen]); isN {
				got[1] = fmt.Sprint(n)
			}
		}
		if call, ok := hm.(*ssa.Call); ok && calleeName(&call.Call) == "crypto/hmac.New" {
			if fnv, ok := stripConv(call.Call.Args[0]).(*ssa.Function); ok {
				got[0] = fnv.String()
			}
			if kc, ok := p.Resolve(call.Call.Args[1]).(*ssa.Call); ok && kc.Call.IsInvoke() && p.Resolve(kc.Call.Value) == ssa.Value(gparam) && kc.Call.Method.Name() == "K" {
				if n, isN := constInt(p.Resolve(kc.Call.Args[0])); isN && n == 1 {
					keyOK = true
				}
			}
		}
		if gotInt[k] == nil {
			gotInt[k] = map[[2]string]bool{}
			keyOKs[k] = true
		}
		gotInt[k][got] = true
		keyOKs[k] = keyOKs[k] && keyOK
	})
	if !completeI {
		r.Unk(c.FnName(integFn)+"|paths", integFn.Pos(), "too many paths")
	}
	for k, w := range wantInt {
		ok := len(gotInt[k]) == 1 && gotInt[k][w] && keyOKs[k]
		r.Check(ok, c.FnName(integFn)+fmt.Sprintf("|algorithm %d", k), integFn.Pos(), fmt.Sprintf("%v keyed by K(1)", w), fmt.Sprintf("integrity algorithm %d maps to %v (keyed by K(1): %v), specification says %v keyed by K1", k, keysOf2(gotInt[k]), keyOKs[k], w))
	}
	r.Check(refusedInt && nRefused > 0, c.FnName(integFn)+"|other algorithms", refusedIntPos, "refused", "an integrity algorithm outside the specification table (None, MD5-128, an unknown number) yields a usable hasher instead of an error: packets are signed with an algorithm the BMC did not agree to")
	// confidentiality: 1 → AES-128-CBC keyed by first 16 bytes of K(2)
	okC, nC := true, 0
	completeC := enumPaths(ciphFn, 1, 8192, func(p CPath) {
		ret, isRet := p.Last().(*ssa.Return)
		if !isRet || ret.Parent() != ciphFn {
			return
		}
		if k, has := p.caseOf(ciphFn.Params[0]); !has || k != 1 {
			return
		}
		nC++
		// on this path: a [16]byte is filled by copy(key[:], g.K(2)) and handed to the AES layer constructor
		good := false
		ins := p.Instrs()
		for _, in := range ins {
			nc, ok := in.(*ssa.Call)
			if !ok || nc.Call.StaticCallee() == nil || !strings.Contains(nc.Call.StaticCallee().Name(), "AES128CBC") || len(nc.Call.Args) != 1 {
				continue
			}
			key := p.objOf(nc.Call.Args[0])
			if key == nil {
				continue
			}
			at, isArr := key.Type().(*types.Pointer).Elem().Underlying().(*types.Array)
			if !isArr || at.Len() != 16 {
				continue
			}
			for _, in2 := range ins {
				cp, ok := in2.(*ssa.Call)
				if !ok {
					continue
				}
				if b, ok := cp.Call.Value.(*ssa.Builtin); !ok || b.Name() != "copy" {
					continue
				}
				sl, ok := cp.Call.Args[0].(*ssa.Slice)
				if !ok || sl.Low != nil || sl.High != nil || sl.X != ssa.Value(key) {
					continue
				}
				if kc, ok := p.Resolve(cp.Call.Args[1]).(*ssa.Call); ok && kc.Call.IsInvoke() && kc.Call.Method.Name() == "K" && p.Resolve(kc.Call.Value) == ssa.Value(ciphFn.Params[1]) {
					if n, isN := constInt(p.Resolve(kc.Call.Args[0])); isN && n == 2 {
						good = true
					}
				}
			}
		}
		if !good {
			okC = false
		}
	})
	r.Check(completeC && okC && nC > 0, c.FnName(ciphFn)+"|algorithm 1", ciphFn.Pos(), "AES-128-CBC keyed by the first 16 bytes of K(2)", "confidentiality algorithm 1 is not an AES-128-CBC layer keyed by the first 16 bytes of K(2)")
	// NewAES128CBC uses aes.NewCipher on the whole 16-byte key
	if na := c.Func("pkg/ipmi", "NewAES128CBC"); na != nil {
		r.Fn(c.FnName(na))
		okN := false
		allInstrs(na, false, func(in ssa.Instruction) {
			if call, ok := in.(*ssa.Call); ok && calleeName(&call.Call) == "crypto/aes.NewCipher" {
				if sl, ok := call.Call.Args[0].(*ssa.Slice); ok && sl.Low == nil && sl.High == nil {
					okN = true
				}
			}
		})
		r.Check(okN, "ipmi.NewAES128CBC|aes.NewCipher(k[:])", na.Pos(), "whole 16-byte key", "NewAES128CBC does not key AES with the whole 16-byte array")
	} else {
		r.Lost("ipmi.NewAES128CBC")
	}

	// truncatedHash.Sum: t.Hash.Sum(b)[:len(b)+t.length]
	th := c.truncatedHashType()
	if th == nil {
		r.Lost("truncatedHash")
	} else if sum := c.MethodOf(th, "Sum"); sum != nil {
		r.Fn(c.FnName(sum))
		ok := false
		for _, ret := range returnsOf(sum) {
			if sl, isSl := ret.Results[0].(*ssa.Slice); isSl && sl.Low == nil && sl.High != nil {
				if call, isCall := sl.X.(*ssa.Call); isCall && call.Call.IsInvoke() && call.Call.Method.Name() == "Sum" && call.Call.Args[0] == ssa.Value(sum.Params[1]) {
					if bo, isBo := sl.High.(*ssa.BinOp); isBo && bo.Op == token.ADD {
						l, isL := bo.X.(*ssa.Call)
						var fld ssa.Value = bo.Y
						if !isL {
							l, isL = bo.Y.(*ssa.Call)
							fld = bo.X
						}
						if isL {
							if b, isB := l.Call.Value.(*ssa.Builtin); isB && b.Name() == "len" && l.Call.Args[0] == ssa.Value(sum.Params[1]) {
								if strings.HasSuffix(apOf(fld).SelString(), fTruncLen) {
									ok = true
								}
							}
						}
					}
				}
			}
		}
		r.Check(ok, "truncatedHash.Sum|Sum(b)[:len(b)+length]", sum.Pos(), "prefix of the inner digest of the configured length", "truncatedHash.Sum does not return Hash.Sum(b)[:len(b)+length]")
	}

	// K(n): 20 copies of byte(n) hashed with the generator's hash
	akm := c.keyMaterialType()
	if akm == nil {
		r.Lost("additionalKeyMaterialGenerator")
		return
	}
	kf := c.MethodOf(akm, "K")
	if kf == nil {
		r.Lost("additionalKeyMaterialGenerator.K")
		return
	}
	r.Fn(c.FnName(kf))
	// structure: the digest helper (write all, Sum(nil), Reset, return the sum) is applied to the
	// generator's own hash and its result is what K returns
	// per path of K's flattened view (the digest helper may be a function or written out): what
	// is written goes into the generator's own hash, once; the whole Sum(nil) of that hash is
	// taken after the write, the hash is reset after that, and the sum is what K returns
	okHash := true
	nDigest := 0
	completeK := enumPaths(kf, 1, 4096, func(p CPath) {
		ret, isRet := p.Last().(*ssa.Return)
		if !isRet || ret.Parent() != kf {
			return
		}
		var nWrite int
		var sum ssa.Value
		sumAt, resetAt, writeAt := -1, -1, -1
		for i, oc := range p.Occs() {
			cc := asCall(oc.In)
			if cc == nil || !cc.IsInvoke() || !isHashHash(cc.Value.Type()) {
				continue
			}
			own := false
			if ld, ok := p.ResolveIn(oc.Ctx, cc.Value).(*ssa.UnOp); ok && ld.Op == token.MUL {
				a := p.APIn(oc.Ctx, ld.X)
				own = strings.HasSuffix(a.SelString(), fAkmHash) && (a.Root == ssa.Value(kf.Params[0]) || cellParam0(a.Root) == kf.Params[0])
			}
			switch cc.Method.Name() {
			case "Write":
				nWrite++
				writeAt = i
				if !own {
					okHash = false
				}
			case "Sum":
				if own && len(cc.Args) == 1 && isNilConst(cc.Args[0]) {
					sum, sumAt = oc.In.(ssa.Value), i
				} else {
					okHash = false
				}
			case "Reset":
				if own {
					resetAt = i
				}
			}
		}
		rv := p.Resolve(ret.Results[0])
		if nWrite == 0 {
			// the nil-hash arm: nothing is hashed, nothing is returned
			if !isNilConst(rv) {
				okHash = false
			}
			return
		}
		nDigest++
		if nWrite != 1 || sum == nil || !(writeAt < sumAt && sumAt < resetAt) || rv != sum {
			okHash = false
		}
	})
	if !completeK || nDigest == 0 {
		okHash = false
	}
	// content: decided on bit provenance — the hash input is exactly 20 bytes, all written by
	// one loop, each holding the low byte of n
	okContent, nHashed, whyK := true, 0, ""
	evs, why := extractEvents(c, kf, nil)
	for _, le := range evs {
		var hs []lfEvent
		for _, ev := range le.Events {
			if ev.Kind == "hash" {
				hs = append(hs, ev)
			}
		}
		if len(hs) == 0 {
			continue // the nil-hash arm of the digest helper
		}
		nHashed++
		if len(hs) != 1 || !strings.HasPrefix(hs[0].Name, "h[0:+20]") || !strings.HasPrefix(hs[0].Val, "copy(") || !strings.HasSuffix(hs[0].Val, "[0:20])") {
			okContent, whyK = false, "the hash input is not one 20-byte buffer"
			continue
		}
		org := strings.TrimSuffix(strings.TrimPrefix(hs[0].Val, "copy("), "[0:20])")
		filled := false
		last := "no loop fills the buffer"
		for _, ev := range le.eventsOf("loop:wire", org) {
			run, w := runOf(ev)
			if w != "" {
				last = w
				continue
			}
			if !linEq(run.Idx0, linConst(0)) || run.VAdv != 0 || len(ev.Loop.Guard) != 1 {
				last = "the fill does not start at byte 0 with one value for every byte"
				continue
			}
			if cov, w := run.coversUpTo(linConst(20), le.Cons); !cov {
				last = w
				continue
			}
			// the value: the parameter n, narrowed to a byte
			isN := false
			if len(run.V0.T) == 1 && run.V0.C == 0 {
				for sy, k := range run.V0.T {
					pn, has := le.ParamSym[1]
					if k == 1 && has && (sy == pn || le.SymName(sy) == "wrap8("+le.SymName(pn)+")") {
						isN = true
					}
				}
			}
			if !isN {
				last = "the bytes are not byte(n)"
				continue
			}
			filled = true
		}
		if !filled {
			okContent, whyK = false, last
		}
	}
	if nHashed == 0 {
		okContent, whyK = false, "no path feeds the hash: "+why
	}
	r.Check(okHash && okContent, "additionalKeyMaterialGenerator.K|HMAC_SIK(20×byte(n))", kf.Pos(), "constant is 20 copies of byte(n), hashed whole with the SIK-keyed HMAC", fmt.Sprintf("K(n) is not the HMAC of 20 copies of byte(n): digest-helper-on-own-hash=%v content=%v %s", okHash, okContent, whyK))
}

// ---------------------------------------------------------------- driver order

func checkDriverOrder(c *Ctx, r *Report, tr map[string]*trSite) {
	m := c.findCtor()
	r.Rule("driver-order", "open session ≺ RAKP1/2 ≺ RAKP3/4 ≺ session; the Open Session Request and RAKP Message 1 carry the caller's privilege level, lookup mode and username; RAKP messages carry the BMC's session ID from the Open Session Response; the session's LocalID/RemoteID are the console's and BMC's IDs from that response", 7)
	if m == nil || m.OpenCall == nil || m.R1Call == nil || m.R3Call == nil {
		r.Lost("handshake calls in the session constructor")
		return
	}
	name := c.FnName(m.Fn)
	r.Check(mustPrecede(m.Fn, m.OpenCall, m.R1Call) && mustPrecede(m.Fn, m.R1Call, m.R3Call), name+"|open ≺ rakp1 ≺ rakp3", m.OpenCall.Pos(), "ordered on every path", "handshake exchanges are not ordered open ≺ RAKP1 ≺ RAKP3 on every path")
	// a field of the caller's options, read where a request is built
	fromOpts1 := func(v ssa.Value, src string) bool {
		ld, isLd := v.(*ssa.UnOp)
		if !isLd || ld.Op != token.MUL {
			return false
		}
		if apOf(ld.X).Root == ssa.Value(m.Opts) && apOf(ld.X).SelString() == src {
			return true
		}
		root, last := canonRootSel(ld.X)
		if root == ssa.Value(m.Opts) && last == src {
			return true
		}
		aps := viewAPs(m.Fn, ld.X)
		for _, a := range aps {
			if a.Root != ssa.Value(m.Opts) || a.SelString() != src {
				return false
			}
		}
		return len(aps) > 0
	}
	// (the value may reach the literal through the parameter of a spliced helper)
	fromOpts := func(v ssa.Value, src string) bool {
		if v == nil {
			return false
		}
		if fromOpts1(v, src) {
			return true
		}
		origins := viewOrigins(m.Fn, v)
		for _, o := range origins {
			if !fromOpts1(stripConv(o), src) {
				return false
			}
		}
		return len(origins) > 0
	}
	// Open Session Request: the privilege level asked for is the caller's
	if reqLit := c.openRequestLiteral(m); reqLit != nil {
		f, _, _ := complitFieldsAlloc(reqLit)
		r.Check(fromOpts(f["MaxPrivilegeLevel"], "MaxPrivilegeLevel"), name+"|OpenSessionReq.MaxPrivilegeLevel", reqLit.Pos(), "from the caller's options", "the Open Session Request does not ask for the caller's maximum privilege level")
	} else {
		r.Unk(name+"|OpenSessionReq literal", m.OpenCall.Pos(), "the Open Session Request is not a composite literal")
	}
	// RAKP1 literal: ManagedSystemSessionID ← openRsp.ManagedSystemSessionID, plus opts-derived fields
	if al, ok := m.M1.(*ssa.Alloc); ok {
		f, _, _ := complitFieldsAlloc(al)
		r.Check(fieldLoadOf(f["ManagedSystemSessionID"], m.OpenRsp, "ManagedSystemSessionID"), name+"|RAKP1.ManagedSystemSessionID", al.Pos(), "from the Open Session Response", "RAKP Message 1 is not addressed to the session ID the BMC returned in the Open Session Response")
		okOpts := true
		for fld, src := range map[string]string{"PrivilegeLevelLookup": "PrivilegeLevelLookup", "MaxPrivilegeLevel": "MaxPrivilegeLevel", "Username": "Username"} {
			if !fromOpts(f[fld], src) {
				okOpts = false
			}
		}
		r.Check(okOpts, name+"|RAKP1 options", al.Pos(), "lookup mode, level and username from the caller's options", "RAKP Message 1 fields do not come from the caller's options")
		// random: filled by crypto/rand.Read before use
		okRand := false
		if rv, has := f["RemoteConsoleRandom"]; has {
			if ld, isLd := rv.(*ssa.UnOp); isLd {
				if ral, isAl := ld.X.(*ssa.Alloc); isAl {
					for _, ref := range *ral.Referrers() {
						if sl, isSl := ref.(*ssa.Slice); isSl && sl.Low == nil && sl.High == nil {
							for _, r2 := range *sl.Referrers() {
								if call, isCall := r2.(*ssa.Call); isCall && calleeName(&call.Call) == "crypto/rand.Read" && mustPrecede(m.Fn, call, ld) {
									okRand = true
								}
							}
						}
					}
				}
			}
		}
		// or read straight into the message's field, before the message is sent, and the
		// field is not assigned otherwise
		if _, has := f["RemoteConsoleRandom"]; !has {
			viewInstrs(m.Fn, func(in ssa.Instruction) {
				call, isCall := in.(*ssa.Call)
				if !isCall || calleeName(&call.Call) != "crypto/rand.Read" || len(call.Call.Args) != 1 {
					return
				}
				sl, isSl := call.Call.Args[0].(*ssa.Slice)
				if !isSl || sl.Low != nil || sl.High != nil {
					return
				}
				a := apOf(sl.X)
				if a.Root == ssa.Value(al) && a.SelString() == "RemoteConsoleRandom" && mustPrecede(m.Fn, call, m.R1Call) {
					okRand = true
				}
			})
		}
		r.Check(okRand, name+"|RAKP1.RemoteConsoleRandom", al.Pos(), "16 bytes from crypto/rand.Read", "the remote console random number is not filled by crypto/rand.Read before use")
	} else {
		r.Unk(name+"|RAKP1 literal", m.R1Call.Pos(), "RAKP Message 1 is not a composite literal")
	}
	// RAKP3 literal
	args := callArgs(&m.R3Call.Call)
	if al, ok := args[len(args)-1].(*ssa.Alloc); ok {
		f, _, _ := complitFieldsAlloc(al)
		okID := fieldLoadOf(f["ManagedSystemSessionID"], m.OpenRsp, "ManagedSystemSessionID")
		k, isK := constInt(f["Status"])
		okStatus := f["Status"] == nil || (isK && k == 0)
		var c3 *ssa.Call
		if cc, isCall := f["AuthCode"].(*ssa.Call); isCall && tr["rakp3"] != nil && tr["rakp3"].Result == ssa.Value(cc) {
			c3 = cc
		}
		r.Check(okID && okStatus && c3 != nil, name+"|RAKP3 literal", al.Pos(), "status OK, BMC session ID, AuthCode = RAKP3 computation", fmt.Sprintf("RAKP Message 3 is malformed: session-id-from-response=%v status-ok=%v authcode-is-rakp3=%v", okID, okStatus, c3 != nil))
	} else {
		r.Unk(name+"|RAKP3 literal", m.R3Call.Pos(), "RAKP Message 3 is not a composite literal")
	}
	// session literal IDs
	lit, _, _ := complitFieldsAlloc(m.Lit)
	r.Check(fieldLoadOf(lit["LocalID"], m.OpenRsp, "RemoteConsoleSessionID") && fieldLoadOf(lit["RemoteID"], m.OpenRsp, "ManagedSystemSessionID"), name+"|session IDs", m.Lit.Pos(), "LocalID = console's, RemoteID = BMC's", "the session's LocalID/RemoteID are not the console's and BMC's session IDs from the Open Session Response")
}

// ---------------------------------------------------------------- where the four computations happen

// trSite is one of the four RAKP digest computations as the session constructor performs
// it: by calling a function that computes it from (hash, RAKP1, RAKP2), or written out in
// the constructor itself (Write… Sum(nil) Reset on a hash object). Either way the rules
// about keys, order and comparisons talk about the hash object and the digest value.
type trSite struct {
	Kind     string
	Fn       *ssa.Function // nil when the computation is written out in the constructor
	Call     *ssa.Call     // the call of Fn (nil when written out)
	Hash     ssa.Value     // the hash object, a value of the constructor
	Result   ssa.Value     // the digest, a value of the constructor (the call, or the Sum call)
	OverM1M2 bool          // computed over the RAKP1 sent and the RAKP2 received
	Pos      token.Pos
	Shape    string // non-empty: what is wrong with the computation's shape
	Got      string
}

var trSiteCache struct {
	c     *Ctx
	m     *ctorModel
	sites map[string]*trSite
	extra []string // problems found while looking (second function for one kind, unclassified computation…)
}

// transcriptSites finds the four computations of constructor m.
func (c *Ctx) transcriptSites(m *ctorModel) (map[string]*trSite, []string) {
	if trSiteCache.c == c && trSiteCache.m != nil && trSiteCache.m.Fn == m.Fn {
		return trSiteCache.sites, trSiteCache.extra
	}
	sites := map[string]*trSite{}
	var extra []string
	callTo := func(fn *ssa.Function) *ssa.Call {
		var out *ssa.Call
		allInstrs(m.Fn, false, func(in ssa.Instruction) {
			if call, ok := in.(*ssa.Call); ok && call.Call.StaticCallee() == fn {
				out = call
			}
		})
		if out == nil {
			viewInstrs(m.Fn, func(in ssa.Instruction) {
				if call, ok := in.(*ssa.Call); ok && call.Call.StaticCallee() == fn {
					out = call
				}
			})
		}
		return out
	}
	// (1) functions of the transcript signature
	for _, fn := range c.transcriptFuncs() {
		kind, got, shape := classifyTranscript(c, fn)
		if kind == "" {
			extra = append(extra, c.FnName(fn)+": hash input sequence ["+got+"] matches none of the specified RAKP2/RAKP3/SIK/RAKP4 transcripts"+ifs(shape != "", "; "+shape))
			continue
		}
		if sites[kind] != nil {
			extra = append(extra, c.FnName(fn)+": second function computing the "+kind+" transcript")
			continue
		}
		st := &trSite{Kind: kind, Fn: fn, Pos: fn.Pos(), Shape: shape, Got: got}
		if call := callTo(fn); call != nil {
			tp := c.transcriptParams(fn)
			st.Call, st.Hash, st.Result = call, canonValue(call.Call.Args[tp.Hash]), call
			if tp.Holder < 0 {
				st.OverM1M2 = canonEq(call.Call.Args[tp.M1], m.M1) && canonEq(call.Call.Args[tp.M2], m.M2)
			} else {
				// the holder's message fields have one writer each: what it stores is what is hashed
				s1, s2 := fieldStores[tp.F1], fieldStores[tp.F2]
				st.OverM1M2 = len(s1) == 1 && len(s2) == 1 && canonEq(s1[0].Val, m.M1) && canonEq(s2[0].Val, m.M2)
			}
		}
		sites[kind] = st
	}
	// (2) computations written out in the constructor: read off the constructor's own hash
	// input streams (engine E2, objects named by their type)
	missing := 0
	for k := range specTranscripts {
		if sites[k] == nil {
			missing++
		}
	}
	if missing > 0 {
		for k, st := range c.inlineTranscripts(m) {
			if sites[k] == nil {
				sites[k] = st
			}
		}
	}
	trSiteCache.c, trSiteCache.m, trSiteCache.sites, trSiteCache.extra = c, m, sites, extra
	return sites, extra
}

func rakpTypeNames(c *Ctx) map[string]string {
	names := map[string]string{}
	if n := c.Named("pkg/ipmi", "RAKPMessage1"); n != nil {
		names[types.TypeString(n, nil)] = "m1."
	}
	if n := c.Named("pkg/ipmi", "RAKPMessage2"); n != nil {
		names[types.TypeString(n, nil)] = "m2."
	}
	return names
}

// inlineTranscripts runs E2 over the constructor and classifies every digest computation
// (the bytes written into one hash object up to its Sum) made by the constructor's own
// code on its success paths.
func (c *Ctx) inlineTranscripts(m *ctorModel) map[string]*trSite {
	out := map[string]*trSite{}
	names := rakpTypeNames(c)
	// one object of each type only, else a name would not identify the message
	nM1, nM2 := 0, 0
	viewInstrs(m.Fn, func(in ssa.Instruction) {
		if al, ok := in.(*ssa.Alloc); ok {
			if pt, ok := al.Type().Underlying().(*types.Pointer); ok {
				switch types.TypeString(pt.Elem(), nil) {
				case modPath + "/pkg/ipmi.RAKPMessage1":
					nM1++
				case modPath + "/pkg/ipmi.RAKPMessage2":
					nM2++
				}
			}
		}
	})
	if nM1 > 1 || nM2 > 1 {
		return out
	}
	evs, why := extractEventsNamed(c, m.Fn, map[string]int{"m1.MaxPrivilegeLevel": 4}, nil, names)
	if why != "" {
		return out
	}
	// position → call instruction, for the instructions of the constructor itself
	byPos := map[token.Pos]*ssa.Call{}
	rawInstrs(m.Fn, false, func(in ssa.Instruction) {
		if call, ok := in.(*ssa.Call); ok && call.Pos().IsValid() {
			byPos[call.Pos()] = call
		}
	})
	type sess struct {
		first, sum token.Pos
		seq        string
		role       map[string]bool
	}
	type agg struct {
		seqs   map[string]bool
		first  token.Pos
		sum    token.Pos
		paths  int
		roleOK bool
	}
	aggs := map[token.Pos]*agg{} // keyed by the position of the Sum call
	nOK := 0
	for _, le := range evs {
		// the paths that hand back a session
		if !le.OK || le.Ret0Nil {
			continue
		}
		nOK++
		cur := map[string]*sess{}
		var items = map[string][]string{}
		for _, ev := range le.Events {
			switch ev.Kind {
			case "hash":
				if cur[ev.Recv] == nil {
					cur[ev.Recv] = &sess{first: ev.RootPos, role: map[string]bool{}}
				}
				items[ev.Recv] = append(items[ev.Recv], ev.Val)
			case "hashop":
				s := cur[ev.Recv]
				if ev.Name == "Sum" && s != nil {
					s.sum = ev.RootPos
					s.seq = strings.Join(describeHashItems(items[ev.Recv], le, s.role), ",")
					a := aggs[s.sum]
					if a == nil {
						a = &agg{seqs: map[string]bool{}, first: s.first, sum: s.sum, roleOK: true}
						aggs[s.sum] = a
					}
					a.seqs[s.seq] = true
					a.paths++
					delete(cur, ev.Recv)
					delete(items, ev.Recv)
				}
			}
		}
	}
	for _, a := range aggs {
		sumCall := byPos[a.sum]
		firstCall := byPos[a.first]
		if sumCall == nil || firstCall == nil || !sumCall.Call.IsInvoke() || !firstCall.Call.IsInvoke() {
			continue // the computation is made by a function the constructor calls: judged there
		}
		if len(a.seqs) != 1 {
			continue
		}
		var got string
		for s := range a.seqs {
			got = s
		}
		for k, want := range specTranscripts {
			if got != want {
				continue
			}
			st := &trSite{Kind: k, Hash: firstCall.Call.Value, Result: sumCall, OverM1M2: true, Pos: firstCall.Pos(), Got: got}
			// on every success path, the whole Sum(nil), after the last write; the hash is reset afterwards
			if a.paths != nOK {
				st.Shape = "the computation is skipped on some paths that return a session"
			}
			if len(sumCall.Call.Args) != 1 || !isNilConst(sumCall.Call.Args[0]) {
				st.Shape = "Sum not Sum(nil)"
			}
			out[k] = st
		}
	}
	return out
}

func isByte(t types.Type) bool {
	b, ok := t.Underlying().(*types.Basic)
	return ok && b.Kind() == types.Uint8
}

// canonRootSel peels the field selections of an address down to the pointer they start from,
// read through single-writer fields of state structs (canonValue): `&h.opts.Password` starts
// from the options the handshake was created with. It returns that pointer and the name of
// the last field selected.
func canonRootSel(addr ssa.Value) (ssa.Value, string) {
	last := ""
	for i := 0; i < 6; i++ {
		fa, ok := addr.(*ssa.FieldAddr)
		if !ok {
			break
		}
		if f := structField(fa.X.Type(), fa.Field); f != nil && last == "" {
			last = f.Name()
		}
		addr = fa.X
	}
	return canonValue(addr), last
}

// checkRoleByteWire: byte 24 of RAKP Message 1 carries the privilege nibble and the name-only
// lookup flag for every value of the two fields (shared with C06: the flag shares a byte with
// the level, and is the caller's whatever the username).
func checkRoleByteWire(c *Ctx, r *Report) {
	r.Rule("role-byte-wire", "byte 24 of RAKP Message 1 is (level & 0xF) | (name-only ? 0x10 : 0), the same role byte that is hashed", 1)
	if ser := c.Method("pkg/ipmi", "RAKPMessage1", "SerializeTo"); ser == nil {
		r.Lost("ipmi.RAKPMessage1.SerializeTo")
	} else {
		r.Fn(c.FnName(ser))
		okRole, whyRole := roleByteWire(c, ser)
		r.Check(okRole, c.FnName(ser)+"|d[24]", ser.Pos(), "d[24] = level&0xF, |= 0x10 iff !PrivilegeLevelLookup", "byte 24 of RAKP Message 1 is not level&0xF | (name-only?0x10:0): "+whyRole)
	}
}
