package main

// Engine E2 "bitprov": bit-level provenance. A value is a vector of bits, each
// of which is 0, 1, a named source bit (wire byte k bit j when decoding, field
// bit when serialising), its negation, or unknown. The operations that occur
// in wire-format code (masks, shifts, ors of disjoint fields, zero/sign
// extension, truncation, little-endian (de)composition) are modelled exactly;
// anything else yields unknown bits. The engine rides on the lenflow
// interpreter (paths, inlining, store-to-load forwarding).

import (
	"fmt"
	"sort"
	"strings"
)

type bvBit struct {
	K   byte   // '0' '1' 's' (source) 'n' (negated source) '?'
	Src string // source name
	Idx int    // bit index within the source
}

type bv struct {
	Bits []bvBit // LSB first
	Tag  string  // non-empty: opaque wrapper tag(args) — Bits then describe nothing
	Args []*bv
}

func bvConst(k int64, width int) *bv {
	b := &bv{Bits: make([]bvBit, width)}
	for i := 0; i < width; i++ {
		if k>>uint(i)&1 == 1 {
			b.Bits[i] = bvBit{K: '1'}
		} else {
			b.Bits[i] = bvBit{K: '0'}
		}
	}
	return b
}

func bvSrc(name string, width int) *bv {
	b := &bv{Bits: make([]bvBit, width)}
	for i := range b.Bits {
		b.Bits[i] = bvBit{K: 's', Src: name, Idx: i}
	}
	return b
}

func bvUnknown(width int) *bv {
	b := &bv{Bits: make([]bvBit, width)}
	for i := range b.Bits {
		b.Bits[i] = bvBit{K: '?'}
	}
	return b
}

func bvTagged(tag string, width int, args ...*bv) *bv {
	b := bvUnknown(width)
	b.Tag = tag
	b.Args = args
	return b
}

func (b *bv) width() int { return len(b.Bits) }

// resize zero- or sign-extends / truncates to width.
func (b *bv) resize(width int, signed bool) *bv {
	if b == nil {
		return nil
	}
	if b.Tag != "" {
		out := bvUnknown(width)
		if signed && width > b.width() {
			out.Tag, out.Args = "sext", []*bv{b}
		} else if width >= b.width() {
			out.Tag, out.Args = b.Tag, b.Args
		} else {
			out.Tag, out.Args = fmt.Sprintf("trunc%d", width), []*bv{b}
		}
		return out
	}
	out := &bv{Bits: make([]bvBit, width)}
	for i := 0; i < width; i++ {
		switch {
		case i < len(b.Bits):
			out.Bits[i] = b.Bits[i]
		case signed && len(b.Bits) > 0:
			out.Bits[i] = b.Bits[len(b.Bits)-1]
		default:
			out.Bits[i] = bvBit{K: '0'}
		}
	}
	return out
}

func bitAnd(a, b bvBit) bvBit {
	switch {
	case a.K == '0' || b.K == '0':
		return bvBit{K: '0'}
	case a.K == '1':
		return b
	case b.K == '1':
		return a
	case a == b:
		return a
	case bitComplementary(a, b):
		return bvBit{K: '0'}
	}
	return bvBit{K: '?'}
}

// bitComplementary: a and b are one source bit and its negation.
func bitComplementary(a, b bvBit) bool {
	return (a.K == 's' && b.K == 'n' || a.K == 'n' && b.K == 's') && a.Src == b.Src && a.Idx == b.Idx
}

func bitOr(a, b bvBit) bvBit {
	switch {
	case a.K == '1' || b.K == '1':
		return bvBit{K: '1'}
	case a.K == '0':
		return b
	case b.K == '0':
		return a
	case a == b:
		return a
	case bitComplementary(a, b):
		return bvBit{K: '1'}
	}
	return bvBit{K: '?'}
}

func bitXor(a, b bvBit) bvBit {
	neg := func(x bvBit) bvBit {
		switch x.K {
		case '0':
			return bvBit{K: '1'}
		case '1':
			return bvBit{K: '0'}
		case 's':
			return bvBit{K: 'n', Src: x.Src, Idx: x.Idx}
		case 'n':
			return bvBit{K: 's', Src: x.Src, Idx: x.Idx}
		}
		return bvBit{K: '?'}
	}
	switch {
	case a.K == '0':
		return b
	case b.K == '0':
		return a
	case a.K == '1':
		return neg(b)
	case b.K == '1':
		return neg(a)
	case a.K != '?' && a == b:
		return bvBit{K: '0'}
	case bitComplementary(a, b):
		return bvBit{K: '1'}
	}
	return bvBit{K: '?'}
}

// bvAddSub is a ripple-carry adder over the bit domain: a+b, or a−b as a+¬b+1, modulo
// 2^width. Every sum and carry bit is computed with the exact gate functions above, so a
// result bit is a constant, a source bit or its negation only when that is what the
// arithmetic yields for every value of the sources; nil when some bit cannot be expressed.
func bvAddSub(a, b *bv, width int, sub bool) *bv {
	if a == nil || b == nil || a.Tag != "" || b.Tag != "" {
		return nil
	}
	a, b = a.resize(width, false), b.resize(width, false)
	carry := bvBit{K: '0'}
	if sub {
		carry = bvBit{K: '1'}
	}
	out := &bv{Bits: make([]bvBit, width)}
	for i := 0; i < width; i++ {
		x, y := a.Bits[i], b.Bits[i]
		if sub {
			y = bitXor(y, bvBit{K: '1'})
		}
		s := bitXor(bitXor(x, y), carry)
		if s.K == '?' {
			return nil
		}
		out.Bits[i] = s
		carry = bitOr(bitOr(bitAnd(x, y), bitAnd(x, carry)), bitAnd(y, carry))
		if carry.K == '?' && i+1 < width {
			return nil
		}
	}
	return out
}

func bvBinary(op string, a, b *bv, width int) *bv {
	if a == nil || b == nil || a.Tag != "" || b.Tag != "" {
		return nil
	}
	a, b = a.resize(width, false), b.resize(width, false)
	out := &bv{Bits: make([]bvBit, width)}
	for i := 0; i < width; i++ {
		switch op {
		case "&":
			out.Bits[i] = bitAnd(a.Bits[i], b.Bits[i])
		case "|":
			out.Bits[i] = bitOr(a.Bits[i], b.Bits[i])
		case "^":
			out.Bits[i] = bitXor(a.Bits[i], b.Bits[i])
		case "&^":
			nb := bitXor(b.Bits[i], bvBit{K: '1'})
			out.Bits[i] = bitAnd(a.Bits[i], nb)
		case "+":
			// exact only when the operands have no overlapping possibly-set bits (then + is |)
			if a.Bits[i].K != '0' && b.Bits[i].K != '0' {
				return nil
			}
			out.Bits[i] = bitOr(a.Bits[i], b.Bits[i])
		}
	}
	return out
}

func (b *bv) shl(k int, width int) *bv {
	if b == nil || b.Tag != "" {
		return nil
	}
	out := &bv{Bits: make([]bvBit, width)}
	for i := 0; i < width; i++ {
		if i-k >= 0 && i-k < len(b.Bits) {
			out.Bits[i] = b.Bits[i-k]
		} else {
			out.Bits[i] = bvBit{K: '0'}
		}
	}
	return out
}

func (b *bv) shr(k int, signed bool) *bv {
	if b == nil || b.Tag != "" {
		return nil
	}
	w := len(b.Bits)
	out := &bv{Bits: make([]bvBit, w)}
	for i := 0; i < w; i++ {
		switch {
		case i+k < w:
			out.Bits[i] = b.Bits[i+k]
		case signed && w > 0:
			out.Bits[i] = b.Bits[w-1]
		default:
			out.Bits[i] = bvBit{K: '0'}
		}
	}
	return out
}

// singleBit: the value is zero except for (at most) one source bit; returns it.
func (b *bv) singleBit() (bvBit, bool) {
	if b == nil || b.Tag != "" {
		return bvBit{}, false
	}
	var found *bvBit
	for i := range b.Bits {
		switch b.Bits[i].K {
		case '0':
		case 's', 'n':
			if found != nil {
				return bvBit{}, false
			}
			x := b.Bits[i]
			found = &x
		default:
			return bvBit{}, false
		}
	}
	if found == nil {
		return bvBit{}, false
	}
	return *found, true
}

func (b *bv) isConst() (int64, bool) {
	if b == nil || b.Tag != "" {
		return 0, false
	}
	var v int64
	for i, x := range b.Bits {
		switch x.K {
		case '0':
		case '1':
			v |= 1 << uint(i)
		default:
			return 0, false
		}
	}
	return v, true
}

// String renders MSB→LSB as a concatenation of ranges, dropping leading zeros:
//
//	d1[7]           single bit
//	d1[3:0]         range
//	{d20[7:6],d19}  concatenation (a whole byte source omits its range)
//	0b101           constants
func (b *bv) String() string {
	if b == nil {
		return "?"
	}
	if b.Tag != "" {
		var as []string
		for _, a := range b.Args {
			as = append(as, a.String())
		}
		return b.Tag + "(" + strings.Join(as, ",") + ")"
	}
	// strip leading zeros
	hi := len(b.Bits) - 1
	for hi >= 0 && b.Bits[hi].K == '0' {
		hi--
	}
	if hi < 0 {
		return "0"
	}
	// strip sign-extension copies: detected by caller through resize(signed); here just render
	var parts []string
	i := hi
	for i >= 0 {
		x := b.Bits[i]
		switch x.K {
		case '0', '1':
			j := i
			var sb strings.Builder
			for j >= 0 && (b.Bits[j].K == '0' || b.Bits[j].K == '1') {
				sb.WriteByte(b.Bits[j].K)
				j--
			}
			parts = append(parts, "0b"+sb.String())
			i = j
		case '?':
			j := i
			for j >= 0 && b.Bits[j].K == '?' {
				j--
			}
			parts = append(parts, fmt.Sprintf("?%d", i-j))
			i = j
		default:
			j := i
			for j-1 >= 0 && b.Bits[j-1].K == x.K && b.Bits[j-1].Src == x.Src && b.Bits[j-1].Idx == b.Bits[j].Idx-1 {
				j--
			}
			neg := ""
			if x.K == 'n' {
				neg = "!"
			}
			hiIdx, loIdx := x.Idx, b.Bits[j].Idx
			switch {
			case hiIdx == loIdx:
				parts = append(parts, fmt.Sprintf("%s%s[%d]", neg, x.Src, hiIdx))
			default:
				parts = append(parts, fmt.Sprintf("%s%s[%d:%d]", neg, x.Src, hiIdx, loIdx))
			}
			i = j - 1
		}
	}
	if len(parts) == 1 {
		return parts[0]
	}
	return "{" + strings.Join(parts, ",") + "}"
}

// sextString renders a value that was sign-extended from n bits.
func (b *bv) signExtendedFrom() (int, bool) {
	if b == nil || b.Tag != "" || len(b.Bits) < 2 {
		return 0, false
	}
	top := b.Bits[len(b.Bits)-1]
	if top.K != 's' {
		return 0, false
	}
	n := len(b.Bits)
	for n-2 >= 0 && b.Bits[n-2] == top {
		n--
	}
	if n == len(b.Bits) {
		return 0, false
	}
	return n, true
}

// render gives the canonical text used for comparisons with tables: sign
// extension is shown as sextN(...).
func (b *bv) render() string {
	if n, ok := b.signExtendedFrom(); ok {
		inner := &bv{Bits: b.Bits[:n]}
		return fmt.Sprintf("sext%d(%s)", n, inner.String())
	}
	return b.String()
}

// ---------------------------------------------------------------- layouts

// Layout is what a function does to the wire, per path.
type layoutPath struct {
	Cond   string            // decisions on boolean/enumeration fields or lengths taken on this path
	Fields map[string]string // decode: field → rendered expression; serialise: "w[k]" → expression
	Len    string            // serialise: prepended/append lengths
}

func layoutKeyList(m map[string]string) []string {
	var ks []string
	for k := range m {
		ks = append(ks, k)
	}
	sort.Strings(ks)
	return ks
}
