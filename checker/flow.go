package main

import (
	"fmt"
	"go/constant"
	"go/token"
	"go/types"
	"strings"

	"golang.org/x/tools/go/ssa"
)

// ---------------------------------------------------------------- callees

// calleeObj resolves the called function/method object of a call, statically
// (direct calls, method calls, interface invokes). Returns nil for calls of
// function values.
func calleeObj(cc *ssa.CallCommon) *types.Func {
	if cc.IsInvoke() {
		return cc.Method
	}
	if f := cc.StaticCallee(); f != nil {
		if o, ok := f.Object().(*types.Func); ok {
			return o
		}
		return nil
	}
	return nil
}

// calleeName gives a readable, type-resolved name: "pkg/path.Func" or
// "(pkg/path.Type).Method" / "(*pkg/path.Type).Method".
func calleeName(cc *ssa.CallCommon) string {
	if o := calleeObj(cc); o != nil {
		return o.FullName()
	}
	if f := cc.StaticCallee(); f != nil {
		return f.String()
	}
	if b, ok := cc.Value.(*ssa.Builtin); ok {
		return "builtin." + b.Name()
	}
	return ""
}

func asCall(i ssa.Instruction) *ssa.CallCommon {
	switch x := i.(type) {
	case *ssa.Call:
		return &x.Call
	case *ssa.Defer:
		return &x.Call
	case *ssa.Go:
		return &x.Call
	}
	return nil
}

// isCallTo reports whether instruction i calls the named function (FullName
// form, see calleeName). Suffix matching on "pkg.Name" is done by callers
// passing the full import path.
func isCallTo(i ssa.Instruction, names ...string) bool {
	cc := asCall(i)
	if cc == nil {
		return false
	}
	n := calleeName(cc)
	for _, want := range names {
		if n == want {
			return true
		}
	}
	return false
}

// callArgs returns the arguments excluding the receiver for method calls.
func callArgs(cc *ssa.CallCommon) []ssa.Value {
	if cc.IsInvoke() {
		return cc.Args
	}
	if f := cc.StaticCallee(); f != nil && f.Signature.Recv() != nil && len(cc.Args) > 0 {
		return cc.Args[1:]
	}
	return cc.Args
}

// callRecv returns the receiver value of a method call / invoke, or nil.
func callRecv(cc *ssa.CallCommon) ssa.Value {
	if cc.IsInvoke() {
		return cc.Value
	}
	if f := cc.StaticCallee(); f != nil && f.Signature.Recv() != nil && len(cc.Args) > 0 {
		return cc.Args[0]
	}
	return nil
}

// ---------------------------------------------------------------- access paths

// AP is an access path: a root value and a chain of selectors. Loads are
// transparent (a path names a location and the value stored there alike);
// embedded fields are omitted so that promoted selectors read as in source.
type AP struct {
	Root ssa.Value
	Sel  []string
}

func (a AP) String() string {
	return rootName(a.Root) + selStr(a.Sel)
}

func selStr(sel []string) string {
	var sb strings.Builder
	for _, s := range sel {
		if strings.HasPrefix(s, "[") {
			sb.WriteString(s)
		} else {
			sb.WriteString("." + s)
		}
	}
	return sb.String()
}

func (a AP) SelString() string { return strings.TrimPrefix(selStr(a.Sel), ".") }

func rootName(v ssa.Value) string {
	switch x := v.(type) {
	case nil:
		return "<nil>"
	case *ssa.Parameter:
		return x.Name()
	case *ssa.Global:
		return x.Pkg.Pkg.Name() + "." + x.Name()
	case *ssa.Alloc:
		if x.Comment != "" {
			return "local:" + x.Comment
		}
		return "local:" + x.Name()
	case *ssa.Const:
		if x.Value == nil {
			return "nil"
		}
		return x.Value.ExactString()
	case *ssa.Call:
		n := calleeName(&x.Call)
		if i := strings.LastIndex(n, "/"); i >= 0 {
			n = n[i+1:]
		}
		return "call:" + n
	case *ssa.Function:
		return "func:" + x.Name()
	case *ssa.Extract:
		return fmt.Sprintf("%s#%d", rootName(x.Tuple), x.Index)
	case *ssa.FreeVar:
		return "free:" + x.Name()
	case *ssa.Phi:
		return "phi:" + x.Comment
	case *ssa.MakeClosure:
		return "closure:" + x.Fn.Name()
	}
	return fmt.Sprintf("%T:%s", v, v.Name())
}

func structField(t types.Type, idx int) *types.Var {
	t = t.Underlying()
	if p, ok := t.(*types.Pointer); ok {
		t = p.Elem().Underlying()
	}
	if s, ok := t.(*types.Struct); ok && idx < s.NumFields() {
		return s.Field(idx)
	}
	return nil
}

// promotes: an embedded field of struct type, whose fields are promoted; such
// selectors are omitted from access paths so they read as in source.
func promotes(f *types.Var) bool {
	if !f.Embedded() {
		return false
	}
	t := f.Type().Underlying()
	if p, ok := t.(*types.Pointer); ok {
		t = p.Elem().Underlying()
	}
	_, ok := t.(*types.Struct)
	return ok
}

// freeVarBinding finds the value a closure's free variable is bound to in the
// enclosing function (through the MakeClosure instruction).
func freeVarBinding(fv *ssa.FreeVar) ssa.Value {
	fn := fv.Parent()
	par := fn.Parent()
	if par == nil {
		return nil
	}
	idx := -1
	for i, f := range fn.FreeVars {
		if f == fv {
			idx = i
		}
	}
	if idx < 0 {
		return nil
	}
	var found ssa.Value
	for _, b := range par.Blocks {
		for _, in := range b.Instrs {
			if mc, ok := in.(*ssa.MakeClosure); ok && mc.Fn == fn && idx < len(mc.Bindings) {
				found = mc.Bindings[idx]
			}
		}
	}
	return found
}

// cellInit: if alloc is a local cell that is stored to exactly once, with the
// value of a parameter (the SSA shape of a captured or address-taken
// parameter), return that parameter.
func cellParam(a *ssa.Alloc) *ssa.Parameter {
	var p *ssa.Parameter
	n := 0
	for _, ref := range *a.Referrers() {
		if st, ok := ref.(*ssa.Store); ok && st.Addr == a {
			n++
			if pp, ok := st.Val.(*ssa.Parameter); ok {
				p = pp
			}
		}
	}
	if n == 1 {
		return p
	}
	return nil
}

// singleStore: the only value ever stored (as a whole) into the cell, if the
// cell is stored to exactly once.
func singleStore(a *ssa.Alloc) ssa.Value {
	var v ssa.Value
	n := 0
	for _, ref := range *a.Referrers() {
		if st, ok := ref.(*ssa.Store); ok && st.Addr == ssa.Value(a) {
			n++
			v = st.Val
		}
	}
	if n == 1 {
		return v
	}
	return nil
}

// apOf computes the access path of a value.
func apOf(v ssa.Value) AP {
	switch x := v.(type) {
	case *ssa.FieldAddr:
		a := apOf(x.X)
		if f := structField(x.X.Type(), x.Field); f != nil {
			if !promotes(f) {
				a.Sel = append(append([]string{}, a.Sel...), f.Name())
			}
			return a
		}
	case *ssa.Field:
		a := apOf(x.X)
		if f := structField(x.X.Type(), x.Field); f != nil {
			if al, ok := a.Root.(*ssa.Alloc); ok && len(a.Sel) == 0 && isStateObject(al) {
				if o := fieldOrigin(al, f); o != nil {
					if _, isConst := o.(*ssa.Const); !isConst {
						if oa := apOf(o); oa.Root != ssa.Value(al) {
							return oa
						}
					}
				}
			}
			if !promotes(f) {
				a.Sel = append(append([]string{}, a.Sel...), f.Name())
			}
			return a
		}
	case *ssa.Parameter:
		// the receiver of a method used only as a method value: the object bound there
		if b := recvBinding(x); b != nil {
			return apOf(b)
		}
	case *ssa.UnOp:
		if x.Op == token.MUL {
			// the value read from a field of an operation's state object that is written once
			// in the whole module is a copy of what was stored there: the path names the
			// origin (as for a captured variable)
			if fa, ok := x.X.(*ssa.FieldAddr); ok {
				if f := structField(fa.X.Type(), fa.Field); f != nil {
					a := apOf(fa.X)
					if al, ok := a.Root.(*ssa.Alloc); ok && len(a.Sel) == 0 && isStateObject(al) {
						if o := fieldOrigin(al, f); o != nil {
							if _, isConst := o.(*ssa.Const); !isConst {
								if oa := apOf(o); oa.Root != ssa.Value(al) {
									return oa
								}
							}
						}
					}
				}
			}
			return apOf(x.X)
		}
	case *ssa.IndexAddr:
		a := apOf(x.X)
		s := "[*]"
		if k, ok := x.Index.(*ssa.Const); ok && k.Value != nil {
			s = "[" + k.Value.ExactString() + "]"
		}
		a.Sel = append(append([]string{}, a.Sel...), s)
		return a
	case *ssa.ChangeType:
		return apOf(x.X)
	case *ssa.MakeInterface:
		return apOf(x.X)
	case *ssa.ChangeInterface:
		return apOf(x.X)
	case *ssa.Slice:
		if x.Low == nil && x.High == nil && x.Max == nil {
			return apOf(x.X)
		}
	case *ssa.FreeVar:
		if b := freeVarBinding(x); b != nil {
			return apOf(b)
		}
	case *ssa.Alloc:
		if p := cellParam(x); p != nil {
			return apOf(p)
		}
		if sv := singleStore(x); sv != nil {
			// a local holding a copy of another value: the path names the origin
			if _, isConst := sv.(*ssa.Const); !isConst {
				if a := apOf(sv); a.Root != ssa.Value(x) {
					return a
				}
			}
		}
	}
	return AP{Root: v}
}

// apIs reports whether v's access path is rooted at a parameter (or receiver)
// of the given name and has exactly the dotted selector.
func apIs(v ssa.Value, root, sel string) bool {
	a := apOf(v)
	p, ok := a.Root.(*ssa.Parameter)
	return ok && p.Name() == root && a.SelString() == sel
}

// ---------------------------------------------------------------- constants

func isNilConst(v ssa.Value) bool {
	c, ok := v.(*ssa.Const)
	return ok && c.Value == nil
}

func constInt(v ssa.Value) (int64, bool) {
	for {
		switch x := v.(type) {
		case *ssa.Const:
			if x.Value == nil {
				return 0, false
			}
			if x.Value.Kind() == constant.Int {
				i, ok := constant.Int64Val(x.Value)
				return i, ok
			}
			if x.Value.Kind() == constant.Bool {
				if constant.BoolVal(x.Value) {
					return 1, true
				}
				return 0, true
			}
			return 0, false
		case *ssa.Convert:
			v = x.X
		case *ssa.ChangeType:
			v = x.X
		default:
			return 0, false
		}
	}
}

// ---------------------------------------------------------------- CFG helpers

// returnsOf lists the Return instructions of fn.
func returnsOf(fn *ssa.Function) []*ssa.Return {
	var out []*ssa.Return
	for _, b := range fn.Blocks {
		if len(b.Instrs) == 0 {
			continue
		}
		if r, ok := b.Instrs[len(b.Instrs)-1].(*ssa.Return); ok {
			out = append(out, r)
		}
	}
	return out
}

// errResultIndex returns the index of the last result if it is of type error, else -1.
func errResultIndex(fn *ssa.Function) int {
	res := fn.Signature.Results()
	if res.Len() == 0 {
		return -1
	}
	last := res.At(res.Len() - 1).Type()
	if types.Identical(last, types.Universe.Lookup("error").Type()) {
		return res.Len() - 1
	}
	return -1
}

// possibleValues expands phis (transitively) into the set of non-phi values.
func possibleValues(v ssa.Value) []ssa.Value {
	seen := map[ssa.Value]bool{}
	var out []ssa.Value
	var walk func(ssa.Value)
	walk = func(x ssa.Value) {
		if seen[x] {
			return
		}
		seen[x] = true
		if p, ok := x.(*ssa.Phi); ok {
			for _, e := range p.Edges {
				walk(e)
			}
			return
		}
		if al := privateCell(x); al != nil {
			for _, ref := range *al.Referrers() {
				if st, ok := ref.(*ssa.Store); ok {
					walk(st.Val)
				}
			}
			return
		}
		out = append(out, x)
	}
	walk(v)
	return out
}

// privateCell: v is a load of a local cell that is only ever loaded and
// stored directly (the SSA shape of results spilled because of a defer, and
// of address-taken locals that do not escape). Returns the cell.
func privateCell(v ssa.Value) *ssa.Alloc {
	ld, ok := v.(*ssa.UnOp)
	if !ok || ld.Op != token.MUL {
		return nil
	}
	al, ok := ld.X.(*ssa.Alloc)
	if !ok {
		// a read, inside a deferred function literal, of a variable of the deferring function
		fv, isFv := ld.X.(*ssa.FreeVar)
		if !isFv {
			return nil
		}
		al, ok = freeVarBinding(fv).(*ssa.Alloc)
		if !ok {
			return nil
		}
	}
	for _, ref := range *al.Referrers() {
		switch x := ref.(type) {
		case *ssa.UnOp:
			if x.Op != token.MUL {
				return nil
			}
		case *ssa.Store:
			if x.Addr != ssa.Value(al) {
				return nil
			}
		case *ssa.DebugRef:
		case *ssa.MakeClosure:
			// captured by a function literal that only reads it and is only deferred: it runs
			// at the owner's exits, after all of the owner's stores
			if !readOnlyDeferredCapture(x, al) {
				return nil
			}
		default:
			return nil
		}
	}
	return al
}

// readOnlyDeferredCapture: the closure mc captures cell al, only ever loads it, and its
// only use is as the operand of a defer statement.
func readOnlyDeferredCapture(mc *ssa.MakeClosure, al *ssa.Alloc) bool {
	f, ok := mc.Fn.(*ssa.Function)
	if !ok {
		return false
	}
	for _, ref := range *mc.Referrers() {
		d, isD := ref.(*ssa.Defer)
		if !isD || d.Call.Value != ssa.Value(mc) {
			return false
		}
	}
	for i, b := range mc.Bindings {
		if b != ssa.Value(al) || i >= len(f.FreeVars) {
			continue
		}
		for _, ref := range *f.FreeVars[i].Referrers() {
			u, isU := ref.(*ssa.UnOp)
			if !isU || u.Op != token.MUL {
				return false
			}
		}
	}
	return true
}

// reachAvoiding computes the set of blocks reachable from block from (the
// entry when nil) in fn's flattened view when the given blocks and edges are
// removed. Blocks of spliced helpers are part of the result.
type edge struct{ from, to *ssa.BasicBlock }

func reachAvoiding(fn *ssa.Function, from *ssa.BasicBlock, avoidB map[*ssa.BasicBlock]bool, avoidE map[edge]bool) map[*ssa.BasicBlock]bool {
	return flatOf(fn).reachBlocks(from, avoidB, avoidE)
}

// instrIndex returns the index of i in its block.
func instrIndex(i ssa.Instruction) int {
	for k, in := range i.Block().Instrs {
		if in == i {
			return k
		}
	}
	return -1
}

// mustPrecede: on every path of fn's flattened view from the entry to
// instruction b, instruction a has executed before.
func mustPrecede(fn *ssa.Function, a, b ssa.Instruction) bool {
	return flatOf(fn).MustPrecede(a, b)
}

// canReach: is there a path from instruction a to instruction b (a strictly
// before b)? Decided in the flattened view of root when both lie in it, else
// within a's own function.
func canReach(a, b ssa.Instruction) bool {
	return flatOf(a.Parent()).CanReach(a, b)
}

// canReachIn is canReach in the flattened view of root.
func canReachIn(root *ssa.Function, a, b ssa.Instruction) bool {
	return flatOf(root).CanReach(a, b)
}

// hasLoop reports whether the function's CFG has a cycle.
func hasLoop(fn *ssa.Function) bool {
	color := map[*ssa.BasicBlock]int{}
	var dfs func(b *ssa.BasicBlock) bool
	dfs = func(b *ssa.BasicBlock) bool {
		color[b] = 1
		for _, s := range b.Succs {
			if color[s] == 1 {
				return true
			}
			if color[s] == 0 && dfs(s) {
				return true
			}
		}
		color[b] = 2
		return false
	}
	if len(fn.Blocks) == 0 {
		return false
	}
	return dfs(fn.Blocks[0])
}

// ---------------------------------------------------------------- misc

// binopCond decomposes an If condition into (op, x, y), looking through a
// negation.
func condOf(v ssa.Value) (op token.Token, x, y ssa.Value, neg bool, ok bool) {
	for {
		if u, isU := v.(*ssa.UnOp); isU && u.Op == token.NOT {
			neg = !neg
			v = u.X
			continue
		}
		break
	}
	if b, isB := v.(*ssa.BinOp); isB {
		return b.Op, b.X, b.Y, neg, true
	}
	return 0, v, nil, neg, false
}

// stripConv looks through conversions that do not change the value's meaning
// for provenance purposes.
func stripConv(v ssa.Value) ssa.Value {
	for {
		switch x := v.(type) {
		case *ssa.ChangeType:
			v = x.X
		case *ssa.Convert:
			v = x.X
		case *ssa.MakeInterface:
			v = x.X
		case *ssa.ChangeInterface:
			v = x.X
		default:
			return v
		}
	}
}

// storesTo lists the Store instructions in fn (and optionally its closures)
// whose address has the given selector string under any root.
func rawInstrs(fn *ssa.Function, withClosures bool, f func(ssa.Instruction)) {
	for _, b := range fn.Blocks {
		for _, in := range b.Instrs {
			f(in)
		}
	}
	if withClosures {
		for _, a := range fn.AnonFuncs {
			rawInstrs(a, true, f)
		}
	}
}

// allInstrs visits the instructions of fn's flattened view (fn's own, then
// those of the unexported helpers spliced into it) and, if asked, of the
// function literals nested in fn. Rules about "what fn does" use this; scans
// of every function in the module use rawInstrs.
func allInstrs(fn *ssa.Function, withClosures bool, f func(ssa.Instruction)) {
	seen := map[ssa.Instruction]bool{}
	var visit func(g *ssa.Function)
	visit = func(g *ssa.Function) {
		flatOf(g).All(func(in ssa.Instruction, _ *FB) {
			if !seen[in] {
				seen[in] = true
				f(in)
			}
		})
		if withClosures {
			for _, a := range g.AnonFuncs {
				visit(a)
			}
		}
	}
	visit(fn)
}

// viewInstrs visits every instruction of fn's flattened view once (the
// function's own instructions first, then those of the helpers spliced into it).
func viewInstrs(fn *ssa.Function, f func(ssa.Instruction)) {
	seen := map[ssa.Instruction]bool{}
	flatOf(fn).All(func(in ssa.Instruction, _ *FB) {
		if !seen[in] {
			seen[in] = true
			f(in)
		}
	})
}

// viewIfs lists the conditional branches of fn's flattened view.
func viewIfs(fn *ssa.Function) []*ssa.If {
	var out []*ssa.If
	viewInstrs(fn, func(in ssa.Instruction) {
		if i, ok := in.(*ssa.If); ok {
			out = append(out, i)
		}
	})
	return out
}

func fnContainsCallTo(fn *ssa.Function, names ...string) (ssa.Instruction, int) {
	var first ssa.Instruction
	n := 0
	allInstrs(fn, false, func(in ssa.Instruction) {
		if isCallTo(in, names...) {
			if first == nil {
				first = in
			}
			n++
		}
	})
	return first, n
}

// ---------------------------------------------------------------- natural loops

// Loop is a natural loop: header plus body blocks.
type Loop struct {
	Header *ssa.BasicBlock
	Blocks map[*ssa.BasicBlock]bool
	Parent *Loop
}

// naturalLoops computes the natural loops of fn (merged per header) and their
// nesting (Parent = smallest strictly enclosing loop).
func naturalLoops(fn *ssa.Function) []*Loop {
	byHeader := map[*ssa.BasicBlock]*Loop{}
	var order []*Loop
	for _, b := range fn.Blocks {
		for _, s := range b.Succs {
			if s.Dominates(b) {
				l := byHeader[s]
				if l == nil {
					l = &Loop{Header: s, Blocks: map[*ssa.BasicBlock]bool{s: true}}
					byHeader[s] = l
					order = append(order, l)
				}
				// blocks that reach b without passing s
				stack := []*ssa.BasicBlock{b}
				for len(stack) > 0 {
					x := stack[len(stack)-1]
					stack = stack[:len(stack)-1]
					if l.Blocks[x] {
						continue
					}
					l.Blocks[x] = true
					stack = append(stack, x.Preds...)
				}
			}
		}
	}
	for _, l := range order {
		for _, m := range order {
			if m == l || !m.Blocks[l.Header] || len(m.Blocks) <= len(l.Blocks) {
				continue
			}
			if l.Parent == nil || len(m.Blocks) < len(l.Parent.Blocks) {
				l.Parent = m
			}
		}
	}
	return order
}

// innermostLoop returns the smallest loop containing b, or nil.
func innermostLoop(loops []*Loop, b *ssa.BasicBlock) *Loop {
	var best *Loop
	for _, l := range loops {
		if l.Blocks[b] && (best == nil || len(l.Blocks) < len(best.Blocks)) {
			best = l
		}
	}
	return best
}

func (l *Loop) blockList() []*ssa.BasicBlock {
	var out []*ssa.BasicBlock
	for b := range l.Blocks {
		out = append(out, b)
	}
	return out
}

// lowerBound computes a conservative integer lower bound of v (ok=false if none).
func lowerBound(v ssa.Value) (int64, bool) { return lowerBoundWith(v, nil) }

// lowerBoundWith is lowerBound with known lower bounds for some values
// (e.g. parameters bound to constants at every call site).
func lowerBoundWith(v ssa.Value, known map[ssa.Value]int64) (int64, bool) {
	seen := map[ssa.Value]bool{}
	var lb func(v ssa.Value) (int64, bool)
	lb = func(v ssa.Value) (int64, bool) {
		if k, ok := constInt(v); ok {
			return k, true
		}
		if k, ok := known[v]; ok {
			return k, true
		}
		if seen[v] {
			return 0, false
		}
		seen[v] = true
		defer delete(seen, v)
		switch x := v.(type) {
		case *ssa.Phi:
			var best int64
			have := false
			for _, e := range x.Edges {
				// self-increment edges do not lower the bound
				if bo, ok := e.(*ssa.BinOp); ok && bo.Op == token.ADD {
					if k, isK := constInt(bo.Y); isK && k >= 0 && derivesFromPhi(bo.X, x) {
						continue
					}
				}
				if e == ssa.Value(x) {
					continue
				}
				b, ok := lb(e)
				if !ok {
					return 0, false
				}
				if !have || b < best {
					best, have = b, true
				}
			}
			return best, have
		case *ssa.BinOp:
			if x.Op == token.ADD {
				a, ok1 := lb(x.X)
				b, ok2 := lb(x.Y)
				if ok1 && ok2 {
					return a + b, true
				}
			}
		case *ssa.Convert:
			return lb(x.X)
		case *ssa.Call:
			if b, ok := x.Call.Value.(*ssa.Builtin); ok && b.Name() == "len" {
				return 0, true
			}
			if f := x.Call.StaticCallee(); f != nil && f.Blocks != nil && f.Signature.Results().Len() == 1 {
				return retLowerBound(f, 0)
			}
		case *ssa.Extract:
			if call, ok := x.Tuple.(*ssa.Call); ok {
				if f := call.Call.StaticCallee(); f != nil && f.Blocks != nil {
					return retLowerBound(f, x.Index)
				}
			}
		}
		return 0, false
	}
	return lb(v)
}

// retLowerBound: minimum over all returns of result idx, when each is a constant.
func retLowerBound(f *ssa.Function, idx int) (int64, bool) {
	var best int64
	have := false
	for _, ret := range returnsOf(f) {
		if idx >= len(ret.Results) {
			return 0, false
		}
		for _, v := range possibleValues(ret.Results[idx]) {
			k, ok := constInt(v)
			if !ok {
				return 0, false
			}
			if !have || k < best {
				best, have = k, true
			}
		}
	}
	return best, have
}

// derivesFromPhi: v is ph or a chain of φ/+const leading back to ph.
func derivesFromPhi(v ssa.Value, ph *ssa.Phi) bool {
	seen := map[ssa.Value]bool{}
	var walk func(ssa.Value) bool
	walk = func(x ssa.Value) bool {
		if x == ssa.Value(ph) {
			return true
		}
		if seen[x] {
			return true
		}
		seen[x] = true
		switch y := x.(type) {
		case *ssa.Phi:
			for _, e := range y.Edges {
				if !walk(e) {
					return false
				}
			}
			return true
		case *ssa.BinOp:
			if y.Op == token.ADD {
				if k, ok := constInt(y.Y); ok && k >= 0 {
					return walk(y.X)
				}
			}
		}
		return false
	}
	return walk(v)
}
