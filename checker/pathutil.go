package main

import (
	"go/token"
	"strings"

	"golang.org/x/tools/go/ssa"
)

// caseOf: the constant that parameter prm compared equal with on this path (a
// switch arm or an if), taken from the last such comparison whose equal arm
// was followed. ok=false on the default arm.
func (p CPath) caseOf(prm ssa.Value) (int64, bool) {
	var k int64
	found := false
	for _, tk := range p.Ifs() {
		op, x, y, neg, isBin := condOf(tk.If.Cond)
		if !isBin || (op != token.EQL && op != token.NEQ) {
			continue
		}
		var kv ssa.Value
		switch {
		case p.Resolve(stripConv(x)) == prm || x == prm:
			kv = y
		case p.Resolve(stripConv(y)) == prm || y == prm:
			kv = x
		default:
			continue
		}
		c, isK := constInt(kv)
		if !isK {
			continue
		}
		arm := tk.Arm != neg
		if (op == token.EQL) == arm {
			k, found = c, true
		}
	}
	return k, found
}

// objOf: the local object (allocation) a value denotes on this path: a pointer
// to it, or a copy of the struct value held in it. Interface and type
// conversions are looked through.
func (p CPath) objOf(v ssa.Value) *ssa.Alloc {
	for i := 0; i < 8; i++ {
		v = p.Resolve(v)
		switch x := v.(type) {
		case *ssa.MakeInterface:
			v = x.X
			continue
		case *ssa.ChangeType:
			v = x.X
			continue
		case *ssa.ChangeInterface:
			v = x.X
			continue
		case *ssa.Alloc:
			return x
		case *ssa.UnOp:
			if x.Op == token.MUL {
				if al, ok := x.X.(*ssa.Alloc); ok {
					return al
				}
			}
		}
		return nil
	}
	return nil
}

// objFields: the values last stored, along the path, into each field of the
// local object (values resolved on the path). A composite literal and a
// sequence of field assignments to a zero value give the same result.
func (p CPath) objFields(obj *ssa.Alloc) map[string]ssa.Value {
	out := map[string]ssa.Value{}
	if obj == nil {
		return out
	}
	for _, in := range p.Instrs() {
		st, ok := in.(*ssa.Store)
		if !ok {
			continue
		}
		ap := p.AP(st.Addr)
		if ap.Root != ssa.Value(obj) {
			continue
		}
		sel := ap.SelString()
		if sel == "" {
			continue
		}
		out[sel] = p.Resolve(st.Val)
	}
	return out
}

// Relation is a comparison whose outcome is known on a path.
type Relation struct {
	Op   token.Token // the relation that HOLDS on the path (EQL, NEQ, LSS, …)
	X, Y ssa.Value
	If   *ssa.If
}

func negateOp(op token.Token) token.Token {
	switch op {
	case token.EQL:
		return token.NEQ
	case token.NEQ:
		return token.EQL
	case token.LSS:
		return token.GEQ
	case token.GEQ:
		return token.LSS
	case token.GTR:
		return token.LEQ
	case token.LEQ:
		return token.GTR
	}
	return token.ILLEGAL
}

// relations lists the comparisons decided by the branches taken along the
// path: the condition of each branch is followed through negations, phis and
// the results of spliced helpers (a helper returning `a == b` decides a == b
// in its caller) down to a binary comparison.
func (p CPath) relations() []Relation {
	var out []Relation
	for _, tk := range p.Ifs() {
		v := tk.If.Cond
		holds := tk.Arm
		for i := 0; i < 16; i++ {
			if u, ok := v.(*ssa.UnOp); ok && u.Op == token.NOT {
				holds = !holds
				v = u.X
				continue
			}
			nv := p.Resolve(v)
			if nv == v {
				break
			}
			v = nv
		}
		bo, ok := v.(*ssa.BinOp)
		if !ok {
			continue
		}
		op := bo.Op
		if !holds {
			op = negateOp(op)
		}
		if op == token.ILLEGAL {
			continue
		}
		out = append(out, Relation{Op: op, X: bo.X, Y: bo.Y, If: tk.If})
	}
	return out
}

// loadOfField: v (resolved on the path) is a load of field sel (a selector
// string) of the object base denotes.
func (p CPath) loadOfField(v ssa.Value, base ssa.Value, sel string) bool {
	ld, ok := p.Resolve(stripConv(v)).(*ssa.UnOp)
	if !ok || ld.Op != token.MUL {
		return false
	}
	ap := p.AP(ld.X)
	if ap.Root == base && ap.SelString() == sel {
		return true
	}
	// base itself may denote a location reached through spliced helpers
	bp := p.AP(base)
	if bp.Root != ap.Root {
		return false
	}
	want := strings.TrimPrefix(bp.SelString()+"."+sel, ".")
	return ap.SelString() == want
}

// BoolFact is a boolean value whose truth a taken branch decides.
type BoolFact struct {
	V    ssa.Value
	True bool
	If   *ssa.If
}

// boolFacts lists the non-comparison conditions decided along the path
// (negations, phis and spliced helper results followed as in relations).
func (p CPath) boolFacts() []BoolFact {
	var out []BoolFact
	for _, tk := range p.Ifs() {
		v := tk.If.Cond
		holds := tk.Arm
		for i := 0; i < 16; i++ {
			if u, ok := v.(*ssa.UnOp); ok && u.Op == token.NOT {
				holds = !holds
				v = u.X
				continue
			}
			nv := p.Resolve(v)
			if nv == v {
				break
			}
			v = nv
		}
		if _, isBin := v.(*ssa.BinOp); isBin {
			continue
		}
		out = append(out, BoolFact{V: v, True: holds, If: tk.If})
	}
	return out
}

// storedBefore: the value last stored, on the path, into the location whose
// access path (continued through spliced helpers) satisfies match, before the
// occurrence at index at of p.OccsPos(). The value is resolved as of the store.
// ok=false when nothing on the path stored there before that point.
func (p CPath) storedBefore(occs []OccPos, at int, match func(AP) bool) (ssa.Value, int, bool) {
	for i := at - 1; i >= 0; i-- {
		st, ok := occs[i].In.(*ssa.Store)
		if !ok {
			continue
		}
		pk := p.Upto(occs[i].Seg)
		if !match(pk.APIn(occs[i].Ctx, st.Addr)) {
			continue
		}
		return pk.ResolveIn(occs[i].Ctx, st.Val), i, true
	}
	return nil, -1, false
}

// forward resolves v as of occurrence index at and, when the result is a load
// from a location that was stored to earlier on the path, continues with the
// stored value (store-to-load forwarding along the path, a few levels).
func (p CPath) forward(occs []OccPos, at int, ctx *FCtx, v ssa.Value) ssa.Value {
	seg := 0
	if at >= 0 && at < len(occs) {
		seg = occs[at].Seg
	}
	for i := 0; i < 6; i++ {
		v = p.Upto(seg).ResolveIn(ctx, v)
		ld, ok := stripConv(v).(*ssa.UnOp)
		if !ok || ld.Op != token.MUL {
			return v
		}
		// position of this load on the path (latest before at)
		pos := -1
		for j := at; j >= 0 && j < len(occs); j-- {
			if occs[j].In == ssa.Instruction(ld) {
				pos = j
				break
			}
		}
		if pos < 0 {
			return v
		}
		want := p.Upto(occs[pos].Seg).APIn(occs[pos].Ctx, ld.X)
		sv, si, ok := p.storedBefore(occs, pos, func(a AP) bool {
			return a.Root == want.Root && a.SelString() == want.SelString()
		})
		if !ok {
			return v
		}
		v, at, ctx = sv, si, nil
		seg = occs[si].Seg
	}
	return v
}
