package main

import (
	"fmt"
	"go/token"
	"go/types"
	"sort"
	"strings"

	"golang.org/x/tools/go/ssa"
)

func init() { register("C20", checkC20) }

// bitfieldAtom recognises (x & mask) >> sh and x & mask and x >> sh on a byte
// parameter as the bit-field x[hi:lo].
func bitfieldAtom(v ssa.Value, param ssa.Value) string {
	return bitfieldAtomIn(nil, v, param)
}

// bitfieldAtomIn is bitfieldAtom in the flattened view of root (the masked
// value may be a helper's parameter bound to param).
func bitfieldAtomIn(root *ssa.Function, v ssa.Value, param ssa.Value) string {
	v = stripConv(v)
	sh := int64(0)
	if bo, ok := v.(*ssa.BinOp); ok && bo.Op == token.SHR {
		k, isK := constInt(bo.Y)
		if !isK {
			return ""
		}
		sh = k
		v = stripConv(bo.X)
	}
	mask := int64(0xff)
	if bo, ok := v.(*ssa.BinOp); ok && bo.Op == token.AND {
		k, isK := constInt(bo.Y)
		if !isK {
			return ""
		}
		mask = k
		v = stripConv(bo.X)
	}
	if root != nil {
		v = viewVal(root, v)
	}
	if v != param {
		return ""
	}
	m := (mask >> sh) << sh
	if m == 0 {
		return ""
	}
	lo, hi := 0, 7
	for m&(1<<lo) == 0 {
		lo++
	}
	for m&(1<<hi) == 0 {
		hi--
	}
	// contiguous?
	for i := lo; i <= hi; i++ {
		if m&(1<<i) == 0 {
			return ""
		}
	}
	if int64(lo) != sh {
		// field not shifted down to bit 0: value is field << (lo-sh); not handled
		return ""
	}
	return fmt.Sprintf("b[%d:%d]", hi, lo)
}

func checkC20(c *Ctx, r *Report) {
	r.Explain = "Only the clauses of this property whose truth is in the shape of the code are decided: the BCD-plus character table; the encoding→decoder table; exact true-sets of the system-relative/device-relative predicates; the rolling-average unit multiplier table and, arm by arm, the period encoder (unit tag ↔ divisor ↔ duration interval, one truncation, count ≤ 63 by interval or clamp); the unsigned and two's-complement analog parsers as zero/sign extension; the Latin-1 decoder as a copy of the first c bytes; bcd.Decode as the normal form 10·b[7:4] + b[3:0]; the IPMI checksum as the negated 8-bit sum of every byte. Three conversions are decided as bit functions by abstract interpretation over symbolic bits (engine E2 with a ripple-carry adder on the bit domain), for all inputs at once and without running anything: complement.Twos(v, n) is the sign extension of v's low n bits for every n = 1..16; the packed 6-bit ASCII and BCD-plus decoders store into result[i], for every residue of the character index, exactly the specified bits of bytes 3⌊i/4⌋+k resp. ⌊i/2⌋ (index arithmetic by entailment in E1's constraint store), for i = 0..c−1, and consume ⌈3c/4⌉ resp. ⌈c/2⌉ bytes; the Latin-1 decoder returns the window b[0:c] itself. complement.Ones is decided as arithmetic, with narrow-type wrap-around kept exact in engine E1's linear forms: on every path the result is entailed to be b (b ≤ 127) or b − 255 (b ≥ 128). What remains (the duration accessor's floating point) is listed as not decided."
	r.NotDecided = []string{"rollingAvgPeriodDuration as a value function and the byte↔duration round trip as a value statement (the encoder is decided arm by arm as exact rational arithmetic; floating-point rounding of time.Duration accessors is not modelled)", "the contents of the Go string built from the decoded runes (string([]rune) is the language's conversion)"}
	r.Trusted = []string{"go/types, go/ssa (x/tools v0.29.0)", "IPMI v2.0 §43.15 (type/length byte, BCD plus), §43.1 entity instance ranges, DCMI §6.6.1 time units"}
	ir := newInitReader(c)

	r.Rule("bcd-plus-table", "BCD-plus nibbles 0..15 map to '0'..'9',' ','-','.',':',',','_'", 1)
	if v, g := ir.globalByType("pkg/ipmi", "bcdPlusRunes", "[16]rune"); g == nil {
		r.Lost("ipmi BCD-plus rune table")
	} else {
		var sb strings.Builder
		for _, e := range v.Elems {
			if k, ok := e.Int(); ok {
				sb.WriteRune(rune(k))
			} else {
				sb.WriteRune('?')
			}
		}
		r.Check(sb.String() == "0123456789 -.:,_", "ipmi.bcdPlusRunes", g.Pos(), sb.String(), fmt.Sprintf("BCD-plus table is %q, specification: %q", sb.String(), "0123456789 -.:,_"))
	}

	r.Rule("decoder-table", "type/length encodings 1,2,3 select the BCD-plus, packed 6-bit and 8-bit Latin-1 decoders", 3)
	if v, g := ir.globalByType("pkg/ipmi", "stringEncodingDecoders", "map["+modPath+"/pkg/ipmi.StringEncoding]"+modPath+"/pkg/ipmi.StringDecoder"); g == nil {
		r.Lost("ipmi string encoding decoder table")
	} else {
		got := map[int64]*ssa.Function{}
		for _, e := range v.Entries {
			if k, ok := e.K.Int(); ok && e.V.Kind == "func" {
				got[k] = e.V.Func
			}
		}
		kinds := map[int64]string{}
		for k, f := range got {
			kinds[k] = classifyStringDecoder(f)
			r.Fn(c.FnName(f))
		}
		for k, w := range map[int64]string{1: "bcdplus", 2: "packed6", 3: "latin1"} {
			r.Check(kinds[k] == w, fmt.Sprintf("string encoding %d", k), g.Pos(), kinds[k], fmt.Sprintf("encoding %d selects a %q decoder, want %q", k, kinds[k], w))
		}
		// the Latin-1 decoder as a value statement: it is the identity on the first c bytes
		checkLatin1Decoders(c, r)
		// "ID strings of every length" includes the empty one: with a character count of zero no
		// decoder may fail, whatever follows in the record (engine E1: every error exit's path
		// condition is unsatisfiable under c == 0)
		r.Rule("empty-string-decodes", "each ID-string decoder accepts a zero-length string regardless of the bytes available", 3)
		var ks []int64
		for k := range got {
			ks = append(ks, k)
		}
		sort.Slice(ks, func(i, j int) bool { return ks[i] < ks[j] })
		for _, k := range ks {
			f := got[k]
			if len(f.Params) != 2 {
				r.Unk(c.FnName(f)+"|c == 0 never fails", f.Pos(), "unexpected decoder signature")
				continue
			}
			evs, why := extractEventsWith(c, f, nil, func(e *lfEngine, fr *lfFrame, st *lfState) {
				if cv, ok := fr.env[f.Params[1]].(vInt); ok {
					st.cons = append(st.cons, leq(cv.E, linConst(0)), geq(cv.E, linConst(0)))
				}
			})
			okE, nErr := why == "", 0
			for _, le := range evs {
				if !le.OK {
					nErr++
					okE = false
				}
			}
			r.Check(okE, c.FnName(f)+"|c == 0 never fails", f.Pos(), fmt.Sprintf("no error exit is reachable with a zero count (%d found)", nErr), "an error exit is reachable with a character count of zero: an unnamed sensor's record fails to decode")
		}
	}

	r.Rule("entity-instance-classes", "system-relative = 0x00..0x5F, device-relative = 0x60..0x7F", 2)
	for _, pw := range []struct{ m, want string }{{"IsSystemRelative", "{0x0-0x5F}"}, {"IsDeviceRelative", "{0x60-0x7F}"}} {
		f := c.Method("pkg/ipmi", "EntityInstance", pw.m)
		if f == nil {
			r.Lost("ipmi.EntityInstance." + pw.m)
			continue
		}
		r.Fn(c.FnName(f))
		set, err := predicateTrueSet(f, 0, 255)
		if err != nil {
			r.Unk("ipmi.EntityInstance."+pw.m+"|true-set", f.Pos(), err.Error())
			continue
		}
		r.Check(rangesString(set) == pw.want, "ipmi.EntityInstance."+pw.m+"|true-set", f.Pos(), rangesString(set), "true-set is "+rangesString(set)+", want "+pw.want)
	}

	// every other place that classifies an instance by comparing it with a constant draws the
	// line where the two predicates do
	r.Rule("entity-instance-boundaries", "every comparison of an entity instance with a constant, in any method of the type, separates whole classes: 0x00..0x5F, 0x60..0x7F, 0x80..0xFF", 2)
	if ei := c.Named("pkg/ipmi", "EntityInstance"); ei == nil {
		r.Lost("ipmi.EntityInstance")
	} else {
		for _, fn := range c.LibFuncs() {
			rv := fn.Signature.Recv()
			if rv == nil || len(fn.Params) == 0 {
				continue
			}
			if n, ok := rv.Type().(*types.Named); !ok || n.Obj() != ei.Obj() {
				continue
			}
			recv := fn.Params[0]
			fromRecv := func(v ssa.Value) bool {
				for i := 0; i < 3; i++ {
					if v == ssa.Value(recv) {
						return true
					}
					cv, ok := v.(*ssa.Convert)
					if !ok {
						if ct, ok2 := v.(*ssa.ChangeType); ok2 {
							v = ct.X
							continue
						}
						return false
					}
					// only width-preserving conversions keep the value
					if typeBits(cv.Type().Underlying()) < 8 {
						return false
					}
					v = cv.X
				}
				return false
			}
			rawInstrs(fn, false, func(in ssa.Instruction) {
				b, ok := in.(*ssa.BinOp)
				if !ok {
					return
				}
				var k int64
				var isK, flipped bool
				switch {
				case fromRecv(b.X):
					k, isK = constInt(b.Y)
				case fromRecv(b.Y):
					k, isK = constInt(b.X)
					flipped = true
				}
				if !isK {
					return
				}
				holds := func(v int64) (bool, bool) {
					x, y := v, k
					if flipped {
						x, y = k, v
					}
					switch b.Op {
					case token.LSS:
						return x < y, true
					case token.LEQ:
						return x <= y, true
					case token.GTR:
						return x > y, true
					case token.GEQ:
						return x >= y, true
					case token.EQL:
						return x == y, true
					case token.NEQ:
						return x != y, true
					}
					return false, false
				}
				if _, cmp := holds(0); !cmp {
					return
				}
				if b.Op == token.EQL || b.Op == token.NEQ {
					return // a test for one particular instance is not a classification
				}
				// the comparison must not cut through a class
				okCut := true
				for _, cls := range [][2]int64{{0x00, 0x5f}, {0x60, 0x7f}, {0x80, 0xff}} {
					first, _ := holds(cls[0])
					for v := cls[0]; v <= cls[1]; v++ {
						if h, _ := holds(v); h != first {
							okCut = false
						}
					}
				}
				r.Check(okCut, "ipmi.EntityInstance."+fn.Name()+"|"+b.Op.String()+fmt.Sprintf(" %#x", k), b.Pos(), "separates whole classes", fmt.Sprintf("the comparison with %#x cuts through a class: system-relative instances are 0x00..0x5F, device-relative 0x60..0x7F", k))
			})
		}
	}

	// two's complement "of every width used on the wire": the 10-bit M, B and accuracy and
	// the 4-bit exponents of the Full Sensor Record are sign-extended from exactly those widths
	// (layout rule shared with C07/C15, restricted to the signed fields)
	r.Rule("twos-complement-widths", "M, B and accuracy are sign-extended from 10 bits, the R and B exponents from 4 bits", 5)
	for _, sp := range specsFor(responseSpecs, "FullSensorRecord") {
		sub := sp
		sub.Want = map[string][]string{}
		for k, v := range sp.Want {
			for _, e := range v {
				if strings.HasPrefix(e, "sext") {
					sub.Want[k] = v
				}
			}
		}
		if len(sub.Want) > 0 {
			compareSpec(c, r, []layerSpec{sub}, "field", nil)
		}
	}

	r.Rule("time-unit-table", "rolling-average time units 0,1,2,3 are 1, 60, 3600, 86400 seconds", 1)
	if f := c.uniqueFuncBySig("pkg/dcmi", "secondsMultiplier", "func(uint8)(int)"); f == nil {
		r.Lost("dcmi.secondsMultiplier")
	} else {
		r.Fn(c.FnName(f))
		got := map[int64]int64{}
		arms := switchArms(f)
		for k, ret := range arms {
			if v, ok := constInt(ret.Results[0]); ok {
				got[k] = v
			}
		}
		// default arm: the return not reached by any case
		def := int64(-1)
		for _, ret := range returnsOf(f) {
			isCase := false
			for _, a := range arms {
				if a == ret {
					isCase = true
				}
			}
			if !isCase {
				if v, ok := constInt(ret.Results[0]); ok {
					def = v
				}
			}
		}
		val := func(k int64) int64 {
			if v, ok := got[k]; ok {
				return v
			}
			if def >= 0 {
				return def
			}
			// not a switch over constants (a table lookup, an if chain): ask engine E1 what the
			// function returns when its argument is k
			if v, ok := constReturn(c, f, k); ok {
				return v
			}
			return def
		}
		ok := val(0) == 1 && val(1) == 60 && val(2) == 3600 && val(3) == 86400
		r.Check(ok, "dcmi.secondsMultiplier|table", f.Pos(), "1,60,3600,86400", fmt.Sprintf("multipliers for units 0..3 are %d,%d,%d,%d", val(0), val(1), val(2), val(3)))
	}

	checkRollingAvgEncoder(c, r)

	// ... and the conversion is applied where the duration goes on the wire: the Get Power
	// Reading request's period byte is the encoder's result for the request's current Period —
	// not a value remembered from an earlier serialisation (layout shared with C06)
	r.Rule("period-byte-on-the-wire", "the Get Power Reading request writes rollingAvgPeriodByte(Period) of the value being serialised (or zero outside enhanced mode) as its second byte", 1)
	for _, sp := range specsFor(requestSpecs, "GetPowerReadingReq") {
		sub := sp
		sub.Want = map[string][]string{"pre[1]": sp.Want["pre[1]"]}
		compareSpec(c, r, []layerSpec{sub}, "wire", nil)
	}

	r.Rule("extension-parsers", "unsigned parser = zero-extension, two's-complement parser = sign-extension of the raw byte", 2)
	if v, g := ir.globalByType("pkg/ipmi", "analogDataFormatParsers", "map["+modPath+"/pkg/ipmi.AnalogDataFormat]"+modPath+"/pkg/ipmi.AnalogDataFormatParser"); g == nil {
		r.Lost("ipmi analog parser table")
	} else {
		got := map[int64]string{}
		for _, e := range v.Entries {
			if k, ok := e.K.Int(); ok && e.V.Kind == "func" {
				got[k] = describeParser(e.V.Func)
			}
		}
		r.Check(got[0] == "zext8", "analog format 0 (unsigned)", g.Pos(), got[0], "unsigned parser is not a zero-extension of the byte")
		r.Check(got[2] == "sext8", "analog format 2 (two's complement)", g.Pos(), got[2], "two's-complement parser is not a sign-extension of the byte")
	}

	checkTwosPrimitive(c, r)
	checkOnesPrimitive(c, r)
	checkPackedDecoders(c, r)

	// the primitives at their points of use: the IPMI checksum is computed over the specified
	// byte ranges of the message being serialised (layout shared with C06/C03) ...
	r.Rule("checksum-on-the-wire", "the message serialiser writes checksum(bytes 0..1) as checksum 1 and checksum(byte 3 … last data byte) as checksum 2, over bytes it has written", 4)
	for _, sp := range shapedRequestSpecs {
		sub := sp
		sub.Want = map[string][]string{}
		for k, v := range sp.Want {
			for _, e := range v {
				if strings.HasPrefix(e, "checksum:") {
					sub.Want[k] = v
				}
			}
		}
		if len(sub.Want) > 0 {
			compareSpec(c, r, []layerSpec{sub}, "wire", nil)
		}
	}
	// ... and the analog-format parsers and the conversion formula are applied to the raw byte of
	// the response on every read (rule shared with C15)
	checkSensorRead(c, r)
	// ... BCD bytes are decoded whole where the wire carries them (Get Device ID minor firmware
	// revision, SDR version: layouts shared with C07) ...
	r.Rule("bcd-on-the-wire", "every response field the specification gives in BCD is bcd(·) of the whole specified byte or bit range", 1)
	for _, sp := range responseSpecs {
		sub := sp
		sub.Want = map[string][]string{}
		for k, v := range sp.Want {
			for _, e := range v {
				if strings.Contains(e, "bcd(") {
					sub.Want[k] = v
				}
			}
		}
		if len(sub.Want) > 0 {
			compareSpec(c, r, []layerSpec{sub}, "field", nil)
		}
	}
	// ... and an ID string of any length, zero included, is what the string decoder returned for
	// the record's own type/length byte (shared with C07, C14)
	checkIDStringHeader(c, r)
	checkMinimalEncodings(c, r, func(m minimalEncoding) bool { return m.Type == "FullSensorRecord" })
	checkDecoderAssignment(c, r, "record-decoder-overwrites", 1, func(n *types.Named) bool { return n.Obj().Name() == "FullSensorRecord" })

	r.Rule("bcd-normal-form", "bcd.Decode(b) = 10·b[7:4] + b[3:0]", 1)
	if f := c.Func("internal/pkg/bcd", "Decode"); f == nil {
		r.Lost("bcd.Decode")
	} else {
		r.Fn(c.FnName(f))
		rets := returnsOf(f)
		if len(rets) != 1 || hasLoop(f) {
			if ok, why := bcdByEntailment(c, f); ok {
				r.OK("bcd.Decode|normal form", f.Pos(), "10·⌊b/16⌋ + (b mod 16) entailed on every path")
			} else {
				r.Unk("bcd.Decode|shape", f.Pos(), "not a single expression, and not entailed: "+why)
			}
		} else {
			p := ssa.Value(f.Params[0])
			got, err := polyOfIn(f, rets[0].Results[0], func(v ssa.Value) string { return bitfieldAtomIn(f, v, p) })
			want := polyAdd(polyMul(polyConst(10), polyAtom("b[7:4]")), polyAtom("b[3:0]"), 1)
			if err != nil {
				// not written as masks and shifts of the argument: ask engine E1 (modular arithmetic
				// kept exact) whether the value returned is 10·⌊b/16⌋ + b mod 16 on every path
				if ok, why := bcdByEntailment(c, f); ok {
					r.OK("bcd.Decode|normal form", f.Pos(), "10·⌊b/16⌋ + (b mod 16) entailed on every path")
				} else {
					r.Bad("bcd.Decode|normal form", f.Pos(), "not a polynomial over bit-fields of the argument ("+err.Error()+") and not entailed to be 10·⌊b/16⌋ + b mod 16: "+why)
				}
			} else {
				r.Check(got.String() == want.String(), "bcd.Decode|normal form", f.Pos(), got.String(), "bcd.Decode computes "+got.String()+", definition: "+want.String())
			}
		}
	}

	// a necessary condition for the string decoders at every length: the byte count each computes
	// covers every index it uses (engine E1, in the context of the record decoder that calls them)
	checkLenflowFor(c, r, "string-decoders-in-bounds", []string{"FullSensorRecord"})

	r.Rule("checksum-shape", "the IPMI checksum is the negation of the 8-bit sum of every byte of its argument", 1)
	// the checksum helper is whatever []byte→uint8 function the message layer calls
	seen := map[*ssa.Function]bool{}
	var sums []*ssa.Function
	for _, mn := range []string{"SerializeTo", "DecodeFromBytes"} {
		m := c.Method("pkg/ipmi", "Message", mn)
		if m == nil {
			continue
		}
		for _, f := range append([]*ssa.Function{m}, moduleCalleesOf(c, m, 2)...) {
			allInstrs(f, false, func(in ssa.Instruction) {
				if cc := asCall(in); cc != nil {
					if cal := cc.StaticCallee(); cal != nil && cal.Blocks != nil && c.InModule(cal) && cal.Signature.Recv() == nil && normSig(cal.Signature) == "func([]uint8)(uint8)" && !seen[cal] {
						seen[cal] = true
						sums = append(sums, cal)
					}
				}
			})
		}
	}
	if len(sums) == 0 {
		r.Lost("the message layer's checksum helper")
	}
	for _, f := range sums {
		r.Fn(c.FnName(f))
		r.Check(checksumShape(f), "ipmi message checksum|shape", f.Pos(), "-(Σ bytes) mod 256 over a full range loop", c.FnName(f)+" is not the negated 8-bit sum of all bytes of its argument")
	}
}

// moduleCalleesOf lists the module functions statically reachable from fn
// within depth calls.
func moduleCalleesOf(c *Ctx, fn *ssa.Function, depth int) []*ssa.Function {
	var out []*ssa.Function
	seen := map[*ssa.Function]bool{fn: true}
	var walk func(f *ssa.Function, d int)
	walk = func(f *ssa.Function, d int) {
		if d == 0 {
			return
		}
		allInstrs(f, false, func(in ssa.Instruction) {
			if cc := asCall(in); cc != nil {
				if cal := cc.StaticCallee(); cal != nil && cal.Blocks != nil && c.InModule(cal) && !seen[cal] {
					seen[cal] = true
					out = append(out, cal)
					walk(cal, d-1)
				}
			}
		})
	}
	walk(fn, depth)
	return out
}

// isRuneTable: a package-level [16]rune (the BCD-plus character table, whose
// contents the bcd-plus-table rule checks).
func isRuneTable(g *ssa.Global) bool {
	pt, ok := g.Type().(*types.Pointer)
	return ok && types.TypeString(pt.Elem(), nil) == "[16]rune"
}

func classifyStringDecoder(f *ssa.Function) string {
	if f == nil || f.Blocks == nil {
		return "?"
	}
	usesTable, plus20, plainCopy := false, false, false
	allInstrs(f, false, func(in ssa.Instruction) {
		switch x := in.(type) {
		case *ssa.IndexAddr:
			if g, ok := x.X.(*ssa.Global); ok && isRuneTable(g) {
				usesTable = true
			}
		case *ssa.BinOp:
			if x.Op == token.ADD {
				if k, ok := constInt(x.Y); ok && k == 0x20 {
					plus20 = true
				}
			}
		case *ssa.Convert:
			// string(b[:c])
			if bt, ok := x.Type().Underlying().(*types.Basic); ok && bt.Kind() == types.String {
				if sl, ok := x.X.(*ssa.Slice); ok && sl.X == ssa.Value(f.Params[0]) && sl.Low == nil && sl.High == ssa.Value(f.Params[1]) {
					plainCopy = true
				}
			}
		}
	})
	switch {
	case usesTable && !plus20 && !plainCopy:
		return "bcdplus"
	case plus20 && !usesTable && !plainCopy:
		return "packed6"
	case plainCopy && !usesTable && !plus20:
		// must also return c as the consumed count
		for _, ret := range returnsOf(f) {
			if isNilConst(ret.Results[2]) && ret.Results[1] != ssa.Value(f.Params[1]) {
				return "?"
			}
		}
		return "latin1"
	}
	return "?"
}

func checksumShape(f *ssa.Function) bool {
	if len(f.Params) != 1 || len(returnsOf(f)) != 1 {
		return false
	}
	loops := naturalLoops(f)
	if len(loops) != 1 || !countingLoop(loops[0].blockList()) {
		return false
	}
	ret := returnsOf(f)[0]
	// result: -acc | 0-acc | ^acc+1
	var acc ssa.Value
	switch x := ret.Results[0].(type) {
	case *ssa.UnOp:
		if x.Op == token.SUB {
			acc = x.X
		}
	case *ssa.BinOp:
		if x.Op == token.SUB {
			if k, ok := constInt(x.X); ok && k == 0 {
				acc = x.Y
			}
		}
		if x.Op == token.ADD {
			if k, ok := constInt(x.Y); ok && k == 1 {
				if u, ok := x.X.(*ssa.UnOp); ok && u.Op == token.XOR {
					acc = u.X
				}
			}
		}
	}
	ph, ok := acc.(*ssa.Phi)
	if !ok {
		return false
	}
	if bt, ok := ph.Type().Underlying().(*types.Basic); !ok || bt.Kind() != types.Uint8 {
		return false
	}
	zero, sum := false, false
	for _, e := range ph.Edges {
		if k, ok := constInt(e); ok && k == 0 {
			zero = true
			continue
		}
		if bo, ok := e.(*ssa.BinOp); ok && bo.Op == token.ADD && bo.X == ssa.Value(ph) {
			// the other operand: data[i] with i the loop's range index
			if ld, ok := stripConv(bo.Y).(*ssa.UnOp); ok && ld.Op == token.MUL {
				if ia, ok := ld.X.(*ssa.IndexAddr); ok && ia.X == ssa.Value(f.Params[0]) {
					sum = true
					continue
				}
			}
		}
		return false
	}
	// loop bound must be len(param)
	okBound := false
	for _, ifi := range ifsOf(f) {
		op, _, y, _, isBin := condOf(ifi.Cond)
		if isBin && op == token.LSS {
			if arg, ok := lenOf(y); ok && arg == ssa.Value(f.Params[0]) {
				okBound = true
			}
		}
	}
	return zero && sum && okBound
}

// constReturn: the integer fn returns when its first parameter equals k, if that is the same
// constant on every feasible path (engine E1 with the parameter pinned; reads of read-only
// package-level tables resolve to their initialisers).
func constReturn(c *Ctx, fn *ssa.Function, k int64) (int64, bool) {
	if fn == nil || len(fn.Params) == 0 {
		return 0, false
	}
	e := newLenflow(c, 4)
	var vals []int64
	okAll := true
	e.onReturn = func(st *lfState, rets []lfVal) {
		if len(rets) == 0 {
			okAll = false
			return
		}
		iv, isInt := rets[0].(vInt)
		if !isInt {
			okAll = false
			return
		}
		v, isK := iv.E.isConst()
		if !isK {
			okAll = false
			return
		}
		vals = append(vals, v)
	}
	e.runEntry(fn, func(fr *lfFrame, st *lfState) {
		if pv, ok := fr.env[fn.Params[0]].(vInt); ok {
			st.cons = append(st.cons, geq(pv.E, linConst(k)), leq(pv.E, linConst(k)))
		}
	})
	if e.budgetHit || !okAll || len(vals) == 0 {
		return 0, false
	}
	for _, v := range vals[1:] {
		if v != vals[0] {
			return 0, false
		}
	}
	return vals[0], true
}
