package main

import (
	"fmt"
	"go/constant"
	"go/token"
	"go/types"
	"sort"

	"golang.org/x/tools/go/ssa"
)

// wireEnums: the numeric values the specifications give to the named constants callers put
// into request fields (and the library puts into packets). The names are the library's API;
// the numbers are IPMI v2.0 / DCMI 1.5 (table or section cited). A tidy-up that reorders an
// iota block changes what "soft power off" means on the wire while every serialiser, table
// and String() stays self-consistent.
var wireEnums = []struct {
	pkg, name string
	val       int64
	ref       string
}{
	{"pkg/ipmi", "ChassisControlPowerOff", 0, "IPMI v2.0 table 28-4"},
	{"pkg/ipmi", "ChassisControlPowerOn", 1, "table 28-4"},
	{"pkg/ipmi", "ChassisControlPowerCycle", 2, "table 28-4"},
	{"pkg/ipmi", "ChassisControlHardReset", 3, "table 28-4"},
	{"pkg/ipmi", "ChassisControlDiagnosticInterrupt", 4, "table 28-4"},
	{"pkg/ipmi", "ChassisControlSoftPowerOff", 5, "table 28-4"},
	{"pkg/ipmi", "PrivilegeLevelHighest", 0, "IPMI v2.0 table 13-9 (0 = highest level matching proposed algorithms)"},
	{"pkg/ipmi", "PrivilegeLevelCallback", 1, "table 22-18"},
	{"pkg/ipmi", "PrivilegeLevelUser", 2, "table 22-18"},
	{"pkg/ipmi", "PrivilegeLevelOperator", 3, "table 22-18"},
	{"pkg/ipmi", "PrivilegeLevelAdministrator", 4, "table 22-18"},
	{"pkg/ipmi", "PrivilegeLevelOEM", 5, "table 22-18"},
	{"pkg/ipmi", "PayloadTypeIPMI", 0x00, "IPMI v2.0 table 13-16"},
	{"pkg/ipmi", "PayloadTypeOEM", 0x02, "table 13-16"},
	{"pkg/ipmi", "PayloadTypeOpenSessionReq", 0x10, "table 13-16"},
	{"pkg/ipmi", "PayloadTypeOpenSessionRsp", 0x11, "table 13-16"},
	{"pkg/ipmi", "PayloadTypeRAKPMessage1", 0x12, "table 13-16"},
	{"pkg/ipmi", "PayloadTypeRAKPMessage2", 0x13, "table 13-16"},
	{"pkg/ipmi", "PayloadTypeRAKPMessage3", 0x14, "table 13-16"},
	{"pkg/ipmi", "PayloadTypeRAKPMessage4", 0x15, "table 13-16"},
	{"pkg/ipmi", "AuthenticationTypeNone", 0, "IPMI v2.0 table 13-8"},
	{"pkg/ipmi", "AuthenticationTypeRMCPPlus", 6, "table 13-8 (format = RMCP+)"},
	{"pkg/ipmi", "AuthenticationAlgorithmNone", 0, "IPMI v2.0 table 13-17"},
	{"pkg/ipmi", "AuthenticationAlgorithmHMACSHA1", 1, "table 13-17"},
	{"pkg/ipmi", "AuthenticationAlgorithmHMACMD5", 2, "table 13-17"},
	{"pkg/ipmi", "AuthenticationAlgorithmHMACSHA256", 3, "table 13-17"},
	{"pkg/ipmi", "IntegrityAlgorithmNone", 0, "IPMI v2.0 table 13-18"},
	{"pkg/ipmi", "IntegrityAlgorithmHMACSHA196", 1, "table 13-18"},
	{"pkg/ipmi", "IntegrityAlgorithmHMACMD5128", 2, "table 13-18"},
	{"pkg/ipmi", "IntegrityAlgorithmMD5128", 3, "table 13-18"},
	{"pkg/ipmi", "IntegrityAlgorithmHMACSHA256128", 4, "table 13-18"},
	{"pkg/ipmi", "ConfidentialityAlgorithmNone", 0, "IPMI v2.0 table 13-19"},
	{"pkg/ipmi", "ConfidentialityAlgorithmAESCBC128", 1, "table 13-19"},
	{"pkg/ipmi", "SensorTypeTemperature", 1, "IPMI v2.0 table 42-3"},
	{"pkg/ipmi", "CompletionCodeNormal", 0x00, "IPMI v2.0 table 5-2"},
	{"pkg/ipmi", "CompletionCodeNodeBusy", 0xC0, "table 5-2"},
	{"pkg/ipmi", "CompletionCodeTimeout", 0xC3, "table 5-2"},
	{"pkg/dcmi", "SystemPowerStatisticsModeNormal", 0x01, "DCMI 1.5 table 6-16"},
	{"pkg/dcmi", "SystemPowerStatisticsModeEnhanced", 0x02, "DCMI 1.5 table 6-16"},
}

// checkWireEnums compares the table with the constants as go/types evaluated them. A constant
// that does not exist under the tabled name is skipped (counted in the anchor minimum only).
func checkWireEnums(c *Ctx, r *Report) {
	r.Rule("enum-wire-values", "the named constants callers put into request fields (chassis control actions, privilege levels, payload types, algorithm numbers, power statistics modes, …) have the numeric values the specifications assign", 25)
	for _, e := range wireEnums {
		tp := c.TPkg(e.pkg)
		if tp == nil {
			continue
		}
		obj, ok := tp.Scope().Lookup(e.name).(*types.Const)
		if !ok {
			continue
		}
		v, exact := constant.Int64Val(constant.ToInt(obj.Val()))
		r.Check(exact && v == e.val, e.pkg+"."+e.name, obj.Pos(), fmt.Sprintf("= %#x (%s)", e.val, e.ref), fmt.Sprintf("%s is %#x, %s says %#x: a caller using the name sends another action/level/algorithm than the one it names", e.name, v, e.ref, e.val))
	}
}

// checkSessionIDWriters: the two session IDs are fixed at construction. A later store (a
// "closed" marker, a re-keying shortcut) changes which session every following packet claims
// to belong to — with RemoteID = 0, packets go out under the null session ID with a live
// sequence number.
func checkSessionIDWriters(c *Ctx, r *Report) {
	r.Rule("session-ids-fixed", "V2Session.LocalID and RemoteID are written by the session constructor's literal only", 1)
	v2s := c.Named("", "V2Session")
	if v2s == nil {
		r.Lost("bmc.V2Session")
		return
	}
	m := c.findCtor()
	n := 0
	for _, fn := range c.LibFuncs() {
		fn := fn
		rawInstrs(fn, false, func(in ssa.Instruction) {
			st, ok := in.(*ssa.Store)
			if !ok {
				return
			}
			fa, ok := st.Addr.(*ssa.FieldAddr)
			if !ok || !isPtrTo(fa.X.Type(), v2s) {
				return
			}
			f := structField(fa.X.Type(), fa.Field)
			if f == nil || (f.Name() != "LocalID" && f.Name() != "RemoteID") {
				return
			}
			n++
			inLit := m != nil && m.Lit != nil && fa.X == ssa.Value(m.Lit)
			r.Check(inLit, c.FnName(fn)+"|store to "+f.Name(), st.Pos(), "the constructor's literal", "a session ID is rewritten after the session was established: packets sent afterwards claim another (or the null) session")
		})
	}
	if n == 0 {
		r.Lost("stores to V2Session.LocalID/RemoteID (the constructor's literal)")
	}
}

// checkSentinelReachesCaller: an error sentinel callers are told to compare against
// (ErrIncorrectPassword, ErrNoSupportedCipherSuite) keeps its identity on the way out: every
// exported function that receives it from a module call hands that very error on (or the
// unchanged result of the call) — no re-wording with %v, no wrapper type without Unwrap.
func checkSentinelReachesCaller(c *Ctx, r *Report, sentinel string) {
	r.Rule("sentinel-identity", "an exported function that gets "+sentinel+" from a module call returns that error value itself, on every path", 1)
	var g *ssa.Global
	for _, p := range c.ModulePackages() {
		if sp := c.SSA[p.PkgPath]; sp != nil {
			if m, ok := sp.Members[sentinel].(*ssa.Global); ok && c.sentinelError(m) {
				g = m
			}
		}
	}
	if g == nil {
		r.Lost("sentinel " + sentinel)
		return
	}
	// S: functions whose own flattened view can return the sentinel, then their callers' callees
	isSentinelLoad := func(v ssa.Value) bool {
		ld, ok := v.(*ssa.UnOp)
		return ok && ld.Op == token.MUL && ld.X == ssa.Value(g)
	}
	inS := map[*ssa.Function]bool{}
	var fns []*ssa.Function
	for _, fn := range c.LibFuncs() {
		if fn.Parent() == nil && errResultIndex(fn) >= 0 {
			fns = append(fns, fn)
		}
	}
	sort.Slice(fns, func(i, j int) bool { return fns[i].Pos() < fns[j].Pos() })
	callsInS := func(fn *ssa.Function) []*ssa.Call {
		var out []*ssa.Call
		fl := flatOf(fn)
		viewInstrs(fn, func(in ssa.Instruction) {
			call, ok := in.(*ssa.Call)
			if !ok || fl.Spliced(call) {
				return
			}
			if sf := call.Call.StaticCallee(); sf != nil && inS[sf] {
				out = append(out, call)
			}
		})
		return out
	}
	for changed := true; changed; {
		changed = false
		for _, fn := range fns {
			if inS[fn] {
				continue
			}
			ei := errResultIndex(fn)
			hit := false
			viewInstrs(fn, func(in ssa.Instruction) {
				ret, ok := in.(*ssa.Return)
				if !ok || ret.Parent() != fn || ei >= len(ret.Results) {
					return
				}
				for _, o := range append(viewOrigins(fn, ret.Results[ei]), ret.Results[ei]) {
					if isSentinelLoad(stripConv(o)) {
						hit = true
					}
				}
			})
			if !hit && len(callsInS(fn)) > 0 {
				hit = true
			}
			if hit {
				inS[fn] = true
				changed = true
			}
		}
	}
	n := 0
	for _, fn := range fns {
		if unexportedName(fn) || !inS[fn] {
			continue
		}
		calls := callsInS(fn)
		if len(calls) == 0 {
			continue
		}
		name := c.FnName(fn)
		ei := errResultIndex(fn)
		for _, call := range calls {
			n++
			var errv ssa.Value = call
			if _, isT := call.Type().(*types.Tuple); isT {
				errv = nil
				for _, ref := range *call.Referrers() {
					if ex, ok := ref.(*ssa.Extract); ok && isErrorType(ex.Type()) {
						errv = ex
					}
				}
			}
			if errv == nil {
				r.Bad(name+"|"+shortName(calleeName(&call.Call)), call.Pos(), "the error of a call that can return "+sentinel+" is not even read")
				continue
			}
			ok, why := true, ""
			complete := enumPaths(fn, 1, 400000, func(p CPath) {
				ret, isRet := p.Last().(*ssa.Return)
				if !isRet || ret.Parent() != fn || p.posOf(call) < 0 {
					return
				}
				rv := ret.Results[ei]
				// the call's results returned as they are
				if p.resolvesThrough(nil, rv, errv) {
					return
				}
				if p.nilFound(errv) == 1 {
					ok, why = false, "on a path on which the call failed the function returns "+exprText(p.Resolve(rv))+" instead of the call's error"
				}
			})
			if !complete {
				r.Unk(name+"|"+shortName(calleeName(&call.Call)), call.Pos(), "too many paths")
				continue
			}
			r.Check(ok, name+"|"+shortName(calleeName(&call.Call)), call.Pos(), "the callee's error is returned as it is", sentinel+" does not reach the caller with its identity: "+why+" (errors.Is / == on the documented sentinel fails)")
		}
	}
	if n == 0 {
		r.OK("no exported function relays "+sentinel, g.Pos(), "the sentinel is returned directly by exported functions only")
	}
}

// checkSessionAPIOwnMethods: every context-taking method callers can invoke on a *V2Session is
// declared on V2Session itself (and hence sends through the session's SendCommand: wrapped,
// signed, encrypted, numbered). A method promoted from an embedded connection type would run
// that type's implementation — for the session-less connection: the same command outside the
// session, with session ID 0 and no AuthCode — and still return the right answer.
func checkSessionAPIOwnMethods(c *Ctx, r *Report) {
	r.Rule("session-api-own-methods", "no context-taking method of *V2Session is promoted from an embedded type: everything a caller can send through a session goes through the session's own implementation", 5)
	v2s := c.Named("", "V2Session")
	if v2s == nil {
		r.Lost("bmc.V2Session")
		return
	}
	ms := types.NewMethodSet(types.NewPointer(v2s))
	for i := 0; i < ms.Len(); i++ {
		sel := ms.At(i)
		fn, ok := sel.Obj().(*types.Func)
		if !ok || !fn.Exported() {
			continue // unexported shared helpers (one transmission, layer building) are not API
		}
		sig, ok := fn.Type().(*types.Signature)
		if !ok {
			continue
		}
		hasCtx := false
		for k := 0; k < sig.Params().Len(); k++ {
			if isContextType(sig.Params().At(k).Type()) {
				hasCtx = true
			}
		}
		if !hasCtx {
			continue
		}
		promoted := len(sel.Index()) > 1
		via := ""
		if promoted {
			if rv := sig.Recv(); rv != nil {
				via = types.TypeString(rv.Type(), func(p *types.Package) string { return p.Name() })
			}
		}
		r.Check(!promoted, "V2Session."+fn.Name(), fn.Pos(), "declared on V2Session", "V2Session."+fn.Name()+" is promoted from "+via+": called on a session it runs the embedded type's implementation — the command leaves outside the session (session ID 0, unauthenticated, unencrypted) and the caller still gets an answer")
	}
}

// checkOptionsUnaltered: what the handshake is run with — password, BMC key, username,
// privilege level, lookup mode, preferences — is what the caller passed. The library never
// writes a field of an options value, except to copy one options value into another (the
// version-agnostic NewSession building V2SessionOpts from SessionOpts): a "normalised",
// defaulted or state-dependent copy (KG dropped because an earlier capabilities reply said the
// BMC has none) authenticates against other secrets than the caller's.
func checkOptionsUnaltered(c *Ctx, r *Report) {
	r.Rule("options-unaltered", "no library code stores into a field of a SessionOpts/V2SessionOpts value, other than copying it from the caller's options", 1)
	var optTs []*types.Named
	for _, n := range []string{"V2SessionOpts", "SessionOpts"} {
		if t := c.Named("", n); t != nil {
			optTs = append(optTs, t)
		}
	}
	if len(optTs) == 0 {
		r.Lost("bmc.V2SessionOpts / bmc.SessionOpts")
		return
	}
	isOpts := func(t types.Type) bool {
		for _, o := range optTs {
			if isPtrTo(t, o) {
				return true
			}
		}
		return false
	}
	n := 0
	for _, fn := range c.LibFuncs() {
		fn := fn
		rawInstrs(fn, false, func(in ssa.Instruction) {
			st, ok := in.(*ssa.Store)
			if !ok {
				return
			}
			fa, ok := st.Addr.(*ssa.FieldAddr)
			if !ok || !isOpts(fa.X.Type()) {
				return
			}
			f := structField(fa.X.Type(), fa.Field)
			if f == nil {
				return
			}
			n++
			// a copy: the value is a load of an options value (whole embedded struct) or of the
			// same-named field of one
			copyOK := false
			if ld, isLd := stripConv(st.Val).(*ssa.UnOp); isLd && ld.Op == token.MUL {
				switch x := ld.X.(type) {
				case *ssa.Parameter:
					copyOK = isOpts(x.Type())
				case *ssa.FieldAddr:
					if sf := structField(x.X.Type(), x.Field); sf != nil && sf.Name() == f.Name() && isOpts(x.X.Type()) {
						copyOK = true
					}
				}
			}
			r.Check(copyOK, c.FnName(fn)+"|store to "+f.Name(), st.Pos(), "copied from the caller's options", "the library writes the "+f.Name()+" of an options value ("+exprText(st.Val)+"): the handshake no longer runs with what the caller passed")
		})
	}
	if n == 0 {
		r.OK("no stores into options values", token.NoPos, "the library only reads options")
	}
}
