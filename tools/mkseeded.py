#!/usr/bin/env python3
"""Copies confirmed seeded changes from /tmp/seed into /verif/seeded/<id>/
(patch.diff, demonstration, notes.md, meta.json)."""
import json, glob, os, shutil, re
res = {}
for f in sorted(glob.glob('/tmp/seed/results*.json')):
    for r in json.load(open(f)):
        key = (r['property'], r['mutation'])
        if r.get('status') != 'confirmed':
            res.setdefault(key, r)
            continue
        if key in res and res[key].get('status') == 'confirmed':
            # union of detections over all runs (later runs re-check with strengthened rules)
            old = res[key]
            det = sorted(set(old.get('detected_by') or []) | set(r.get('detected_by') or []))
            checks = dict(old.get('checks') or {})
            for q, v in (r.get('checks') or {}).items():
                if q not in checks or v['exit'] != 0:
                    checks[q] = v
            if not r.get('demo') and old.get('demo'):
                r['demo'] = old['demo']
            r = dict(r, detected_by=det, checks=checks)
        res[key] = r
os.makedirs('/verif/seeded', exist_ok=True)
rows = []
for (p, i), r in sorted(res.items()):
    if r.get('status') != 'confirmed':
        print("skip", p, i, r.get('status'))
        continue
    sid = f"{p}-m{i}"
    d = f"/verif/seeded/{sid}"
    os.makedirs(d, exist_ok=True)
    out = f"/tmp/seed/{p}/out"
    shutil.copy(f"{out}/m{i}.diff", f"{d}/patch.diff")
    demo = r.get('demo', {})
    if demo.get('file'):
        shutil.copy(demo['file'], f"{d}/demo_test.go.txt")  # .txt so that it is never compiled as part of /verif
    notes = ""
    if os.path.exists(f"{out}/m{i}.md"):
        notes = open(f"{out}/m{i}.md").read()
        open(f"{d}/notes.md", "w").write(notes)
    first = notes.strip().splitlines()[0].lstrip('# ').strip() if notes.strip() else ""
    needs = ""
    m = re.search(r'(?im)^\**\s*(needs|what it needs|trigger|manifest)[^:\n]*:\**\s*(.+?)(?:\n\s*\n|\n[-*#A-Z])', notes, re.S)
    if m:
        needs = " ".join(m.group(2).split())
    meta = {
        "id": sid,
        "breaks_property": p,
        "summary": first,
        "needs_to_manifest": needs or "see notes.md",
        "source": "independent sub-agent given only the property text and a scratch worktree of /repo",
        "confirmed": {
            "applies_to_repo_head": r.get("applies"), "builds": r.get("builds"),
            "existing_suite_passes_with_change": r.get("suite_passes"),
            "demo_fails_with_change": r.get("demo_fails_with_change"),
            "demo_passes_without_change": r.get("demo_passes_without"),
        },
        "what_was_run": [
            "git worktree add --detach <scratch> HEAD (of /repo); git apply patch.diff; go build ./...; go test -vet=off -count=1 ./...",
            f"copy demo to {demo.get('dir','.')}/zz_demo_test.go; go test -vet=off -count=1 {demo.get('tags','')} -run '{'|'.join(demo.get('tests',[]))}' ./{demo.get('dir','.')}   (fails with the change, passes after git checkout -- .)",
            "VERIF_REPO=<scratch with patch> VERIF_OUT=<tmp> ./check.sh <every claimed property> quick",
        ],
        "detected_by": r.get("detected_by", []),
        "owner_detects": p in (r.get("detected_by") or []),
        "findings": {q: v["findings"][:3] for q, v in (r.get("checks") or {}).items() if v["exit"] != 0},
    }
    json.dump(meta, open(f"{d}/meta.json", "w"), indent=1)
    rows.append((sid, first[:90], ", ".join(meta["detected_by"]) or "—"))
# table for DESIGN.md
with open('/verif/seeded/TABLE.md', 'w') as f:
    f.write("| seeded change | what it does | detected by |\n|---|---|---|\n")
    for sid, first, det in rows:
        f.write(f"| {sid} | {first} | {det} |\n")
print(len(rows), "seeded changes written")
