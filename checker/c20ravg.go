package main

import (
	"fmt"
	"go/constant"
	"go/token"
	"math/big"
	"sort"
	"strings"

	"golang.org/x/tools/go/ssa"
)

// The rolling-average period encoder, read arm by arm.
//
// rollingAvgPeriodByte maps a duration to {unit[7:6], count[5:0]}. What can be
// said about it from the shape of its code, for every duration at once, is a
// small abstract interpretation per path of the function's flattened view:
//
//   - the interval of durations the path is taken for, from the comparisons of
//     the parameter with constants that the path decided;
//   - the returned byte as tag | count, the count being one truncation of an
//     exact rational multiple of the parameter (d.Minutes() is d/6·10¹⁰,
//     x/24 divides, integer division by a constant truncates), possibly
//     replaced by a constant on a path that found it above a bound (a clamp);
//
// and the rule: on each path the tag is the unit whose size divides the
// parameter in the count (1 s, 60 s, 3600 s, 86400 s for tags 0–3), the path's
// interval lies within [unit, 60·unit) — [0, 60 s) for seconds, [86400 s, ∞)
// for days — and the count is bounded by 63: by the interval itself, or by a
// clamp whose bound and whose replacement value are both 63. Nested
// truncations (a count computed from another count), rounding calls and counts
// narrowed before they are scaled do not have this form and are reported.
// Together with the decoder's multiplier table this is the agreement of the two
// directions on the durations that are representable; it is not a statement
// about floating-point rounding inside time.Duration's accessors.

type ratForm struct {
	coef   *big.Rat // value = trunc?(coef · d)
	truncs int      // number of float→int / integer-division truncations applied
	narrow bool     // a conversion to a type narrower than 64 bits was applied before the last scaling
}

func ravgForm(p CPath, d *ssa.Parameter, v ssa.Value, depth int) (*ratForm, string) {
	if depth > 24 {
		return nil, "expression too deep"
	}
	v = p.Resolve(v)
	if v == ssa.Value(d) {
		return &ratForm{coef: big.NewRat(1, 1)}, ""
	}
	switch x := v.(type) {
	case *ssa.ChangeType:
		return ravgForm(p, d, x.X, depth+1)
	case *ssa.Convert:
		f, why := ravgForm(p, d, x.X, depth+1)
		if f == nil {
			return nil, why
		}
		from, to := x.X.Type().Underlying(), x.Type().Underlying()
		if isFloatType(from) && isIntType(to) {
			f.truncs++
		}
		if isIntType(to) && typeBits(to) < 64 {
			f.narrow = true
		}
		return f, ""
	case *ssa.Call:
		if x.Call.IsInvoke() {
			return nil, "interface call"
		}
		n := calleeName(&x.Call)
		unit := map[string]int64{
			"(time.Duration).Seconds":      1e9,
			"(time.Duration).Minutes":      60e9,
			"(time.Duration).Hours":        3600e9,
			"(time.Duration).Milliseconds": 1e6,
			"(time.Duration).Microseconds": 1e3,
			"(time.Duration).Nanoseconds":  1,
		}
		if u, ok := unit[n]; ok && len(x.Call.Args) == 1 {
			f, why := ravgForm(p, d, x.Call.Args[0], depth+1)
			if f == nil {
				return nil, why
			}
			if f.narrow {
				return nil, "a narrowed value is scaled"
			}
			f.coef.Mul(f.coef, big.NewRat(1, u))
			if strings.HasSuffix(n, "seconds") && !strings.HasSuffix(n, ").Seconds") {
				f.truncs++ // the integer accessors truncate
			}
			return f, ""
		}
		return nil, "call of " + shortName(n) + " (not a plain quotient of the duration)"
	case *ssa.BinOp:
		switch x.Op {
		case token.QUO, token.MUL:
			l, why := ravgForm(p, d, x.X, depth+1)
			if l == nil {
				return nil, why
			}
			k, ok := ravgConst(p.Resolve(x.Y))
			if !ok || k.Sign() == 0 {
				return nil, "scaled by something that is not a non-zero constant"
			}
			if l.narrow {
				return nil, "a narrowed value is scaled"
			}
			if l.truncs > 0 {
				return nil, "a truncated count is scaled again (nested truncation)"
			}
			if x.Op == token.QUO {
				l.coef.Quo(l.coef, k)
				if isIntType(x.Type().Underlying()) {
					l.truncs++
				}
			} else {
				l.coef.Mul(l.coef, k)
			}
			return l, ""
		}
		return nil, "operator " + x.Op.String()
	}
	return nil, fmt.Sprintf("%T", v)
}

func ravgConst(v ssa.Value) (*big.Rat, bool) {
	k, ok := v.(*ssa.Const)
	if !ok || k.Value == nil {
		return nil, false
	}
	switch k.Value.Kind() {
	case constant.Int:
		if i, ok := constant.Int64Val(k.Value); ok {
			return big.NewRat(i, 1), true
		}
	case constant.Float:
		if f, ok := constant.Float64Val(k.Value); ok && f == float64(int64(f)) {
			return big.NewRat(int64(f), 1), true
		}
	}
	return nil, false
}

func checkRollingAvgEncoder(c *Ctx, r *Report) {
	r.Rule("period-encoder-arms", "on every path of the rolling-average period encoder: the unit tag is the unit the count divides by (1 s, 60 s, 3600 s, 86400 s), the count is one truncation of duration/unit, the path's durations lie in [unit, 60·unit) ([0, 60 s) for seconds, [1 day, ∞) for days), and the count is kept ≤ 63 by that interval or by a clamp at 63", 4)
	var enc *ssa.Function
	encIn := func(rel string) (found *ssa.Function, n int) {
		p := c.Pkg(rel)
		if p == nil {
			return nil, 0
		}
		var names []string
		for nm := range p.Members {
			names = append(names, nm)
		}
		sort.Strings(names)
		var cands []*ssa.Function
		for _, nm := range names {
			f, ok := p.Members[nm].(*ssa.Function)
			if !ok || f.Blocks == nil || f.Signature.Recv() != nil || len(f.Params) != 1 || f.Signature.Results().Len() != 1 {
				continue
			}
			if f.Params[0].Type().String() == "time.Duration" && typeBits(f.Signature.Results().At(0).Type().Underlying()) == 8 && isIntType(f.Signature.Results().At(0).Type().Underlying()) {
				cands = append(cands, f)
			}
		}
		// the encoder is the one the others work for: per-arm helpers of the same signature are
		// called by it (and spliced into its view), it is called by none of them
		for _, f := range cands {
			calledByOther := false
			for _, g := range cands {
				if g == f {
					continue
				}
				rawInstrs(g, true, func(in ssa.Instruction) {
					if cc := asCall(in); cc != nil && cc.StaticCallee() == f {
						calledByOther = true
					}
				})
			}
			if !calledByOther {
				found = f
				n++
			}
		}
		return found, n
	}
	if f, n := encIn("pkg/dcmi"); n > 0 {
		enc = f
	} else {
		// moved to another library package of the module
		total := 0
		for _, rel := range c.libPkgRels() {
			if f, n := encIn(rel); n > 0 {
				enc, total = f, total+n
			}
		}
		if total != 1 {
			enc = nil
		}
	}
	if enc == nil {
		r.Lost("dcmi rolling-average period encoder (func(time.Duration) byte)")
		return
	}
	name := c.FnName(enc)
	r.Fn(name)
	d := enc.Params[0]
	units := []int64{1e9, 60e9, 3600e9, 86400e9}
	seenTag := map[int64]bool{}
	complete := enumPaths(enc, 1, 4096, func(p CPath) {
		ret, isRet := p.Last().(*ssa.Return)
		if !isRet || ret.Parent() != enc {
			return
		}
		// the interval of d on this path
		lo, hi := int64(-1<<62), int64(1<<62)
		type bound struct {
			v  ssa.Value
			op token.Token
			k  int64
		}
		var others []bound
		for _, rel := range p.relations() {
			for _, pr := range [][2]ssa.Value{{rel.X, rel.Y}, {rel.Y, rel.X}} {
				op := rel.Op
				if pr[0] != rel.X {
					op = flipOp(op)
				}
				k, isK := constInt(p.Resolve(pr[1]))
				if !isK {
					continue
				}
				x := p.Resolve(pr[0])
				if x != ssa.Value(d) {
					others = append(others, bound{x, op, k})
					continue
				}
				switch op {
				case token.LSS:
					if k < hi {
						hi = k
					}
				case token.LEQ:
					if k+1 < hi {
						hi = k + 1
					}
				case token.GEQ:
					if k > lo {
						lo = k
					}
				case token.GTR:
					if k+1 > lo {
						lo = k + 1
					}
				}
			}
		}
		// the returned byte: count | tag
		v := p.Resolve(ret.Results[0])
		tag := int64(0)
		if bo, ok := v.(*ssa.BinOp); ok && (bo.Op == token.OR || bo.Op == token.ADD) {
			if k, isK := constInt(p.Resolve(bo.Y)); isK {
				tag, v = k, p.Resolve(bo.X)
			} else if k, isK := constInt(p.Resolve(bo.X)); isK {
				tag, v = k, p.Resolve(bo.Y)
			}
		}
		if tag&0x3f != 0 || tag < 0 || tag > 0xc0 {
			r.Bad(name+fmt.Sprintf("|path d∈[%d,%d)", lo, hi), ret.Pos(), fmt.Sprintf("the constant or-ed into the result (%#x) is not a unit tag in bits 7:6", tag))
			return
		}
		t := tag >> 6
		seenTag[t] = true
		unit := units[t]
		key := name + fmt.Sprintf("|unit %d", t)
		// clamp: the count replaced by a constant on a path that found it above a bound
		count := v
		for {
			cv, isCv := count.(*ssa.Convert)
			if !isCv {
				break
			}
			if k, isK := constInt(p.Resolve(cv.X)); isK {
				count = ssa.NewConst(constant.MakeInt64(k), cv.Type())
				break
			}
			if _, isC := p.Resolve(cv.X).(*ssa.Const); isC {
				break
			}
			// keep the conversion for ravgForm; only peel when the operand is constant
			break
		}
		clampedTo := int64(-1)
		if k, isK := constInt(stripConv(count)); isK {
			clampedTo = k
		}
		var form *ratForm
		why := ""
		// min(count, K): the clamp written with the builtin
		minK := int64(-1)
		{
			cur := v
			for i := 0; i < 4; i++ {
				if cv, ok := cur.(*ssa.Convert); ok {
					cur = p.Resolve(cv.X)
					continue
				}
				if ct, ok := cur.(*ssa.ChangeType); ok {
					cur = p.Resolve(ct.X)
					continue
				}
				break
			}
			if call, ok := cur.(*ssa.Call); ok {
				if b, isB := call.Call.Value.(*ssa.Builtin); isB && b.Name() == "min" && len(call.Call.Args) == 2 {
					a0, a1 := p.Resolve(call.Call.Args[0]), p.Resolve(call.Call.Args[1])
					if k, isK := constInt(a1); isK {
						minK, v = k, a0
					} else if k, isK := constInt(a0); isK {
						minK, v = k, a1
					}
				}
			}
		}
		if clampedTo < 0 {
			form, why = ravgForm(p, d, v, 0)
			if form == nil {
				r.Bad(key+fmt.Sprintf(" d∈[%d,%d)", lo, hi), ret.Pos(), "the count is not one truncation of a constant multiple of the duration: "+why)
				return
			}
			want := big.NewRat(1, unit)
			if form.coef.Cmp(want) != 0 || form.truncs > 1 {
				r.Bad(key+fmt.Sprintf(" d∈[%d,%d)", lo, hi), ret.Pos(), fmt.Sprintf("the count under unit tag %d is trunc^%d(duration × %s), want one truncation of duration / %d ns", t, form.truncs, form.coef.RatString(), unit))
				return
			}
		}
		// interval of the arm
		wantLo, wantHi := unit, 60*unit
		switch t {
		case 0:
			wantLo = int64(-1 << 62)
		case 2:
			wantHi = 24 * unit
		case 3:
			wantHi = int64(1 << 62)
		}
		if lo < wantLo || hi > wantHi {
			r.Bad(key+fmt.Sprintf(" d∈[%d,%d)", lo, hi), ret.Pos(), fmt.Sprintf("durations in [%d,%d) ns are encoded with unit tag %d, whose range is [%d,%d)", lo, hi, t, wantLo, wantHi))
			return
		}
		// count ≤ 63
		okBound := false
		switch {
		case clampedTo >= 0:
			// the clamp value is 63 and the path found the count above 63 exactly
			okBound = clampedTo == 63
			found := false
			for _, b := range others {
				if (b.op == token.GTR && b.k == 63) || (b.op == token.GEQ && b.k == 64) {
					if f, _ := ravgForm(p, d, b.v, 0); f != nil && f.coef.Cmp(big.NewRat(1, unit)) == 0 {
						found = true
					}
				}
			}
			if !found {
				okBound = false
			}
			why = fmt.Sprintf("the count is replaced by %d on a path that did not find duration/unit above 63 (clamp bound and clamp value must both be 63)", clampedTo)
		case hi <= 64*unit && hi < int64(1<<62):
			okBound = minK < 0 || minK >= 59 // a min() here is harmless as long as it does not cut representable counts
			why = fmt.Sprintf("the count is cut at %d although counts up to 59 are representable in this unit", minK)
		case minK >= 0:
			okBound = minK == 63
			why = fmt.Sprintf("the count is limited to %d by min(), want 63 (the largest 6-bit count)", minK)
		default:
			// unbounded interval: the path must have found the count ≤ 63
			for _, b := range others {
				if (b.op == token.LEQ && b.k <= 63) || (b.op == token.LSS && b.k <= 64) {
					if f, _ := ravgForm(p, d, b.v, 0); f != nil && f.coef.Cmp(big.NewRat(1, unit)) == 0 {
						okBound = true
					}
				}
			}
			why = "the count can exceed 63 on this path (it would spill into the unit bits): no comparison keeps duration/unit ≤ 63"
		}
		r.Check(okBound, key+fmt.Sprintf(" d∈[%d,%d)%s", lo, hi, ifs(clampedTo >= 0, " clamped")), ret.Pos(), fmt.Sprintf("count = trunc(d / %d ns) ≤ 63, tag %d", unit, t), why)
	})
	if !complete {
		r.Unk(name+"|paths", enc.Pos(), "too many paths")
	}
	for t := int64(0); t < 4; t++ {
		if !seenTag[t] {
			r.Bad(name+fmt.Sprintf("|unit %d", t), enc.Pos(), fmt.Sprintf("no path encodes with unit tag %d", t))
		}
	}
}
