package main

import (
	"fmt"
	"go/constant"
	"go/token"
	"go/types"
	"sort"
	"strings"

	"golang.org/x/tools/go/ssa"
)

// ------------------------------------------------------------------ E5: initial values of package-level variables
//
// GVal is the statically known initial value of a package-level variable,
// read from the package initialiser's SSA (constants folded by go/types,
// function values resolved to objects). Nothing is executed.

type GVal struct {
	Kind    string // const | func | struct | slice | map | call | global | nil | unknown
	Const   constant.Value
	Type    types.Type
	Func    *ssa.Function
	Fields  map[string]*GVal
	Elems   []*GVal
	Entries []GEntry
	Callee  string
	Args    []*GVal
	Global  *ssa.Global
	Pos     token.Pos
	Bind    map[*ssa.FreeVar]*GVal // closures: what each captured variable holds
}

type GEntry struct{ K, V *GVal }

func (g *GVal) Int() (int64, bool) {
	if g == nil || g.Kind != "const" || g.Const == nil || g.Const.Kind() != constant.Int {
		return 0, false
	}
	return constant.Int64Val(g.Const)
}

func (g *GVal) String() string {
	if g == nil {
		return "<none>"
	}
	switch g.Kind {
	case "const":
		if g.Const == nil {
			return "nil"
		}
		return g.Const.ExactString()
	case "func":
		return "func:" + g.Func.String()
	case "struct":
		var ks []string
		for k := range g.Fields {
			ks = append(ks, k)
		}
		sort.Strings(ks)
		var parts []string
		for _, k := range ks {
			parts = append(parts, k+":"+g.Fields[k].String())
		}
		return "{" + strings.Join(parts, ",") + "}"
	case "slice":
		var parts []string
		for _, e := range g.Elems {
			parts = append(parts, e.String())
		}
		return "[" + strings.Join(parts, ",") + "]"
	case "map":
		var parts []string
		for _, e := range g.Entries {
			parts = append(parts, e.K.String()+":"+e.V.String())
		}
		return "map[" + strings.Join(parts, ",") + "]"
	case "call":
		var parts []string
		for _, e := range g.Args {
			parts = append(parts, e.String())
		}
		return g.Callee + "(" + strings.Join(parts, ",") + ")"
	case "global":
		return "&" + g.Global.String()
	}
	return g.Kind
}

type initReader struct {
	c     *Ctx
	cache map[*ssa.Global]*GVal
	busy  map[*ssa.Global]bool
	env   map[ssa.Value]*GVal // parameters of the constructor being unfolded
	depth int
}

func newInitReader(c *Ctx) *initReader {
	return &initReader{c: c, cache: map[*ssa.Global]*GVal{}, busy: map[*ssa.Global]bool{}}
}

// GlobalInit returns the initial value of package-level variable name in the
// module package rel. ok=false if there is no single initialising store.
func (ir *initReader) GlobalInit(rel, name string) (*GVal, *ssa.Global) {
	p := ir.c.Pkg(rel)
	if p == nil {
		return nil, nil
	}
	g, _ := p.Members[name].(*ssa.Global)
	if g == nil {
		return nil, nil
	}
	return ir.global(g), g
}

func (ir *initReader) global(g *ssa.Global) *GVal {
	if v, ok := ir.cache[g]; ok {
		return v
	}
	if ir.busy[g] {
		return &GVal{Kind: "unknown"}
	}
	ir.busy[g] = true
	defer delete(ir.busy, g)
	init := g.Pkg.Func("init")
	var stores []*ssa.Store
	if init != nil {
		rawInstrs(init, false, func(in ssa.Instruction) {
			if st, ok := in.(*ssa.Store); ok && st.Addr == ssa.Value(g) {
				stores = append(stores, st)
			}
		})
	}
	var out *GVal
	switch len(stores) {
	case 0:
		// zero value, or a struct global initialised field by field
		out = ir.fromCell(g)
		if out == nil {
			out = &GVal{Kind: "zero", Type: g.Type()}
		}
	case 1:
		out = ir.val(stores[0].Val)
	default:
		out = &GVal{Kind: "unknown"}
	}
	out.Pos = g.Pos()
	ir.cache[g] = out
	return out
}

// fromCell reads a struct/array value built by field/element stores into addr.
// refsOf is Referrers() extended to globals (whose uses are found by scanning
// the package initialiser).
func (ir *initReader) refsOf(addr ssa.Value) *[]ssa.Instruction {
	if g, ok := addr.(*ssa.Global); ok {
		var out []ssa.Instruction
		if init := g.Pkg.Func("init"); init != nil {
			rawInstrs(init, false, func(in ssa.Instruction) {
				switch x := in.(type) {
				case *ssa.FieldAddr:
					if x.X == addr {
						out = append(out, in)
					}
				case *ssa.IndexAddr:
					if x.X == addr {
						out = append(out, in)
					}
				}
			})
		}
		return &out
	}
	return addr.Referrers()
}

func (ir *initReader) fromCell(addr ssa.Value) *GVal {
	refs := ir.refsOf(addr)
	if refs == nil {
		return nil
	}
	elemT := addr.Type()
	if p, ok := elemT.Underlying().(*types.Pointer); ok {
		elemT = p.Elem()
	}
	switch ut := elemT.Underlying().(type) {
	case *types.Struct:
		out := &GVal{Kind: "struct", Type: elemT, Fields: map[string]*GVal{}}
		found := false
		for _, ref := range *refs {
			fa, ok := ref.(*ssa.FieldAddr)
			if !ok || fa.X != addr {
				continue
			}
			f := ut.Field(fa.Field)
			var fv *GVal
			for _, r2 := range *fa.Referrers() {
				if st, ok := r2.(*ssa.Store); ok && st.Addr == ssa.Value(fa) {
					fv = ir.val(st.Val)
					found = true
				}
			}
			if fv == nil {
				fv = ir.fromCell(fa)
				if fv != nil {
					found = true
				}
			}
			if fv != nil {
				out.Fields[f.Name()] = fv
			}
		}
		if !found {
			if _, isG := addr.(*ssa.Global); isG {
				return nil
			}
		}
		return out
	case *types.Array:
		out := &GVal{Kind: "slice", Type: elemT}
		elems := map[int64]*GVal{}
		var max int64 = -1
		for _, ref := range *refs {
			ia, ok := ref.(*ssa.IndexAddr)
			if !ok || ia.X != addr {
				continue
			}
			k, isK := constInt(ia.Index)
			if !isK {
				return &GVal{Kind: "unknown"}
			}
			var ev *GVal
			for _, r2 := range *ia.Referrers() {
				if st, ok := r2.(*ssa.Store); ok && st.Addr == ssa.Value(ia) {
					ev = ir.val(st.Val)
				}
			}
			if ev == nil {
				ev = ir.fromCell(ia)
			}
			elems[k] = ev
			if k > max {
				max = k
			}
		}
		for i := int64(0); i < ut.Len(); i++ {
			if e, ok := elems[i]; ok {
				out.Elems = append(out.Elems, e)
			} else {
				out.Elems = append(out.Elems, &GVal{Kind: "zero"})
			}
		}
		return out
	}
	return nil
}

// writesFreeVar: does the closure (or a closure nested in it) assign the captured variable?
func writesFreeVar(f *ssa.Function, fv *ssa.FreeVar) bool {
	w := false
	rawInstrs(f, false, func(in ssa.Instruction) {
		if st, ok := in.(*ssa.Store); ok && st.Addr == ssa.Value(fv) {
			w = true
		}
		if mc, ok := in.(*ssa.MakeClosure); ok {
			for _, b := range mc.Bindings {
				if b == ssa.Value(fv) {
					w = true // handed on to a nested closure: not followed
				}
			}
		}
	})
	return w
}

func (ir *initReader) val(v ssa.Value) *GVal {
	switch x := v.(type) {
	case *ssa.Const:
		return &GVal{Kind: "const", Const: x.Value, Type: x.Type()}
	case *ssa.Function:
		return &GVal{Kind: "func", Func: x, Type: x.Type()}
	case *ssa.Parameter:
		if g, ok := ir.env[x]; ok {
			return g
		}
	case *ssa.MakeClosure:
		if f, ok := x.Fn.(*ssa.Function); ok {
			out := &GVal{Kind: "func", Func: f, Type: x.Type(), Bind: map[*ssa.FreeVar]*GVal{}}
			for i, b := range x.Bindings {
				if i < len(f.FreeVars) {
					if al, isAl := b.(*ssa.Alloc); isAl {
						if sv := singleStore(al); sv != nil && !writesFreeVar(f, f.FreeVars[i]) {
							out.Bind[f.FreeVars[i]] = ir.val(sv)
							continue
						}
					}
					out.Bind[f.FreeVars[i]] = ir.val(b)
				}
			}
			return out
		}
	case *ssa.ChangeType:
		r := ir.val(x.X)
		return r
	case *ssa.Convert:
		r := ir.val(x.X)
		if r.Kind == "const" && r.Const != nil {
			return &GVal{Kind: "const", Const: r.Const, Type: x.Type()}
		}
		return r
	case *ssa.MakeInterface:
		return ir.val(x.X)
	case *ssa.ChangeInterface:
		return ir.val(x.X)
	case *ssa.UnOp:
		if x.Op == token.MUL {
			switch a := x.X.(type) {
			case *ssa.Global:
				return ir.global(a)
			case *ssa.Alloc:
				if r := ir.fromCell(a); r != nil {
					return r
				}
			}
		}
	case *ssa.Global:
		return &GVal{Kind: "global", Global: x}
	case *ssa.Alloc:
		// &T{...}
		if r := ir.fromCell(x); r != nil {
			return r
		}
	case *ssa.Slice:
		if a, ok := x.X.(*ssa.Alloc); ok && x.Low == nil && x.High == nil {
			if r := ir.fromCell(a); r != nil {
				return r
			}
		}
	case *ssa.MakeMap:
		out := &GVal{Kind: "map", Type: x.Type()}
		for _, ref := range *x.Referrers() {
			if mu, ok := ref.(*ssa.MapUpdate); ok && mu.Map == ssa.Value(x) {
				out.Entries = append(out.Entries, GEntry{ir.val(mu.Key), ir.val(mu.Value)})
			}
		}
		return out
	case *ssa.Call:
		out := &GVal{Kind: "call", Callee: calleeName(&x.Call), Type: x.Type(), Pos: x.Pos()}
		for _, a := range x.Call.Args {
			out.Args = append(out.Args, ir.val(a))
		}
		// a straight-line module constructor (one block, one return, no calls that could
		// have effects on its result) is unfolded: its result with the arguments substituted
		if f := x.Call.StaticCallee(); f != nil && ir.c.InModule(f) && len(f.Blocks) == 1 && ir.depth < 4 && len(f.Params) == len(out.Args) {
			if rets := returnsOf(f); len(rets) == 1 && len(rets[0].Results) == 1 {
				saved := ir.env
				ir.env = map[ssa.Value]*GVal{}
				for i, p := range f.Params {
					ir.env[p] = out.Args[i]
				}
				ir.depth++
				res := ir.val(rets[0].Results[0])
				ir.depth--
				ir.env = saved
				if res.Kind == "func" || res.Kind == "const" {
					return res
				}
			}
		}
		return out
	case *ssa.BinOp:
		l, r := ir.val(x.X), ir.val(x.Y)
		if l.Kind == "const" && r.Kind == "const" && l.Const != nil && r.Const != nil {
			defer func() { recover() }()
			return &GVal{Kind: "const", Const: constant.BinaryOp(l.Const, x.Op, r.Const), Type: x.Type()}
		}
	}
	return &GVal{Kind: "unknown"}
}

// ------------------------------------------------------------------ E5: predicate true-sets
//
// For a function of one integer argument whose body uses the argument only in
// comparisons against constants, the set of arguments mapped to true is
// constant on every cell of the partition induced by those constants. The
// evaluator below interprets the SSA abstractly on one representative per
// cell; the syntactic restriction is verified first, so the result is exact
// for the whole domain [lo,hi].

func predicateTrueSet(fn *ssa.Function, lo, hi int64) (ranges [][2]int64, err error) {
	if fn == nil || len(fn.Params) != 1 || fn.Blocks == nil {
		return nil, fmt.Errorf("not a one-argument function with a body")
	}
	arg := fn.Params[0]
	// restriction: arg (through conversions) is used only by comparisons with constants
	consts := map[int64]bool{}
	var checkUses func(v ssa.Value) error
	checkUses = func(v ssa.Value) error {
		for _, ref := range *v.Referrers() {
			switch x := ref.(type) {
			case *ssa.DebugRef:
			case *ssa.ChangeType:
				if err := checkUses(x); err != nil {
					return err
				}
			case *ssa.Convert:
				// only value-preserving conversions (to a wider or equal unsigned/int type)
				if err := checkUses(x); err != nil {
					return err
				}
			case *ssa.BinOp:
				switch x.Op {
				case token.EQL, token.NEQ, token.LSS, token.LEQ, token.GTR, token.GEQ:
				default:
					return fmt.Errorf("argument used by non-comparison %s", x.Op)
				}
				other := x.Y
				if other == v {
					other = x.X
				}
				k, ok := constInt(other)
				if !ok {
					return fmt.Errorf("argument compared with a non-constant")
				}
				consts[k] = true
			default:
				return fmt.Errorf("argument used by %T", ref)
			}
		}
		return nil
	}
	if err := checkUses(arg); err != nil {
		return nil, err
	}
	// no calls / loads allowed: the function must be pure control flow
	var bad error
	rawInstrs(fn, false, func(in ssa.Instruction) {
		switch in.(type) {
		case *ssa.BinOp, *ssa.UnOp, *ssa.If, *ssa.Jump, *ssa.Return, *ssa.Phi, *ssa.Convert, *ssa.ChangeType, *ssa.DebugRef:
			if u, ok := in.(*ssa.UnOp); ok && u.Op != token.NOT {
				bad = fmt.Errorf("unsupported unary op %s", u.Op)
			}
		default:
			bad = fmt.Errorf("unsupported instruction %T", in)
		}
	})
	if bad != nil {
		return nil, bad
	}
	if hasLoop(fn) {
		return nil, fmt.Errorf("loop")
	}
	// representatives: every constant, and one point strictly inside each gap
	pts := map[int64]bool{lo: true, hi: true}
	for k := range consts {
		for _, d := range []int64{-1, 0, 1} {
			if k+d >= lo && k+d <= hi {
				pts[k+d] = true
			}
		}
	}
	var sorted []int64
	for p := range pts {
		sorted = append(sorted, p)
	}
	sort.Slice(sorted, func(i, j int) bool { return sorted[i] < sorted[j] })
	// cells: [p_i, p_{i+1}) is constant in truth value if no constant lies strictly inside,
	// which holds since k-1,k,k+1 are all points.
	evalAt := func(x int64) (bool, error) {
		env := map[ssa.Value]any{arg: x}
		var get func(v ssa.Value) (any, error)
		get = func(v ssa.Value) (any, error) {
			if k, ok := v.(*ssa.Const); ok {
				if k.Value == nil {
					return nil, fmt.Errorf("nil const")
				}
				switch k.Value.Kind() {
				case constant.Bool:
					return constant.BoolVal(k.Value), nil
				case constant.Int:
					i, _ := constant.Int64Val(k.Value)
					return i, nil
				}
				return nil, fmt.Errorf("const kind")
			}
			if r, ok := env[v]; ok {
				return r, nil
			}
			return nil, fmt.Errorf("unevaluated %s", v.Name())
		}
		b := fn.Blocks[0]
		var prev *ssa.BasicBlock
		for steps := 0; steps < 10000; steps++ {
			for _, in := range b.Instrs {
				switch x := in.(type) {
				case *ssa.Phi:
					for i, p := range b.Preds {
						if p == prev {
							r, err := get(x.Edges[i])
							if err != nil {
								return false, err
							}
							env[x] = r
						}
					}
				case *ssa.Convert:
					r, err := get(x.X)
					if err != nil {
						return false, err
					}
					env[x] = r
				case *ssa.ChangeType:
					r, err := get(x.X)
					if err != nil {
						return false, err
					}
					env[x] = r
				case *ssa.UnOp:
					r, err := get(x.X)
					if err != nil {
						return false, err
					}
					env[x] = !r.(bool)
				case *ssa.BinOp:
					l, err := get(x.X)
					if err != nil {
						return false, err
					}
					r, err := get(x.Y)
					if err != nil {
						return false, err
					}
					li, lok := l.(int64)
					ri, rok := r.(int64)
					if lok && rok {
						switch x.Op {
						case token.EQL:
							env[x] = li == ri
						case token.NEQ:
							env[x] = li != ri
						case token.LSS:
							env[x] = li < ri
						case token.LEQ:
							env[x] = li <= ri
						case token.GTR:
							env[x] = li > ri
						case token.GEQ:
							env[x] = li >= ri
						default:
							return false, fmt.Errorf("int op %s", x.Op)
						}
					} else {
						lb, lok := l.(bool)
						rb, rok := r.(bool)
						if !lok || !rok {
							return false, fmt.Errorf("mixed operands")
						}
						switch x.Op {
						case token.EQL:
							env[x] = lb == rb
						case token.NEQ:
							env[x] = lb != rb
						case token.AND:
							env[x] = lb && rb
						case token.OR:
							env[x] = lb || rb
						default:
							return false, fmt.Errorf("bool op %s", x.Op)
						}
					}
				case *ssa.If:
					cv, err := get(x.Cond)
					if err != nil {
						return false, err
					}
					prev = b
					if cv.(bool) {
						b = b.Succs[0]
					} else {
						b = b.Succs[1]
					}
				case *ssa.Jump:
					prev = b
					b = b.Succs[0]
				case *ssa.Return:
					rv, err := get(x.Results[0])
					if err != nil {
						return false, err
					}
					return rv.(bool), nil
				}
			}
		}
		return false, fmt.Errorf("no return")
	}
	var cur *[2]int64
	for i, p := range sorted {
		t, err := evalAt(p)
		if err != nil {
			return nil, err
		}
		end := p
		if i+1 < len(sorted) {
			end = sorted[i+1] - 1
		}
		if t {
			if cur != nil && cur[1]+1 == p {
				cur[1] = end
			} else {
				ranges = append(ranges, [2]int64{p, end})
				cur = &ranges[len(ranges)-1]
			}
		} else {
			cur = nil
		}
	}
	return ranges, nil
}

func rangesString(rs [][2]int64) string {
	var parts []string
	for _, r := range rs {
		if r[0] == r[1] {
			parts = append(parts, fmt.Sprintf("0x%X", r[0]))
		} else {
			parts = append(parts, fmt.Sprintf("0x%X-0x%X", r[0], r[1]))
		}
	}
	return "{" + strings.Join(parts, ",") + "}"
}
