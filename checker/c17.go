package main

import (
	"fmt"
	"go/token"
	"go/types"
	"runtime"
	"sort"
	"strconv"
	"strings"
	"sync"

	"golang.org/x/tools/go/ssa"
)

func init() { register("C17", checkC17) }

// leafFields expands a stored type into the leaf selectors it covers.
func leafFields(prefix string, t types.Type, depth int) []string {
	if st, ok := t.Underlying().(*types.Struct); ok && depth < 4 && st.NumFields() > 0 {
		// do not descend into foreign structs (treated as a unit) except gopacket's BaseLayer
		if n, ok := t.(*types.Named); ok && n.Obj().Pkg() != nil {
			p := n.Obj().Pkg().Path()
			if !strings.HasPrefix(p, modPath) && n.Obj().Name() != "BaseLayer" {
				return []string{prefix}
			}
		}
		var out []string
		for i := 0; i < st.NumFields(); i++ {
			f := st.Field(i)
			name := f.Name()
			p := prefix
			if !promotes(f) {
				if p != "" {
					p += "."
				}
				p += name
			}
			out = append(out, leafFields(p, f.Type(), depth+1)...)
		}
		return out
	}
	return []string{prefix}
}

type writeSummary struct {
	must, may map[string]bool
	partial   map[string]token.Pos
	ok        bool
	paths     int
}

type c17 struct {
	c     *Ctx
	lf    *lfEngine
	cache map[*ssa.Function]*writeSummary
	busy  map[*ssa.Function]bool
}

// rootedAt: the access path of v is rooted at parameter p (or is p itself).
func rootedAt(v ssa.Value, p *ssa.Parameter) (string, bool) {
	a := apOf(v)
	if a.Root != ssa.Value(p) {
		return "", false
	}
	for _, s := range a.Sel {
		if strings.HasPrefix(s, "[") {
			return "", false
		}
	}
	return a.SelString(), true
}

func (k *c17) summarize(fn *ssa.Function, recvIdx int) *writeSummary {
	if s, ok := k.cache[fn]; ok {
		return s
	}
	if k.busy[fn] || fn.Blocks == nil || recvIdx >= len(fn.Params) {
		return &writeSummary{must: map[string]bool{}, may: map[string]bool{}, partial: map[string]token.Pos{}, ok: false}
	}
	k.busy[fn] = true
	defer delete(k.busy, fn)
	recv := fn.Params[recvIdx]
	sum := &writeSummary{may: map[string]bool{}, partial: map[string]token.Pos{}, ok: true}
	first := true
	errIdx := errResultIndex(fn)
	// rootedOn: the access path of v, continued through the parameters of spliced helpers, is
	// rooted at the receiver
	rootedOn := func(p CPath, ctx *FCtx, v ssa.Value) (string, bool) {
		a := p.APIn(ctx, v)
		if a.Root != ssa.Value(recv) {
			return "", false
		}
		for _, s := range a.Sel {
			if strings.HasPrefix(s, "[") {
				return "", false
			}
		}
		return a.SelString(), true
	}
	fl := flatOf(fn)
	complete := enumPaths(fn, 2, 60000, func(p CPath) {
		ret, isRet := p.Last().(*ssa.Return)
		if !isRet || ret.Parent() != fn {
			return
		}
		if errIdx >= 0 {
			ev := p.Resolve(ret.Results[errIdx])
			if !isNilConst(ev) {
				// delegation: `return m.Helper(data, ...)` to a callee that is not spliced succeeds
				// exactly when the helper does
				deleg := false
				if call, ok := ev.(*ssa.Call); ok && !fl.Spliced(call) {
					if cf := call.Call.StaticCallee(); cf != nil && k.c.InModule(cf) && cf.Blocks != nil {
						for _, a := range call.Call.Args {
							if _, ok := rootedOn(p, p.ctxOfValue(call), a); ok {
								deleg = true
							}
						}
					}
				}
				if !deleg {
					return // error path
				}
			}
		}
		sum.paths++
		w := map[string]bool{}
		add := func(prefix string, t types.Type) {
			for _, l := range leafFields(prefix, t, 0) {
				w[l] = true
			}
		}
		for _, oc := range p.Occs() {
			switch x := oc.In.(type) {
			case *ssa.Store:
				if sel, ok := rootedOn(p, oc.Ctx, x.Addr); ok && sel != "" {
					add(sel, x.Val.Type())
				}
			case *ssa.Call:
				if bi, ok := x.Call.Value.(*ssa.Builtin); ok {
					if bi.Name() == "copy" {
						if sl, ok := x.Call.Args[0].(*ssa.Slice); ok && sl.Low == nil && sl.High == nil {
							if sel, ok := rootedOn(p, oc.Ctx, sl.X); ok && sel != "" {
								ct := k.lf.copyTotal[x]
								if ct != nil && ct.Partial == 0 && ct.Total > 0 {
									w[sel] = true
								} else {
									sum.partial[sel] = x.Pos()
									w[sel+"(partial)"] = true
								}
							}
						}
					}
					continue
				}
				if fl.Spliced(x) {
					continue // its stores are on the path
				}
				callee := x.Call.StaticCallee()
				if callee == nil || !k.c.InModule(callee) || callee.Blocks == nil {
					continue
				}
				for i, a := range x.Call.Args {
					if _, isPtr := a.Type().Underlying().(*types.Pointer); !isPtr {
						continue
					}
					sel, ok := rootedOn(p, oc.Ctx, a)
					if !ok {
						continue
					}
					cs := k.summarize(callee, i)
					if !cs.ok {
						sum.ok = false
					}
					pre := sel
					for f := range cs.must {
						n := f
						if pre != "" {
							n = pre + "." + f
						}
						w[n] = true
					}
					for f := range cs.may {
						n := f
						if pre != "" {
							n = pre + "." + f
						}
						sum.may[n] = true
					}
					for f, pos := range cs.partial {
						n := f
						if pre != "" {
							n = pre + "." + f
						}
						sum.partial[n] = pos
					}
				}
			}
		}
		for f := range w {
			sum.may[f] = true
		}
		if first {
			sum.must = w
			first = false
		} else {
			for f := range sum.must {
				if !w[f] {
					delete(sum.must, f)
				}
			}
		}
	})
	if !complete {
		sum.ok = false
	}
	if sum.must == nil {
		sum.must = map[string]bool{}
	}
	k.cache[fn] = sum
	return sum
}

func checkC17(c *Ctx, r *Report) {
	r.Explain = "Reuse of decoded values and connections as an effects analysis: (1) definite full assignment — for every layer decoder, each receiver field (promoted and nested fields expanded to leaves, callee effects composed by summaries) that is written on some success path must be written on every success path, and a copy into a fixed-size array field counts only when engine E1 proves the source at least as long as the array on every path; (2) typestate (shared with C10): every connection layer is re-initialised since the last decode before it is serialised; (3) SendCommand returns the completion code read after the exchange of the same call and, when the command has a response layer, has decoded into it on every error-free return; (4) every serialiser stores every byte of the regions it prepends/appends on every path and reads none of them first (the serialise buffer is reused, not cleared). Decides which fields can keep an earlier value, on all paths; not aliasing of returned slices with the receive buffer."
	r.NotDecided = []string{"aliasing of decoded slices (payloads, signatures, chunks) with the transport's receive buffer after the next command", "fields the decoder never writes at all (configuration such as IntegrityAlgorithm) are outside the rule by construction"}
	r.Trusted = []string{"go/types, go/ssa (x/tools v0.29.0)", "engine E1 for the totality of array copies"}

	n := checkDecoderAssignment(c, r, "definite-assignment", 28, nil)
	r.Extra["decoders"] = n

	checkFreshLayers(c, r, "fresh-layers")
	checkSerialisersOverwrite(c, r)

	// state that outlives a packet or a command, other than decoded fields: the session's keyed
	// hash must be left clean by every function that writes into it, on its error paths too (a
	// rejected reply must not leak into the next request's AuthCode; rule shared with C03) ...
	checkHashAlwaysReset(c, r)
	// ... and what a retried operation shares with the function that started it — the
	// first-attempt state, the terminal error — is per call: allocated by the call or stored by
	// it before the retries start, never what an earlier command left in the session or
	// connection (rules shared with C10, C13)
	checkClosureExits(c, r)

	// the library's two multi-request retrievals start from scratch on every call and every
	// pass: the cipher-suite listing asks for list index 0 first and collects into a buffer of
	// its own (rule shared with C16, C12, C05); each SDR walk fills a map it allocated itself
	// (shared with C14)
	cipherParser := checkChunkLoop(c, r)
	r.Rule("walk-fills-own-map", "each pass over the SDR repository fills a map allocated by that pass", 1)
	if walk, mu := c.findSDRWalk(); walk == nil || mu == nil {
		r.Lost("SDR walk (function updating a bmc.SDRRepository map)")
	} else {
		r.Fn(c.FnName(walk))
		checkWalkFreshMap(c, r, walk, mu)
	}
	// the DCMI sensor enumeration reuses one command for every entity: what it hands out per
	// entity is a list of its own, not the command's response slice (rules shared with C16)
	checkDCMISensorInfo(c, r)
	// ... and each cipher-suite record is parsed into a value of its own: a field set only for
	// some records (the OEM enterprise number) does not carry over to the records after it
	// (rules shared with C16, C12)
	if cipherParser != nil {
		checkCipherSuiteParser(c, r, cipherParser)
	}

	checkResponseAlwaysDecoded(c, r)

	// completion code read after the exchange (same rule as C10.code-from-message-layer)
	r.Rule("code-after-exchange", "SendCommand reads the completion code after the exchange of the same call returned without error", 2)
	for _, sc := range c.sendCommandImpls() {
		name := c.FnName(sc)
		r.Fn(name)
		// the exchange: the call of the function that runs a sending operation under backoff.Retry
		starters := map[*ssa.Function]bool{}
		for _, s := range c.SendClosures() {
			starters[s.Parent] = true
		}
		var exch *ssa.Call
		allInstrs(sc, false, func(in ssa.Instruction) {
			if call, ok := in.(*ssa.Call); ok {
				if f := viewCallee(sc, call); f != nil && starters[f] {
					exch = call
				}
			}
		})
		ok := exch != nil
		if ok {
			// per feasible path: every read of the decoded completion code comes after the exchange
			// of this call, on a path that found the exchange's error nil
			n := 0
			complete := enumPaths(sc, 2, 20000, func(p CPath) {
				occs := p.OccsPos()
				exAt := -1
				for i, oc := range occs {
					if oc.In == ssa.Instruction(exch) {
						exAt = i
					}
				}
				rels := p.relationsPos(occs)
				for i, oc := range occs {
					ld, isLd := oc.In.(*ssa.UnOp)
					if !isLd || ld.Op != token.MUL || !strings.HasSuffix(p.Upto(oc.Seg).APIn(oc.Ctx, ld.X).SelString(), fMsg+".CompletionCode") {
						continue
					}
					n++
					if exAt < 0 || i < exAt {
						ok = false
						continue
					}
					found := false
					for _, rel := range rels {
						if rel.At > i || rel.At < exAt || rel.Op != token.EQL {
							continue
						}
						for _, pr := range [][2]ssa.Value{{rel.X, rel.Y}, {rel.Y, rel.X}} {
							if isNilConst(pr[1]) && p.Upto(occs[rel.At].Seg).resolvesThrough(rel.Ctx, pr[0], exch) {
								found = true
							}
						}
					}
					if !found {
						ok = false
					}
				}
			})
			ok = ok && n > 0 && complete
		}
		var pos token.Pos = sc.Pos()
		if exch != nil {
			pos = exch.Pos()
		}
		r.Check(ok, name+"|code read after successful exchange", pos, "read only on the success arm, after the exchange", "the completion code is read before the exchange or on its error arm: it would be a previous command's")
	}
}

// reportAssignment reports the definite-assignment verdict of one decoder.
func reportAssignment(c *Ctx, r *Report, k *c17, fn *ssa.Function) {
	name := c.FnName(fn)
	r.Fn(name)
	s := k.summarize(fn, 0)
	if !s.ok {
		r.Unk(name+"|summary", fn.Pos(), "path enumeration incomplete or recursive callee")
		return
	}
	if s.paths == 0 {
		r.Unk(name+"|success paths", fn.Pos(), "no success path found")
		return
	}
	var missing []string
	for f := range s.may {
		if !s.must[f] && !strings.HasSuffix(f, "(partial)") {
			missing = append(missing, f)
		}
	}
	sort.Strings(missing)
	var partial []string
	for f := range s.partial {
		partial = append(partial, f)
	}
	sort.Strings(partial)
	if len(missing) == 0 && len(partial) == 0 {
		r.OK(name+"|all fields", fn.Pos(), fmt.Sprintf("%d fields assigned on all %d success paths", len(s.must), s.paths))
		return
	}
	for _, f := range missing {
		r.Bad(name+"|field "+f, fn.Pos(), "field "+f+" is assigned on some success paths but not on others: decoding into a reused value keeps the earlier content")
	}
	for _, f := range partial {
		if s.must[f] {
			continue
		}
		r.Bad(name+"|field "+f, s.partial[f], "array field "+f+" is filled by a copy whose source may be shorter than the array: the tail keeps bytes of an earlier decode")
	}
}

// checkSerialisersOverwrite: the connection serialises every packet into one
// reused buffer whose bytes are not cleared between packets, so a serialiser
// must store every byte it claims, on every path, and never read one before
// storing it. Decided on engine E2's events for every SerializeTo of the
// module: per success path, each prepended/appended region of constant length
// is covered byte for byte by stores, copies or a fill loop, and no byte of an
// output region is read before it was written.
func checkSerialisersOverwrite(c *Ctx, r *Report) {
	r.Rule("serialisers-overwrite", "every serialiser writes every byte of the regions it prepends/appends on every path and reads none of them first (the buffer is reused between packets)", 15)
	for _, p := range c.ModulePackages() {
		names := p.Types.Scope().Names()
		sort.Strings(names)
		for _, nm := range names {
			tn, ok := p.Types.Scope().Lookup(nm).(*types.TypeName)
			if !ok || tn.IsAlias() {
				continue
			}
			nt, ok := tn.Type().(*types.Named)
			if !ok {
				continue
			}
			fn := c.MethodOf(nt, "SerializeTo")
			if fn == nil || fn.Blocks == nil || !c.InModule(fn) || fn.Synthetic != "" {
				continue
			}
			if recvNamed(fn) == nil || recvNamed(fn).Obj() != nt.Obj() {
				continue // promoted from an embedded type: reported there
			}
			name := c.FnName(fn)
			r.Fn(name)
			evs, why := extractEvents(c, fn, nil)
			if why != "" {
				r.Unk(name+"|overwrites", fn.Pos(), why)
				continue
			}
			ok2, whyNot := true, ""
			nOK := 0
			for _, le := range evs {
				if !le.OK {
					continue
				}
				nOK++
				for _, ev := range le.Events {
					if ev.Kind == "stale" || ev.Kind == "loop:stale" {
						ok2, whyNot = false, "byte "+ev.Name+" is read before it is written: it still holds what an earlier packet left in the reused buffer"
					}
				}
				// coverage of constant-length regions
				for _, lev := range le.Events {
					if lev.Kind != "len" || lev.L == nil {
						continue
					}
					n, isK := lev.L.isConst()
					if !isK || n <= 0 || n > 4096 || strings.HasPrefix(lev.Name, "buf") {
						continue
					}
					covered := make([]bool, n)
					for _, ev := range le.Events {
						switch ev.Kind {
						case "wire":
							if ev.Org == lev.Name && ev.Idx != nil {
								if k, isC := ev.Idx.isConst(); isC && k >= 0 && k < n {
									covered[k] = true
								}
							} else if strings.HasPrefix(ev.Name, lev.Name+"[") {
								body := strings.TrimSuffix(strings.TrimPrefix(ev.Name, lev.Name+"["), "]")
								if i := strings.Index(body, ":"); i >= 0 {
									lo, e1 := strconv.ParseInt(body[:i], 10, 64)
									hiS := body[i+1:]
									var hi int64
									var e2 error
									if strings.HasPrefix(hiS, "+") {
										var d int64
										d, e2 = strconv.ParseInt(hiS[1:], 10, 64)
										hi = lo + d
									} else {
										hi, e2 = strconv.ParseInt(hiS, 10, 64)
									}
									if e1 == nil && e2 == nil {
										for k := lo; k < hi && k < n; k++ {
											if k >= 0 {
												covered[k] = true
											}
										}
									}
								} else if k, e1 := strconv.ParseInt(body, 10, 64); e1 == nil && k >= 0 && k < n {
									covered[k] = true
								}
							}
						case "loop:wire":
							if ev.Org != lev.Name {
								continue
							}
							if run, w := runOf(ev); w == "" {
								if lo, isC := run.Idx0.isConst(); isC {
									for hi := n; hi > lo; hi-- {
										if cov, _ := run.coversUpTo(linConst(hi), le.Cons); cov {
											for k := lo; k < hi; k++ {
												if k >= 0 {
													covered[k] = true
												}
											}
											break
										}
									}
								}
							}
						}
					}
					for k, cv := range covered {
						if !cv {
							ok2, whyNot = false, fmt.Sprintf("byte %d of %s is not written on some path: it carries what an earlier packet left in the reused buffer", k, lev.Name)
							break
						}
					}
				}
			}
			if nOK == 0 {
				continue
			}
			r.Check(ok2, name+"|overwrites", fn.Pos(), "every claimed byte is stored on every path", whyNot)
		}
	}
}

// checkDecoderAssignment runs the definite-full-assignment rule on the layer decoders
// whose receiver type satisfies keep (all of them when keep is nil). Shared: a response
// that is decoded into a reused value once per page (C16) must not keep the previous
// page's fields either.
func checkDecoderAssignment(c *Ctx, r *Report, rule string, min int, keep func(*types.Named) bool) int {
	var entries []*ssa.Function
	for _, fn := range c.decodeEntryPoints() {
		if keep != nil {
			if rn := recvNamed(fn); rn == nil || !keep(rn) {
				continue
			}
		}
		entries = append(entries, fn)
	}
	lf := newLenflow(c, 4)
	{
		workers := make([]*lfEngine, len(entries))
		sem := make(chan struct{}, runtime.NumCPU())
		var wg sync.WaitGroup
		for i, fn := range entries {
			wg.Add(1)
			sem <- struct{}{}
			go func(i int, fn *ssa.Function) {
				defer wg.Done()
				defer func() { <-sem }()
				w := newLenflowShared(c, 4, lf)
				w.runEntry(fn, nil)
				workers[i] = w
			}(i, fn)
		}
		wg.Wait()
		for _, w := range workers {
			lf.merge(w)
		}
	}
	k := &c17{c: c, lf: lf, cache: map[*ssa.Function]*writeSummary{}, busy: map[*ssa.Function]bool{}}
	r.Rule(rule, "a receiver field written on some success path of a decoder is written (in full) on every success path", min)
	n := 0
	for _, fn := range entries {
		if fn.Signature.Recv() == nil {
			continue
		}
		if _, isPtr := fn.Params[0].Type().Underlying().(*types.Pointer); !isPtr {
			continue
		}
		n++
		reportAssignment(c, r, k, fn)
	}
	return n
}

// checkResponseAlwaysDecoded (shared with C07: a body shorter than the layer's minimum — an
// empty one included — is rejected, not skipped; and with C15: a reading is never a stale one).
func checkResponseAlwaysDecoded(c *Ctx, r *Report) {
	// the command's response value is decoded on every successful call: a reused command
	// (a sensor reader polling, the SDR walk) must never report the previous response
	r.Rule("response-always-decoded", "whenever the command has a response layer, every error-free return of SendCommand has decoded the reply's payload into it", 2)
	for _, sc := range c.sendCommandImpls() {
		name := c.FnName(sc)
		cmdParam := sc.Params[len(sc.Params)-1]
		isResponse := func(p CPath, v ssa.Value) bool {
			call, ok := p.Resolve(v).(*ssa.Call)
			return ok && call.Call.IsInvoke() && call.Call.Method.Name() == "Response" && p.Resolve(call.Call.Value) == ssa.Value(cmdParam)
		}
		okDec, nDec := true, 0
		complete := enumPaths(sc, 2, 20000, func(p CPath) {
			ret, isRet := p.Last().(*ssa.Return)
			// error-free, or possibly so: only a return known to carry an error is exempt
			if !isRet || ret.Parent() != sc || len(ret.Results) != 2 || c.errOutcome(sc, p) == 1 {
				return
			}
			// does the path know the command has a response layer?
			has := false
			for _, rel := range p.relations() {
				if rel.Op != token.NEQ {
					continue
				}
				if (isNilConst(rel.Y) && isResponse(p, rel.X)) || (isNilConst(rel.X) && isResponse(p, rel.Y)) {
					has = true
				}
			}
			if !has {
				return
			}
			nDec++
			decoded := false
			for _, in := range p.Instrs() {
				if cc := asCall(in); cc != nil && cc.IsInvoke() && cc.Method.Name() == "DecodeFromBytes" && isResponse(p, cc.Value) {
					decoded = true
				}
			}
			if !decoded {
				okDec = false
			}
		})
		if !complete {
			r.Unk(name+"|response decoded", sc.Pos(), "too many paths")
			continue
		}
		r.Check(okDec && nDec > 0, name+"|response decoded", sc.Pos(), "decoded on every error-free path that has a response layer", "an error-free return skips decoding the response layer: the command value keeps the fields of an earlier response")
	}

}
