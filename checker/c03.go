package main

import (
	"fmt"
	"go/token"
	"go/types"
	"strings"

	"golang.org/x/tools/go/ssa"
)

func init() { register("C03", checkC03) }

// divisibleUnder decides e ≡ 0 (mod m) under constraints cs.
func divisibleUnder(c *Ctx, cs []Cons, x Lin, m int64) bool {
	e := newLenflow(c, 0)
	// symbol names are irrelevant here
	st := &lfState{cons: cs, heap: map[string]lfVal{}, decided: map[int]bool{}}
	return e.divisible(st, x, m)
}

func checkC03(c *Ctx, r *Report) {
	r.Explain = "Structure of every in-session transmission: (1) at the SerializeLayers call of the in-session send closure the session wrapper is a fresh literal with Encrypted and Authenticated set, the BMC's session ID, the session's integrity hash and confidentiality layer type, and the layer stack is RMCP, session wrapper, confidentiality layer, IPMI message, request; the serialize options enable length fixing and checksum/signature computation and are never modified; (2) in the session wrapper's serialiser: header prepend ≺ integrity trailer append ≺ hash over the whole buffer ≺ signature append, the trailer is 0xFF × pad, the pad length byte and next-header 0x07, and on every path header+payload+pad+2 ≡ 0 (mod 4) with 0 ≤ pad ≤ 3 (engine E1 congruence); (3) in the AES layer's serialiser the IV is the 16 prepended bytes, filled by crypto/rand.Read on every path before the CBC encrypter is built with it, the trailer is 1,2,…,n,n with payload+n+1 ≡ 0 (mod 16), 0 ≤ n ≤ 15, and the encrypted region is a live view of the buffer; (4) the header layout equals §13.6 and the message checksums cover the specified ranges (engine E2, shared with C06). Decides structure on all paths; the HMAC and AES values are the primitives'."
	r.NotDecided = []string{"equality of the AuthCode / ciphertext with an independent implementation (value level; HMAC and AES are trusted)", "IV uniqueness — probabilistic; only its source (crypto/rand into the IV bytes on every path) is decided"}
	r.Trusted = []string{"go/types, go/ssa (x/tools v0.29.0)", "gopacket.SerializeLayers serialises the layers in reverse order into the cleared buffer with the given options", "crypto/rand.Read fills the whole slice or returns an error", "crypto/hmac, crypto/aes, crypto/cipher"}

	// ---- (1) the in-session closure's wrapper literal and layer stack
	found := false
	for _, s := range c.SendClosures() {
		if !s.Session {
			continue
		}
		found = true
		name := c.FnName(s.Fn)
		r.Fn(name)
		var ser *ssa.Call
		allInstrs(s.Fn, false, func(in ssa.Instruction) {
			if call, ok := in.(*ssa.Call); ok && isCallTo(in, fnSerializeLayers) {
				ser = call
			}
		})
		r.Rule("session-wrapper-literal", "the wrapper serialised for an in-session packet is freshly built with Encrypted, Authenticated, the BMC's session ID, the IPMI payload type, the session's integrity hash and confidentiality layer type", 6)
		if ser == nil {
			r.Bad(name+"|SerializeLayers", s.Fn.Pos(), "the in-session closure does not serialise the packet itself")
			continue
		}
		var lit map[string]ssa.Value
		var litStore *ssa.Store
		allInstrs(s.Fn, false, func(in ssa.Instruction) {
			if sel, _, st, ok := storeSel(in); ok && sel == fSess && mustPrecede(s.Fn, st, ser) {
				if f, _, isLit := complitFields(st.Val); isLit {
					lit, litStore = f, st
				} else if os := viewOrigins(s.Fn, st.Val); len(os) == 1 {
					// the literal is built by a helper and handed back
					if f, _, isLit := complitFields(os[0]); isLit {
						lit, litStore = f, st
					}
				}
			}
		})
		if lit == nil {
			r.Bad(name+"|wrapper literal", ser.Pos(), "the session wrapper is not rebuilt from a literal before serialisation in the closure")
		} else {
			isTrue := func(v ssa.Value) bool { k, ok := constInt(v); return ok && k == 1 }
			loadOf := func(v ssa.Value, sel string) bool {
				ld, ok := v.(*ssa.UnOp)
				return ok && ld.Op == token.MUL && apOf(ld.X).SelString() == sel
			}
			r.Check(isTrue(lit["Encrypted"]), name+"|Encrypted", litStore.Pos(), "true", "in-session packets are not marked (and therefore not sent) encrypted")
			r.Check(isTrue(lit["Authenticated"]), name+"|Authenticated", litStore.Pos(), "true", "in-session packets are not authenticated")
			r.Check(loadOf(lit["ID"], "RemoteID"), name+"|ID", litStore.Pos(), "← s.RemoteID", "in-session packets are not addressed to the BMC's session ID (RemoteID)")
			okPD := false
			for _, fv := range lit { // embedded struct: promoted (unnamed) selector
				if ld, ok := fv.(*ssa.UnOp); ok {
					if g, ok := ld.X.(*ssa.Global); ok && g.Name() == "PayloadDescriptorIPMI" {
						okPD = true
					}
				}
			}
			r.Check(okPD, name+"|PayloadDescriptor", litStore.Pos(), "IPMI message payload", "payload descriptor is not the IPMI message payload type")
			r.Check(loadOf(lit["IntegrityAlgorithm"], fInteg), name+"|IntegrityAlgorithm", litStore.Pos(), "← s.integrityAlgorithm", "the wrapper is not given the session's integrity hash (keyed by K1)")
			okCL := false
			if call, ok := lit["ConfidentialityLayerType"].(*ssa.Call); ok && call.Call.IsInvoke() && call.Call.Method.Name() == "LayerType" && loadOf(call.Call.Value, fConf) {
				okCL = true
			}
			r.Check(okCL, name+"|ConfidentialityLayerType", litStore.Pos(), "← s.confidentialityLayer.LayerType()", "the wrapper's confidentiality layer type is not the session's confidentiality layer")
		}
		r.Rule("layer-stack", "the serialised stack is RMCP, session wrapper, confidentiality layer, IPMI message, request, into the connection's buffer, and exactly that buffer is sent", 2)
		args := serializeLayerArgs(ser)
		var sels []string
		for _, a := range args {
			if a == nil {
				sels = append(sels, "?")
				continue
			}
			v := stripConv(a)
			// the command's request, or an empty payload in its place when it has none — through
			// a helper or written out where it is used
			{
				nReq, other := 0, 0
				for _, o := range viewOrigins(s.Fn, a) {
					o = stripConv(o)
					if mi, isMI := o.(*ssa.MakeInterface); isMI {
						o = stripConv(mi.X)
					}
					switch x := o.(type) {
					case *ssa.Call:
						if x.Call.IsInvoke() && x.Call.Method.Name() == "Request" {
							nReq++
							continue
						}
					case *ssa.Const:
						if x.Value == nil && strings.HasSuffix(types.TypeString(x.Type(), nil), "gopacket.Payload") {
							continue
						}
					}
					other++
				}
				if nReq > 0 && other == 0 {
					sels = append(sels, "call(Request)")
					continue
				}
			}
			if ld, ok := v.(*ssa.UnOp); ok && ld.Op == token.MUL {
				sels = append(sels, "*"+apOf(ld.X).SelString())
			} else if call, ok := v.(*ssa.Call); ok {
				inner := ""
				if len(call.Call.Args) == 1 {
					if rc, ok := call.Call.Args[0].(*ssa.Call); ok && rc.Call.IsInvoke() {
						inner = rc.Call.Method.Name()
					}
				}
				sels = append(sels, "call("+inner+")")
			} else {
				sels = append(sels, apOf(v).SelString())
			}
		}
		r.Check(strings.Join(sels, ",") == fRmcp+","+fSess+",*"+fConf+","+fMsg+",call(Request)", name+"|layers", ser.Pos(), strings.Join(sels, ","), "layer stack is ["+strings.Join(sels, ",")+"], want RMCP, session wrapper, confidentiality layer, message, request")
		okBuf := false
		if ld, ok := ser.Call.Args[0].(*ssa.UnOp); ok && apOf(ld.X).SelString() == fBuf {
			if bc, ok := s.Send.Call.Args[1].(*ssa.Call); ok && bc.Call.IsInvoke() && bc.Call.Method.Name() == "Bytes" && apOf(bc.Call.Value).SelString() == fBuf && mustPrecede(s.Fn, ser, s.Send) {
				okBuf = true
			}
		}
		r.Check(okBuf, name+"|buffer", ser.Pos(), "serialised into and sent from the connection buffer", "the bytes sent are not the buffer that was just serialised")
		// options
		r.Rule("serialize-options", "FixLengths and ComputeChecksums are both enabled and the options value is never modified", 2)
		okOpt := false
		if ld, ok := ser.Call.Args[1].(*ssa.UnOp); ok {
			if g, ok := ld.X.(*ssa.Global); ok {
				v := newInitReader(c).global(g)
				okOpt = v.Kind == "struct" && constStr(v.Fields["FixLengths"]) == "true" && constStr(v.Fields["ComputeChecksums"]) == "true"
				writes := 0
				for _, fn := range c.LibFuncs() {
					rawInstrs(fn, false, func(in ssa.Instruction) {
						if st, ok := in.(*ssa.Store); ok && apOf(st.Addr).Root == ssa.Value(g) {
							writes++
						}
					})
				}
				r.Check(writes == 0, name+"|options never written", ser.Pos(), "no stores", "the package-level serialize options are modified at run time")
			}
		}
		r.Check(okOpt, name+"|options", ser.Pos(), "FixLengths and ComputeChecksums true", "serialisation does not run with FixLengths and ComputeChecksums enabled: lengths, pads, checksums or signature would be stale")
	}
	if !found {
		r.Rule("session-wrapper-literal", "", 6)
		r.Lost("in-session send closure")
	}
	// what is transmitted is a completely serialised packet: no path reaches the transmission
	// after a serialisation that failed (gopacket leaves the layers written so far — the inner
	// ones, in the clear — in the buffer)
	r.Rule("sent-only-if-serialised", "in the in-session operation the transmission is reached only on paths on which SerializeLayers returned nil", 1)
	for _, s := range c.SendClosures() {
		if !s.Session || s.Send == nil {
			continue
		}
		name := c.FnName(s.Fn)
		okS, nS := true, 0
		posS := s.Send.Pos()
		completeS := enumPaths(s.Fn, 1, 100000, func(p CPath) {
			idx := pathIndex(p)
			sendAt, on := idx[s.Send]
			if !on {
				return
			}
			for _, in := range p.Instrs() {
				call, ok := in.(*ssa.Call)
				if !ok || !isCallTo(in, fnSerializeLayers) {
					continue
				}
				if at, has := idx[call]; !has || at > sendAt {
					continue
				}
				nS++
				if p.nilFound(call) != 0 {
					okS, posS = false, call.Pos()
				}
			}
		})
		if !completeS {
			r.Unk(name+"|sent only if serialised", s.Send.Pos(), "too many paths")
			continue
		}
		r.Check(okS && nS > 0, name+"|sent only if serialised", posS, "every path to the transmission found the serialisation error nil", "a path reaches the transmission although SerializeLayers failed (or its error was not examined): the buffer then holds a partial packet — inner layers in the clear, no session wrapper, no AuthCode")
	}
	checkFreshLayers(c, r, "fresh-layers")

	// ---- (2) session wrapper serialiser
	const pre = "(github.com/google/gopacket.SerializeBuffer).PrependBytes"
	const app = "(github.com/google/gopacket.SerializeBuffer).AppendBytes"
	const byt = "(github.com/google/gopacket.SerializeBuffer).Bytes"
	r.Rule("integrity-trailer-order", "header prepend ≺ trailer (pad, pad length, 0x07) append ≺ hash over the whole buffer with the layer's integrity algorithm ≺ signature append of exactly that hash", 4)
	if fn := c.Method("pkg/ipmi", "V2Session", "SerializeTo"); fn == nil {
		r.Lost("ipmi.V2Session.SerializeTo")
	} else {
		name := c.FnName(fn)
		r.Fn(name)
		var preC, app1, app2, hashC *ssa.Call
		allInstrs(fn, false, func(in ssa.Instruction) {
			call, ok := in.(*ssa.Call)
			if !ok {
				return
			}
			switch calleeName(&call.Call) {
			case pre:
				preC = call
			case app:
				if app1 == nil {
					app1 = call
				} else {
					app2 = call
				}
			default:
				if f := call.Call.StaticCallee(); f != nil && hashHelperShape(f) == "" {
					hashC = call
				}
			}
		})
		if preC == nil || app1 == nil || app2 == nil || hashC == nil {
			r.Bad(name+"|shape", fn.Pos(), "expected one PrependBytes, two AppendBytes and one hash computation")
		} else {
			if !mustPrecede(fn, app1, app2) {
				app1, app2 = app2, app1
			}
			r.Check(mustPrecede(fn, preC, hashC) && mustPrecede(fn, app1, hashC) && canReach(hashC, app2) && !canReach(app2, hashC), name+"|order", hashC.Pos(), "prepend ≺ trailer ≺ hash ≺ signature", "the integrity hash is not computed after the header and trailer are in place and before the signature is appended")
			okArgs := false
			if ld, ok := hashC.Call.Args[0].(*ssa.UnOp); ok && apOf(ld.X).SelString() == "IntegrityAlgorithm" {
				if bc, ok := hashC.Call.Args[1].(*ssa.Call); ok && calleeName(&bc.Call) == byt {
					okArgs = true
				}
			}
			r.Check(okArgs, name+"|hash input", hashC.Pos(), "H(IntegrityAlgorithm, whole buffer)", "the signature is not the integrity algorithm's hash of the whole buffer (auth type … next header)")
			// signature appended is the stored hash, whole
			okSig := false
			allInstrs(fn, false, func(in ssa.Instruction) {
				if call, ok := in.(*ssa.Call); ok {
					if b, ok := call.Call.Value.(*ssa.Builtin); ok && b.Name() == "copy" {
						if ex, ok := call.Call.Args[0].(*ssa.Extract); ok && ex.Tuple == ssa.Value(app2) {
							if ld, ok := call.Call.Args[1].(*ssa.UnOp); ok && apOf(ld.X).SelString() == "Signature" {
								okSig = true
							}
						}
					}
				}
			})
			// and len(app2) == len(s.Signature)
			if lc, ok := app2.Call.Args[0].(*ssa.Call); ok {
				if arg, isLen := lenOf(lc); !isLen || !strings.HasSuffix(apOf(arg).SelString(), "Signature") {
					okSig = false
				}
			} else {
				okSig = false
			}
			r.Check(okSig, name+"|signature appended", app2.Pos(), "the whole signature is appended", "the appended AuthCode is not the whole computed signature")
		}
		// trailer bytes and congruence via E2/E1
		evs, why := extractEvents(c, fn, v2Widths)
		nAuth := 0
		okTrail, okCong := true, true
		whyCong := ""
		for _, le := range evs {
			if !le.OK || !le.Bools["Authenticated"] {
				continue
			}
			var lens = map[string]Lin{}
			for _, ev := range le.Events {
				if ev.Kind == "len" && ev.L != nil {
					lens[ev.Name] = *ev.L
				}
			}
			ap, has := lens["app"]
			if !has {
				continue // path returned before the trailer (error)
			}
			nAuth++
			// total = pre + payload + app  where payload = buffer length before the prepend
			var payload Lin
			for _, ev := range le.Events {
				if ev.Kind == "len" && strings.HasPrefix(ev.Name, "buf") && ev.L != nil {
					payload = *ev.L
					break
				}
			}
			fixed := false
			for _, cnd := range le.Cond {
				_ = cnd
			}
			total := lens["pre"].add(payload, 1).add(ap, 1)
			padL := ap.addConst(-2)
			// only paths that recompute the pad (FixLengths) are obliged; detect by payload known
			if len(payload.T) == 0 && payload.C == 0 {
				continue
			}
			if _, isField := le.Fields["Pad"]; isField {
				fixed = true
			}
			_ = fixed
			if entails(le.Cons, geq(padL, linConst(0))) && entails(le.Cons, leq(padL, linConst(3))) && divisibleUnder(c, le.Cons, total, 4) {
				// fine
			} else if strings.Contains(strings.Join(le.Cond, ";"), "v2session.go") {
				// paths where FixLengths is false use the caller's Pad: not obliged
				padFromField := false
				for _, ev := range le.Events {
					if ev.Kind == "len" && ev.Name == "app" && strings.Contains(ev.Val, "f:Pad") {
						padFromField = true
					}
				}
				if !padFromField {
					okCong = false
					whyCong = fmt.Sprintf("cannot show header+payload+pad+2 ≡ 0 (mod 4) with 0 ≤ pad ≤ 3 (trailer length %s)", evLen(le, "app"))
				}
			}
			// trailer: app[pad] = pad, app[pad+1] = 7
			has7 := false
			for _, ev := range le.Events {
				if ev.Kind == "wire" && strings.HasPrefix(ev.Name, "app[") && ev.Val == "7" {
					has7 = true
				}
			}
			if !has7 {
				okTrail = false
			}
		}
		if why != "" || nAuth == 0 {
			r.Unk(name+"|trailer", fn.Pos(), "could not extract authenticated paths: "+why)
		} else {
			r.Check(okTrail, name+"|next header 0x07", fn.Pos(), "trailer ends with pad length and 0x07", "the integrity trailer does not end with the next-header byte 0x07")
			r.Rule("integrity-pad-congruence", "header + payload + pad + 2 ≡ 0 (mod 4) and 0 ≤ pad ≤ 3 on every path that computes the pad", 1)
			r.Check(okCong, name+"|pad", fn.Pos(), fmt.Sprintf("holds on %d authenticated paths", nAuth), whyCong)
		}
		// 0xFF fill: decided on the generalised loop events — on every authenticated success path
		// the trailer's bytes 0..pad−1 are written 0xFF by a loop, byte pad is the pad length
		// and the trailer is pad+2 bytes long
		r.Rule("integrity-pad-bytes", "pad bytes are 0xFF", 1)
		okFF, nFF, whyFF := true, 0, ""
		for _, le := range evs {
			if !le.OK || !le.Bools["Authenticated"] {
				continue
			}
			l, has := le.lenOfBuf("app")
			if !has {
				continue
			}
			nFF++
			pad := l.addConst(-2)
			filled := false
			last := "no loop writes the integrity pad bytes"
			for _, ev := range le.eventsOf("loop:wire", "app") {
				run, w := runOf(ev)
				if w != "" {
					last = w
					continue
				}
				if k, isK := run.V0.isConst(); !run.ConstVal || !isK || k != 0xff {
					last = "integrity pad bytes are not 0xFF"
					continue
				}
				if !linEq(run.Idx0, linConst(0)) || len(ev.Loop.Guard) != 1 {
					last = "the 0xFF fill does not start at the first trailer byte or is conditional"
					continue
				}
				if cov, w := run.coversUpTo(pad, le.Cons); !cov {
					last = w
					continue
				}
				filled = true
			}
			if !filled {
				okFF, whyFF = false, last
			}
		}
		if nFF == 0 {
			r.Unk(name+"|0xFF fill", fn.Pos(), "no authenticated success path with a trailer")
		} else {
			r.Check(okFF, name+"|0xFF fill", fn.Pos(), "bytes 0..pad−1 of the trailer are 0xFF", "integrity pad bytes are not 0xFF: "+whyFF)
		}
	}

	// ---- (3) AES serialiser
	checkAESSerialiser(c, r)
	checkAESPadConvention(c, r)
	checkHashAlwaysReset(c, r)
	// the integrity hash handed to the wrapper is the negotiated algorithm's, keyed by K1 and
	// truncated as specified (shared with C01): the AuthCode length follows from it
	checkAlgorithmTables(c, r)
	// "for exactly the command the caller asked for", packet after packet: command definitions
	// are never written at run time (shared with C19, C06) ...
	checkPackageTablesReadOnly(c, r)
	// ... and "no initialisation vector is ever used twice": one Transport.Send is one datagram —
	// the transport does not repeat a packet (and with it its IV) on its own (shared with C09–C11)
	checkOneWriteOneRead(c, r)
	// ... across command histories: the buffer every packet is built in is reused, so each request
	// layer stores every byte it claims — reserved ones included — and reads none first (shared
	// with C17, C08)
	checkSerialisersOverwrite(c, r)
	// "every datagram the library transmits within an established session": whatever method a
	// caller invokes on the session value is the session's own
	checkSessionAPIOwnMethods(c, r)
	// "for exactly the command the caller asked for": the commands the library builds itself
	// (Close Session names the BMC's session ID) (shared with C06)
	checkHelperRequests(c, r)
	checkBufferViews(c, r, "buffer-views")

	// ---- (4) layouts shared with C06
	r.Rule("session-header-layout", "the RMCP+ session header equals §13.6 per shape", 30)
	compareSpec(c, r, sessionHeaderSpecs, "wire", nil)
	r.Rule("message-layout", "IPMI message header, body code / IANA placement and the two checksums' ranges equal §13.8", 30)
	compareSpec(c, r, shapedRequestSpecs, "wire", nil)

	// "the decrypted payload is … a message for exactly the command the caller asked for": the
	// message layer serialised in the closure is addressed BMC ← console, carries the command's
	// LUN and operation (rule shared with C06)
	checkBuildLiterals(c, r)
}

func evLen(le layoutEvents, name string) string {
	for _, ev := range le.Events {
		if ev.Kind == "len" && ev.Name == name {
			return ev.Val
		}
	}
	return "?"
}

// checkAESPadArithmetic: on every success path of the AES serialiser the
// trailer length n+1 satisfies payload+n+1 ≡ 0 (mod 16) with 0 ≤ n ≤ 15.
func checkAESPadArithmetic(c *Ctx, r *Report, fn *ssa.Function) {
	name := c.FnName(fn)
	evs, _ := extractEvents(c, fn, nil)
	okPad := false
	whyPad := "no success path"
	for _, le := range evs {
		if !le.OK {
			continue
		}
		var ap, payload *Lin
		for _, ev := range le.Events {
			if ev.Kind == "len" && ev.L != nil {
				l := *ev.L
				if ev.Name == "app" {
					ap = &l
				}
				if strings.HasPrefix(ev.Name, "buf") && payload == nil {
					payload = &l
				}
			}
		}
		if ap == nil || payload == nil {
			continue
		}
		n := ap.addConst(-1)
		if entails(le.Cons, geq(n, linConst(0))) && entails(le.Cons, leq(n, linConst(15))) && divisibleUnder(c, le.Cons, payload.add(*ap, 1), 16) {
			okPad = true
		} else {
			okPad = false
			whyPad = "cannot show payload+n+1 ≡ 0 (mod 16) with 0 ≤ n ≤ 15 for trailer length " + evLen(le, "app")
			break
		}
	}
	r.Check(okPad, name+"|pad length", fn.Pos(), "payload+n+1 ≡ 0 (mod 16), 0 ≤ n ≤ 15", whyPad)
}

// checkHashAlwaysReset: the keyed hashes are long-lived objects shared by every
// packet of a session (and by the handshake computations): whatever is written
// into one must be cleared again before the function that wrote it returns, on
// every path — otherwise the next AuthCode is computed over leftovers.
func checkHashAlwaysReset(c *Ctx, r *Report) {
	r.Rule("hash-always-reset", "every function that writes into a hash.Hash resets it on every path before returning", 2)
	for _, fn := range c.LibFuncs() {
		writes := false
		allInstrs(fn, false, func(in ssa.Instruction) {
			if cc := asCall(in); cc != nil && cc.IsInvoke() && cc.Method.Name() == "Write" && isHashHash(cc.Value.Type()) {
				writes = true
			}
		})
		if !writes {
			continue
		}
		// a helper that is spliced into its callers is judged there, with what they do after it
		if c.onlySpliced(fn) {
			continue
		}
		name := c.FnName(fn)
		r.Fn(name)
		ok := true
		var pos = fn.Pos()
		complete := enumPaths(fn, 2, 1000000, func(p CPath) {
			if _, isRet := p.Last().(*ssa.Return); !isRet {
				return
			}
			// keyed by what the receiver denotes: the same hash read twice from a field (`g.hash.Write`,
			// then `g.hash.Reset`) is one hash
			dirty := map[string]bool{}
			for _, oc := range p.Occs() {
				cc := asCall(oc.In)
				if cc == nil || !cc.IsInvoke() || !isHashHash(cc.Value.Type()) {
					continue
				}
				hv := p.ResolveIn(oc.Ctx, cc.Value)
				h := fmt.Sprintf("%p", hv)
				if ld, isLd := hv.(*ssa.UnOp); isLd && ld.Op == token.MUL {
					a := p.APIn(oc.Ctx, ld.X)
					if a.Root != nil {
						h = fmt.Sprintf("%p.%s", a.Root, a.SelString())
					}
				}
				switch cc.Method.Name() {
				case "Write":
					dirty[h] = true
				case "Reset":
					dirty[h] = false
				}
			}
			for _, d := range dirty {
				if d {
					ok = false
					pos = p.Last().Pos()
				}
			}
		})
		if !complete {
			r.Unk(name+"|hash reset", fn.Pos(), "too many paths")
			continue
		}
		r.Check(ok, name+"|hash reset", pos, "written hash is reset on every path", "a path returns with data still written into the shared hash: the next digest (the next packet's AuthCode) is computed over leftovers")
	}
}

// checkAESSerialiser: the confidentiality layer's serialiser — IV from crypto/rand into the
// prepended bytes, the encrypter built from exactly that IV and used for exactly this packet,
// pad arithmetic (shared with C08: decode(serialise(v)) = v for every packet a layer value
// sends, not only its first).
func checkAESSerialiser(c *Ctx, r *Report) {
	const byt = "(github.com/google/gopacket.SerializeBuffer).Bytes"
	const app = "(github.com/google/gopacket.SerializeBuffer).AppendBytes"
	_, _ = byt, app
	const pre = "(github.com/google/gopacket.SerializeBuffer).PrependBytes"
	r.Rule("aes-iv-and-pad", "IV = the 16 prepended bytes filled by crypto/rand.Read before the encrypter is built with it; trailer 1..n,n; payload+n+1 ≡ 0 (mod 16), 0 ≤ n ≤ 15", 4)
	if fn := c.Method("pkg/ipmi", "AES128CBC", "SerializeTo"); fn == nil {
		r.Lost("ipmi.AES128CBC.SerializeTo")
	} else {
		name := c.FnName(fn)
		r.Fn(name)
		var preC, randC, encC, cryptC *ssa.Call
		allInstrs(fn, false, func(in ssa.Instruction) {
			if call, ok := in.(*ssa.Call); ok {
				switch calleeName(&call.Call) {
				case pre:
					preC = call
				case "crypto/rand.Read":
					randC = call
				case "crypto/cipher.NewCBCEncrypter":
					encC = call
				case "(crypto/cipher.BlockMode).CryptBlocks":
					cryptC = call
				}
			}
		})
		if preC == nil || randC == nil || encC == nil || cryptC == nil {
			r.Bad(name+"|shape", fn.Pos(), "expected PrependBytes, crypto/rand.Read, NewCBCEncrypter and CryptBlocks")
		} else {
			iv := extractOf(preC, 0)
			okIV := iv != nil && randC.Call.Args[0] == iv && encC.Call.Args[1] == iv && mustPrecede(fn, randC, encC)
			// rand error checked: encrypter unreachable on the error arm
			okErr := false
			for _, ifi := range ifsOf(fn) {
				op, x, y, _, isBin := condOf(ifi.Cond)
				if isBin && op == token.NEQ && isNilConst(y) {
					if ex, ok := x.(*ssa.Extract); ok && ex.Tuple == ssa.Value(randC) {
						if !reachAvoiding(fn, nil, nil, map[edge]bool{{ifi.Block(), ifi.Block().Succs[1]}: true})[encC.Block()] {
							okErr = true
						}
					}
				}
			}
			r.Check(okIV && okErr, name+"|IV", encC.Pos(), "IV bytes ← crypto/rand.Read, error checked, then NewCBCEncrypter(cipher, iv)", "the IV handed to the CBC encrypter is not the prepended 16 bytes freshly filled by crypto/rand.Read (a constant or reused IV)")
			// ... and that encrypter — built in this call with this packet's IV — is the one that
			// encrypts, on every path: a BlockMode kept from an earlier packet chains on from that
			// packet's last ciphertext block while the header announces the fresh IV
			okMode := cryptC.Call.Value == ssa.Value(encC) && mustPrecede(fn, encC, cryptC)
			if !okMode {
				os := viewOrigins(fn, cryptC.Call.Value)
				okMode = len(os) > 0 && mustPrecede(fn, encC, cryptC)
				for _, o := range os {
					if o != ssa.Value(encC) {
						okMode = false
					}
				}
			}
			r.Check(okMode, name+"|encrypter of this packet", cryptC.Pos(), "CryptBlocks runs on the encrypter built from this packet's IV", "the payload is not encrypted by the CBC encrypter built in this call from this packet's IV (a cached BlockMode continues the previous packet's chain: the first block does not decrypt under the IV in the header)")
			okKey := false
			if ld, ok := encC.Call.Args[0].(*ssa.UnOp); ok && apOf(ld.X).SelString() == fAesCipher {
				okKey = true
			}
			r.Check(okKey, name+"|cipher", encC.Pos(), "the layer's AES block cipher", "encryption does not use the layer's cipher")
			// encrypted region: b.Bytes()[16:] taken after the prepend, dst == src
			okReg := cryptC.Call.Args[0] == cryptC.Call.Args[1]
			if sl, ok := cryptC.Call.Args[0].(*ssa.Slice); ok {
				if bc, ok := sl.X.(*ssa.Call); !ok || calleeName(&bc.Call) != byt || !mustPrecede(fn, preC, bc) {
					okReg = false
				}
			} else {
				okReg = false
			}
			r.Check(okReg, name+"|encrypted region", cryptC.Pos(), "everything after the IV, in place, on the live buffer", "the encrypted region is not the live buffer contents after the IV")
		}
		checkAESPadArithmetic(c, r, fn)
	}
}
