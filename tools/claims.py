# claims table — executed by mkmanifest.py
claim("C01", "SSA path extraction of hash-input transcripts + key-wiring provenance vs. specification tables",
      "Decides the structure of the RMCP+ key schedule on every path (what is hashed, in which order and encoding, keyed by which secret; algorithm tables; driver order). Not value-level key equality; HMAC/AES are trusted.", "DESIGN.md §4 C01")
claim("C02", "must-pass-through on the session constructor's CFG (constant-time comparisons identified by transcript provenance)",
      "Every path returning a session passes both HMAC comparisons with the right operands; handshake helpers validate tag/status/error on every success path. Exhaustive over the constructor's and helpers' paths.", "DESIGN.md §4 C02")
claim("C03", "literal/typestate rules on the in-session closure + ordering and E1 congruence obligations in the two serialisers + E2 layout tables",
      "Every in-session packet is built from a fresh wrapper with the right flags, session ID, integrity hash and confidentiality layer; trailer/hash/signature order; pad congruences mod 4 and mod 16 on every path; IV from crypto/rand on every path; live buffer views; header and checksum layouts per specification. Not the HMAC/AES values.", "DESIGN.md §4 C03")
claim("C04", "must-pass-through / edge-removal reachability on the accept path and the two decoders",
      "Every path on which a reply's completion code is used has tested the authenticated flag and session ID; the v2.0 session decoder's success exits are behind the signature comparison with whole operands; the AES layer's behind pad validation.", "DESIGN.md §4 C04")
claim("C05", "abstract interpretation of lengths (linear forms + Fourier-Motzkin entailment, inferred loop invariants) over all decoders and reply-handling driver code",
      "Every index/slice (against len, not cap)/make/division/contract precondition reachable from the 36 decode entry points and the driver functions is entailed on every path for every input length and content; every loop matches a termination template; literal-nil dereferences, explicit panics and unguarded type assertions are obligations. Bounded only by an inlining depth and a step budget that fail loudly.", "DESIGN.md §3 E1, §4 C05")
claim("C06", "bit-provenance symbolic evaluation of every request serialiser vs. specification tables; operation/command tables; literal rules",
      "For all request layers and all field values within their wire width: each output byte equals the specified expression over field bits (per shape for the message and session header); NetFn/command/body of all commands; build literals; payload order; username guard.", "DESIGN.md §3 E2, §4 C06")
claim("C07", "bit-provenance symbolic evaluation of every decoder vs. specification tables; satisfiability of minimal encodings; checksum must-checks",
      "For 27 response layers: every tabled field is extracted from exactly the specified wire bits on every success path; the specification's minimal encodings are accepted; both checksums guard acceptance; length fields bound the payload windows. Fields without an independently justified position are listed as not covered.", "DESIGN.md §3 E2, §4 C07")
claim("C08", "sibling agreement on bit provenance (serialiser wire-bit map vs decoder field-bit map, per shape) + buffer-view invalidation",
      "For the v1.5/v2.0 session wrappers, the IPMI message (6 NetFn shapes), RAKP Message 1 and the three algorithm payloads: the two directions are mutual inverses on every wire bit; no serialiser uses a buffer view after a later grow; AES pad convention agrees. Not re-serialisation equality of computed fields.", "DESIGN.md §3 E2, §4 C08")
claim("C09", "who-writes rule + CFG path counting on the in-session send closure",
      "Every store to the session sequence counter in the module is the closure's +1; on every closure path exactly one increment precedes the Send and the serialised Sequence is that value; session-less wrappers carry no ID/sequence.", "DESIGN.md §4 C09")
claim("C10", "predicate true-set (exact partition evaluation) + closure path classification + fresh/dirty typestate across backoff.Retry",
      "IsTemporary = {0xC0,0xC3} exactly; every closure path returns what the documented retry behaviour requires; every layer serialised in or before a retried closure is freshly initialised.", "DESIGN.md §4 C10")
claim("C11", "must-check on both command send closures (provenance of compared values)",
      "Every path that uses a reply's completion code has compared the decoded NetFn and command with values derived from the request's Operation().", "DESIGN.md §4 C11")
claim("C12", "initialiser tables + selector CFG shape + must-check on the constructor + nil-return enumeration",
      "Defaults [17,3] and suite triples; selection order; the Open Session Response algorithms are compared with the proposal on every success path; algorithm constructors never return (nil,nil).", "DESIGN.md §4 C12")
claim("C17", "effects analysis: definite full assignment of receiver fields over all success paths with callee summaries + E1-proven copy totality; fresh/dirty typestate",
      "For all 36 decoders: every field written on some success path is written in full on every success path; connection layers are re-initialised before each serialisation; the completion code is read after the same call's exchange.", "DESIGN.md §3 E4, §4 C17")
claim("C18", "CFG path counting of metric events resolved to registered metric names",
      "Per call and per closure invocation, on every path, the number of Inc/Dec events per metric equals what the path's outcome requires; no other update sites exist.", "DESIGN.md §4 C18")
claim("C13", "deadline-before-I/O ordering, context provenance (ctx threading) over all call sites, blocking-primitive census, loop classification",
      "Structural necessary conditions: every socket call is behind its deadline; every Send/Retry/ctx-taking call is bounded by a context derived from the caller's ctx parameter; no other blocking primitive exists in library code; every loop in a blocking function is ctx-bound or a counting loop. Not the numeric bound.", "DESIGN.md §4 C13")
claim("C14", "data-flow provenance and must-pass-through on the SDR walk and its retry closure",
      "Map key derives from the decoded header's ID; store only behind type/size guards and a body read with the right offset/length/reservation; Next chaining; publication only when both timestamp comparisons are false. Not completeness for all repository histories.", "DESIGN.md §4 C14")
claim("C15", "polynomial normal form of the conversion + initialiser tables + predicate true-sets + must-pass-through in Read",
      "The conversion expression equals the specification's polynomial; lineariser and parser tables match; flags are tested in order with their sentinels before converting. Not floating-point accuracy.", "DESIGN.md §4 C15")
claim("C16", "loop-shape analysis (natural loops, who-writes induction field, progress/lower-bound), grammar constants, nesting order, fallback reachability",
      "Both paged enumerations: chunk/page handling on every path, termination arguments, record grammar constants, expansion order, nil-on-error, fallback condition and key mapping. Not completeness against every BMC chunking.", "DESIGN.md §4 C16")
claim("C20", "initialiser tables, exact predicate true-sets, normal forms / structural shape of bit-copy conversions",
      "PARTIAL: decides the table/predicate/bit-copy clauses only (BCD-plus table, decoder table, entity-instance ranges, time-unit table, zero/sign-extension parsers, bcd.Decode normal form, checksum shape); the arithmetic conversions are listed as not decided in the evidence.", "DESIGN.md §4 C20")
claim("C19", "interprocedural may-alias taint from package-level variables (field-based heap, CHA-resolved dynamic calls) + who-writes rule",
      "No store, map update, copy/append destination or external writer receives a value that may point into package-level state outside initialisers and the one documented registration function; no such pointer is stored into per-connection objects; the library starts no goroutines. An ownership argument, not a schedule exploration.", "DESIGN.md §3 E4, §4 C19")
for p, why in {
}.items():
    na(p, why)
