package main

import (
	"fmt"
	"os"
	"path/filepath"
	"sort"
	"strings"

	"golang.org/x/tools/go/ssa"
)

// cmdSelftest checks the generic engines both ways on a fixture module with
// known verdicts: every Good* function must be fully discharged and every
// Bad* function must produce a failed obligation; predicate true-sets, the
// bit-provenance rendering and the linear-arithmetic core are compared with
// expected results. It proves that rules whose expected count on the real
// tree is zero can fire.
func cmdSelftest(args []string) int {
	fails := 0
	check := func(ok bool, what string) {
		if !ok {
			fails++
			fmt.Println("SELFTEST FAIL:", what)
		}
	}
	// ---- linear arithmetic core
	{
		x, y := linSym(0), linSym(1)
		cs := []Cons{geq(x, linConst(17)), geq(x, y.scale(16)), leq(x, y.scale(16))} // x ≥ 17, x = 16y
		check(entails(cs, geq(x, linConst(32))), "FM with integer tightening: x=16y ∧ x≥17 ⊨ x≥32")
		check(!entails(cs, geq(x, linConst(33))), "FM must not prove x≥33")
		check(infeasibleFM([]Cons{geq(x, linConst(1)), leq(x, linConst(0))}), "trivial infeasibility")
		// 4f ≤ i-1 ≤ 4f+3, i = 4q+1 ⊨ f = q
		i, f, q := linSym(2), linSym(3), linSym(4)
		cs2 := []Cons{leq(f.scale(4), i.addConst(-1)), geq(f.scale(4).addConst(3), i.addConst(-1)), geq(i, q.scale(4).addConst(1)), leq(i, q.scale(4).addConst(1))}
		check(entails(cs2, geq(f, q)) && entails(cs2, leq(f, q)), "floor reasoning: f = q")
	}
	// ---- bit vectors
	{
		b := bvSrc("d1", 8)
		lo := bvBinary("&", b, bvConst(0x0f, 8), 8)
		check(lo.String() == "d1[3:0]", "mask renders as d1[3:0], got "+lo.String())
		hi := b.shr(4, false)
		check(hi.String() == "d1[7:4]", "shift renders as d1[7:4], got "+hi.String())
		se := b.resize(16, true)
		check(se.render() == "sext8(d1[7:0])", "sign extension renders as sext8, got "+se.render())
	}
	// ---- fixture module
	exe, _ := os.Executable()
	dir := filepath.Join(filepath.Dir(filepath.Dir(exe)), "checker", "testdata", "fx")
	if len(args) > 0 {
		dir = args[0]
	}
	saveMod, saveMin := modPath, minModulePackages
	modPath, minModulePackages = "fixtures", 1
	defer func() { modPath, minModulePackages = saveMod, saveMin }()
	c, err := loadRepo(dir, "quick", "amd64")
	if err != nil {
		fmt.Println("SELFTEST FAIL: cannot load fixtures:", err)
		return 1
	}
	p := c.Pkg("")
	if p == nil {
		fmt.Println("SELFTEST FAIL: fixture package missing")
		return 1
	}
	var names []string
	for n, m := range p.Members {
		if _, ok := m.(*ssa.Function); ok {
			names = append(names, n)
		}
	}
	sort.Strings(names)
	nGood, nBad := 0, 0
	for _, n := range names {
		fn := p.Func(n)
		if !(strings.HasPrefix(n, "Good") || strings.HasPrefix(n, "Bad")) || strings.Contains(n, "Table") {
			continue
		}
		e := newLenflow(c, 4)
		e.runEntry(fn, nil)
		failed, total := 0, 0
		for _, o := range e.obls {
			total++
			if o.Failed > 0 || o.Unknown > 0 {
				failed++
			}
		}
		e.resolveLoops()
		unknownLoops := 0
		for _, v := range e.loopsSeen {
			if !strings.HasPrefix(v, "ok: ") {
				unknownLoops++
			}
		}
		if strings.HasPrefix(n, "Good") {
			nGood++
			check(failed == 0 && total > 0 && unknownLoops == 0, fmt.Sprintf("lenflow: %s must be fully discharged (%d/%d failed, %d loops without ranking)", n, failed, total, unknownLoops))
		} else {
			nBad++
			check(failed > 0, fmt.Sprintf("lenflow: %s must produce a failed obligation (%d obligations, none failed)", n, total))
		}
	}
	check(nGood >= 5 && nBad >= 6, fmt.Sprintf("fixture functions found: %d good, %d bad", nGood, nBad))
	// predicates
	for _, pw := range []struct{ n, want string }{{"IsSmall", "{0x0-0x5F}"}, {"IsMiddle", "{0x60-0x7F}"}, {"IsEither", "{0xC0,0xC3}"}} {
		set, err := predicateTrueSet(p.Func(pw.n), 0, 255)
		check(err == nil && rangesString(set) == pw.want, fmt.Sprintf("true-set of %s = %s, want %s (%v)", pw.n, rangesString(set), pw.want, err))
	}
	// bit provenance of the fixture decoder
	if dec := c.Method("", "Rec", "Decode"); dec == nil {
		check(false, "fixture decoder missing")
	} else {
		evs, why := extractEvents(c, dec, nil)
		got := mergedLayout(evs, "field")
		want := map[string]string{"Flag": "<unset> | d0[7]", "Low": "<unset> | d0[3:0]", "High": "<unset> | d1[7:4]", "Wide": "<unset> | {d3[7:0],d2[7:0]}", "Sign": "<unset> | sext8(d1[7:0])"}
		for k, w := range want {
			check(strings.Join(got[k], " | ") == w, fmt.Sprintf("bitprov: %s = %q, want %q %s", k, strings.Join(got[k], " | "), w, why))
		}
	}
	// global taint: the fixture's writer of package state must be seen, the reader must not
	{
		g := newGlobalTaint(c)
		g.solve()
		sawWrite, sawReadAsWrite := false, false
		for _, fn := range g.fns {
			allInstrs(fn, false, func(in ssa.Instruction) {
				if mu, ok := in.(*ssa.MapUpdate); ok {
					if _, t := g.tainted[mu.Map]; t {
						if fn.Name() == "BadWritesTable" {
							sawWrite = true
						}
						if fn.Name() == "GoodReadsTable" {
							sawReadAsWrite = true
						}
					}
				}
			})
		}
		check(sawWrite && !sawReadAsWrite, "global taint: write to a package-level map seen in BadWritesTable only")
	}
	// flattened view: a helper's exits pair only with the matching arm of its caller's test
	if vc := c.Method("", "conn", "ViewCaller"); vc == nil {
		check(false, "fixture ViewCaller missing")
	} else {
		fl := flatOf(vc)
		check(len(fl.Funcs()) >= 3, fmt.Sprintf("flattened view splices step and exchange into ViewCaller (functions in view: %d)", len(fl.Funcs())))
		outcomes := map[string]int{}
		enumPaths(vc, 1, 1000, func(p CPath) {
			ret, ok := p.Last().(*ssa.Return)
			if !ok {
				return
			}
			k, _ := constInt(p.Resolve(ret.Results[0]))
			bumped := false
			for _, in := range p.Instrs() {
				if st, ok := in.(*ssa.Store); ok && p.AP(st.Addr).SelString() == "calls" {
					bumped = true
				}
			}
			outcomes[fmt.Sprintf("ret=%d bumped=%v", k, bumped)]++
		})
		// feasible: empty input → 1 without bump; short reply → 1 with bump; ok → 0 with bump. Never 0 without bump, never more.
		check(outcomes["ret=1 bumped=false"] == 1 && outcomes["ret=1 bumped=true"] == 1 && outcomes["ret=0 bumped=true"] == 1 && len(outcomes) == 3, fmt.Sprintf("path-sensitive enumeration through spliced helpers: %v", outcomes))
	}
	// deferred literal over a named result: spliced at the exits, it counts exactly the error paths
	if dc := c.Method("", "conn", "DeferCount"); dc == nil {
		check(false, "fixture DeferCount missing")
	} else {
		good, n := true, 0
		enumPaths(dc, 1, 1000, func(p CPath) {
			if _, ok := p.Last().(*ssa.Return); !ok {
				return
			}
			n++
			counted := false
			for _, in := range p.Instrs() {
				if st, ok := in.(*ssa.Store); ok {
					if g, isG := st.Addr.(*ssa.Global); isG && g.Name() == "failures" {
						counted = true
					}
				}
			}
			out := c.errOutcome(dc, p)
			if out < 0 || counted != (out == 1) {
				good = false
			}
		})
		check(good && n >= 3, fmt.Sprintf("deferred literal spliced at exits, named result resolved (%d paths, consistent=%v)", n, good))
	}
	// interface call resolved through a helper's parameter; promoted/forwarding methods spliced
	if dv := c.Method("", "conn", "Devirt"); dv == nil {
		check(false, "fixture Devirt missing")
	} else {
		names := map[string]bool{}
		for _, f := range flatOf(dv).Funcs() {
			names[f.Name()] = true
		}
		check(names["runExchange"] && names["exchange"] && names["peer"] && names["step"], fmt.Sprintf("interface calls devirtualised through the splice chain (view: %v)", names))
	}
	// a function value that can only be one literal
	if fa := c.Func("", "Factory"); fa == nil {
		check(false, "fixture Factory missing")
	} else {
		names := map[string]bool{}
		for _, f := range flatOf(fa).Funcs() {
			names[f.Name()] = true
		}
		check(names["newCounter"] && names["newCounter$1"], fmt.Sprintf("call of a function value with one possible literal is spliced (view: %v)", names))
	}
	// values at a point of a path: the n-th request carries index n in both spellings, not in the bad one
	for _, tc := range []struct {
		fn   string
		want bool
	}{{"PagesVar", true}, {"PagesField", true}, {"PagesBad", false}} {
		fn := c.Func("", tc.fn)
		if fn == nil {
			check(false, "fixture "+tc.fn+" missing")
			continue
		}
		ok, seen := true, 0
		enumPaths(fn, 3, 10000, func(p CPath) {
			occs := p.OccsPos()
			n := 0
			for i, oc := range occs {
				call, isCall := oc.In.(*ssa.Call)
				if !isCall || call.Call.StaticCallee() == nil || !strings.HasPrefix(call.Call.StaticCallee().Name(), "Opaque") {
					continue
				}
				root := p.Upto(oc.Seg).APIn(oc.Ctx, call.Call.Args[0]).Root
				v := p.fieldAt(occs, i, root, "Index")
				if !v.IsK || v.K != int64(n) {
					ok = false
				}
				n++
				seen++
			}
		})
		check(ok == tc.want && seen > 0, fmt.Sprintf("values along a path: %s requests indices 0,1,2 = %v (want %v)", tc.fn, ok, tc.want))
	}
	// loop runs: three spellings of "bytes 0..N-1 are 1,2,…,N then byte N is N", one that stops short, one stale read
	for _, tc := range []struct {
		m    string
		want bool
	}{{"FillIndex", true}, {"FillRange", true}, {"FillHelper", true}, {"BadFillShort", false}} {
		fn := c.Method("", "Ser", tc.m)
		if fn == nil {
			check(false, "fixture "+tc.m+" missing")
			continue
		}
		evs, why := extractEvents(c, fn, nil)
		okAll, nOK := true, 0
		for _, le := range evs {
			if !le.OK {
				continue
			}
			nOK++
			var n *Lin
			for _, ev := range le.eventsOf("wire", "app") {
				if ev.Idx != nil && ev.V != nil && linEq(*ev.Idx, *ev.V) {
					x := *ev.Idx
					n = &x
				}
			}
			good := false
			if n != nil {
				for _, ev := range le.eventsOf("loop:wire", "app") {
					if run, w := runOf(ev); w == "" && linEq(run.Idx0, linConst(0)) && linEq(run.V0, linConst(1)) && run.VAdv == 1 {
						if cov, _ := run.coversUpTo(*n, le.Cons); cov {
							good = true
						}
					}
				}
			}
			okAll = okAll && good
		}
		check(nOK > 0 && okAll == tc.want, fmt.Sprintf("loop run of %s: recognised=%v, want %v %s", tc.m, okAll, tc.want, why))
	}
	if fn := c.Method("", "Ser", "BadStale"); fn != nil {
		evs, _ := extractEvents(c, fn, nil)
		stale := false
		for _, le := range evs {
			for _, ev := range le.Events {
				if le.OK && ev.Kind == "stale" {
					stale = true
				}
			}
		}
		check(stale, "stale read: BadStale reads a prepended byte before writing it")
	} else {
		check(false, "fixture BadStale missing")
	}
	if fails > 0 {
		fmt.Printf("selftest: %d failure(s)\n", fails)
		return 1
	}
	fmt.Println("selftest: ok (linear core, bit vectors, lenflow good/bad fixtures, predicates, bit provenance, global taint, flattened view, deferred literals, devirtualisation, function values, values along paths, loop runs, stale reads)")
	return 0
}
