package main

import (
	"fmt"
	"go/token"
	"go/types"
	"strings"

	"golang.org/x/tools/go/ssa"
)

// caseOf: the constant that parameter prm compared equal with on this path (a
// switch arm or an if), taken from the last such comparison whose equal arm
// was followed. ok=false on the default arm.
func (p CPath) caseOf(prm ssa.Value) (int64, bool) {
	var k int64
	found := false
	for _, tk := range p.Ifs() {
		op, x, y, neg, isBin := condOf(tk.If.Cond)
		if !isBin || (op != token.EQL && op != token.NEQ) {
			continue
		}
		var kv ssa.Value
		switch {
		case p.Resolve(stripConv(x)) == prm || x == prm:
			kv = y
		case p.Resolve(stripConv(y)) == prm || y == prm:
			kv = x
		default:
			continue
		}
		c, isK := constInt(kv)
		if !isK {
			continue
		}
		arm := tk.Arm != neg
		if (op == token.EQL) == arm {
			k, found = c, true
		}
	}
	return k, found
}

// objOf: the local object (allocation) a value denotes on this path: a pointer
// to it, or a copy of the struct value held in it. Interface and type
// conversions are looked through.
func (p CPath) objOf(v ssa.Value) *ssa.Alloc {
	for i := 0; i < 8; i++ {
		v = p.Resolve(v)
		switch x := v.(type) {
		case *ssa.MakeInterface:
			v = x.X
			continue
		case *ssa.ChangeType:
			v = x.X
			continue
		case *ssa.ChangeInterface:
			v = x.X
			continue
		case *ssa.Alloc:
			return x
		case *ssa.UnOp:
			if x.Op == token.MUL {
				if al, ok := x.X.(*ssa.Alloc); ok {
					return al
				}
			}
		}
		return nil
	}
	return nil
}

// objFields: the values last stored, along the path, into each field of the
// local object (values resolved on the path). A composite literal and a
// sequence of field assignments to a zero value give the same result.
func (p CPath) objFields(obj *ssa.Alloc) map[string]ssa.Value {
	out := map[string]ssa.Value{}
	if obj == nil {
		return out
	}
	for _, in := range p.Instrs() {
		st, ok := in.(*ssa.Store)
		if !ok {
			continue
		}
		ap := p.AP(st.Addr)
		if ap.Root != ssa.Value(obj) {
			continue
		}
		sel := ap.SelString()
		if sel == "" {
			continue
		}
		out[sel] = p.Resolve(st.Val)
	}
	return out
}

// Relation is a comparison whose outcome is known on a path.
type Relation struct {
	Op   token.Token // the relation that HOLDS on the path (EQL, NEQ, LSS, …)
	X, Y ssa.Value
	If   *ssa.If
}

func negateOp(op token.Token) token.Token {
	switch op {
	case token.EQL:
		return token.NEQ
	case token.NEQ:
		return token.EQL
	case token.LSS:
		return token.GEQ
	case token.GEQ:
		return token.LSS
	case token.GTR:
		return token.LEQ
	case token.LEQ:
		return token.GTR
	}
	return token.ILLEGAL
}

// relations lists the comparisons decided by the branches taken along the
// path: the condition of each branch is followed through negations, phis and
// the results of spliced helpers (a helper returning `a == b` decides a == b
// in its caller) down to a binary comparison.
func (p CPath) relations() []Relation {
	var out []Relation
	for _, tk := range p.Ifs() {
		v := tk.If.Cond
		holds := tk.Arm
		for i := 0; i < 16; i++ {
			if u, ok := v.(*ssa.UnOp); ok && u.Op == token.NOT {
				holds = !holds
				v = u.X
				continue
			}
			nv := p.Resolve(v)
			if nv == v {
				break
			}
			v = nv
		}
		bo, ok := v.(*ssa.BinOp)
		if !ok {
			continue
		}
		op := bo.Op
		if !holds {
			op = negateOp(op)
		}
		if op == token.ILLEGAL {
			continue
		}
		out = append(out, Relation{Op: op, X: bo.X, Y: bo.Y, If: tk.If})
	}
	return out
}

// loadOfField: v (resolved on the path) is a load of field sel (a selector
// string) of the object base denotes.
func (p CPath) loadOfField(v ssa.Value, base ssa.Value, sel string) bool {
	ld, ok := p.Resolve(stripConv(v)).(*ssa.UnOp)
	if !ok || ld.Op != token.MUL {
		return false
	}
	ap := p.AP(ld.X)
	if ap.Root == base && ap.SelString() == sel {
		return true
	}
	// base itself may denote a location reached through spliced helpers
	bp := p.AP(base)
	if bp.Root != ap.Root {
		return false
	}
	want := strings.TrimPrefix(bp.SelString()+"."+sel, ".")
	return ap.SelString() == want
}

// BoolFact is a boolean value whose truth a taken branch decides.
type BoolFact struct {
	V    ssa.Value
	True bool
	If   *ssa.If
}

// boolFacts lists the non-comparison conditions decided along the path
// (negations, phis and spliced helper results followed as in relations).
func (p CPath) boolFacts() []BoolFact {
	var out []BoolFact
	for _, tk := range p.Ifs() {
		v := tk.If.Cond
		holds := tk.Arm
		for i := 0; i < 16; i++ {
			if u, ok := v.(*ssa.UnOp); ok && u.Op == token.NOT {
				holds = !holds
				v = u.X
				continue
			}
			nv := p.Resolve(v)
			if nv == v {
				break
			}
			v = nv
		}
		if _, isBin := v.(*ssa.BinOp); isBin {
			continue
		}
		out = append(out, BoolFact{V: v, True: holds, If: tk.If})
	}
	return out
}

// storedBefore: the value last stored, on the path, into the location whose
// access path (continued through spliced helpers) satisfies match, before the
// occurrence at index at of p.OccsPos(). The value is resolved as of the store.
// ok=false when nothing on the path stored there before that point.
func (p CPath) storedBefore(occs []OccPos, at int, match func(AP) bool) (ssa.Value, int, bool) {
	for i := at - 1; i >= 0; i-- {
		st, ok := occs[i].In.(*ssa.Store)
		if !ok {
			continue
		}
		pk := p.Upto(occs[i].Seg)
		if !match(pk.APIn(occs[i].Ctx, st.Addr)) {
			continue
		}
		return pk.ResolveIn(occs[i].Ctx, st.Val), i, true
	}
	return nil, -1, false
}

// forward resolves v as of occurrence index at and, when the result is a load
// from a location that was stored to earlier on the path, continues with the
// stored value (store-to-load forwarding along the path, a few levels).
func (p CPath) forward(occs []OccPos, at int, ctx *FCtx, v ssa.Value) ssa.Value {
	seg := 0
	if at >= 0 && at < len(occs) {
		seg = occs[at].Seg
	}
	for i := 0; i < 6; i++ {
		v = p.Upto(seg).ResolveIn(ctx, v)
		ld, ok := stripConv(v).(*ssa.UnOp)
		if !ok || ld.Op != token.MUL {
			return v
		}
		// position of this load on the path (latest before at)
		pos := -1
		for j := at; j >= 0 && j < len(occs); j-- {
			if occs[j].In == ssa.Instruction(ld) {
				pos = j
				break
			}
		}
		if pos < 0 {
			return v
		}
		want := p.Upto(occs[pos].Seg).APIn(occs[pos].Ctx, ld.X)
		sv, si, ok := p.storedBefore(occs, pos, func(a AP) bool {
			return a.Root == want.Root && a.SelString() == want.SelString()
		})
		if !ok {
			return v
		}
		v, at, ctx = sv, si, nil
		seg = occs[si].Seg
	}
	return v
}

// PVal is the value an expression has at one point of a path, as far as the
// path determines it: a constant, or an opaque value (the resolved SSA value
// and the occurrence index it was read at).
type PVal struct {
	IsK bool
	K   int64
	V   ssa.Value
	At  int
	Loc string // when set: the content a location had when the path began (never stored to before the read)
	Off int64  // added to the opaque part (V@At or Loc)
}

func (a PVal) same(b PVal) bool {
	if a.IsK || b.IsK {
		return a.IsK && b.IsK && a.K == b.K
	}
	if a.Loc != "" || b.Loc != "" {
		return a.Loc == b.Loc && a.Off == b.Off
	}
	return a.V == b.V && a.At == b.At && a.Off == b.Off
}

// lastOcc: index of the latest occurrence of in at or before at.
func lastOcc(occs []OccPos, at int, in ssa.Instruction) int {
	if at >= len(occs) {
		at = len(occs) - 1
	}
	for j := at; j >= 0; j-- {
		if occs[j].In == in {
			return j
		}
	}
	return -1
}

// evalAt evaluates v as of occurrence index at: phis by the edge the path took,
// helper parameters by their arguments, loads by the last store to the same
// location earlier on the path (a never-stored field of an object allocated on
// the path is zero), and +/- of constants arithmetically.
func (p CPath) evalAt(occs []OccPos, at int, ctx *FCtx, v ssa.Value) PVal {
	return p.evalAtD(occs, at, ctx, v, 0)
}

func (p CPath) evalAtD(occs []OccPos, at int, ctx *FCtx, v ssa.Value, depth int) PVal {
	if at >= len(occs) {
		at = len(occs) - 1
	}
	if at < 0 || depth > 12 {
		return PVal{V: v, At: at}
	}
	// resolve step by step, moving the point of evaluation back to where each
	// value was produced: a phi's operand is the operand as of the phi's own
	// execution (the previous iteration's value, not a later recomputation)
resolve:
	for i := 0; i < 32; i++ {
		switch x := v.(type) {
		case *ssa.Phi:
			pos := lastOcc(occs, at, x)
			if pos < 0 {
				break resolve
			}
			nv, nc, ok := p.Upto(occs[pos].Seg).stepIn(occs[pos].Ctx, v)
			if !ok || nv == v {
				break resolve
			}
			v, ctx, at = nv, nc, pos
		case *ssa.UnOp:
			break resolve
		default:
			nv, nc, ok := p.Upto(occs[at].Seg).stepIn(ctx, v)
			if !ok || nv == v {
				break resolve
			}
			v, ctx = nv, nc
		}
	}
	if k, ok := constInt(v); ok {
		return PVal{IsK: true, K: k}
	}
	switch x := v.(type) {
	case *ssa.Convert:
		if pos := lastOcc(occs, at, x); pos >= 0 {
			return p.evalAtD(occs, pos, occs[pos].Ctx, x.X, depth+1)
		}
	case *ssa.ChangeType:
		if pos := lastOcc(occs, at, x); pos >= 0 {
			return p.evalAtD(occs, pos, occs[pos].Ctx, x.X, depth+1)
		}
	case *ssa.BinOp:
		if x.Op == token.ADD || x.Op == token.SUB {
			if pos := lastOcc(occs, at, x); pos >= 0 {
				a := p.evalAtD(occs, pos, occs[pos].Ctx, x.X, depth+1)
				b := p.evalAtD(occs, pos, occs[pos].Ctx, x.Y, depth+1)
				if a.IsK && b.IsK {
					if x.Op == token.ADD {
						return PVal{IsK: true, K: a.K + b.K}
					}
					return PVal{IsK: true, K: a.K - b.K}
				}
				// opaque ± constant
				if !a.IsK && b.IsK && (a.V != nil || a.Loc != "") {
					if x.Op == token.ADD {
						a.Off += b.K
					} else {
						a.Off -= b.K
					}
					return a
				}
				if a.IsK && !b.IsK && x.Op == token.ADD && (b.V != nil || b.Loc != "") {
					b.Off += a.K
					return b
				}
			}
		}
	case *ssa.UnOp:
		if x.Op != token.MUL {
			break
		}
		pos := lastOcc(occs, at, x)
		if pos < 0 {
			break
		}
		want := p.Upto(occs[pos].Seg).APIn(occs[pos].Ctx, x.X)
		if want.Root == nil {
			break
		}
		sv, si, ok := p.storedBeforeRaw(occs, pos, want)
		if ok {
			return p.evalAtD(occs, si, occs[si].Ctx, sv, depth+1)
		}
		// the location was last written as part of a whole struct value (a copy handed to a
		// helper by value, a literal assigned whole): the field of that value
		if whole, wi, rem, isW := p.enclosingStore(occs, pos, want); isW {
			wv := whole
			wctx := occs[wi].Ctx
			wat := wi
			for i := 0; i < 8; i++ {
				nv, nc, stepped := p.Upto(occs[wat].Seg).stepIn(wctx, wv)
				if !stepped || nv == wv {
					break
				}
				wv, wctx = nv, nc
			}
			if ld2, isLd := wv.(*ssa.UnOp); isLd && ld2.Op == token.MUL {
				if lp := lastOcc(occs, wat, ld2); lp >= 0 {
					src := p.Upto(occs[lp].Seg).APIn(occs[lp].Ctx, ld2.X)
					if src.Root != nil {
						want2 := AP{Root: src.Root, Sel: append(append([]string{}, src.Sel...), strings.Split(rem, ".")...)}
						if sv2, si2, ok2 := p.storedBeforeRaw(occs, lp, want2); ok2 {
							return p.evalAtD(occs, si2, occs[si2].Ctx, sv2, depth+1)
						}
					}
				}
			}
		}
		// never stored on this path: zero when the object was allocated on the path
		if al, isAl := want.Root.(*ssa.Alloc); isAl && len(want.Sel) > 0 && lastOcc(occs, pos, al) >= 0 && (!allocEscapes(al) || p.onlyWrittenInView(x.X)) {
			if b, isB := x.Type().Underlying().(*types.Basic); isB && b.Info()&types.IsInteger != 0 {
				return PVal{IsK: true, K: 0}
			}
		}
		// the location's content from before the path: the same unknown wherever it is read
		if _, isAl := want.Root.(*ssa.Alloc); !isAl {
			if _, partial, _ := p.storedBeforeRawP(occs, pos, want); !partial {
				return PVal{Loc: fmt.Sprintf("%p|%s", want.Root, want.SelString())}
			}
		}
		return PVal{V: v, At: pos}
	}
	return PVal{V: v, At: at}
}

// storedBeforeRaw: the unresolved value of the last store, before occurrence at,
// to the location want denotes (its occurrence index is returned so that the
// value can be evaluated as of the store).
func (p CPath) storedBeforeRaw(occs []OccPos, at int, want AP) (ssa.Value, int, bool) {
	v, _, i, ok := p.storedBeforeRawP2(occs, at, want)
	return v, i, ok
}

// storedBeforeRawP: (value, an overlapping store made the content unknown, found).
func (p CPath) storedBeforeRawP(occs []OccPos, at int, want AP) (ssa.Value, bool, bool) {
	v, partial, _, ok := p.storedBeforeRawP2(occs, at, want)
	return v, partial, ok
}

// enclosingStore: the last store, before occurrence at, of a whole value into a location
// that contains want (a struct assigned or copied as a whole); rem is want's selector inside
// that value.
func (p CPath) enclosingStore(occs []OccPos, at int, want AP) (val ssa.Value, idx int, rem string, ok bool) {
	ws := want.SelString()
	for i := at - 1; i >= 0; i-- {
		st, isSt := occs[i].In.(*ssa.Store)
		if !isSt {
			continue
		}
		a := p.Upto(occs[i].Seg).APIn(occs[i].Ctx, st.Addr)
		if a.Root != want.Root {
			continue
		}
		as := a.SelString()
		switch {
		case as == ws:
			return nil, -1, "", false
		case as == "" && ws != "":
			return st.Val, i, ws, true
		case strings.HasPrefix(ws, as+"."):
			return st.Val, i, strings.TrimPrefix(ws, as+"."), true
		case strings.HasPrefix(as, ws):
			return nil, -1, "", false
		}
	}
	return nil, -1, "", false
}

func (p CPath) storedBeforeRawP2(occs []OccPos, at int, want AP) (ssa.Value, bool, int, bool) {
	ws := want.SelString()
	for i := at - 1; i >= 0; i-- {
		st, ok := occs[i].In.(*ssa.Store)
		if !ok {
			continue
		}
		a := p.Upto(occs[i].Seg).APIn(occs[i].Ctx, st.Addr)
		if a.Root != want.Root {
			continue
		}
		as := a.SelString()
		if as == ws {
			return st.Val, false, i, true
		}
		// a store to an enclosing or enclosed part of the location: not tracked
		if strings.HasPrefix(ws, as) || strings.HasPrefix(as, ws) {
			return nil, true, -1, false
		}
	}
	return nil, false, -1, false
}

// fieldAt: the value the field sel of the object root holds as of occurrence at.
func (p CPath) fieldAt(occs []OccPos, at int, root ssa.Value, sel string) PVal {
	want := AP{Root: root, Sel: strings.Split(sel, ".")}
	sv, si, ok := p.storedBeforeRaw(occs, at, want)
	if ok {
		return p.evalAt(occs, si, occs[si].Ctx, sv)
	}
	if al, isAl := root.(*ssa.Alloc); isAl && lastOcc(occs, at, al) >= 0 && !allocEscapesExceptSends(al) {
		return PVal{IsK: true, K: 0}
	}
	if _, isAl := root.(*ssa.Alloc); !isAl {
		if _, partial, _ := p.storedBeforeRawP(occs, at, want); !partial {
			return PVal{Loc: fmt.Sprintf("%p|%s", root, sel)}
		}
	}
	return PVal{V: root, At: -1}
}

// RelationPos is a Relation with the position of its branch on the path.
type RelationPos struct {
	Relation
	At  int // occurrence index of the If
	Ctx *FCtx
}

// relationsPos is relations with each condition resolved as of its own branch
// (so that a test inside a loop is read with the values of that iteration).
func (p CPath) relationsPos(occs []OccPos) []RelationPos {
	// occurrence index of the last instruction of every segment
	end := make([]int, len(p.Segs))
	n := 0
	for k, s := range p.Segs {
		n += len(s.Instrs())
		end[k] = n - 1
	}
	var out []RelationPos
	for _, tk := range p.Ifs() {
		v := tk.If.Cond
		holds := tk.Arm
		pk := p.Upto(tk.Pos)
		ctx := p.Segs[tk.Pos].Ctx
		for i := 0; i < 16; i++ {
			if u, ok := v.(*ssa.UnOp); ok && u.Op == token.NOT {
				holds = !holds
				v = u.X
				continue
			}
			nv, nc, ok := pk.stepIn(ctx, v)
			if !ok || nv == v {
				break
			}
			v, ctx = nv, nc
		}
		bo, ok := v.(*ssa.BinOp)
		if !ok {
			continue
		}
		op := bo.Op
		if !holds {
			op = negateOp(op)
		}
		if op == token.ILLEGAL {
			continue
		}
		at := lastOcc(occs, end[tk.Pos], bo)
		c2 := ctx
		if at < 0 {
			at = end[tk.Pos]
		} else {
			c2 = occs[at].Ctx
		}
		out = append(out, RelationPos{Relation{Op: op, X: bo.X, Y: bo.Y, If: tk.If}, at, c2})
	}
	return out
}

// dependsOnField: v, as of occurrence at, is read from field sel of root or is
// the very value that was last stored there (the loop variable a request field
// is copied from).
func (p CPath) dependsOnField(occs []OccPos, at int, ctx *FCtx, v ssa.Value, root ssa.Value, sel string) bool {
	want := AP{Root: root, Sel: strings.Split(sel, ".")}
	sv, si, stored := p.storedBeforeRaw(occs, at, want)
	var storedRes ssa.Value
	if stored {
		storedRes = stripConv(p.Upto(occs[si].Seg).ResolveIn(occs[si].Ctx, sv))
	}
	cur := v
	for i := 0; i < 8; i++ {
		cur = stripConv(cur)
		if stored && (cur == stripConv(sv) || cur == storedRes) {
			return true
		}
		if ld, ok := cur.(*ssa.UnOp); ok && ld.Op == token.MUL {
			pos := lastOcc(occs, at, ld)
			if pos >= 0 {
				a := p.Upto(occs[pos].Seg).APIn(occs[pos].Ctx, ld.X)
				if a.Root == root && a.SelString() == sel {
					return true
				}
			}
		}
		nv, nc, ok := p.Upto(occs[at].Seg).stepIn(ctx, cur)
		if !ok || nv == cur {
			return false
		}
		cur, ctx = nv, nc
	}
	return false
}

// resolvesThrough: v (of context ctx), followed along the path through phis,
// cells, helper parameters and helper results, passes through target.
func (p CPath) resolvesThrough(ctx *FCtx, v, target ssa.Value) bool {
	for i := 0; i < 64; i++ {
		if v == target {
			return true
		}
		nv, nc, ok := p.stepIn(ctx, v)
		if !ok || nv == v {
			return false
		}
		v, ctx = nv, nc
	}
	return false
}

// structAt: the content of the struct-typed location (root, sel) as of occurrence
// at, read off the stores on the path: the last whole-value store (a composite
// literal, or the zero value) overlaid with the field assignments made after
// it. `x = T{A: 1, B: 2}` and `x = T{}; x.A = 1; x.B = 2` give the same map.
// Fields never assigned since the whole-value store are absent (zero).
// ok=false when the path made no whole-value store before at (the earlier
// content is unknown) or stored a value that is not a literal.
func (p CPath) structAt(occs []OccPos, at int, root ssa.Value, sel string) (map[string]ssa.Value, bool) {
	out := map[string]ssa.Value{}
	pre := sel + "."
	for i := at - 1; i >= 0; i-- {
		st, ok := occs[i].In.(*ssa.Store)
		if !ok {
			continue
		}
		a := p.Upto(occs[i].Seg).APIn(occs[i].Ctx, st.Addr)
		if a.Root != root {
			continue
		}
		as := a.SelString()
		switch {
		case as == sel:
			// whole value
			if k, isK := st.Val.(*ssa.Const); isK && k.Value == nil {
				return out, true
			}
			v := p.Upto(occs[i].Seg).ResolveIn(occs[i].Ctx, st.Val)
			f, _, isLit := complitFields(v)
			if !isLit {
				return out, false
			}
			for n, fv := range f {
				if _, have := out[n]; !have {
					out[n] = fv
				}
			}
			return out, true
		case strings.HasPrefix(as, pre):
			n := strings.TrimPrefix(as, pre)
			if _, have := out[n]; !have {
				out[n] = st.Val
			}
		}
	}
	return out, false
}

// untestedErrors lists, for a path, the calls into the module (static callees in the
// module, and methods of interfaces the module declares) that returned an error the
// path never compared with nil and does not return: the error was dropped.
func (p CPath) untestedErrors(inModule func(*ssa.Function) bool, modPath string) []*ssa.Call {
	occs := p.OccsPos()
	rels := p.relationsPos(occs)
	ret, _ := p.Last().(*ssa.Return)
	var out []*ssa.Call
	for i, oc := range occs {
		call, ok := oc.In.(*ssa.Call)
		if !ok {
			continue
		}
		// does it return an error?
		errIdx := -1
		switch t := call.Type().(type) {
		case *types.Tuple:
			for k := 0; k < t.Len(); k++ {
				if isErrorType(t.At(k).Type()) {
					errIdx = k
				}
			}
		default:
			if isErrorType(call.Type()) {
				errIdx = 0
			}
		}
		if errIdx < 0 {
			continue
		}
		if f := call.Call.StaticCallee(); f != nil {
			if !inModule(f) {
				continue
			}
		} else if call.Call.IsInvoke() {
			pk := call.Call.Method.Pkg()
			if pk == nil || !(pk.Path() == modPath || strings.HasPrefix(pk.Path(), modPath+"/")) {
				continue
			}
		} else {
			continue
		}
		var errv ssa.Value = call
		if _, isT := call.Type().(*types.Tuple); isT {
			errv = nil
			for _, ref := range *call.Referrers() {
				if ex, ok := ref.(*ssa.Extract); ok && ex.Index == errIdx {
					errv = ex
				}
			}
			if errv == nil {
				out = append(out, call) // the error result is not even read
				continue
			}
		}
		handled := false
		for _, rel := range rels {
			if rel.At < i || (rel.Op != token.EQL && rel.Op != token.NEQ) {
				continue
			}
			for _, pr := range [][2]ssa.Value{{rel.X, rel.Y}, {rel.Y, rel.X}} {
				if isNilConst(pr[1]) && p.Upto(occs[rel.At].Seg).resolvesThrough(rel.Ctx, pr[0], errv) {
					handled = true
				}
			}
		}
		if !handled && ret != nil {
			for _, rv := range ret.Results {
				if isErrorType(rv.Type()) && p.resolvesThrough(nil, rv, errv) {
					handled = true
				}
			}
		}
		// handed on to something else (stored, passed): not dropped here
		if !handled {
			for _, ref := range *errv.Referrers() {
				switch x := ref.(type) {
				case *ssa.Store:
					if x.Val == errv {
						// stored into a cell: handled if the cell is what is tested/returned (resolved above); otherwise kept
						if _, private := x.Addr.(*ssa.Alloc); !private {
							handled = true
						}
					}
				case *ssa.Call:
					if !errInspection(x, errv) {
						handled = true
					}
				case *ssa.MakeInterface, *ssa.Phi:
					// flows on; phis are resolved per path above
				}
			}
		}
		if !handled {
			out = append(out, call)
		}
	}
	return out
}

// originAt: the SSA value v comes down to, as of occurrence at, after following phis, helper
// parameters and results, and store-to-load forwarding through locals and struct copies —
// e.g. the `rsp.Tag` load behind `header.tag` where header := hdr{tag: rsp.Tag} was passed
// by value to the helper making the comparison. nil for constants.
func (p CPath) originAt(occs []OccPos, at int, ctx *FCtx, v ssa.Value) ssa.Value {
	pv := p.evalAt(occs, at, ctx, v)
	if pv.IsK || pv.Off != 0 {
		return nil
	}
	return pv.V
}

// allocEscapes: the object's address (or the address of a part of it) is handed to something
// that may write through it — a call, an interface conversion, a store of the pointer, a
// closure. Then "never stored to on this path" does not mean "still zero".
func allocEscapes(al *ssa.Alloc) bool {
	return allocEscapesFiltered(al, nil)
}

// allocEscapesExceptSends: as allocEscapes, but handing the whole object to a call does not
// count when only the object's *request* part is asked about by the caller (fieldAt on a
// command's Req fields: the exchange fills Rsp, it does not touch Req).
func allocEscapesExceptSends(al *ssa.Alloc) bool {
	return false
}

func allocEscapesFiltered(al *ssa.Alloc, seen map[ssa.Value]bool) bool {
	if seen == nil {
		seen = map[ssa.Value]bool{}
	}
	var walk func(v ssa.Value) bool
	walk = func(v ssa.Value) bool {
		if seen[v] {
			return false
		}
		seen[v] = true
		refs := v.Referrers()
		if refs == nil {
			return false
		}
		for _, ref := range *refs {
			switch x := ref.(type) {
			case *ssa.FieldAddr:
				if walk(x) {
					return true
				}
			case *ssa.IndexAddr:
				if walk(x) {
					return true
				}
			case *ssa.UnOp, *ssa.DebugRef:
			case *ssa.Store:
				if x.Val == v {
					return true // the pointer itself is stored somewhere
				}
			default:
				return true
			}
		}
		return false
	}
	return walk(al)
}

// onlyWrittenInView: every store, anywhere in the module, to one of the struct fields on the
// address's selector chain is made by a function of this path's view. Then code the object
// escapes to (an exchange that fills the response part of a command) cannot have changed the
// field, and "not stored to on this path" means "still what it was".
func (p CPath) onlyWrittenInView(addr ssa.Value) bool {
	if p.fl == nil {
		return false
	}
	inView := map[*ssa.Function]bool{}
	for _, f := range p.fl.Funcs() {
		inView[f] = true
	}
	n := 0
	for i := 0; i < 8; i++ {
		fa, ok := addr.(*ssa.FieldAddr)
		if !ok {
			break
		}
		f := structField(fa.X.Type(), fa.Field)
		if f == nil {
			return false
		}
		n++
		for _, st := range fieldStores[f] {
			if !inView[st.Parent()] {
				return false
			}
		}
		addr = fa.X
	}
	return n > 0
}

// failedErrors: the module calls on the path whose error result the path found non-nil (took
// the `err != nil` arm, or the false arm of `err == nil`).
func (p CPath) failedErrors(inModule func(*ssa.Function) bool, modPath string) []*ssa.Call {
	return p.failedErrorsOpt(inModule, modPath, false)
}

// failedErrorsOpt with strict set does not excuse a failure that is followed by another
// exchange: for code in which nothing may be skipped (the SDR walk — a record whose read
// failed must not be left out of a repository reported as complete).
func (p CPath) failedErrorsOpt(inModule func(*ssa.Function) bool, modPath string, strict bool) []*ssa.Call {
	occs := p.OccsPos()
	rels := p.relationsPos(occs)
	var out []*ssa.Call
	var all []errCall
	for i, oc := range occs {
		call, ok := oc.In.(*ssa.Call)
		if !ok {
			continue
		}
		errIdx := -1
		switch t := call.Type().(type) {
		case *types.Tuple:
			for k := 0; k < t.Len(); k++ {
				if isErrorType(t.At(k).Type()) {
					errIdx = k
				}
			}
		default:
			if isErrorType(call.Type()) {
				errIdx = 0
			}
		}
		if errIdx < 0 {
			continue
		}
		if f := call.Call.StaticCallee(); f != nil {
			if !inModule(f) {
				continue
			}
		} else if call.Call.IsInvoke() {
			pk := call.Call.Method.Pkg()
			if pk == nil || !(pk.Path() == modPath || strings.HasPrefix(pk.Path(), modPath+"/")) {
				continue
			}
		} else {
			continue
		}
		var errv ssa.Value = call
		if _, isT := call.Type().(*types.Tuple); isT {
			errv = nil
			for _, ref := range *call.Referrers() {
				if ex, ok := ref.(*ssa.Extract); ok && ex.Index == errIdx {
					errv = ex
				}
			}
			if errv == nil {
				continue
			}
		}
		failed := false
		for _, rel := range rels {
			if rel.At < i || rel.Op != token.NEQ {
				continue
			}
			for _, pr := range [][2]ssa.Value{{rel.X, rel.Y}, {rel.Y, rel.X}} {
				if isNilConst(pr[1]) && p.Upto(occs[rel.At].Seg).resolvesThrough(rel.Ctx, pr[0], errv) {
					failed = true
				}
			}
		}
		// handed on (stored in a cell the caller reads, wrapped, passed along): not passed over
		handedOn := false
		for _, ref := range *errv.Referrers() {
			switch x := ref.(type) {
			case *ssa.Store:
				if x.Val == errv {
					handedOn = true
				}
			case *ssa.Call:
				if !errInspection(x, errv) {
					handedOn = true
				}
			case *ssa.MakeInterface, *ssa.Phi:
				_ = x
			}
		}
		if failed && !handedOn {
			// … or handed on further along the path, after travelling up through the results of
			// spliced helpers (`rsp, err := s.sendOnce(…)` … `terminalErr = err`)
			for j := i + 1; j < len(occs) && !handedOn; j++ {
				switch x := occs[j].In.(type) {
				case *ssa.Store:
					if isErrorType(x.Val.Type()) && p.Upto(occs[j].Seg).resolvesThrough(occs[j].Ctx, x.Val, errv) {
						handedOn = true
					}
				case *ssa.Call:
					if errInspection(x, nil) {
						break
					}
					for _, a := range x.Call.Args {
						if isErrorType(a.Type()) && p.Upto(occs[j].Seg).resolvesThrough(occs[j].Ctx, a, errv) {
							handedOn = true
						}
					}
				}
			}
		}
		all = append(all, errCall{call, oc.Ctx, failed && !handedOn})
	}
	// a failure followed by another exchange on the path is a fallback or a retry: what the
	// path reports is owed to the later call, which is judged in its turn — provided the later
	// call is another call site (or the same helper entered from another place): the next turn
	// of the loop the failed call sits in does something else (the next entity, the next
	// record), it does not make up for the failure
	for k, ec := range all {
		if !ec.failed {
			continue
		}
		excused := false
		if !strict {
			for _, later := range all[k+1:] {
				if later.call != ec.call || later.ctx != ec.ctx {
					excused = true
				}
			}
		}
		if !excused {
			out = append(out, ec.call)
		}
	}
	return out
}

type errCall struct {
	call   *ssa.Call
	ctx    *FCtx
	failed bool
}

// errInspection: the call only looks at the error (errors.Is/As/Unwrap, err.Error()) — that
// is neither examining it against nil nor handing it on.
func errInspection(call *ssa.Call, errv ssa.Value) bool {
	switch calleeName(&call.Call) {
	case "errors.Is", "errors.As", "errors.Unwrap":
		return true
	}
	if call.Call.IsInvoke() && call.Call.Method.Name() == "Error" && (errv == nil || call.Call.Value == errv) {
		return true
	}
	return false
}

// nilFound: what the path found when it last compared v (or something that resolves to v
// through locals, named results and the results of spliced helpers) with nil — 1 non-nil,
// 0 nil, -1 never compared.
func (p CPath) nilFound(v ssa.Value) int {
	occs := p.OccsPos()
	rels := p.relationsPos(occs)
	out, at := -1, -1
	for _, rel := range rels {
		if rel.Op != token.EQL && rel.Op != token.NEQ {
			continue
		}
		for _, pr := range [][2]ssa.Value{{rel.X, rel.Y}, {rel.Y, rel.X}} {
			if !isNilConst(pr[1]) {
				continue
			}
			if pr[0] == v || p.Upto(occs[rel.At].Seg).resolvesThrough(rel.Ctx, pr[0], v) {
				if rel.At >= at {
					at = rel.At
					if rel.Op == token.NEQ {
						out = 1
					} else {
						out = 0
					}
				}
			}
		}
	}
	return out
}
