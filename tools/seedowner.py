#!/usr/bin/env python3
"""Owner-only pass over the seeded corpus with the current checker.

  seedowner.py [-j N] [id ...]

For every stored change: scratch worktree of /repo HEAD, apply patch.diff, run the owning
property's check (a frozen copy of bin/bmcverif), record in meta.json whether it reports the
change (`owner_detects`, `findings[owner]`) and add the owner to `detected_by`. The lists of
*other* checks in `detected_by` are kept from the last full matrix run (tools/seedmatrix.py
matrix) — rules are only ever added, so they remain lower bounds. A full matrix over the whole
corpus takes hours; this takes minutes and is the regression run after every checker change."""
import json, os, subprocess, sys, shutil, concurrent.futures as cf

ENV = dict(os.environ, GOFLAGS="-mod=mod", GOPROXY="off", GOSUMDB="off", GOTOOLCHAIN="local", GOWORK="off", CGO_ENABLED="0")
SEEDED = "/verif/seeded"
FROZEN = "/tmp/bmcverif_owner_frozen"


def sh(cmd, cwd=None, timeout=1800):
    p = subprocess.run(cmd, shell=True, cwd=cwd, env=ENV, capture_output=True, text=True, timeout=timeout)
    return p.returncode, p.stdout + p.stderr


def one(sid):
    d = f"{SEEDED}/{sid}"
    meta = json.load(open(f"{d}/meta.json"))
    owner = meta["breaks_property"]
    wt = f"/tmp/seedown_{sid}"
    out = f"/tmp/seedownout_{sid}"
    sh(f"git -C /repo worktree remove --force {wt}")
    shutil.rmtree(wt, ignore_errors=True)
    rc, o = sh(f"git -C /repo worktree add -f --detach {wt} HEAD")
    try:
        rc, o = sh(f"git apply --whitespace=nowarn {d}/patch.diff", wt)
        if rc != 0:
            return sid, None, "patch does not apply: " + o[-200:]
        os.makedirs(out, exist_ok=True)
        shutil.copy("/verif/known_findings.jsonl", out)
        rc, o = sh(f"{FROZEN} check -p {owner} -tier quick -repo {wt} -out {out}", "/verif")
        lines = [l for l in o.splitlines() if "[violated]" in l or "[undecided]" in l]
        det = rc != 0
        meta["owner_detects"] = det
        dby = set(meta.get("detected_by") or [])
        if det:
            dby.add(owner)
        else:
            dby.discard(owner)
        meta["detected_by"] = sorted(dby)
        f = meta.get("findings") or {}
        if det:
            f[owner] = [l[:400] for l in lines[:4]]
        else:
            f.pop(owner, None)
        meta["findings"] = f
        wr = meta.get("what_was_run") or []
        note = "owner-only pass with the final checker: tools/seedowner.py (other checks' entries are from the last full matrix run)"
        if note not in wr:
            wr.append(note)
        meta["what_was_run"] = wr
        json.dump(meta, open(f"{d}/meta.json", "w"), indent=1)
        return sid, det, ""
    finally:
        sh(f"git -C /repo worktree remove --force {wt}")
        shutil.rmtree(wt, ignore_errors=True)
        shutil.rmtree(out, ignore_errors=True)


def main():
    args = sys.argv[1:]
    jobs = 8
    if args and args[0] == "-j":
        jobs = int(args[1]); args = args[2:]
    ids = args or sorted(x for x in os.listdir(SEEDED) if os.path.exists(f"{SEEDED}/{x}/meta.json"))
    shutil.copy("/verif/bin/bmcverif", FROZEN)
    missed = []
    with cf.ThreadPoolExecutor(jobs) as ex:
        for sid, det, err in ex.map(one, ids):
            print(sid, "owner detects" if det else ("OWNER MISSES" if det is False else "ERROR " + err), flush=True)
            if not det:
                missed.append(sid)
    print(len(ids), "changes;", len(missed), "not reported by the owner:", " ".join(missed))


if __name__ == "__main__":
    main()
