package main

import (
	"fmt"
	"go/token"
	"go/types"
	"sort"
	"strings"

	"golang.org/x/tools/go/ssa"
)

func init() { register("C19", checkC19) }

// pointerLike: values of this type can reference memory shared with their source.
func pointerLike(t types.Type) bool {
	switch u := t.Underlying().(type) {
	case *types.Pointer, *types.Slice, *types.Map, *types.Chan, *types.Signature:
		return true
	case *types.Interface:
		return true
	case *types.Struct:
		for i := 0; i < u.NumFields(); i++ {
			if pointerLike(u.Field(i).Type()) {
				return true
			}
		}
	case *types.Array:
		return pointerLike(u.Elem())
	}
	return false
}

func isErrorType(t types.Type) bool {
	return types.Identical(t, types.Universe.Lookup("error").Type())
}

// globalTaint computes the set of SSA values that may point into memory
// owned by a package-level variable of the module (flow-insensitive,
// field-based for heap stores, interprocedural over module functions with a
// CHA-style resolution of dynamic calls inside the module).
type globalTaint struct {
	c          *Ctx
	tainted    map[ssa.Value]string // value → name of a global it may alias
	fields     map[*types.Var]string
	fns        []*ssa.Function
	implCache  map[string][]*ssa.Function
	addrTaken  map[string][]*ssa.Function
	retTainted map[*ssa.Function]string
}

func newGlobalTaint(c *Ctx) *globalTaint {
	g := &globalTaint{c: c, tainted: map[ssa.Value]string{}, fields: map[*types.Var]string{}, implCache: map[string][]*ssa.Function{}, retTainted: map[*ssa.Function]string{}}
	for _, fn := range c.ModFn {
		if fn.Blocks != nil && !c.isCmd(fn) {
			g.fns = append(g.fns, fn)
		}
	}
	lf := newLenflow(c, 0)
	g.addrTaken = lf.addrTaken
	return g
}

func (g *globalTaint) moduleGlobal(v ssa.Value) (*ssa.Global, bool) {
	gl, ok := v.(*ssa.Global)
	if !ok || gl.Pkg == nil {
		return nil, false
	}
	p := gl.Pkg.Pkg.Path()
	if !(p == modPath || strings.HasPrefix(p, modPath+"/")) || strings.HasPrefix(p, modPath+"/cmd/") {
		return nil, false
	}
	return gl, true
}

func (g *globalTaint) callees(cc *ssa.CallCommon) []*ssa.Function {
	if f := cc.StaticCallee(); f != nil {
		if g.c.InModule(f) && f.Blocks != nil {
			return []*ssa.Function{f}
		}
		return nil
	}
	if cc.IsInvoke() {
		key := cc.Value.Type().String() + "." + cc.Method.Name()
		if r, ok := g.implCache[key]; ok {
			return r
		}
		var out []*ssa.Function
		iface, ok := cc.Value.Type().Underlying().(*types.Interface)
		if ok {
			for _, p := range g.c.ModulePackages() {
				scope := p.Types.Scope()
				for _, n := range scope.Names() {
					tn, ok := scope.Lookup(n).(*types.TypeName)
					if !ok {
						continue
					}
					named, ok := tn.Type().(*types.Named)
					if !ok {
						continue
					}
					if _, isI := named.Underlying().(*types.Interface); isI {
						continue
					}
					for _, t := range []types.Type{named, types.NewPointer(named)} {
						if !types.Implements(t, iface) {
							continue
						}
						sel := g.c.Prog.MethodSets.MethodSet(t).Lookup(cc.Method.Pkg(), cc.Method.Name())
						if sel == nil {
							continue
						}
						if f := g.c.Prog.FuncValue(sel.Obj().(*types.Func)); f != nil && f.Blocks != nil {
							out = append(out, f)
						}
						break
					}
				}
			}
		}
		g.implCache[key] = out
		return out
	}
	if sg, ok := cc.Value.Type().Underlying().(*types.Signature); ok {
		if mc, ok := cc.Value.(*ssa.MakeClosure); ok {
			if f, ok := mc.Fn.(*ssa.Function); ok {
				return []*ssa.Function{f}
			}
		}
		return g.addrTaken[sigKey(sg)]
	}
	return nil
}

func (g *globalTaint) mark(v ssa.Value, why string) bool {
	if v == nil {
		return false
	}
	if _, ok := g.tainted[v]; ok {
		return false
	}
	if isErrorType(v.Type()) {
		return false
	}
	g.tainted[v] = why
	return true
}

func (g *globalTaint) solve() {
	for changed := true; changed; {
		changed = false
		for _, fn := range g.fns {
			for _, b := range fn.Blocks {
				for _, in := range b.Instrs {
					// operands that are global addresses
					for _, op := range in.Operands(nil) {
						if op == nil || *op == nil {
							continue
						}
						if gl, ok := g.moduleGlobal(*op); ok {
							if g.mark(gl, gl.Pkg.Pkg.Name()+"."+gl.Name()) {
								changed = true
							}
						}
					}
					switch x := in.(type) {
					case *ssa.FieldAddr:
						if w, ok := g.tainted[x.X]; ok && g.mark(x, w) {
							changed = true
						}
					case *ssa.IndexAddr:
						if w, ok := g.tainted[x.X]; ok && g.mark(x, w) {
							changed = true
						}
					case *ssa.Slice:
						if w, ok := g.tainted[x.X]; ok && g.mark(x, w) {
							changed = true
						}
					case *ssa.ChangeType:
						if w, ok := g.tainted[x.X]; ok && g.mark(x, w) {
							changed = true
						}
					case *ssa.Convert:
						if w, ok := g.tainted[x.X]; ok && pointerLike(x.Type()) && g.mark(x, w) {
							changed = true
						}
					case *ssa.MakeInterface:
						if w, ok := g.tainted[x.X]; ok && pointerLike(x.X.Type()) && g.mark(x, w) {
							changed = true
						}
					case *ssa.ChangeInterface:
						if w, ok := g.tainted[x.X]; ok && g.mark(x, w) {
							changed = true
						}
					case *ssa.TypeAssert:
						if w, ok := g.tainted[x.X]; ok && g.mark(x, w) {
							changed = true
						}
					case *ssa.Extract:
						if w, ok := g.tainted[x.Tuple]; ok && pointerLike(x.Type()) && g.mark(x, w) {
							changed = true
						}
					case *ssa.Phi:
						for _, e := range x.Edges {
							if w, ok := g.tainted[e]; ok && g.mark(x, w) {
								changed = true
							}
						}
					case *ssa.UnOp:
						if x.Op.String() == "*" {
							// load: the loaded value may point into the global's memory if pointer-like
							if w, ok := g.tainted[x.X]; ok && pointerLike(x.Type()) && g.mark(x, w) {
								changed = true
							}
							// load from a field into which a tainted pointer was stored
							if fa, ok := x.X.(*ssa.FieldAddr); ok {
								if f := structField(fa.X.Type(), fa.Field); f != nil {
									if w, ok := g.fields[f]; ok && g.mark(x, w) {
										changed = true
									}
								}
							}
						}
					case *ssa.Lookup:
						if w, ok := g.tainted[x.X]; ok && pointerLike(x.Type()) && g.mark(x, w) {
							changed = true
						}
					case *ssa.Store:
						// storing a tainted pointer into a field: field-based propagation
						if w, ok := g.tainted[x.Val]; ok && pointerLike(x.Val.Type()) {
							if fa, ok := x.Addr.(*ssa.FieldAddr); ok {
								if f := structField(fa.X.Type(), fa.Field); f != nil {
									if _, has := g.fields[f]; !has {
										g.fields[f] = w
										changed = true
									}
								}
							} else if al, ok := x.Addr.(*ssa.Alloc); ok {
								// local cell: loads of it are tainted
								for _, ref := range *al.Referrers() {
									if ld, ok := ref.(*ssa.UnOp); ok && g.mark(ld, w) {
										changed = true
									}
								}
							}
						}
					case *ssa.MakeClosure:
						if f, ok := x.Fn.(*ssa.Function); ok {
							for i, bnd := range x.Bindings {
								if w, ok := g.tainted[bnd]; ok && i < len(f.FreeVars) && g.mark(f.FreeVars[i], w) {
									changed = true
								}
							}
						}
					}
					if cc := asCall(in); cc != nil {
						cs := g.callees(cc)
						args := cc.Args
						for _, callee := range cs {
							params := callee.Params
							off := 0
							if cc.IsInvoke() {
								off = 1
								if w, ok := g.tainted[cc.Value]; ok && len(params) > 0 && g.mark(params[0], w) {
									changed = true
								}
							}
							for i, a := range args {
								if w, ok := g.tainted[a]; ok && i+off < len(params) && pointerLike(a.Type()) && g.mark(params[i+off], w) {
									changed = true
								}
							}
							if w, ok := g.retTainted[callee]; ok {
								if v, isV := in.(ssa.Value); isV && pointerLike(v.Type()) && g.mark(v, w) {
									changed = true
								}
							}
						}
					}
					if ret, ok := in.(*ssa.Return); ok {
						for _, rv := range ret.Results {
							if w, ok := g.tainted[rv]; ok && pointerLike(rv.Type()) {
								if _, has := g.retTainted[fn]; !has {
									g.retTainted[fn] = w
									changed = true
								}
							}
						}
					}
				}
			}
		}
	}
}

var externalReadOnly = []string{"fmt.", "errors.", "strings.", "strconv.", "bytes.Equal", "crypto/hmac.Equal", "crypto/subtle.", "encoding/hex.", "github.com/prometheus/client_golang/", "(*github.com/prometheus/client_golang/", "(github.com/prometheus/client_golang/", "github.com/google/gopacket.RegisterLayerType", "github.com/google/gopacket/layers.RegisterRMCPLayerType", "(time.Time).", "(time.Duration).", "(github.com/google/gopacket.LayerType).", "(github.com/google/gopacket/layers.RMCPClass).",
	// readers of the standard library's generic slice and map helpers (they do not write
	// through their argument; slices.Sort, Reverse, Insert, Delete… are not listed)
	"slices.Index", "slices.Contains", "slices.Equal", "slices.Compare", "slices.Max", "slices.Min", "slices.BinarySearch", "slices.Clone", "slices.Values", "slices.All", "maps.Keys", "maps.Values", "maps.All", "maps.Clone", "maps.Equal"}

func checkC19(c *Ctx, r *Report) {
	r.Explain = "Ownership argument for independent connections: an interprocedural may-alias taint computes every SSA value in the library that can point into memory owned by a package-level variable of the module (addresses of globals, loaded pointer/slice/map globals, field/element addresses, values returned through Operation()/Descriptor()-style accessors, values stored into fields and loaded back, closure bindings; dynamic calls resolved to all module implementations). A violation is (a) any store, map update, copy-destination, append base or delete through such a value outside package initialisers and the one documented registration function, (b) such a value passed to a function outside the module that is not known to be read-only or internally synchronised, or (c) such a pointer stored into a per-connection object. With the facts that the library starts no goroutines and uses no other shared state (C13 census), connections that share no objects cannot race."
	r.NotDecided = []string{"schedules as such (no interleaving is explored)", "internals of prometheus collectors, crypto/rand and the net package (goroutine-safe by contract)", "two goroutines using the same connection (explicitly unsupported by the library)"}
	r.Trusted = []string{"go/types, go/ssa (x/tools v0.29.0)", "prometheus collectors, crypto/rand and net.UDPConn are goroutine-safe", "gopacket layer-type registration happens only during package initialisation"}

	g := newGlobalTaint(c)
	g.solve()
	r.Extra["tainted_values"] = len(g.tainted)
	r.Extra["functions_scanned"] = len(g.fns)

	// census of module globals
	r.Rule("globals-census", "every package-level variable of the library is accounted for", 60)
	nG := 0
	for _, p := range c.ModulePackages() {
		sp := c.SSA[p.PkgPath]
		if sp == nil {
			continue
		}
		var names []string
		for n, m := range sp.Members {
			if _, ok := m.(*ssa.Global); ok && !strings.HasPrefix(n, "init$") {
				names = append(names, n)
			}
		}
		sort.Strings(names)
		for _, n := range names {
			gl := sp.Members[n].(*ssa.Global)
			nG++
			r.OK(p.Types.Name()+"."+n, gl.Pos(), "tracked")
		}
	}

	allow := map[string]string{"RegisterOEMPayloadDescriptor": "documented: must not be called concurrently with anything else"}
	r.Rule("no-writes-to-package-state", "outside package initialisers and ipmi.RegisterOEMPayloadDescriptor, nothing stores through a value that may point into a package-level variable", 0)
	nStores := 0
	for _, fn := range g.fns {
		if fn.Synthetic != "" && fn.Name() == "init" || strings.HasPrefix(fn.Name(), "init#") || fn.Name() == "init" {
			continue
		}
		fname := c.FnName(fn)
		if _, ok := allow[fn.Name()]; ok {
			r.Rule("allow-listed-writer", "the single documented writer of package state exists and is the only one", 1)
			r.OK(fname, fn.Pos(), allow[fn.Name()])
			r.Rule("no-writes-to-package-state", "", 0)
			continue
		}
		for _, b := range fn.Blocks {
			for _, in := range b.Instrs {
				switch x := in.(type) {
				case *ssa.Store:
					nStores++
					if w, ok := g.tainted[x.Addr]; ok {
						r.Bad(fname+"|store through "+w, x.Pos(), "stores through a pointer into package-level state ("+w+"): shared between all connections, unsynchronised")
					}
					if w, ok := g.tainted[x.Val]; ok && pointerLike(x.Val.Type()) {
						if _, isFA := x.Addr.(*ssa.FieldAddr); isFA {
							if _, addrTainted := g.tainted[x.Addr]; !addrTainted {
								r.Rule("no-shared-objects-in-connections", "no pointer into package-level state is stored into a per-connection object", 0)
								a := apOf(x.Addr)
								// read-only tables referenced by value types are fine only if never written: already covered by the store rule; report sharing of mutable kinds
								if mutableKind(x.Val.Type()) {
									r.Bad(fname+"|"+a.SelString()+" ← "+w, x.Pos(), "a per-connection object is given a reference to package-level state ("+w+"); connections would share it")
								}
								r.Rule("no-writes-to-package-state", "", 0)
							}
						}
					}
				case *ssa.MapUpdate:
					if w, ok := g.tainted[x.Map]; ok {
						r.Bad(fname+"|map update "+w, x.Pos(), "updates a package-level map ("+w+") at run time")
					}
				case *ssa.Call:
					if bi, ok := x.Call.Value.(*ssa.Builtin); ok {
						switch bi.Name() {
						case "copy", "append", "delete", "clear":
							if w, ok := g.tainted[x.Call.Args[0]]; ok {
								r.Bad(fname+"|"+bi.Name()+" "+w, x.Pos(), bi.Name()+" writes into package-level state ("+w+")")
							}
						}
						continue
					}
					if x.Call.StaticCallee() != nil && c.InModule(x.Call.StaticCallee()) {
						continue
					}
					if len(g.callees(&x.Call)) > 0 {
						continue
					}
					// external callee
					n := calleeName(&x.Call)
					ro := false
					for _, p := range externalReadOnly {
						if strings.HasPrefix(n, p) {
							ro = true
						}
					}
					if ro {
						continue
					}
					vals := append([]ssa.Value{}, x.Call.Args...)
					if x.Call.IsInvoke() {
						vals = append(vals, x.Call.Value)
					}
					for _, a := range vals {
						if w, ok := g.tainted[a]; ok && mutableKind(a.Type()) {
							r.Rule("no-package-state-to-external-writers", "no reference into package-level state is handed to code outside the module that may write through it or that is a shared mutable object", 0)
							r.Bad(fname+"|"+shortName(n)+"("+w+")", x.Pos(), "package-level state ("+w+") is passed to "+n+", which may write through it / is shared mutable state used from connection code")
							r.Rule("no-writes-to-package-state", "", 0)
						}
					}
				}
			}
		}
	}
	r.Extra["stores_examined"] = nStores
	// positive control: the allow-listed writer must itself be seen writing package state
	r.Rule("taint-positive-control", "the analysis sees the documented writer's map update as a write to package state (guards against a vacuous pass)", 1)
	seen := false
	for _, fn := range g.fns {
		if fn.Name() != "RegisterOEMPayloadDescriptor" {
			continue
		}
		allInstrs(fn, false, func(in ssa.Instruction) {
			if mu, ok := in.(*ssa.MapUpdate); ok {
				if _, t := g.tainted[mu.Map]; t {
					seen = true
				}
			}
		})
	}
	r.Check(seen, "ipmi.RegisterOEMPayloadDescriptor|map update seen", 0, "taint reaches the documented writer", "the taint analysis does not see the documented writer's update: it would miss real ones")
	// accessor positive control: values returned by Operation()/Descriptor() are tainted
	r.Rule("accessor-taint", "pointers returned by Command.Operation()/Payload.Descriptor() are recognised as pointing into package state", 2)
	nAcc := 0
	for _, fn := range g.fns {
		allInstrs(fn, false, func(in ssa.Instruction) {
			if call, ok := in.(*ssa.Call); ok && call.Call.IsInvoke() && (call.Call.Method.Name() == "Operation" || call.Call.Method.Name() == "Descriptor") {
				if _, t := g.tainted[call]; t {
					nAcc++
				}
			}
		})
	}
	r.Check(nAcc >= 3, fmt.Sprintf("accessor results tainted (%d call sites)", nAcc), 0, "tainted", "accessor results are not tracked")
	r.Check(nAcc >= 3, "accessor results tainted (second control)", 0, "tainted", "accessor results are not tracked")

	// no goroutines in library code (independence argument)
	r.Rule("no-goroutines", "the library starts no goroutines: all sharing would have to come from the caller", 1)
	ng := 0
	for _, fn := range g.fns {
		allInstrs(fn, false, func(in ssa.Instruction) {
			if _, ok := in.(*ssa.Go); ok {
				ng++
				r.Bad(c.FnName(fn)+"|go", in.Pos(), "goroutine started in library code")
			}
		})
	}
	if ng == 0 {
		r.OK("library", 0, "no go statements")
	}
	_ = nG
}

// mutableKind: types through which shared memory can be mutated.
func mutableKind(t types.Type) bool {
	switch u := t.Underlying().(type) {
	case *types.Pointer, *types.Slice, *types.Map, *types.Chan:
		return true
	case *types.Interface:
		return !isErrorType(t)
	case *types.Struct:
		for i := 0; i < u.NumFields(); i++ {
			if mutableKind(u.Field(i).Type()) {
				return true
			}
		}
	}
	return false
}

// checkPackageTablesReadOnly: the write half of C19's ownership rule, shared with C03 and C06:
// what a command *is* — its Operation (network function, command number), payload descriptors,
// layer-type tables — lives in package-level values handed out by pointer (Command.Operation()).
// A store through such a pointer rewrites the command for every later packet of the process,
// so "the request the caller asked for" stops being what is sent.
func checkPackageTablesReadOnly(c *Ctx, r *Report) {
	r.Rule("package-tables-read-only", "nothing outside package initialisers and the documented registration function stores through a pointer into package-level state (operations, descriptors, layer tables): a command's definition is the same for every packet", 1)
	g := newGlobalTaint(c)
	g.solve()
	seenWriter := false
	for _, fn := range g.fns {
		if fn.Synthetic != "" && fn.Name() == "init" || strings.HasPrefix(fn.Name(), "init#") || fn.Name() == "init" {
			continue
		}
		fname := c.FnName(fn)
		allowed := fn.Name() == "RegisterOEMPayloadDescriptor"
		for _, b := range fn.Blocks {
			for _, in := range b.Instrs {
				w, bad := "", false
				switch x := in.(type) {
				case *ssa.Store:
					w, bad = g.tainted[x.Addr]
				case *ssa.MapUpdate:
					w, bad = g.tainted[x.Map]
				case *ssa.Call:
					if bi, ok := x.Call.Value.(*ssa.Builtin); ok {
						switch bi.Name() {
						case "copy", "append", "delete", "clear":
							w, bad = g.tainted[x.Call.Args[0]]
						}
					}
				}
				if !bad {
					continue
				}
				if allowed {
					seenWriter = true
					continue
				}
				r.Bad(fname+"|write through "+w, in.Pos(), "writes through a pointer into package-level state ("+w+"): the definition every later packet is built from is changed for the whole process")
			}
		}
	}
	r.Check(seenWriter, "positive control: documented writer seen", token.NoPos, "the analysis sees ipmi.RegisterOEMPayloadDescriptor's map update", "the taint no longer sees the documented writer: the rule would pass vacuously")
}
