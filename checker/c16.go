package main

import (
	"fmt"
	"go/token"
	"go/types"
	"sort"
	"strconv"
	"strings"

	"golang.org/x/tools/go/ssa"
)

func init() { register("C16", checkC16) }

// fieldWriters lists all Stores in the library whose address is field `name`
// of a value of named type t (promoted selectors included).
func (c *Ctx) fieldWriters(t *types.Named, name string) []*ssa.Store {
	var out []*ssa.Store
	for _, fn := range c.LibFuncs() {
		rawInstrs(fn, false, func(in ssa.Instruction) {
			st, ok := in.(*ssa.Store)
			if !ok {
				return
			}
			fa, ok := st.Addr.(*ssa.FieldAddr)
			if !ok {
				return
			}
			f := structField(fa.X.Type(), fa.Field)
			if f == nil || f.Name() != name {
				return
			}
			bt := fa.X.Type()
			if p, ok := bt.Underlying().(*types.Pointer); ok {
				bt = p.Elem()
			}
			if n, ok := bt.(*types.Named); ok && n.Obj() == t.Obj() {
				out = append(out, st)
			}
		})
	}
	return out
}

func lenOf(v ssa.Value) (ssa.Value, bool) {
	call, ok := v.(*ssa.Call)
	if !ok {
		return nil, false
	}
	if b, ok := call.Call.Value.(*ssa.Builtin); ok && b.Name() == "len" {
		return call.Call.Args[0], true
	}
	return nil, false
}

func checkC16(c *Ctx, r *Report) {
	r.Explain = "Structure of the two paged enumerations. Cipher suites: each iteration validates the exchange, appends the chunk it received, stops on a short chunk or at list index 64, otherwise increments the list index by one — the index field is written nowhere else, so the loop runs at most 65 times; the record parser's tag tests, masks and minimum lengths equal the record grammar, algorithms are collected in input order, the cross product is expanded integrity-outer/confidentiality-inner, every error return carries a nil slice and each outer iteration consumes at least three bytes. DCMI sensor info: the instance-start field is len(collected)+1, record IDs are appended in response order, the loop stops when nothing new arrives, at 255, or once the advertised instance count (a byte) is reached — each continuing iteration grows the result; the per-entity map is built in table order, the DCMI entity IDs are used exactly when the standard ones fail or yield nothing, and the result fields map to the right entity keys. Decides the code shape on all paths; completeness for every chunking needs a peer."
	r.NotDecided = []string{"completeness for every way a BMC may split records across chunks (needs a simulated BMC)", "deduplication against a BMC that repeats record IDs across pages (the library trusts instance-start paging)"}
	r.Trusted = []string{"go/types, go/ssa (x/tools v0.29.0)", "bytes.Buffer.Write appends", "IPMI v2.0 §22.15.1 cipher suite record format; DCMI §6.5.2 paging"}

	parser := checkChunkLoop(c, r)

	// =============================== parser
	if parser != nil {
		checkCipherSuiteParser(c, r, parser)
	}

	// =============================== DCMI sensor info
	checkDCMISensorInfo(c, r)

	// =============================== the paged responses are decoded, page after page, into one
	// reused value: a field the decoder leaves alone on some success path keeps the previous
	// page's content (rule shared with C17)
	checkDecoderAssignment(c, r, "page-decoders-overwrite", 2, func(n *types.Named) bool {
		switch n.Obj().Name() {
		case "GetChannelCipherSuitesRsp", "GetDCMISensorInfoRsp":
			return true
		}
		return false
	})

	// =============================== the cursor the loops advance is what the BMC sees, and the
	// page it answers with is what the loops read: list index (6 bits) / instance start and
	// entity (whole bytes) on the wire, record count and IDs off the wire (layouts shared with
	// C06 and C07)
	r.Rule("paging-wire-layouts", "the Get Channel Cipher Suites and Get DCMI Sensor Info requests carry the list index / entity, instance and instance start in the specified bytes, undiminished; the responses' chunk, instance count and record IDs are read from the specified bytes", 4)
	compareSpec(c, r, specsFor(requestSpecs, "GetChannelCipherSuitesReq", "GetDCMISensorInfoReq"), "wire", nil)
	compareSpec(c, r, specsFor(responseSpecs, "GetChannelCipherSuitesRsp", "GetDCMISensorInfoRsp"), "field", nil)
}

// checkChunkLoop decides the cipher-suite retrieval loop (shared with C05: it
// is what bounds discovery against a BMC that keeps sending full chunks).
// Returns the record parser.
func checkChunkLoop(c *Ctx, r *Report) *ssa.Function {
	// =============================== cipher suite retrieval loop
	recT := c.Named("pkg/ipmi", "CipherSuiteRecord")
	var retr, parser *ssa.Function
	for _, fn := range c.LibFuncs() {
		if fn.Pkg == nil || !c.libFn(fn) || fn.Parent() != nil || fn.Signature.Results().Len() != 2 {
			continue
		}
		if sl, ok := fn.Signature.Results().At(0).Type().(*types.Slice); ok {
			if n, ok := sl.Elem().(*types.Named); ok && recT != nil && n.Obj() == recT.Obj() {
				if len(fn.Params) == 1 {
					if _, isSl := fn.Params[0].Type().(*types.Slice); isSl {
						parser = fn
						continue
					}
				}
				retr = fn
			}
		}
	}
	r.Rule("chunk-loop", "retrieval: validated exchange → append chunk → stop on short chunk or index 64 → index+1; index written nowhere else; all chunks parsed together", 6)
	if retr == nil || parser == nil {
		r.Lost("cipher suite retriever / parser (by result type []ipmi.CipherSuiteRecord)")
	} else {
		name := c.FnName(retr)
		r.Fn(name)
		// the parser is decided on its own (below); in the retriever's view it stays a call
		markOpaque(parser)
		checkChunkLoopPaths(c, r, retr, parser, name)
	}

	return parser
}

func checkCipherSuiteParser(c *Ctx, r *Report, parser *ssa.Function) {
	name := c.FnName(parser)
	r.Fn(name)
	data := parser.Params[0]
	loops := viewLoops(parser)

	r.Rule("parser-errors", "every error return of the record parser carries a nil slice, never a partial list", 3)
	// per feasible path of the parser's flattened view: whichever statement produced the error
	// (in the parser or in a helper that decodes part of a record), the list returned with it
	// is nil. One obligation per error-producing construct.
	type errSite struct {
		pos token.Pos
		ok  bool
	}
	errSites := map[string]*errSite{}
	complErr := enumPaths(parser, 1, 200000, func(p CPath) {
		ret, isRet := p.Last().(*ssa.Return)
		if !isRet || ret.Parent() != parser || len(ret.Results) != 2 {
			return
		}
		ev := p.Resolve(ret.Results[1])
		if isNilConst(ev) {
			return
		}
		key := "opaque error"
		pos := ret.Pos()
		if in, ok := ev.(ssa.Instruction); ok && in.Pos().IsValid() {
			pos = in.Pos()
			ps := c.Prog.Fset.Position(pos)
			key = fmt.Sprintf("%s#%d", c.FnName(in.Parent()), 0)
			// line-free: number the error constructs of a function in source order
			n := 0
			rawInstrs(in.Parent(), false, func(o ssa.Instruction) {
				if v, isV := o.(ssa.Value); isV && isErrorType(v.Type()) && o.Pos().IsValid() {
					if op := c.Prog.Fset.Position(o.Pos()); op.Line < ps.Line || (op.Line == ps.Line && op.Column < ps.Column) {
						n++
					}
				}
			})
			key = fmt.Sprintf("%s#%d", c.FnName(in.Parent()), n+1)
		}
		es := errSites[key]
		if es == nil {
			es = &errSite{pos: pos, ok: true}
			errSites[key] = es
		}
		if !isNilConst(p.Resolve(ret.Results[0])) {
			es.ok = false
		}
	})
	if !complErr {
		r.Unk(name+"|error returns", parser.Pos(), "too many paths")
	}
	var ekeys []string
	for k := range errSites {
		ekeys = append(ekeys, k)
	}
	sort.Strings(ekeys)
	for _, k := range ekeys {
		r.Check(errSites[k].ok, name+"|error return "+k, errSites[k].pos, "nil list with the error", "an error is returned together with a partial record list")
	}

	r.Rule("record-grammar", "tag tests and masks equal the record format: start byte>>1 == 0x60 (0xC0 standard / 0xC1 OEM), tag bits >>6: 00 authentication, 01 integrity, 10 confidentiality, algorithm numbers &0x3f, minimum 3 (standard) / 6 (OEM) bytes, OEM IANA little-endian in bytes 2..4", 7)
	type shiftCmp struct {
		shift, k int64
		op       token.Token
	}
	var seen []shiftCmp
	minLens := map[int64]bool{}
	for _, ifi := range ifsOf(parser) {
		op, x, y, _, isBin := condOf(ifi.Cond)
		if !isBin {
			continue
		}
		// the constant compared with: a literal, a named constant, or the argument a helper
		// receives at each of its call sites (one test per site)
		var ks []int64
		allK := true
		for _, o := range viewOrigins(parser, y) {
			k, isK := constInt(o)
			if !isK {
				// a field of an element of a read-only package-level table selected by a computed
				// index (`formats[b&1].minLength`): every element's value is a possible constant
				if tk, isT := tableFieldConsts(c, o); isT {
					ks = append(ks, tk...)
					continue
				}
				allK = false
				break
			}
			ks = append(ks, k)
		}
		if !allK || len(ks) == 0 {
			continue
		}
		for _, k := range ks {
			if bo, ok := stripConv(x).(*ssa.BinOp); ok && bo.Op == token.SHR {
				if sh, ok := constInt(bo.Y); ok {
					seen = append(seen, shiftCmp{sh, k, op})
				}
			}
			if _, ok := lenOf(x); ok && op == token.LSS {
				minLens[k] = true
			}
		}
	}
	has := func(sh, k int64) bool {
		for _, s := range seen {
			if s.shift == sh && s.k == k {
				return true
			}
		}
		return false
	}
	r.Check(has(1, 0x60), name+"|start-of-record tag", parser.Pos(), "b>>1 == 0x60", "start-of-record test is not (byte>>1) == 0x60")
	r.Check(has(6, 0), name+"|authentication tag", parser.Pos(), "b>>6 == 0", "authentication-algorithm tag test is not (byte>>6) == 0")
	r.Check(has(6, 1), name+"|integrity tag", parser.Pos(), "b>>6 == 1", "integrity-algorithm tag test is not (byte>>6) == 1")
	r.Check(has(6, 2), name+"|confidentiality tag", parser.Pos(), "b>>6 == 2", "confidentiality-algorithm tag test is not (byte>>6) == 2")
	for _, s := range seen {
		if !(s.shift == 1 && s.k == 0x60) && !(s.shift == 6 && (s.k == 0 || s.k == 1 || s.k == 2)) {
			r.Bad(name+fmt.Sprintf("|unexpected tag test >>%d vs %#x", s.shift, s.k), parser.Pos(), "tag test not in the record grammar")
		}
	}
	r.Check(minLens[3] && minLens[6] && len(minLens) == 2, name+"|minimum lengths", parser.Pos(), "3 bytes standard, 6 bytes OEM", fmt.Sprintf("minimum record lengths tested are %v, want {3,6}", keysOf(minLens)))
	// masks on appended algorithm numbers
	maskOK := map[string]bool{}
	allInstrs(parser, false, func(in ssa.Instruction) {
		// values converted to Integrity/Confidentiality algorithm types
		ct, ok := in.(*ssa.ChangeType)
		if !ok {
			return
		}
		n, ok := ct.Type().(*types.Named)
		if !ok {
			return
		}
		tn := n.Obj().Name()
		if tn != "IntegrityAlgorithm" && tn != "ConfidentialityAlgorithm" {
			return
		}
		if bo, ok := ct.X.(*ssa.BinOp); ok && bo.Op == token.AND {
			if m, isM := constInt(bo.Y); isM && m == 0x3f {
				maskOK[tn] = true
				return
			}
		}
		maskOK[tn] = false
	})
	r.Check(maskOK["IntegrityAlgorithm"] && maskOK["ConfidentialityAlgorithm"], name+"|algorithm masks", parser.Pos(), "&0x3f", "integrity/confidentiality algorithm numbers are not the low six bits of their bytes")
	// OEM IANA: joined[2] + joined[3]<<8 + joined[4]<<16
	okIANA := false
	allInstrs(parser, false, func(in ssa.Instruction) {
		if sel, _, st, ok := storeSel(in); ok && strings.HasSuffix(sel, "Enterprise") {
			parts := map[int64]int64{}
			// byteIndex: the index into the parser's input of a loaded byte, seen through a
			// helper that receives a sub-slice of it
			byteIndex := func(v ssa.Value) (int64, bool) {
				ld, ok := stripConv(v).(*ssa.UnOp)
				if !ok || ld.Op != token.MUL {
					return 0, false
				}
				ia, ok := ld.X.(*ssa.IndexAddr)
				if !ok {
					return 0, false
				}
				k, ok := constInt(ia.Index)
				if !ok {
					return 0, false
				}
				base := viewVal(parser, ia.X)
				for i := 0; i < 4; i++ {
					sl, isSl := base.(*ssa.Slice)
					if !isSl {
						break
					}
					lo := int64(0)
					if sl.Low != nil {
						l, isK := constInt(sl.Low)
						if !isK {
							return 0, false
						}
						lo = l
					}
					k += lo
					base = viewVal(parser, sl.X)
				}
				return k, true
			}
			var walk func(v ssa.Value)
			walk = func(v ssa.Value) {
				switch x := stripConv(v).(type) {
				case *ssa.BinOp:
					if x.Op == token.ADD || x.Op == token.OR {
						walk(x.X)
						walk(x.Y)
					} else if x.Op == token.SHL {
						if sh, ok := constInt(x.Y); ok {
							if k, ok := byteIndex(x.X); ok {
								parts[k] = sh
							}
						}
					}
				case *ssa.UnOp:
					if k, ok := byteIndex(x); ok {
						parts[k] = 0
					}
				}
			}
			for _, o := range viewOrigins(parser, st.Val) {
				walk(o)
			}
			if len(parts) == 3 && parts[2] == 0 && parts[3] == 8 && parts[4] == 16 {
				okIANA = true
			}
		}
	})
	r.Check(okIANA, name+"|OEM IANA", parser.Pos(), "bytes 2,3,4 little-endian", "the OEM enterprise number is not bytes 2..4, least significant first")

	r.Rule("expansion-order", "algorithms are collected in input order and the cross product is expanded integrity-outer, confidentiality-inner; records are appended in that order", 4)
	var appendRec *ssa.Call
	var stI, stC *ssa.Store
	allInstrs(parser, false, func(in ssa.Instruction) {
		if call, ok := in.(*ssa.Call); ok {
			if b, ok := call.Call.Value.(*ssa.Builtin); ok && b.Name() == "append" {
				if sl, ok := call.Type().(*types.Slice); ok {
					if n, ok := sl.Elem().(*types.Named); ok && n.Obj().Name() == "CipherSuiteRecord" {
						appendRec = call
					}
				}
			}
		}
		if sel, _, st, ok := storeSel(in); ok {
			if strings.HasSuffix(sel, "IntegrityAlgorithm") && innermostLoop(loops, st.Block()) != nil {
				if _, isC := st.Val.(*ssa.Const); !isC {
					stI = st
				}
			}
			if strings.HasSuffix(sel, "ConfidentialityAlgorithm") {
				if _, isC := st.Val.(*ssa.Const); !isC {
					stC = st
				}
			}
		}
	})
	if appendRec == nil || stI == nil || stC == nil {
		r.Bad(name+"|expansion", parser.Pos(), "cannot find the expansion loops (append of a record, stores of the two algorithms)")
	} else {
		lA := innermostLoop(loops, appendRec.Block())
		lC := innermostLoop(loops, stC.Block())
		lI := innermostLoop(loops, stI.Block())
		ok := lA != nil && lA == lC && lI != nil && lA.Parent == lI && lI != lA
		r.Check(ok, name+"|nesting", appendRec.Pos(), "confidentiality loop nested in integrity loop; append in the inner loop", "the cross product is not expanded integrity-outer / confidentiality-inner with the append innermost")
		r.Check(ok && countingLoop(lA.blockList()) && countingLoop(lI.blockList()), name+"|ascending", appendRec.Pos(), "both expansion loops are ascending range loops", "expansion loops are not ascending index loops over the collected algorithms")
	}
	// the appended record is a fresh zero value in every iteration of the record loop
	if appendRec != nil {
		okFresh := false
		var cell *ssa.Alloc
		if sl, ok := appendRec.Call.Args[1].(*ssa.Slice); ok {
			if al, ok := sl.X.(*ssa.Alloc); ok {
				for _, ref := range *al.Referrers() {
					if ia, ok := ref.(*ssa.IndexAddr); ok {
						for _, r2 := range *ia.Referrers() {
							if st, ok := r2.(*ssa.Store); ok {
								if ld, ok := st.Val.(*ssa.UnOp); ok {
									cell, _ = ld.X.(*ssa.Alloc)
									// a by-value parameter of a spliced helper is a copy of the caller's
									// record: the record to examine is the caller's
									for i := 0; i < 4 && cell != nil; i++ {
										prm := cellParam(cell)
										if prm == nil || prm.Parent() == parser {
											break
										}
										arg, ok := viewVal(parser, prm).(*ssa.UnOp)
										if !ok || arg.Op != token.MUL {
											break
										}
										next, ok := arg.X.(*ssa.Alloc)
										if !ok {
											break
										}
										cell = next
									}
								}
							}
						}
					}
				}
			}
		}
		var outer *Loop
		for l := innermostLoop(loops, appendRec.Block()); l != nil; l = l.Parent {
			outer = l
		}
		if cell != nil && outer != nil {
			// the cell is allocated (zeroed) inside the record loop, or zero-stored there, before the append
			if outer.Blocks[cell.Block()] && mustPrecede(parser, cell, appendRec) {
				okFresh = true
			}
			for _, ref := range *cell.Referrers() {
				if st, ok := ref.(*ssa.Store); ok && st.Addr == ssa.Value(cell) && outer.Blocks[st.Block()] && mustPrecede(parser, st, appendRec) {
					if k, isC := st.Val.(*ssa.Const); isC && k.Value == nil {
						okFresh = true
					}
				}
			}
		}
		r.Check(okFresh, name+"|fresh record per iteration", appendRec.Pos(), "the record value is zeroed at the start of every record", "the record value is not reset for each record: fields set only for some records (the OEM enterprise number) leak into the following records")
	}

	// collection loops: append while tag matches, offset+1 per element
	nColl := 0
	for _, l := range loops {
		hasApp := false
		for b := range l.Blocks {
			for _, in := range b.Instrs {
				if call, ok := in.(*ssa.Call); ok {
					if bi, ok := call.Call.Value.(*ssa.Builtin); ok && bi.Name() == "append" && innermostLoop(loops, b) == l {
						if sl, ok := call.Type().(*types.Slice); ok {
							if n, ok := sl.Elem().(*types.Named); ok && (n.Obj().Name() == "IntegrityAlgorithm" || n.Obj().Name() == "ConfidentialityAlgorithm") && !appendsConst(call) && !appendsConstIn(parser, call) {
								hasApp = true
							}
						}
					}
				}
			}
		}
		if hasApp {
			nColl++
		}
	}
	// "exactly one entry per (integrity, confidentiality) combination": a class without algorithms
	// counts as the one algorithm None, whatever the other class holds — the two defaults are
	// independent. A None appended only when *both* lists are empty makes a record with one
	// empty class expand to nothing.
	{
		algName := func(v ssa.Value) string {
			if v == nil {
				return ""
			}
			if sl, ok := v.Type().Underlying().(*types.Slice); ok {
				if n, ok := sl.Elem().(*types.Named); ok {
					return n.Obj().Name()
				}
			}
			return ""
		}
		// lenTestOf: the block ends in `if len(xs) == 0` (either operand order); returns xs's element type name
		lenTestOf := func(b *ssa.BasicBlock) string {
			if b == nil || len(b.Instrs) == 0 {
				return ""
			}
			ifi, ok := b.Instrs[len(b.Instrs)-1].(*ssa.If)
			if !ok {
				return ""
			}
			op, x, y, _, isBin := condOf(ifi.Cond)
			if !isBin || (op != token.EQL && op != token.NEQ && op != token.GTR && op != token.LEQ && op != token.LSS) {
				return ""
			}
			if a, isLen := lenOf(x); isLen {
				return algName(a)
			}
			if a, isLen := lenOf(y); isLen {
				return algName(a)
			}
			return ""
		}
		isAlg := func(n string) bool { return n == "IntegrityAlgorithm" || n == "ConfidentialityAlgorithm" }
		nDef, coupled := 0, ""
		allInstrs(parser, false, func(in ssa.Instruction) {
			call, ok := in.(*ssa.Call)
			if !ok {
				return
			}
			bi, ok := call.Call.Value.(*ssa.Builtin)
			if !ok || bi.Name() != "append" || !(appendsConst(call) || appendsConstIn(parser, call)) {
				return
			}
			t := algName(call)
			if !isAlg(t) {
				return
			}
			nDef++
			for g, depth := call.Block().Idom(), 0; g != nil && depth < 3; g, depth = g.Idom(), depth+1 {
				// g decides whether the append runs only if one of its arms is the sole way to it
				// (a test that merely comes earlier in the sequence dominates without deciding)
				controls := false
				for _, s := range g.Succs {
					if len(s.Preds) == 1 && s.Dominates(call.Block()) {
						controls = true
					}
				}
				if gt := lenTestOf(g); controls && isAlg(gt) && gt != t {
					coupled = "the default for an empty " + t + " list is appended under a test of the " + gt + " list's length"
				}
				if innermostLoop(loops, g) != innermostLoop(loops, call.Block()) {
					break
				}
			}
		})
		if nDef > 0 {
			r.Check(coupled == "", name+"|defaults independent", parser.Pos(), fmt.Sprintf("%d None defaults, each under a test of its own list only", nDef), coupled+": a record with algorithms of one class only expands to no entry at all")
		}
	}
	r.Check(nColl == 2, name+"|collection loops", parser.Pos(), "one scanning loop per algorithm class", fmt.Sprintf("expected two algorithm-collecting loops, found %d", nColl))

	r.Rule("parser-progress", "each iteration of the record loop drops at least three bytes from the remaining input, so the parser terminates", 1)
	var progEng *lfEngine
	progE1 := func() map[*ssa.Slice]int8 {
		if progEng == nil {
			progEng = newLenflow(c, 6)
			progEng.runEntry(parser, nil)
			if progEng.budgetHit {
				return nil
			}
		}
		return progEng.sliceLow
	}
	okProg := false
	why := "the record loop does not re-slice the remaining input by a positive offset"
	for _, l := range loops {
		if l.Parent != nil {
			continue
		}
		// outer loop: header φ of the data slice, back-edge value = Slice(φ, Low=offset)
		for _, in := range l.Header.Instrs {
			ph, ok := in.(*ssa.Phi)
			if !ok {
				continue
			}
			for i, e := range ph.Edges {
				if !l.Blocks[l.Header.Preds[i]] {
					if e != ssa.Value(data) {
						continue
					}
				} else if sl, ok := e.(*ssa.Slice); ok && sl.X == ssa.Value(ph) && sl.High == nil && sl.Low != nil {
					if lb, ok := lowerBound(sl.Low); ok && lb >= 1 {
						okProg = true
						why = fmt.Sprintf("offset ≥ %d", lb)
					} else if progE1()[sl] == 1 {
						okProg = true
						why = "offset ≥ 1 in every state reaching the re-slice (engine E1, through helpers and scanning loops)"
					} else {
						why = "cannot bound the consumed offset away from zero"
					}
				}
			}
		}
	}
	r.Check(okProg, name+"|progress", parser.Pos(), why, why)
}

// appendsConst: append(s, k) with a single constant element.
func appendsConst(call *ssa.Call) bool {
	sl, ok := call.Call.Args[1].(*ssa.Slice)
	if !ok {
		return false
	}
	al, ok := sl.X.(*ssa.Alloc)
	if !ok {
		return false
	}
	all := true
	n := 0
	for _, ref := range *al.Referrers() {
		if ia, ok := ref.(*ssa.IndexAddr); ok {
			for _, r2 := range *ia.Referrers() {
				if st, ok := r2.(*ssa.Store); ok {
					n++
					if _, isC := st.Val.(*ssa.Const); !isC {
						all = false
					}
				}
			}
		}
	}
	return n > 0 && all
}

func keysOf(m map[int64]bool) []int64 {
	var out []int64
	for k := range m {
		out = append(out, k)
	}
	sort.Slice(out, func(i, j int) bool { return out[i] < out[j] })
	return out
}

func checkDCMISensorInfo(c *Ctx, r *Report) {
	// locate functions by type
	siT := c.Named("pkg/dcmi", "SensorInfo")
	cmdT := c.Named("pkg/dcmi", "GetDCMISensorInfoCmd")
	var top, mapper, pager *ssa.Function
	if p := c.Pkg("pkg/dcmi"); p != nil {
		for _, fn := range c.LibFuncs() {
			if fn.Pkg != p || fn.Parent() != nil || fn.Signature.Results().Len() != 2 {
				continue
			}
			res0 := fn.Signature.Results().At(0).Type()
			hasCmd := false
			for _, pp := range fn.Params {
				if isPtrTo(pp.Type(), cmdT) {
					hasCmd = true
				}
			}
			switch {
			case isPtrTo(res0, siT):
				top = fn
			case hasCmd:
				if _, isMap := res0.Underlying().(*types.Map); isMap {
					mapper = fn
				} else if _, isSl := res0.Underlying().(*types.Slice); isSl {
					pager = fn
				}
			}
		}
	}
	r.Rule("entity-tables", "the entity IDs handed to the per-family query: first the standard ones [0x37 inlet, 0x03 processor, 0x07 system board], then the DCMI ones [0x40, 0x41, 0x42] — whatever holds them (a table, a literal, a struct of named IDs)", 2)
	if top == nil || mapper == nil || pager == nil {
		r.Lost("dcmi.GetSensorInfo / getSensorMap / getEntityInstances")
		r.Rule("fallback", "", 1)
		r.Lost("dcmi.GetSensorInfo / getSensorMap / getEntityInstances")
		return
	}
	r.Fn(c.FnName(top))
	r.Fn(c.FnName(mapper))
	r.Fn(c.FnName(pager))
	// the per-family query and the pager are anchors with rules of their own
	markOpaque(mapper, pager)

	// ---- fallback
	r.Rule("fallback", "the DCMI-specific entity IDs are queried exactly when the standard ones returned an error or no record IDs; each result field is read under the matching entity key", 5)
	tname := c.FnName(top)
	var calls []*ssa.Call
	allInstrs(top, false, func(in ssa.Instruction) {
		if call, ok := in.(*ssa.Call); ok && call.Call.StaticCallee() == mapper {
			calls = append(calls, call)
		}
	})
	if len(calls) != 2 {
		r.Unk(tname+"|shape", top.Pos(), "expected two per-family queries")
		return
	}
	first, second := calls[0], calls[1]
	if !mustPrecede(top, first, second) {
		first, second = second, first
	}
	// the entity lists, evaluated on every path that makes the call
	lists := map[*ssa.Call]string{}
	enumPaths(top, 1, 8192, func(p CPath) {
		for _, oc := range p.OccsPos() {
			call, ok := oc.In.(*ssa.Call)
			if !ok || call.Call.StaticCallee() != mapper {
				continue
			}
			ks, ok := sliceConsts(c, p.Upto(oc.Seg), oc.Ctx, call.Call.Args[len(call.Call.Args)-1])
			txt := "not a constant list"
			if ok {
				var parts []string
				for _, k := range ks {
					parts = append(parts, fmt.Sprintf("%#x", k))
				}
				txt = strings.Join(parts, ",")
			}
			if prev, seen := lists[call]; seen && prev != txt {
				txt = "differs between paths"
			}
			lists[call] = txt
		}
	})
	r.Rule("entity-tables", "", 2)
	r.Check(lists[first] == "0x37,0x3,0x7", "dcmi standard entity table", first.Pos(), "[0x37,0x3,0x7] queried first", fmt.Sprintf("the first query does not ask for the standard entity IDs [0x37,0x03,0x07] (it asks for: %s)", lists[first]))
	r.Check(lists[second] == "0x40,0x41,0x42", "dcmi DCMI entity table", second.Pos(), "[0x40,0x41,0x42] queried second", fmt.Sprintf("the fallback query does not ask for the DCMI entity IDs [0x40,0x41,0x42] (it asks for: %s)", lists[second]))
	r.Rule("fallback", "", 5)
	r.Check(lists[first] == "0x37,0x3,0x7" && lists[second] == "0x40,0x41,0x42", tname+"|family order", first.Pos(), "standard IDs first, DCMI IDs second", "the standard entity IDs are not tried first / the DCMI ones second")
	// the early success return: behind err == nil and count > 0; the second call reachable exactly otherwise
	var errIf, cntIf *ssa.If
	for _, ifi := range ifsOf(top) {
		op, x, y, _, isBin := condOf(ifi.Cond)
		if !isBin {
			continue
		}
		if ex, ok := x.(*ssa.Extract); ok && ex.Tuple == ssa.Value(first) && ex.Index == 1 && isNilConst(y) && op == token.EQL {
			errIf = ifi
		}
		if call, ok := x.(*ssa.Call); ok && op == token.GTR {
			if k, isK := constInt(y); isK && k == 0 && call.Call.StaticCallee() != nil && len(call.Call.Args) == 1 {
				if ex, ok := call.Call.Args[0].(*ssa.Extract); ok && ex.Tuple == ssa.Value(first) {
					// callee must sum the lengths of the map's values
					if sumsLens(call.Call.StaticCallee()) {
						cntIf = ifi
					}
				}
			}
		}
	}
	okFb := errIf != nil && cntIf != nil
	if okFb {
		// second call must be reachable from both failing edges and not from the both-true path
		e1 := edge{errIf.Block(), errIf.Block().Succs[0]}
		e2 := edge{cntIf.Block(), cntIf.Block().Succs[0]}
		bothTrue := cntIf.Block().Succs[0]
		if reachAvoiding(top, bothTrue, nil, nil)[second.Block()] {
			okFb = false
		}
		if !reachAvoiding(top, errIf.Block().Succs[1], nil, nil)[second.Block()] && errIf.Block().Succs[1] != second.Block() {
			okFb = false
		}
		if !reachAvoiding(top, cntIf.Block().Succs[1], nil, nil)[second.Block()] && cntIf.Block().Succs[1] != second.Block() {
			okFb = false
		}
		_, _ = e1, e2
	}
	r.Check(okFb, tname+"|fallback condition", second.Pos(), "fallback ⇔ err != nil ∨ no record IDs", "the DCMI entity IDs are not queried exactly when the standard query failed or returned no record IDs")
	// field ↔ key mapping per return
	wantKeys := map[*ssa.Call]map[string]int64{first: {"Inlet": 0x37, "CPU": 0x03, "Baseboard": 0x07}, second: {"Inlet": 0x40, "CPU": 0x41, "Baseboard": 0x42}}
	// decided per path of the flattened view, so that building the result in a helper changes nothing
	type agg struct {
		okMap, okErr bool
		n            int
		pos          token.Pos
	}
	aggs := map[string]*agg{}
	enumPaths(top, 1, 8192, func(p CPath) {
		ret, isRet := p.Last().(*ssa.Return)
		if !isRet || ret.Parent() != top {
			return
		}
		al, ok := p.Resolve(ret.Results[0]).(*ssa.Alloc)
		if !ok {
			return
		}
		f, _, _ := complitFieldsAlloc(al)
		var src *ssa.Call
		okMap := true
		for fld, v := range f {
			lk, ok := p.Resolve(v).(*ssa.Lookup)
			if !ok {
				okMap = false
				continue
			}
			ex, ok := p.Resolve(lk.X).(*ssa.Extract)
			if !ok {
				okMap = false
				continue
			}
			call, _ := ex.Tuple.(*ssa.Call)
			if src == nil {
				src = call
			}
			k, isK := constInt(p.Resolve(lk.Index))
			if !isK {
				// the key read from a constant position of a package-level table
				k, isK = tableElem(c, p, lk.Index)
			}
			if call != src || !isK || wantKeys[call] == nil || wantKeys[call][fld] != k {
				okMap = false
			}
		}
		which := "standard"
		if src == second {
			which = "DCMI"
		}
		a := aggs[which]
		if a == nil {
			a = &agg{okMap: true, okErr: true, pos: ret.Pos()}
			aggs[which] = a
		}
		a.n++
		if !(okMap && len(f) == 3) {
			a.okMap = false
		}
		// the DCMI-family result must be behind the second call's err == nil
		if src == second {
			tested := false
			for _, tk := range p.Ifs() {
				op, x, y, neg, isBin := condOf(tk.If.Cond)
				if !isBin || !isNilConst(y) || (op != token.NEQ && op != token.EQL) {
					continue
				}
				if ex, ok := p.Resolve(x).(*ssa.Extract); ok && ex.Tuple == ssa.Value(second) && ex.Index == 1 {
					arm := tk.Arm != neg
					if (op == token.NEQ && !arm) || (op == token.EQL && arm) {
						tested = true
					}
				}
			}
			if !tested {
				a.okErr = false
			}
		}
	})
	for _, which := range []string{"standard", "DCMI"} {
		a := aggs[which]
		if a == nil {
			continue
		}
		r.Check(a.okMap, tname+"|"+which+" result mapping", a.pos, "Inlet/CPU/Baseboard read under their entity keys", "result fields are not read from the map under the matching entity IDs")
		if which == "DCMI" {
			r.Check(a.okErr, tname+"|DCMI query error", a.pos, "a failing fallback query is an error", "the fallback query's error is not tested before its result is used")
		}
	}

	// ---- mapper
	r.Rule("per-entity-map", "for each entity of the table, in order: request entity ← that ID, result stored under that ID; an error yields a nil map", 3)
	mname := c.FnName(mapper)
	var mu *ssa.MapUpdate
	var pcall *ssa.Call
	var entSt *ssa.Store
	allInstrs(mapper, false, func(in ssa.Instruction) {
		switch x := in.(type) {
		case *ssa.MapUpdate:
			mu = x
		case *ssa.Call:
			if x.Call.StaticCallee() == pager {
				pcall = x
			}
		case *ssa.Store:
			if sel, _, st, ok := storeSel(in); ok && sel == "Req.Entity" {
				entSt = st
			}
		}
	})
	if mu == nil || pcall == nil || entSt == nil {
		r.Bad(mname+"|shape", mapper.Pos(), "cannot find request-entity store, paging call and map update")
	} else {
		loops := naturalLoops(mapper)
		L := innermostLoop(loops, pcall.Block())
		okLoop := L != nil && countingLoop(L.blockList()) && L.Blocks[mu.Block()] && L.Blocks[entSt.Block()]
		r.Check(okLoop && entSt.Val == mu.Key && mustPrecede(mapper, entSt, pcall) && mustPrecede(mapper, pcall, mu), mname+"|entity loop", pcall.Pos(), "Req.Entity ← id ≺ paging ≺ map[id] ← result, ascending over the table", "the per-entity loop does not set the request entity, page, and store under the same entity ID in table order")
		okVal := false
		if ex, ok := mu.Value.(*ssa.Extract); ok && ex.Tuple == ssa.Value(pcall) && ex.Index == 0 {
			okVal = true
		}
		r.Check(okVal, mname+"|stored value", mu.Pos(), "the paging result of this entity", "the value stored for an entity is not that entity's paging result")
		okNil := false
		for _, ret := range returnsOf(mapper) {
			if !isNilConst(ret.Results[1]) && isNilConst(ret.Results[0]) {
				okNil = true
			}
			if !isNilConst(ret.Results[1]) && !isNilConst(ret.Results[0]) {
				okNil = false
				break
			}
		}
		r.Check(okNil, mname+"|error → nil map", mapper.Pos(), "errors carry no partial map", "an error is returned together with a partial map")
	}

	// ---- pager
	r.Rule("instance-paging", "instance start = collected+1; record IDs appended in response order; stop on an empty page, at 255, or when the advertised count (a byte) is reached; every continuing iteration grows the result", 6)
	pname := c.FnName(pager)
	loops := naturalLoops(pager)
	var send *ssa.Call
	allInstrs(pager, false, func(in ssa.Instruction) {
		if call, ok := in.(*ssa.Call); ok && call.Call.IsInvoke() && call.Call.Method.Name() == "SendCommand" {
			send = call
		}
	})
	if send == nil {
		r.Bad(pname+"|shape", pager.Pos(), "no SendCommand")
		return
	}
	outer := innermostLoop(loops, send.Block())
	if outer == nil {
		r.Bad(pname+"|shape", pager.Pos(), "SendCommand is not in a loop")
		return
	}
	// collected slice φ at the outer header
	var coll *ssa.Phi
	for _, in := range outer.Header.Instrs {
		if ph, ok := in.(*ssa.Phi); ok {
			if _, isSl := ph.Type().Underlying().(*types.Slice); isSl {
				coll = ph
			}
		}
	}
	// InstanceStart store
	okStart := false
	allInstrs(pager, false, func(in ssa.Instruction) {
		if sel, _, st, ok := storeSel(in); ok && sel == "Req.InstanceStart" && outer.Blocks[st.Block()] && mustPrecede(pager, st, send) {
			if cv, ok := st.Val.(*ssa.Convert); ok {
				if bo, ok := cv.X.(*ssa.BinOp); ok && bo.Op == token.ADD {
					if k, isK := constInt(bo.Y); isK && k == 1 {
						if arg, ok := lenOf(bo.X); ok && arg == ssa.Value(coll) {
							okStart = true
						}
					}
				}
			}
		}
	})
	r.Check(okStart, pname+"|instance start", send.Pos(), "InstanceStart = len(collected)+1", "the request's instance start is not len(collected)+1 (pages would overlap or skip)")
	// Instance = 0 before the loop
	okInst := false
	allInstrs(pager, false, func(in ssa.Instruction) {
		if sel, _, st, ok := storeSel(in); ok && sel == "Req.Instance" {
			if k, isK := constInt(st.Val); isK && k == 0 && mustPrecede(pager, st, send) {
				okInst = true
			}
		}
	})
	r.Check(okInst, pname+"|all instances", send.Pos(), "Instance = 0 (all instances)", "the request does not ask for all instances (Instance = 0)")
	// inner append loop: ranges over Rsp.RecordIDs ascending, appends each to collected
	var inner *Loop
	for _, l := range loops {
		if l.Parent == outer {
			inner = l
		}
	}
	okApp := false
	if inner != nil && countingLoop(inner.blockList()) {
		for b := range inner.Blocks {
			for _, in := range b.Instrs {
				call, ok := in.(*ssa.Call)
				if !ok {
					continue
				}
				if bi, ok := call.Call.Value.(*ssa.Builtin); !ok || bi.Name() != "append" {
					continue
				}
				// append(collectedφ', []T{elem}) with elem = Rsp.RecordIDs[i]
				if sl, ok := call.Call.Args[1].(*ssa.Slice); ok {
					if al, ok := sl.X.(*ssa.Alloc); ok {
						for _, ref := range *al.Referrers() {
							if ia, ok := ref.(*ssa.IndexAddr); ok {
								for _, r2 := range *ia.Referrers() {
									if st, ok := r2.(*ssa.Store); ok {
										if ld, ok := st.Val.(*ssa.UnOp); ok {
											if ia2, ok := ld.X.(*ssa.IndexAddr); ok {
												if ld2, ok := ia2.X.(*ssa.UnOp); ok && apOf(ld2.X).SelString() == "Rsp.RecordIDs" {
													okApp = true
												}
											}
										}
									}
								}
							}
						}
					}
				}
			}
		}
	}
	// or the whole page appended at once: append(collected, Rsp.RecordIDs...)
	if !okApp {
		for b := range outer.Blocks {
			for _, in := range b.Instrs {
				call, ok := in.(*ssa.Call)
				if !ok || len(call.Call.Args) != 2 {
					continue
				}
				if bi, ok := call.Call.Value.(*ssa.Builtin); !ok || bi.Name() != "append" {
					continue
				}
				if ld, ok := call.Call.Args[1].(*ssa.UnOp); ok && ld.Op == token.MUL && apOf(ld.X).SelString() == "Rsp.RecordIDs" {
					if _, isSl := call.Type().Underlying().(*types.Slice); isSl && mustPrecede(pager, send, call) {
						okApp = true
					}
				}
			}
		}
	}
	// or either form inside a helper spliced into the loop body (appendPage(collected, cmd.Rsp.RecordIDs))
	if !okApp {
		isPage := func(v ssa.Value) bool {
			cands := []ssa.Value{v}
			if _, isLd := v.(*ssa.UnOp); !isLd {
				cands = viewOrigins(pager, v)
			}
			if len(cands) == 0 {
				return false
			}
			for _, o := range cands {
				ld, ok := stripConv(o).(*ssa.UnOp)
				if !ok || ld.Op != token.MUL {
					return false
				}
				aps := viewAPs(pager, ld.X)
				if len(aps) == 0 {
					return false
				}
				for _, a := range aps {
					if a.SelString() != "Rsp.RecordIDs" {
						return false
					}
				}
			}
			return true
		}
		vloops := viewLoops(pager)
		viewInstrs(pager, func(in ssa.Instruction) {
			call, ok := in.(*ssa.Call)
			if !ok || len(call.Call.Args) != 2 {
				return
			}
			if bi, ok := call.Call.Value.(*ssa.Builtin); !ok || bi.Name() != "append" {
				return
			}
			if _, isSl := call.Type().Underlying().(*types.Slice); !isSl {
				return
			}
			// whole page at once
			if isPage(call.Call.Args[1]) {
				okApp = true
				return
			}
			// element by element in a counting loop
			l := innermostLoop(vloops, call.Block())
			if l == nil || !countingLoop(l.blockList()) {
				return
			}
			if sl, ok := call.Call.Args[1].(*ssa.Slice); ok {
				if al, ok := sl.X.(*ssa.Alloc); ok {
					for _, ref := range *al.Referrers() {
						if ia, ok := ref.(*ssa.IndexAddr); ok {
							for _, r2 := range *ia.Referrers() {
								if st, ok := r2.(*ssa.Store); ok {
									if ld, ok := st.Val.(*ssa.UnOp); ok {
										if ia2, ok := ld.X.(*ssa.IndexAddr); ok && isPage(ia2.X) {
											okApp = true
										}
									}
								}
							}
						}
					}
				}
			}
		})
	}
	r.Check(okApp, pname+"|append in order", send.Pos(), "every returned record ID appended, ascending", "the record IDs of a page are not all appended in response order")
	// exits: len(Rsp.RecordIDs)==0 ; len(collected)==255 ; header len(collected) < total(byte)
	exitEmpty, exit255, exitTotal := false, false, false
	for _, ifi := range ifsOf(pager) {
		if !outer.Blocks[ifi.Block()] {
			continue
		}
		op, x, y, _, isBin := condOf(ifi.Cond)
		if !isBin {
			continue
		}
		arg, isLen := lenOf(x)
		if !isLen {
			continue
		}
		k, isK := constInt(y)
		leaves := !outer.Blocks[ifi.Block().Succs[0]] || !outer.Blocks[ifi.Block().Succs[1]]
		if ld, ok := arg.(*ssa.UnOp); ok && apOf(ld.X).SelString() == "Rsp.RecordIDs" && op == token.EQL && isK && k == 0 {
			exitEmpty = true
		}
		if op == token.EQL && isK && k == 255 {
			exit255 = true
		}
		// continue only while collected < advertised: `for len < total` (the false arm leaves)
		// or `if len >= total { break }` (the true arm leaves)
		contLess := op == token.LSS && !outer.Blocks[ifi.Block().Succs[1]]
		stopGeq := op == token.GEQ && !outer.Blocks[ifi.Block().Succs[0]]
		if (contLess || stopGeq) && leaves && !isK {
			// bound must be a byte-ranged value: φ(…, int(uint8 field))
			byteBound := true
			for _, v := range possibleValues(y) {
				if _, isC := constInt(v); isC {
					continue
				}
				if bo, ok := v.(*ssa.BinOp); ok && bo.Op == token.ADD {
					// initial len+1
					continue
				}
				cv, ok := v.(*ssa.Convert)
				if !ok {
					byteBound = false
					continue
				}
				if bt, ok := cv.X.Type().Underlying().(*types.Basic); !ok || bt.Kind() != types.Uint8 {
					byteBound = false
				}
			}
			exitTotal = byteBound
		}
	}
	// what the pager hands back is a list of its own: the response's RecordIDs slice belongs to
	// the command, which the caller reuses for the next entity (and the decoder recycles its
	// backing array) — returning it, even for a one-page answer, lets the next entity's reply
	// overwrite this one's
	okOwn, whyOwn := true, ""
	for _, ret := range returnsOf(pager) {
		if len(ret.Results) == 0 {
			continue
		}
		for _, o := range append(viewOrigins(pager, ret.Results[0]), possibleValues(ret.Results[0])...) {
			ld, ok := stripConv(o).(*ssa.UnOp)
			if !ok || ld.Op != token.MUL {
				continue
			}
			for _, a := range viewAPs(pager, ld.X) {
				if strings.HasSuffix(a.SelString(), "Rsp.RecordIDs") {
					okOwn, whyOwn = false, a.String()
				}
			}
		}
	}
	r.Check(okOwn, pname+"|returns its own list", pager.Pos(), "the list returned is built by the pager", "the pager returns the command's own response slice ("+whyOwn+"): the next entity's reply, decoded into the same command, overwrites the record IDs already handed out")
	r.Check(exitEmpty, pname+"|stop on empty page", send.Pos(), "an empty page ends the enumeration", "an empty page does not end the enumeration (endless loop against a BMC that reports more instances than it returns)")
	r.Check(exit255, pname+"|stop at 255", send.Pos(), "hard stop at 255 collected IDs", "no hard stop at 255 collected record IDs")
	r.Check(exitTotal && exitEmpty && okApp, pname+"|terminates", send.Pos(), "continue only while collected < advertised count ≤ 255; each continuing iteration appends ≥ 1 ID", "cannot show that every continuing iteration makes progress towards a byte-bounded count")
}

// sumsLens: fn returns the sum of len(v) over the values of its map argument.
func sumsLens(fn *ssa.Function) bool {
	if fn == nil || fn.Blocks == nil || len(fn.Params) != 1 {
		return false
	}
	ok := false
	allInstrs(fn, false, func(in ssa.Instruction) {
		if bo, isBo := in.(*ssa.BinOp); isBo && bo.Op == token.ADD {
			if _, isPh := bo.X.(*ssa.Phi); isPh {
				if _, isLen := lenOf(bo.Y); isLen {
					ok = true
				}
			}
		}
	})
	return ok
}

// tableElem: v (on path p) is read from a constant position of a package-level
// variable that is never written outside its initialiser — an element of a
// slice or array (`table[1]`), a field of a struct (`family.cpu`), through
// helper parameters and receiver copies alike; the value is taken from the
// initialiser.
func tableElem(c *Ctx, p CPath, v ssa.Value) (int64, bool) {
	return globalConstAP(c, p.AP(stripConv(p.Resolve(stripConv(v)))))
}

func globalConstAP(c *Ctx, ap AP) (int64, bool) {
	gv := globalValAP(c, ap)
	if gv == nil {
		return 0, false
	}
	return gv.Int()
}

// globalValAP: the initial value of the location ap denotes inside a package-level
// variable that is never written outside its initialiser.
func globalValAP(c *Ctx, ap AP) *GVal {
	g, ok := ap.Root.(*ssa.Global)
	if !ok {
		return nil
	}
	for _, fn := range c.ModFn {
		if fn.Blocks == nil || fn.Name() == "init" {
			continue
		}
		written := false
		rawInstrs(fn, false, func(in ssa.Instruction) {
			if st, ok := in.(*ssa.Store); ok && apOf(st.Addr).Root == ssa.Value(g) {
				written = true
			}
		})
		if written {
			return nil
		}
	}
	gv := newInitReader(c).global(g)
	for _, sel := range ap.Sel {
		if gv == nil {
			return nil
		}
		if strings.HasPrefix(sel, "[") {
			k, err := strconv.Atoi(strings.Trim(sel, "[]"))
			if err != nil || k < 0 || k >= len(gv.Elems) {
				return nil
			}
			gv = gv.Elems[k]
			continue
		}
		if gv.Kind == "zero" {
			return nil
		}
		gv = gv.Fields[sel]
	}
	return gv
}

// sliceConsts: the constant elements of the slice v denotes on path p: a
// package-level table, or a literal built on the path (possibly in a helper)
// from constants and constant positions of package-level variables.
func sliceConsts(c *Ctx, p CPath, ctx *FCtx, v ssa.Value) ([]int64, bool) {
	rv := p.ResolveIn(ctx, stripConv(v))
	if gv := globalValAP(c, p.AP(rv)); gv != nil && gv.Kind == "slice" {
		var out []int64
		for _, e := range gv.Elems {
			k, ok := e.Int()
			if !ok {
				return nil, false
			}
			out = append(out, k)
		}
		return out, true
	}
	sl, ok := rv.(*ssa.Slice)
	if !ok || sl.Low != nil || sl.High != nil {
		return nil, false
	}
	al, ok := sl.X.(*ssa.Alloc)
	if !ok {
		return nil, false
	}
	arr, ok := al.Type().(*types.Pointer).Elem().Underlying().(*types.Array)
	if !ok {
		return nil, false
	}
	out := make([]int64, arr.Len())
	have := make([]bool, arr.Len())
	for _, ref := range *al.Referrers() {
		ia, ok := ref.(*ssa.IndexAddr)
		if !ok {
			if ref == ssa.Instruction(sl) {
				continue
			}
			return nil, false
		}
		k, isK := constInt(ia.Index)
		if !isK || k < 0 || k >= arr.Len() {
			return nil, false
		}
		for _, r2 := range *ia.Referrers() {
			st, ok := r2.(*ssa.Store)
			if !ok || st.Addr != ssa.Value(ia) || have[k] {
				return nil, false
			}
			e, isE := constInt(p.Resolve(st.Val))
			if !isE {
				e, isE = globalConstAP(c, p.AP(stripConv(st.Val)))
			}
			if !isE {
				return nil, false
			}
			out[k], have[k] = e, true
		}
	}
	for _, h := range have {
		if !h {
			return nil, false
		}
	}
	return out, true
}

// checkChunkLoopPaths decides the retrieval loop over the feasible paths of the
// retriever's flattened view, the loop taken up to three times. What a request
// holds when it is sent is the last value stored into it on the path, so the
// index may live in the request (`Req.ListIndex++` at the bottom) or in a loop
// variable copied into it at the top, and the loop may sit in a helper.
func checkChunkLoopPaths(c *Ctx, r *Report, retr, parser *ssa.Function, name string) {
	isSend := func(in ssa.Instruction) bool {
		call, ok := in.(*ssa.Call)
		if !ok {
			return false
		}
		if call.Call.Method != nil {
			return call.Call.Method.Name() == "SendCommand"
		}
		f := call.Call.StaticCallee()
		return f != nil && f.Name() == "SendCommand"
	}
	nSends, nPaths := 0, 0
	okIdx, okAppend, okValid, okCont64, okContShort, okExit, okParse := true, true, true, true, true, true, true
	nCont, nExit, nFail := 0, 0, 0
	whyIdx := ""
	var sendPos token.Pos
	complete := enumPaths(retr, 3, 300000, func(p CPath) {
		occs := p.OccsPos()
		var sends []int
		for i, oc := range occs {
			if isSend(oc.In) {
				sends = append(sends, i)
				sendPos = oc.In.Pos()
			}
		}
		if len(sends) == 0 {
			return
		}
		nPaths++
		rootOf := func(i int) ssa.Value {
			call := occs[i].In.(*ssa.Call)
			args := callArgs(&call.Call)
			a := p.Upto(occs[i].Seg).APIn(occs[i].Ctx, args[len(args)-1])
			if len(a.Sel) != 0 {
				return nil
			}
			return a.Root
		}
		root := rootOf(sends[0])
		if root == nil {
			okIdx = false
			whyIdx = "the command sent is not a local object"
			return
		}
		rels := p.relationsPos(occs)
		ret, isRet := p.Last().(*ssa.Return)
		isOwnRet := isRet && ret.Parent() == retr && len(ret.Results) == 2
		failed := isOwnRet && !isNilConst(p.Resolve(ret.Results[1]))
		// was the error returned produced by the parser (then the exchange part succeeded)?
		parsed := -1
		for i, oc := range occs {
			if call, ok := oc.In.(*ssa.Call); ok && call.Call.StaticCallee() == parser {
				parsed = i
			}
		}
		// the chunk appended after send #n: a Write on the buffer of a load of Rsp.CipherSuiteRecordsChunk of the same command
		isChunkLoad := func(i int, v ssa.Value) bool {
			ld, ok := stripConv(p.Upto(occs[i].Seg).ResolveIn(occs[i].Ctx, v)).(*ssa.UnOp)
			if !ok || ld.Op != token.MUL {
				return false
			}
			pos := lastOcc(occs, i, ld)
			if pos < 0 {
				return false
			}
			a := p.Upto(occs[pos].Seg).APIn(occs[pos].Ctx, ld.X)
			return a.Root == root && a.SelString() == "Rsp.CipherSuiteRecordsChunk"
		}
		var bufRoot ssa.Value
		var lastAppend *ssa.Call
		for n, sidx := range sends {
			nSends++
			if rootOf(sidx) != root {
				okIdx = false
				whyIdx = "different command objects are sent"
			}
			// the list index carried by the n-th request is n
			idx := p.fieldAt(occs, sidx, root, "Req.ListIndex")
			if !idx.IsK || idx.K != int64(n) {
				okIdx = false
				whyIdx = fmt.Sprintf("request #%d of a run carries list index %v", n+1, fmtPVal(idx))
			}
			end := len(occs)
			if n+1 < len(sends) {
				end = sends[n+1]
			}
			last := n+1 == len(sends)
			if last && failed && parsed < 0 {
				// the exchange (or its validation) failed: nothing is returned
				nFail++
				if !isNilConst(p.Resolve(ret.Results[0])) {
					okValid = false
				}
				continue
			}
			// the chunk is appended exactly once between this exchange and the next / the end
			nw := 0
			for j := sidx + 1; j < end; j++ {
				call, ok := occs[j].In.(*ssa.Call)
				if !ok {
					continue
				}
				// accumulated in a byte slice: acc = append(acc, chunk...), each append extending
				// the previous one (or the empty start)
				if bi, isB := call.Call.Value.(*ssa.Builtin); isB && bi.Name() == "append" && len(call.Call.Args) == 2 && isChunkLoad(j, call.Call.Args[1]) {
					prev := p.Upto(occs[j].Seg).ResolveIn(occs[j].Ctx, call.Call.Args[0])
					okPrev := false
					switch pv := prev.(type) {
					case *ssa.Const:
						okPrev = pv.Value == nil && lastAppend == nil
					case *ssa.Call:
						okPrev = lastAppend != nil && pv == lastAppend
					case *ssa.Slice, *ssa.MakeSlice:
						okPrev = lastAppend == nil
					}
					if !okPrev {
						okAppend = false
					}
					lastAppend = call
					nw++
					continue
				}
				if calleeName(&call.Call) != "(*bytes.Buffer).Write" {
					continue
				}
				if isChunkLoad(j, call.Call.Args[1]) {
					nw++
					b := p.Upto(occs[j].Seg).APIn(occs[j].Ctx, call.Call.Args[0]).Root
					if bufRoot != nil && b != bufRoot {
						okAppend = false
					}
					bufRoot = b
				}
			}
			if nw != 1 {
				okAppend = false
			}
			// the exchange was validated: a ValidateResponse call consumed it and its result was found nil
			valid := false
			for _, rel := range rels {
				if rel.At <= sidx || rel.At >= end || rel.Op != token.EQL {
					continue
				}
				for _, pr := range [][2]ssa.Value{{rel.X, rel.Y}, {rel.Y, rel.X}} {
					if !isNilConst(pr[1]) {
						continue
					}
					v := p.Upto(occs[rel.At].Seg).ResolveIn(rel.Ctx, pr[0])
					if call, ok := v.(*ssa.Call); ok && call.Call.StaticCallee() != nil && call.Call.StaticCallee().Name() == "ValidateResponse" {
						valid = true
					}
				}
			}
			if !valid {
				okValid = false
			}
			// tests between this exchange and the next one (continuing) or the end (leaving)
			var is64, not64, short, long bool
			for _, rel := range rels {
				if rel.At <= sidx || rel.At >= end {
					continue
				}
				for _, pr := range [][2]ssa.Value{{rel.X, rel.Y}, {rel.Y, rel.X}} {
					op := rel.Op
					if pr[0] != rel.X {
						op = flipOp(op)
					}
					k, isK := constInt(p.Upto(occs[rel.At].Seg).ResolveIn(rel.Ctx, pr[1]))
					if !isK {
						continue
					}
					// the index of the request just sent, compared with 64
					if k == 64 && (op == token.EQL || op == token.NEQ) {
						v := p.evalAt(occs, rel.At, rel.Ctx, pr[0])
						if v.IsK && v.K == int64(n) && p.dependsOnField(occs, rel.At, rel.Ctx, pr[0], root, "Req.ListIndex") {
							if op == token.EQL {
								is64 = true
							} else {
								not64 = true
							}
						}
					}
					// the length of the chunk just received, compared with 16
					if k == 16 && (op == token.LSS || op == token.GEQ) {
						if arg, ok := lenOf(p.Upto(occs[rel.At].Seg).ResolveIn(rel.Ctx, pr[0])); ok && isChunkLoad(rel.At, arg) {
							if op == token.LSS {
								short = true
							} else {
								long = true
							}
						}
					}
				}
			}
			if !last {
				nCont++
				if !not64 {
					okCont64 = false
				}
				if !long {
					okContShort = false
				}
			} else if isOwnRet && parsed >= 0 {
				nExit++
				// with three visits the enumeration also cuts paths short; only real exits count
				if !is64 && !short {
					okExit = false
				}
				// the parser receives the whole buffer
				call := occs[parsed].In.(*ssa.Call)
				good := false
				parg := p.Upto(occs[parsed].Seg).ResolveIn(occs[parsed].Ctx, call.Call.Args[0])
				if lastAppend != nil && parg == ssa.Value(lastAppend) && lastOcc(occs, parsed, lastAppend) > sidx {
					good = true
				}
				if bc, ok := parg.(*ssa.Call); ok && calleeName(&bc.Call) == "(*bytes.Buffer).Bytes" {
					pos := lastOcc(occs, parsed, bc)
					if pos > sidx && bufRoot != nil && p.Upto(occs[pos].Seg).APIn(occs[pos].Ctx, bc.Call.Args[0]).Root == bufRoot {
						good = true
					}
				}
				// and its results are the results
				for i := 0; i < 2; i++ {
					ex, ok := p.Resolve(ret.Results[i]).(*ssa.Extract)
					if !ok || ex.Tuple != ssa.Value(call) || ex.Index != i {
						good = false
					}
				}
				if !good {
					okParse = false
				}
			}
		}
	})
	if !complete || nPaths == 0 {
		r.Unk(name+"|shape", retr.Pos(), fmt.Sprintf("cannot enumerate the retrieval paths (paths with an exchange: %d)", nPaths))
		return
	}
	r.Check(okAppend && nSends > 0, name+"|append chunk", sendPos, "every received chunk is appended once, after the exchange", "the chunk of each response is not appended exactly once to the record buffer after the exchange")
	r.Check(okValid && nFail > 0, name+"|validated", sendPos, "a failed exchange aborts with a nil list; chunks are used only after validation", "a failed or non-normal exchange does not abort the enumeration with (nil, err)")
	r.Check(okContShort && nCont > 0 && okExit && nExit > 0, name+"|stop on short chunk", retr.Pos(), "len(chunk) < 16 ends the enumeration", "the loop does not end exactly when a chunk shorter than 16 bytes arrives (or list index 64 was reached)")
	r.Check(okCont64 && nCont > 0, name+"|stop at index 64", retr.Pos(), "list index 64 ends the enumeration", "no hard stop at list index 64")
	// the index field has no writer outside this retrieval
	reqT := c.Named("pkg/ipmi", "GetChannelCipherSuitesReq")
	ws := c.fieldWriters(reqT, "ListIndex")
	inView := map[*ssa.Function]bool{}
	for _, f := range flatOf(retr).Funcs() {
		inView[f] = true
	}
	foreign := 0
	for _, st := range ws {
		if !inView[st.Parent()] {
			foreign++
		}
	}
	r.Check(okIdx && foreign == 0, name+"|index+1", retr.Pos(), "request n carries list index n (0, 1, 2 on every path); the field is written nowhere else", fmt.Sprintf("the list index is not advanced by exactly one per request, or is written elsewhere (%s; %d foreign writers)", whyIdx, foreign))
	r.Check(okIdx && okCont64 && nCont > 0, name+"|terminates", retr.Pos(), "every iteration advances the index towards 64", "an iteration can repeat without advancing the list index (unbounded loop against a BMC that always sends full chunks)")
	r.Check(okParse && nExit > 0, name+"|parse all", retr.Pos(), "the parser receives the whole accumulated buffer and its results are returned", "the result is not the parse of the whole accumulated buffer")
}

func fmtPVal(v PVal) string {
	if v.IsK {
		return fmt.Sprint(v.K)
	}
	if v.V != nil {
		return v.V.Name() + " (not a constant on the path)"
	}
	return "?"
}

func flipOp(op token.Token) token.Token {
	switch op {
	case token.LSS:
		return token.GTR
	case token.GTR:
		return token.LSS
	case token.LEQ:
		return token.GEQ
	case token.GEQ:
		return token.LEQ
	}
	return op
}

// tableFieldConsts: v is a load of field f of table[i] for a read-only package-level array or
// slice `table` of the module: the integer values f takes over all elements.
func tableFieldConsts(c *Ctx, v ssa.Value) ([]int64, bool) {
	ld, ok := stripConv(v).(*ssa.UnOp)
	if !ok || ld.Op != token.MUL {
		return nil, false
	}
	var fields []string
	addr := ld.X
	for i := 0; i < 8; i++ {
		fa, ok := addr.(*ssa.FieldAddr)
		if !ok {
			break
		}
		f := structField(fa.X.Type(), fa.Field)
		if f == nil {
			return nil, false
		}
		fields = append([]string{f.Name()}, fields...)
		addr = fa.X
	}
	ia, ok := addr.(*ssa.IndexAddr)
	if !ok {
		return nil, false
	}
	var g *ssa.Global
	switch b := ia.X.(type) {
	case *ssa.Global:
		g = b
	case *ssa.UnOp:
		g, _ = b.X.(*ssa.Global)
	}
	if g == nil {
		return nil, false
	}
	gv := globalValAP(c, AP{Root: g})
	if gv == nil || gv.Kind != "slice" {
		return nil, false
	}
	var out []int64
	for _, el := range gv.Elems {
		cur := el
		for _, f := range fields {
			if cur == nil || cur.Kind != "struct" {
				return nil, false
			}
			nx, has := cur.Fields[f]
			if !has {
				nx = &GVal{Kind: "zero"}
			}
			cur = nx
		}
		if cur.Kind == "zero" {
			out = append(out, 0)
			continue
		}
		k, isK := cur.Int()
		if !isK {
			return nil, false
		}
		out = append(out, k)
	}
	return out, true
}

// appendsConstIn: append(s, x) with one element whose value is a constant at every place it
// can come from in root's view (a helper's parameter bound to constants at its call sites).
func appendsConstIn(root *ssa.Function, call *ssa.Call) bool {
	sl, ok := call.Call.Args[1].(*ssa.Slice)
	if !ok {
		return false
	}
	al, ok := sl.X.(*ssa.Alloc)
	if !ok {
		return false
	}
	n := 0
	for _, ref := range *al.Referrers() {
		ia, ok := ref.(*ssa.IndexAddr)
		if !ok {
			continue
		}
		for _, r2 := range *ia.Referrers() {
			st, ok := r2.(*ssa.Store)
			if !ok {
				continue
			}
			n++
			os := viewOrigins(root, st.Val)
			if len(os) == 0 {
				return false
			}
			for _, o := range os {
				if _, isC := stripConv(o).(*ssa.Const); !isC {
					return false
				}
			}
		}
	}
	return n == 1
}
