#!/bin/bash
# Creates a rename-only variant of /repo in a scratch worktree (default /tmp/rn): 19 unexported
# identifiers renamed with gofmt -r. Every check must stay silent on it.
set -e
D=${1:-/tmp/rn}
export GOFLAGS=-mod=mod GOPROXY=off GOSUMDB=off GOTOOLCHAIN=local GOWORK=off
git -C /repo worktree remove --force "$D" 2>/dev/null || true
rm -rf "$D"
git -C /repo worktree add -f --detach "$D" HEAD >/dev/null
cd "$D"
for r in 'v2SessionLayer -> sessWrap' 'messageLayer -> msgL' 'rmcpLayer -> rmcpL' 'confidentialityLayer -> confL' \
  'integrityAlgorithm -> integ' 'readingCmd -> rdCmd' 'checksum -> csum8' 'truncatedHash -> shortHash' \
  'additionalKeyMaterialGenerator -> akmGen' 'linearSensorReader -> linRd' 'linearisedSensorReader -> linzRd' \
  'bcdPlusRunes -> bcdTab' 'stringEncodingDecoders -> strDecs' 'analogDataFormatParsers -> adfParsers' \
  'linearisationLinearisers -> linzers' 'secondsMultiplier -> unitSeconds' 'rollingAvgPeriodDuration -> ravgDur' \
  'rollingAvgPeriodByte -> ravgByte' 'buffer -> sbuf'; do
  gofmt -r "$r" -w $(git ls-files '*.go')
done
go build ./... && go test -vet=off -count=1 ./... >/dev/null && echo "rename variant ready in $D (remove with: git -C /repo worktree remove --force $D)"
