package main

// placeholder until engine E1 (lenflow) lands; replaced by lenflow.go.
func checkLenflowFor(c *Ctx, r *Report, rule string, layers []string) {
	r.Extra["E1_pending_"+rule] = layers
}
