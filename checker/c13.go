package main

import (
	"fmt"
	"go/token"
	"go/types"
	"strings"

	"golang.org/x/tools/go/ssa"
)

func init() { register("C13", checkC13) }

func isContextType(t types.Type) bool {
	n, ok := t.(*types.Named)
	return ok && n.Obj().Pkg() != nil && n.Obj().Pkg().Path() == "context" && n.Obj().Name() == "Context"
}

// ctxParamOf returns the context.Context parameter of fn or of its nearest
// lexically enclosing function.
func ctxParamsOf(fn *ssa.Function) []*ssa.Parameter {
	var out []*ssa.Parameter
	for f := fn; f != nil; f = f.Parent() {
		for _, p := range f.Params {
			if isContextType(p.Type()) {
				out = append(out, p)
			}
		}
	}
	// a method used only as a method value runs on behalf of the function that binds it: that
	// function's context is the one the method's state object carries
	if sites := boundSites[fn]; len(sites) == 1 && directCallers[fn] == 0 {
		for f := sites[0].Parent(); f != nil; f = f.Parent() {
			for _, p := range f.Params {
				if isContextType(p.Type()) {
					out = append(out, p)
				}
			}
		}
	}
	return out
}

// ctxProvenance classifies where a context value comes from: "param" (the
// enclosing function's ctx parameter, possibly through context.With*),
// "background", or "other:<desc>".
func ctxProvenance(fn *ssa.Function, v ssa.Value) string {
	params := ctxParamsOf(fn)
	seen := map[ssa.Value]bool{}
	var walk func(v ssa.Value) string
	walk = func(v ssa.Value) string {
		if seen[v] {
			return "param"
		}
		seen[v] = true
		v = stripConv(v)
		switch x := v.(type) {
		case *ssa.Parameter:
			for _, p := range params {
				if p == x {
					return "param"
				}
			}
			return "other:parameter " + x.Name()
		case *ssa.Extract:
			if call, ok := x.Tuple.(*ssa.Call); ok && x.Index == 0 {
				switch calleeName(&call.Call) {
				case fnCtxWithTimeout, fnCtxWithDeadline, "context.WithCancel", "context.WithTimeoutCause", "context.WithDeadlineCause":
					return walk(call.Call.Args[0])
				}
			}
		case *ssa.Call:
			switch calleeName(&x.Call) {
			case fnCtxBackground, fnCtxTODO:
				return "background"
			case "context.WithValue", "context.WithoutCancel":
				if calleeName(&x.Call) == "context.WithoutCancel" {
					return "background"
				}
				return walk(x.Call.Args[0])
			}
		case *ssa.UnOp:
			if x.Op == token.MUL {
				a := apOf(x.X)
				if p, ok := a.Root.(*ssa.Parameter); ok && len(a.Sel) == 0 {
					return walk(p)
				}
				// read from a write-once field of the operation's state object: what was stored there
				if a2 := apOf(x); len(a2.Sel) == 0 {
					if p, ok := a2.Root.(*ssa.Parameter); ok {
						return walk(p)
					}
				}
				// a context-typed field of a per-call state object: a conduit for the caller's
				// context if every writer of the field, anywhere in the module, stores the context
				// parameter of the function it is in into an object that function has just made
				if fa, ok := x.X.(*ssa.FieldAddr); ok {
					if f := structField(fa.X.Type(), fa.Field); f != nil && isContextType(f.Type()) {
						sts := fieldStores[f]
						okAll := len(sts) > 0
						for _, st := range sts {
							sfa := st.Addr.(*ssa.FieldAddr)
							al, isAl := sfa.X.(*ssa.Alloc)
							if !isAl || al.Parent() != st.Parent() || ctxProvenance(st.Parent(), st.Val) != "param" {
								okAll = false
							}
						}
						if okAll {
							return "param"
						}
					}
				}
				if al, ok := x.X.(*ssa.Alloc); ok {
					if sv := singleStore(al); sv != nil {
						return walk(sv)
					}
				}
			}
		case *ssa.Phi:
			res := "param"
			for _, e := range x.Edges {
				if r := walk(e); r != "param" {
					res = r
				}
			}
			return res
		case *ssa.FreeVar:
			if b := freeVarBinding(x); b != nil {
				return walk(b)
			}
		case *ssa.Field:
			if a := apOf(x); len(a.Sel) == 0 {
				if p, ok := a.Root.(*ssa.Parameter); ok {
					return walk(p)
				}
			}
		}
		return "other:" + rootName(apOf(v).Root)
	}
	return walk(v)
}

// sccs returns the non-trivial strongly connected components (loops) of fn's CFG.
func sccs(fn *ssa.Function) [][]*ssa.BasicBlock {
	index := map[*ssa.BasicBlock]int{}
	low := map[*ssa.BasicBlock]int{}
	on := map[*ssa.BasicBlock]bool{}
	var stack []*ssa.BasicBlock
	var out [][]*ssa.BasicBlock
	n := 0
	var strong func(b *ssa.BasicBlock)
	strong = func(b *ssa.BasicBlock) {
		n++
		index[b], low[b] = n, n
		stack = append(stack, b)
		on[b] = true
		for _, s := range b.Succs {
			if index[s] == 0 {
				strong(s)
				if low[s] < low[b] {
					low[b] = low[s]
				}
			} else if on[s] && index[s] < low[b] {
				low[b] = index[s]
			}
		}
		if low[b] == index[b] {
			var comp []*ssa.BasicBlock
			for {
				x := stack[len(stack)-1]
				stack = stack[:len(stack)-1]
				on[x] = false
				comp = append(comp, x)
				if x == b {
					break
				}
			}
			self := false
			for _, s := range b.Succs {
				if s == b {
					self = true
				}
			}
			if len(comp) > 1 || self {
				out = append(out, comp)
			}
		}
	}
	for _, b := range fn.Blocks {
		if index[b] == 0 {
			strong(b)
		}
	}
	return out
}

// countingLoop: the loop (SCC) has an exit test comparing an induction φ
// (constant start, constant positive step on the back edge) — or a φ+1 of it —
// with a loop-invariant bound, i.e. the iteration count is bounded by local data.
func countingLoop(comp []*ssa.BasicBlock) bool {
	in := map[*ssa.BasicBlock]bool{}
	for _, b := range comp {
		in[b] = true
	}
	var invariant func(v ssa.Value) bool
	invariant = func(v ssa.Value) bool {
		if _, ok := v.(*ssa.Const); ok {
			return true
		}
		i, ok := v.(ssa.Instruction)
		if !ok {
			return true // parameters, globals, functions
		}
		if !in[i.Block()] {
			return true
		}
		// computed inside the loop from invariant operands only (no loads, no phis)
		switch x := v.(type) {
		case *ssa.BinOp:
			return invariant(x.X) && invariant(x.Y)
		case *ssa.Convert:
			return invariant(x.X)
		case *ssa.ChangeType:
			return invariant(x.X)
		case *ssa.Call:
			if b, ok := x.Call.Value.(*ssa.Builtin); ok && (b.Name() == "len" || b.Name() == "cap") {
				return invariant(x.Call.Args[0])
			}
		}
		return false
	}
	isInduction := func(v ssa.Value) bool {
		var ph *ssa.Phi
		switch x := v.(type) {
		case *ssa.Phi:
			ph = x
		case *ssa.BinOp:
			if x.Op == token.ADD || x.Op == token.SUB {
				if p, ok := x.X.(*ssa.Phi); ok {
					if k, isK := constInt(x.Y); isK && k != 0 {
						ph = p
					}
				}
			}
		}
		if ph == nil || !in[ph.Block()] {
			return false
		}
		okStart, okStep := false, false
		for i, e := range ph.Edges {
			pred := ph.Block().Preds[i]
			if !in[pred] {
				if invariant(e) {
					okStart = true
				}
				continue
			}
			// a constant step in one direction (i++ / i += 2 / i--), tested against a bound the
			// loop does not change
			if bo, ok := e.(*ssa.BinOp); ok && (bo.Op == token.ADD || bo.Op == token.SUB) && bo.X == ssa.Value(ph) {
				if k, isK := constInt(bo.Y); isK && k != 0 {
					okStep = true
					continue
				}
			}
			return false
		}
		return okStart && okStep
	}
	for _, b := range comp {
		ifi, ok := b.Instrs[len(b.Instrs)-1].(*ssa.If)
		if !ok {
			continue
		}
		exits := !in[b.Succs[0]] || !in[b.Succs[1]]
		if !exits {
			continue
		}
		op, x, y, _, isBin := condOf(ifi.Cond)
		if !isBin {
			continue
		}
		switch op {
		case token.LSS, token.LEQ, token.GTR, token.GEQ, token.NEQ, token.EQL:
			if (isInduction(x) && invariant(y)) || (isInduction(y) && invariant(x)) {
				return true
			}
		}
	}
	return false
}

func checkC13(c *Ctx, r *Report) {
	r.Explain = "Structural necessary conditions for context-bounded blocking: (a) in transport.Send every socket write/read is behind either the matching Set*Deadline call fed from ctx.Deadline() of the ctx parameter or the arm on which the context has no deadline; (b) every Transport.Send call site passes a context derived with context.WithTimeout/WithDeadline from the enclosing function's ctx parameter; (c) every backoff.Retry uses backoff.WithContext(·, ctx) with that parameter; (d) ctx-threading — every call in the library that passes a context.Context passes one derived from the caller's own ctx parameter, never context.Background()/TODO(); (e) no other blocking primitive (sleep, channel operation, select, mutex/WaitGroup wait, goroutine start) occurs in library code; (f) every loop in a ctx-taking function either contains a ctx-threaded call on its cycle or is a counting loop bounded by local data; (g) no success without a response — every exit of the send closures returns to the retry loop what the outcome it handled requires, and an in-session transport failure recorded as terminal is what the caller gets. Not the numeric bound, not scheduling."
	r.NotDecided = []string{"the numeric bound deadline + allowance (wall-clock)", "scheduling delays", "blocking inside third-party code beyond the stated contracts"}
	r.Trusted = []string{"go/types, go/ssa (x/tools v0.29.0)", "net.UDPConn read/write honour the deadline last set", "backoff.WithContext stops retrying once the context is done", "context.WithTimeout never extends the parent's deadline"}

	// (g) no success without a response: what each exit of the send closures hands back to the
	// retry loop, and that a recorded in-session failure reaches the caller (shared with C10)
	checkClosureExits(c, r)

	// (h) no blocking call reports success over a failure it was told about
	// … and the operations handed to backoff.Retry (function literals run by code outside the
	// module, so part of no other function's view): an attempt that reports success must have
	// examined every error it was given
	errFns := c.ctxFuncs()
	for _, rs := range c.RetrySites() {
		if rs.Op != nil && rs.Op.Parent() != nil {
			errFns = append(errFns, rs.Op)
		}
	}
	checkErrorsExamined(c, r, "errors-examined", "every context-taking function of the library, and every operation handed to backoff.Retry, returns success only on paths where every error a module call returned was compared with nil: a failed exchange is never passed over", 10, errFns)

	// (a) transport.Send
	send := c.transportSend()
	r.Rule("socket-deadlines", "each blocking socket call in transport.Send is preceded on every path by the matching deadline call with the ctx parameter's deadline, or by the no-deadline arm of ctx.Deadline()", 2)
	if send == nil {
		r.Lost("transport.Send")
	} else {
		name := c.FnName(send)
		r.Fn(name)
		var ctxp *ssa.Parameter
		for _, p := range send.Params {
			if isContextType(p.Type()) {
				ctxp = p
			}
		}
		// Decided per feasible path of Send's flattened view: between a blocking socket call and
		// the previous one (or the start) the path either called the matching deadline setter with
		// ctx.Deadline()'s time, or took the arm on which the context has no deadline. The setter
		// may be called directly or through a function value handed to a helper
		// (`applyDeadline(ctx, conn.SetWriteDeadline)`): the callee is resolved on the path.
		calleeOn := func(p CPath, oc OccPos) string {
			cc := asCall(oc.In)
			if cc == nil {
				return ""
			}
			if n := calleeName(cc); n != "" && (cc.IsInvoke() || cc.StaticCallee() != nil) {
				return n
			}
			rv := p.Upto(oc.Seg).ResolveIn(oc.Ctx, cc.Value)
			for i := 0; i < 4; i++ {
				// a method value converted to a named function type and called through a parameter
				if ct, isCT := rv.(*ssa.ChangeType); isCT {
					rv = p.Upto(oc.Seg).ResolveIn(oc.Ctx, ct.X)
					continue
				}
				break
			}
			if mc, ok := rv.(*ssa.MakeClosure); ok {
				if f, ok := mc.Fn.(*ssa.Function); ok {
					return strings.TrimSuffix(f.String(), "$bound")
				}
			}
			return ""
		}
		isOneOf := func(n string, names []string) bool {
			for _, x := range names {
				if n == x {
					return true
				}
			}
			return false
		}
		okIO := map[string]bool{"write": true, "read": true}
		nIOk := map[string]int{}
		posIO := map[string]token.Pos{}
		completeS := enumPaths(send, 2, 200000, func(p CPath) {
			occs := p.OccsPos()
			// the ctx.Deadline() calls on the ctx parameter, by position
			isDeadlineOfCtx := func(v ssa.Value, at int) (*ssa.Call, bool) {
				ex, ok := v.(*ssa.Extract)
				if !ok {
					return nil, false
				}
				dc, ok := ex.Tuple.(*ssa.Call)
				if !ok || !dc.Call.IsInvoke() || dc.Call.Method.Name() != "Deadline" {
					return nil, false
				}
				pos := lastOcc(occs, at, dc)
				if pos < 0 {
					return nil, false
				}
				if p.Upto(occs[pos].Seg).ResolveIn(occs[pos].Ctx, dc.Call.Value) != ssa.Value(ctxp) {
					return nil, false
				}
				return dc, true
			}
			facts := p.boolFacts()
			prevIO := -1
			for i, oc := range occs {
				n := calleeOn(p, oc)
				kind := ""
				var setters []string
				switch {
				case isOneOf(n, sockWrites):
					kind, setters = "write", sockWriteDeadline
				case isOneOf(n, sockReads):
					kind, setters = "read", sockReadDeadline
				default:
					continue
				}
				nIOk[kind]++
				posIO[kind] = oc.In.Pos()
				good := false
				for j := i - 1; j > prevIO && !good; j-- {
					if !isOneOf(calleeOn(p, occs[j]), setters) {
						continue
					}
					args := callArgs(asCall(occs[j].In))
					if len(args) != 1 {
						continue
					}
					av := p.Upto(occs[j].Seg).ResolveIn(occs[j].Ctx, args[0])
					if ex, ok := av.(*ssa.Extract); ok && ex.Index == 0 {
						if _, ok := isDeadlineOfCtx(ex, j); ok {
							good = true
						}
					}
				}
				if !good {
					// the context has no deadline on this path
					for _, bf := range facts {
						ex, ok := bf.V.(*ssa.Extract)
						if !ok || ex.Index != 1 || bf.True {
							continue
						}
						at := lastOcc(occs, i, ex)
						if at > prevIO && at < i {
							if _, ok := isDeadlineOfCtx(ex, at); ok {
								good = true
							}
						}
					}
				}
				if !good {
					okIO[kind] = false
				}
				prevIO = i
			}
		})
		nIO := 0
		for _, kind := range []string{"write", "read"} {
			if nIOk[kind] == 0 {
				continue
			}
			nIO++
			r.Check(okIO[kind] && completeS, name+"|"+kind, posIO[kind], "deadline set from ctx before the call on every path", "socket "+kind+" can be reached without the "+kind+" deadline having been set from the context (blocks past the deadline)")
		}
		if nIO < 2 {
			r.Unk(name+"|socket calls", send.Pos(), fmt.Sprintf("found %d socket I/O calls, expected a write and a read", nIO))
		}
	}

	// (b) Send call sites
	r.Rule("per-attempt-timeout", "every Transport.Send call passes context.WithTimeout/WithDeadline(ctx parameter, …)", 1)
	for _, fn := range c.LibFuncs() {
		rawInstrs(fn, false, func(in ssa.Instruction) {
			if !isCallTo(in, fnTransportSend) {
				return
			}
			r.Fn(c.FnName(fn))
			arg := asCall(in).Args[0]
			ok := false
			why := "context passed to Send is not derived with context.WithTimeout/WithDeadline"
			if ex, isEx := arg.(*ssa.Extract); isEx && ex.Index == 0 {
				if call, isCall := ex.Tuple.(*ssa.Call); isCall && isCallTo(call, fnCtxWithTimeout, fnCtxWithDeadline) {
					switch p := ctxProvenance(fn, call.Call.Args[0]); p {
					case "param":
						ok = true
					default:
						why = "per-attempt context is derived from " + p + ", not from the caller's context"
					}
				}
			}
			r.Check(ok, c.FnName(fn)+"|Send(ctx)", in.Pos(), "WithTimeout(ctx param)", why)
		})
	}

	// (c) Retry sites
	checkRetryBoundedByContext(c, r)

	// (d) ctx threading
	r.Rule("ctx-threading", "every call passing a context.Context passes one derived from the caller's own ctx parameter", 40)
	for _, fn := range c.LibFuncs() {
		if len(ctxParamsOf(fn)) == 0 {
			// functions without any ctx in scope: any ctx they pass is foreign
			rawInstrs(fn, false, func(in ssa.Instruction) {
				if cc := asCall(in); cc != nil {
					for _, a := range cc.Args {
						if isContextType(a.Type()) {
							n := calleeName(cc)
							if strings.HasPrefix(n, "context.") {
								continue
							}
							// a method of a per-call state object passes on the context that object carries
							if prov := ctxProvenance(fn, a); prov == "param" {
								r.OK(c.FnName(fn)+"|"+shortName(n)+"(ctx)", in.Pos(), "the caller's context, carried by the call's state object")
							} else {
								r.Bad(c.FnName(fn)+"|"+shortName(n)+"(ctx)", in.Pos(), "a context is passed by a function that has no context parameter: "+prov)
							}
						}
					}
				}
			})
			continue
		}
		rawInstrs(fn, false, func(in ssa.Instruction) {
			cc := asCall(in)
			if cc == nil {
				return
			}
			n := calleeName(cc)
			if strings.HasPrefix(n, "context.") {
				return
			}
			for _, a := range cc.Args {
				if !isContextType(a.Type()) {
					continue
				}
				p := ctxProvenance(fn, a)
				key := c.FnName(fn) + "|" + shortName(n) + "(ctx)"
				if n == "" {
					key = c.FnName(fn) + "|dynamic call(ctx)"
				}
				r.Check(p == "param", key, in.Pos(), "ctx threaded from the caller", "context passed here comes from "+p+": the callee is not bounded by the caller's context")
			}
		})
	}

	checkContextUndiminished(c, r)

	// (e) other blocking primitives
	r.Rule("no-other-blocking", "library code contains no sleep, channel operation, select, lock/wait or goroutine start; the only blocking primitives are the deadline-guarded socket calls", 0)
	blockingCalls := map[string]bool{"time.Sleep": true, "time.After": true, "time.Tick": true, "time.NewTimer": true, "time.NewTicker": true,
		"(*sync.Mutex).Lock": true, "(*sync.RWMutex).Lock": true, "(*sync.RWMutex).RLock": true, "(*sync.WaitGroup).Wait": true, "(*sync.Cond).Wait": true, "(*sync.Once).Do": true}
	nFn := 0
	for _, fn := range c.LibFuncs() {
		nFn++
		rawInstrs(fn, false, func(in ssa.Instruction) {
			switch x := in.(type) {
			case *ssa.Select:
				r.Bad(c.FnName(fn)+"|select", in.Pos(), "select statement in library code (unbounded wait unless it has a ctx arm)")
			case *ssa.Send:
				r.Bad(c.FnName(fn)+"|chan send", in.Pos(), "channel send in library code")
			case *ssa.Go:
				r.Bad(c.FnName(fn)+"|go", in.Pos(), "goroutine started in library code")
			case *ssa.UnOp:
				if x.Op == token.ARROW {
					r.Bad(c.FnName(fn)+"|chan receive", in.Pos(), "channel receive in library code")
				}
			case *ssa.Call:
				if blockingCalls[calleeName(&x.Call)] {
					r.Bad(c.FnName(fn)+"|"+calleeName(&x.Call), in.Pos(), "blocking primitive not bounded by the context")
				}
				// socket I/O outside transport.Send
				if (isCallTo(in, sockReads...) || isCallTo(in, sockWrites...)) && send != nil && !c.privateTo(send, fn) {
					r.Bad(c.FnName(fn)+"|socket I/O", in.Pos(), "socket I/O outside transport.Send (no deadline discipline)")
				}
			}
		})
	}
	r.Extra["functions_scanned_for_blocking_primitives"] = nFn

	// (f) loops
	r.Rule("loops-ctx-bound", "every CFG cycle in a ctx-taking library function contains a call that threads the context (so an expired context ends it) or is a counting loop over local data", 5)
	for _, fn := range c.LibFuncs() {
		if len(ctxParamsOf(fn)) == 0 {
			continue
		}
		for i, comp := range sccs(fn) {
			hasCtxCall := false
			for _, b := range comp {
				for _, in := range b.Instrs {
					if cc := asCall(in); cc != nil {
						for _, a := range cc.Args {
							if isContextType(a.Type()) && ctxProvenance(fn, a) == "param" && !strings.HasPrefix(calleeName(cc), "context.") {
								hasCtxCall = true
							}
						}
					}
				}
			}
			key := fmt.Sprintf("%s|loop#%d", c.FnName(fn), i)
			var pos token.Pos
			for _, in := range comp[len(comp)-1].Instrs {
				if in.Pos().IsValid() {
					pos = in.Pos()
					break
				}
			}
			r.Fn(c.FnName(fn))
			switch {
			case hasCtxCall:
				r.OK(key, pos, "each iteration makes a ctx-bounded call")
			case countingLoop(comp):
				r.OK(key, pos, "counting loop over local data")
			default:
				r.Bad(key, pos, "loop in a blocking function neither threads the context nor is bounded by local data")
			}
		}
	}

	// the SDR retrieval reports success only for a walk in which every exchange succeeded
	// (rule shared with C14)
	if walk, _ := c.findSDRWalk(); walk != nil {
		checkWalkErrorsAbort(c, r, walk)
	} else {
		r.Rule("walk-errors-abort", "", 1)
		r.Lost("SDR walk")
	}

	// a command whose retries were given up is a failed command (rule shared by C04, C10, C13)
	checkRetryFailureReturned(c, r)
	checkSendSites(c, r)
	checkSuccessNeedsExchange(c, r)
	// the paged discovery reports success only if every page's exchange succeeded (shared with
	// C16, C12, C05, C17): a later page that fails — lost reply, busy for ever, the context's own
	// expiry — is not "end of list"
	checkChunkLoop(c, r)
}

// checkRetryBoundedByContext: rule shared by C13 (no call outlives its context) and C10
// (outside a session a lost reply is retried until *the caller's* context expires).
func checkRetryBoundedByContext(c *Ctx, r *Report) {
	r.Rule("retry-bounded-by-context", "every backoff.Retry runs under backoff.WithContext(·, ctx parameter)", 4)
	for _, rs := range c.RetrySites() {
		pname := c.FnName(rs.Parent)
		r.Fn(pname)
		ok := false
		why := "back-off is not wrapped with backoff.WithContext"
		// the policy may be a parameter of a (generic) retry helper: then every caller's argument
		// is judged, in the caller
		if len(rs.Call.Call.Args) == 2 {
			if args := c.paramArgs(rs.Call.Call.Args[1]); len(args) > 0 {
				ok = true
				for _, a := range args {
					call, isCall := stripConv(a).(*ssa.Call)
					if !isCall || !isCallTo(call, fnBackoffWithCtx) {
						ok = false
						continue
					}
					if p := ctxProvenance(call.Parent(), call.Call.Args[1]); p != "param" {
						ok, why = false, "retry loop is bounded by "+p+", not by the caller's context"
					}
				}
				r.Check(ok, pname+"|Retry(WithContext(ctx))", rs.Call.Pos(), "bounded by the context of every caller of the retry helper", why)
				continue
			}
		}
		if len(rs.Call.Call.Args) == 2 {
			if call, isCall := stripConv(rs.Call.Call.Args[1]).(*ssa.Call); isCall && isCallTo(call, fnBackoffWithCtx) {
				// the Retry call may sit in a helper the site's function calls with its own context
				// (`retry(ctx, op)`): the helper's parameter is read as the argument it received
				cv := call.Call.Args[1]
				owner := rs.Call.Parent()
				for i := 0; i < 4 && owner != rs.Parent; i++ {
					prm, isPrm := stripConv(cv).(*ssa.Parameter)
					if !isPrm || prm.Parent() != owner {
						break
					}
					nv := flatOf(rs.Parent).Val(prm)
					if nv == ssa.Value(prm) {
						break
					}
					cv = nv
					if in, isIn := nv.(ssa.Instruction); isIn {
						owner = in.Parent()
					} else if p2, isP := nv.(*ssa.Parameter); isP {
						owner = p2.Parent()
					}
				}
				switch p := ctxProvenance(rs.Parent, cv); p {
				case "param":
					ok = true
				default:
					why = "retry loop is bounded by " + p + ", not by the caller's context"
				}
			}
		}
		r.Check(ok, pname+"|Retry(WithContext(ctx))", rs.Call.Pos(), "bounded by the caller's context", why)
	}

}

// ctxShortened: v is (possibly through φ's, conversions and single-store locals) the result of
// context.WithTimeout / WithDeadline.
func ctxShortened(v ssa.Value) bool {
	seen := map[ssa.Value]bool{}
	var walk func(v ssa.Value) bool
	walk = func(v ssa.Value) bool {
		if v == nil || seen[v] {
			return false
		}
		seen[v] = true
		v = stripConv(v)
		switch x := v.(type) {
		case *ssa.Extract:
			if call, ok := x.Tuple.(*ssa.Call); ok && x.Index == 0 {
				switch calleeName(&call.Call) {
				case fnCtxWithTimeout, fnCtxWithDeadline, "context.WithTimeoutCause", "context.WithDeadlineCause":
					return true
				case "context.WithCancel", "context.WithCancelCause":
					return walk(call.Call.Args[0])
				}
			}
		case *ssa.Call:
			if calleeName(&x.Call) == "context.WithValue" {
				return walk(x.Call.Args[0])
			}
		case *ssa.Phi:
			for _, e := range x.Edges {
				if walk(e) {
					return true
				}
			}
		case *ssa.UnOp:
			if x.Op == token.MUL {
				if al, ok := x.X.(*ssa.Alloc); ok {
					for _, ref := range *al.Referrers() {
						if st, ok := ref.(*ssa.Store); ok && st.Addr == ssa.Value(al) && walk(st.Val) {
							return true
						}
					}
				}
			}
		}
		return false
	}
	return walk(v)
}

// checkContextUndiminished: the per-attempt timeout is for one attempt. A context shortened
// with WithTimeout/WithDeadline may be handed to Transport.Send only; a command, a handshake
// step, a retry loop or a whole helper run under it would give up (or stop retrying temporary
// codes and undecodable replies) long before the caller's context says so — rule shared by
// C10 ("keeps re-sending until a final answer arrives", bounded by the caller's context only)
// and C13.
func checkContextUndiminished(c *Ctx, r *Report) {
	r.Rule("context-undiminished", "a context derived with WithTimeout/WithDeadline is passed to Transport.Send only (one attempt); commands, handshake steps and retry loops run under the caller's own context", 1)
	n := 0
	for _, fn := range c.LibFuncs() {
		fn := fn
		rawInstrs(fn, false, func(in ssa.Instruction) {
			cc := asCall(in)
			if cc == nil {
				return
			}
			name := calleeName(cc)
			if strings.HasPrefix(name, "context.") {
				return
			}
			for _, a := range cc.Args {
				if !isContextType(a.Type()) {
					continue
				}
				short := ctxShortened(a)
				if isCallTo(in, fnTransportSend) {
					n++
					r.OK(c.FnName(fn)+"|Send(ctx)", in.Pos(), "per-attempt context goes to the transport")
					continue
				}
				if short {
					r.Bad(c.FnName(fn)+"|"+shortName(name)+"(shortened ctx)", in.Pos(), "a context cut down with WithTimeout/WithDeadline is passed to "+shortName(name)+": everything that call does — retries of temporary codes and undecodable replies included — ends with that timeout instead of with the caller's context")
				}
			}
		})
	}
	if n == 0 {
		r.Lost("Transport.Send call sites")
	}
}
