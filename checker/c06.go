package main

import (
	"fmt"
	"go/token"
	"go/types"
	"sort"
	"strings"

	"golang.org/x/tools/go/ssa"
)

func init() { register("C06", checkC06) }

// mergedShape is mergedLayout restricted to the paths feasible for a shape.
func mergedShape(evs []layoutEvents, kind string, ints map[string]int64, bools map[string]bool) (map[string][]string, int) {
	var sel []layoutEvents
	for _, le := range evs {
		if le.OK && le.feasibleWith(ints, bools) {
			sel = append(sel, le)
		}
	}
	return mergedLayout(sel, kind), len(sel)
}

// compareSpec checks the extracted layout of each layer against its table.
func compareSpec(c *Ctx, r *Report, specs []layerSpec, kind string, notCovered map[string][]string) {
	for _, sp := range specs {
		fn := c.Method(sp.Pkg, sp.Type, sp.Method)
		label := sp.Type + "." + sp.Method
		if sp.Shape != "" {
			label += " (" + sp.Shape + ")"
		}
		if fn == nil {
			r.Lost(label)
			continue
		}
		r.Fn(c.FnName(fn))
		evs, why := extractEvents(c, fn, sp.Widths)
		if why != "" {
			r.Unk(label+"|extraction", fn.Pos(), why)
			continue
		}
		got, n := mergedShape(evs, kind, sp.Ints, sp.Bools)
		if kind == "wire" {
			lens, _ := mergedShape(evs, "len", sp.Ints, sp.Bools)
			for k, v := range lens {
				got["len "+k] = v
			}
		}
		if n == 0 {
			r.Bad(label+"|paths", fn.Pos(), "no success path for this shape")
			continue
		}
		var names []string
		for k := range sp.Want {
			names = append(names, k)
		}
		sort.Strings(names)
		for _, k := range names {
			want := append([]string{}, sp.Want[k]...)
			sort.Strings(want)
			// a key ending in "?" is judged only when the extraction followed the value on every
			// path: a rendering beginning with "?" (a value assembled in a local array and
			// assigned whole, say) is not a layout the table can be compared with
			if strings.HasSuffix(k, "?") {
				k = strings.TrimSuffix(k, "?")
				opaque := false
				for _, x := range got[k] {
					if strings.HasPrefix(x, "?") {
						opaque = true
					}
				}
				if opaque {
					r.OK(label+"|"+k, fn.Pos(), "not judged: "+strings.Join(got[k], " | ")+" is not a form the extraction follows")
					continue
				}
			}
			g := got[k]
			ok := strings.Join(g, " | ") == strings.Join(want, " | ")
			gs := strings.Join(g, " | ")
			if len(g) == 0 {
				gs = "(never written)"
			}
			r.Check(ok, label+"|"+k, fn.Pos(), gs, fmt.Sprintf("%s: code has %s, %s says %s", k, gs, sp.Ref, strings.Join(want, " | ")))
		}
		if notCovered != nil {
			for k := range got {
				_, lenient := sp.Want[k+"?"]
				if _, ok := sp.Want[k]; !ok && !lenient && !strings.HasPrefix(k, "len ") {
					notCovered[label] = append(notCovered[label], k)
				}
			}
			sort.Strings(notCovered[label])
		}
	}
}

func checkC06(c *Ctx, r *Report) {
	r.Explain = "Request encodings against specification tables, decided on bit provenance (engine E2): every request serialiser is evaluated symbolically into, per output byte, an expression over field bits (masks, shifts, little-endian decomposition, literal bits, conditional flags as path sets) and compared with the table transcribed from IPMI v2.0/DCMI 1.5; the IPMI message and the RMCP+ session header are compared per shape (NetFn class, OEM payload, flags). Also: the operation table (NetFn, command, group body code of all 16 commands) and each command's Operation()/Request()/Response() binding; the literals the three build functions put into the RMCP, session and message layers; the order of the three algorithm payloads in the Open Session Request; the username-length guard before any buffer write in RAKP Message 1. Decides layouts for all field values within their wire width."
	r.NotDecided = []string{"the RMCP header bytes themselves (gopacket's layers.RMCP serialiser — only the values handed to it are checked)", "rolling-average period encoding arithmetic (C20, not decided)", "fields listed under not_covered in the evidence"}
	r.Trusted = []string{"go/types, go/ssa (x/tools v0.29.0)", "tables transcribed from IPMI v2.0 rev 1.1 and DCMI 1.5 (sections cited per layer)", "field values are within their wire width"}

	nc := map[string][]string{}
	r.Rule("request-layouts", "each request serialiser writes exactly the specified bytes", 80)
	compareSpec(c, r, requestSpecs, "wire", nc)
	r.Rule("message-layout", "the IPMI message header/trailer per NetFn class equals §13.8: addresses, NetFn/LUN, sequence/LUN, command, body code or IANA, checksum 1 over bytes 0–1, checksum 2 over byte 3…end", 30)
	compareSpec(c, r, shapedRequestSpecs, "wire", nc)
	r.Rule("session-header-layout", "the RMCP+ session header per shape equals §13.6", 30)
	compareSpec(c, r, sessionHeaderSpecs, "wire", nc)
	r.Extra["not_covered"] = nc

	// the values that go into correctly laid-out fields: setup payloads carry the caller's
	// privilege level, lookup mode and username and the BMC's session ID (rule shared with C01) ...
	{
		m := c.findCtor()
		found := map[string]*trSite{}
		if m != nil && m.M1 != nil && m.M2 != nil {
			sites, _ := c.transcriptSites(m)
			for k, st := range sites {
				if st.Shape == "" {
					found[k] = st
				}
			}
		}
		checkDriverOrder(c, r, found)
	}
	// ... the lookup flag of RAKP Message 1, which shares a byte with the level, for every username (shared with C01)
	checkRoleByteWire(c, r)
	// ... and the commands the library builds for the caller carry the caller's arguments
	checkHelperRequests(c, r)
	// ... including the reservation under which the SDR walk reads record bodies (shared with C14)
	checkWalkCommandsReserved(c, r)
	// ... of commands whose definitions (operation tables) nothing rewrites at run time (shared with C19, C03)
	checkPackageTablesReadOnly(c, r)
	// ... and whose named field values mean on the wire what their names say
	checkWireEnums(c, r)
	// "Get Sensor Reading with any owner LUN": the sensor readers send their own command, built
	// from the record (number and owner LUN), on every read (rules shared with C15, C20)
	checkSensorRead(c, r)
	// the DCMI power-reading period as the caller gave it: encoded arm by arm, saturating (C20's rule)
	checkRollingAvgEncoder(c, r)

	checkOperationTable(c, r)
	checkBuildLiterals(c, r)
	// every transmission, including retransmissions, is serialised from freshly built layers
	checkFreshLayers(c, r, "fresh-layers")

	// payload order in the Open Session Request
	r.Rule("open-session-payload-order", "the Open Session Request appends the authentication, integrity and confidentiality payloads in that order after the 8-byte header", 1)
	if fn := c.Method("pkg/ipmi", "OpenSessionReq", "SerializeTo"); fn == nil {
		r.Lost("ipmi.OpenSessionReq.SerializeTo")
	} else {
		var order []string
		var calls []ssa.Instruction
		allInstrs(fn, false, func(in ssa.Instruction) {
			if call, ok := in.(*ssa.Call); ok {
				if f := call.Call.StaticCallee(); f != nil && f.Name() == "Serialise" {
					if n := recvNamed(f); n != nil {
						order = append(order, n.Obj().Name())
						calls = append(calls, in)
					}
				}
			}
		})
		ok := strings.Join(order, ",") == "AuthenticationPayload,IntegrityPayload,ConfidentialityPayload"
		for i := 0; ok && i+1 < len(calls); i++ {
			ok = mustPrecede(fn, calls[i], calls[i+1])
		}
		// and each is applied to the field of the same name
		r.Check(ok, "ipmi.OpenSessionReq.SerializeTo|payload order", fn.Pos(), strings.Join(order, ","), "payloads are serialised in the order "+strings.Join(order, ",")+", want authentication, integrity, confidentiality")
	}

	// username guard (shared with C01)
	checkUsernameGuard(c, r)
	// byte 27 of RAKP1 is the username length and the name follows
	r.Rule("username-encoding", "RAKP Message 1 byte 27 is len(Username) and bytes 28… are the username; total length 28+len", 1)
	if fn := c.Method("pkg/ipmi", "RAKPMessage1", "SerializeTo"); fn != nil {
		evs, _ := extractEvents(c, fn, nil)
		got, _ := mergedShape(evs, "wire", nil, nil)
		lens, _ := mergedShape(evs, "len", nil, nil)
		ok := strings.Join(got["pre[27]"], "|") == "lin(len(f:Username))" && strings.Contains(strings.Join(lens["pre"], "|"), "len(f:Username) +28")
		name := false
		for k, v := range got {
			if strings.HasPrefix(k, "pre[28:") && strings.Contains(strings.Join(v, "|"), "copy(f:Username)") {
				name = true
			}
		}
		r.Check(ok && name, "ipmi.RAKPMessage1.SerializeTo|username", fn.Pos(), "length byte and name", fmt.Sprintf("username length/name encoding: byte27=%v, len=%v, name copied=%v", got["pre[27]"], lens["pre"], name))
	}
}

// checkOperationTable verifies NetFn/command/body of every command and the
// Operation()/Request()/Response() bindings.
func checkOperationTable(c *Ctx, r *Report) {
	ir := newInitReader(c)
	type op struct{ fn, cmd, body int64 }
	want := map[string]op{
		// ipmi package: OperationXxxReq globals
		"OperationGetChassisStatusReq": {0x00, 0x01, 0}, "OperationChassisControlReq": {0x00, 0x02, 0},
		"OperationGetDeviceIDReq": {0x06, 0x01, 0}, "OperationGetSystemGUIDReq": {0x06, 0x37, 0},
		"OperationGetChannelAuthenticationCapabilitiesReq": {0x06, 0x38, 0}, "OperationSetSessionPrivilegeLevelReq": {0x06, 0x3b, 0},
		"OperationCloseSessionReq": {0x06, 0x3c, 0}, "OperationGetSessionInfoReq": {0x06, 0x3d, 0}, "OperationGetChannelCipherSuitesReq": {0x06, 0x54, 0},
		"OperationGetSDRRepositoryInfoReq": {0x0a, 0x20, 0}, "OperationReserveSDRRepositoryReq": {0x0a, 0x22, 0}, "OperationGetSDRReq": {0x0a, 0x23, 0},
		"OperationGetSensorReadingReq": {0x04, 0x2d, 0},
	}
	wantDCMI := map[string]op{
		"operationGetDCMICapabilitiesInfoReq": {0x2c, 0x01, 0xdc}, "operationGetPowerReadingReq": {0x2c, 0x02, 0xdc}, "operationGetDCMISensorInfoReq": {0x2c, 0x07, 0xdc},
	}
	r.Rule("operation-table", "NetFn, command number and group body code of every request operation equal IPMI v2.0 appendix G / DCMI 1.5 table 6-1", 16)
	chk := func(rel string, tbl map[string]op) {
		var names []string
		for n := range tbl {
			names = append(names, n)
		}
		sort.Strings(names)
		for _, n := range names {
			w := tbl[n]
			v, g := ir.GlobalInit(rel, n)
			if g == nil {
				r.Lost(rel + "." + n)
				continue
			}
			get := func(f string) int64 {
				if x, ok := v.Fields[f]; ok {
					k, _ := x.Int()
					return k
				}
				return 0
			}
			got := op{get("Function"), get("Command"), get("Body")}
			r.Check(got == w, n, g.Pos(), fmt.Sprintf("NetFn %#x cmd %#x body %#x", got.fn, got.cmd, got.body), fmt.Sprintf("%s is NetFn %#x cmd %#x body %#x, specification: NetFn %#x cmd %#x body %#x", n, got.fn, got.cmd, got.body, w.fn, w.cmd, w.body))
		}
	}
	chk("pkg/ipmi", want)
	chk("pkg/dcmi", wantDCMI)

	// bindings: every type implementing ipmi.Command — identified by the constant its Name() returns —
	// returns a pointer to an operation with the specified (NetFn, command, body) and its own Req/Rsp layers
	checkRequestPassedWhole(c, r)
	r.Rule("command-bindings", "every Command's Operation() points at the operation the specification assigns to the command named by Name(); Request()/Response() return the command's own layers", 16)
	byName := map[string]op{
		"Get Device ID": {0x06, 0x01, 0}, "Get System GUID": {0x06, 0x37, 0}, "Get Channel Authentication Capabilities": {0x06, 0x38, 0},
		"Set Session Privilege Level": {0x06, 0x3b, 0}, "Close Session": {0x06, 0x3c, 0}, "Get Session Info": {0x06, 0x3d, 0}, "Get Channel Cipher Suites": {0x06, 0x54, 0},
		"Get Chassis Status": {0x00, 0x01, 0}, "Chassis Control": {0x00, 0x02, 0},
		"Get SDR Repository Info": {0x0a, 0x20, 0}, "Reserve SDR Repository": {0x0a, 0x22, 0}, "Get SDR": {0x0a, 0x23, 0}, "Get Sensor Reading": {0x04, 0x2d, 0},
		"Get Power Reading": {0x2c, 0x02, 0xdc}, "Get DCMI Sensor Info": {0x2c, 0x07, 0xdc}, "Get DCMI Capabilities Info": {0x2c, 0x01, 0xdc},
	}
	cmdI := c.Named("pkg/ipmi", "Command")
	if cmdI == nil {
		r.Lost("ipmi.Command")
		return
	}
	iface := cmdI.Underlying().(*types.Interface)
	var uncovered []string
	for _, p := range c.ModulePackages() {
		scope := p.Types.Scope()
		for _, n := range scope.Names() {
			tn, ok := scope.Lookup(n).(*types.TypeName)
			if !ok {
				continue
			}
			named, ok := tn.Type().(*types.Named)
			if !ok || !types.Implements(types.NewPointer(named), iface) {
				continue
			}
			if _, isI := named.Underlying().(*types.Interface); isI {
				continue
			}
			opFn := c.MethodOf(named, "Operation")
			nameFn := c.MethodOf(named, "Name")
			if opFn == nil || opFn.Blocks == nil || nameFn == nil || nameFn.Blocks == nil {
				continue
			}
			r.Fn(c.FnName(opFn))
			cname := ""
			for _, ret := range returnsOf(nameFn) {
				if k, ok := ret.Results[0].(*ssa.Const); ok && k.Value != nil {
					cname = strings.Trim(k.Value.ExactString(), "\"")
				}
			}
			key := cname
			if i := strings.Index(key, " ("); i > 0 {
				key = key[:i]
			}
			w, known := byName[key]
			label := p.Types.Name() + "." + named.Obj().Name() + "|bindings"
			if !known {
				uncovered = append(uncovered, named.Obj().Name()+" ("+cname+")")
				continue
			}
			got := op{-1, -1, -1}
			gotG := "?"
			for _, ret := range returnsOf(opFn) {
				if g, ok := ret.Results[0].(*ssa.Global); ok {
					gotG = g.Name()
					v := ir.global(g)
					get := func(f string) int64 {
						if x, ok := v.Fields[f]; ok {
							k, _ := x.Int()
							return k
						}
						return 0
					}
					got = op{get("Function"), get("Command"), get("Body")}
				}
			}
			okLayers := true
			for _, mname := range []string{"Request", "Response"} {
				mf := c.MethodOf(named, mname)
				if mf == nil || mf.Blocks == nil {
					continue
				}
				for _, ret := range returnsOf(mf) {
					v := stripConv(ret.Results[0])
					if isNilConst(v) || v == ssa.Value(mf.Params[0]) {
						continue
					}
					if fa, ok := v.(*ssa.FieldAddr); ok && fa.X == ssa.Value(mf.Params[0]) {
						continue
					}
					okLayers = false
				}
			}
			r.Check(got == w && okLayers, label, opFn.Pos(), fmt.Sprintf("%q → %s = NetFn %#x cmd %#x body %#x", cname, gotG, got.fn, got.cmd, got.body),
				fmt.Sprintf("command %q uses operation %s (NetFn %#x cmd %#x body %#x), specification: NetFn %#x cmd %#x body %#x; own layers returned=%v", cname, gotG, got.fn, got.cmd, got.body, w.fn, w.cmd, w.body, okLayers))
		}
	}
	sort.Strings(uncovered)
	r.Extra["commands_not_in_table"] = uncovered
}

// checkBuildLiterals verifies the constants the three build functions put into the layers.
func checkBuildLiterals(c *Ctx, r *Report) {
	r.Rule("build-literals", "RMCP {version 6, sequence 0xFF (no ACK), class 7 IPMI}; message addressed to the BMC (0x20) from remote console software ID (0x81), LUN from the command, operation copied from the command, sequence 1", 7)
	seen := map[*ssa.Function]bool{}
	for _, sc := range c.SendClosures() {
		for _, fn := range []*ssa.Function{sc.Parent, sc.Fn} {
			if seen[fn] {
				continue
			}
			seen[fn] = true
			name := c.FnName(fn)
			// per path reaching the serialisation: what the RMCP and message layers hold there —
			// a literal assigned whole, or a zero value filled in field by field
			type verdict struct {
				ok  bool
				why string
				pos token.Pos
			}
			res := map[string]*verdict{}
			note := func(key string, ok bool, why string, pos token.Pos) {
				v := res[key]
				if v == nil {
					v = &verdict{ok: true, pos: pos}
					res[key] = v
				}
				if !ok && v.ok {
					v.ok, v.why, v.pos = false, why, pos
				}
			}
			enumPaths(fn, 1, 20000, func(p CPath) {
				occs := p.OccsPos()
				for at, oc := range occs {
					if !isCallTo(oc.In, fnSerializeLayers) {
						continue
					}
					// the objects whose layer fields this path assigned before serialising
					roots := map[ssa.Value]map[string]token.Pos{}
					for i := 0; i < at; i++ {
						st, ok := occs[i].In.(*ssa.Store)
						if !ok {
							continue
						}
						ap := p.Upto(occs[i].Seg).APIn(occs[i].Ctx, st.Addr)
						as := ap.SelString()
						for _, sel := range []string{fRmcp, fMsg} {
							if as == sel || strings.HasPrefix(as, sel+".") {
								if roots[ap.Root] == nil {
									roots[ap.Root] = map[string]token.Pos{}
								}
								roots[ap.Root][sel] = st.Pos()
							}
						}
					}
					for root, sels := range roots {
						for sel, pos := range sels {
							f, whole := p.structAt(occs, at, root, sel)
							if !whole {
								continue
							}
							switch sel {
							case fRmcp:
								get := func(n string) int64 {
									k, _ := constInt(f[n])
									return k
								}
								okk := get("Version") == 6 && get("Sequence") == 0xff && get("Class") == 7 && len(f) == 3
								note("RMCP literal", okk, fmt.Sprintf("RMCP header literal is version %d sequence %#x class %d", get("Version"), get("Sequence"), get("Class")), pos)
							case fMsg:
								okAddr := callConstArg(f["RemoteAddress"], "Address") == 0x10 && callConstArg(f["LocalAddress"], "Address") == 0x40
								okLUN := false
								if call, ok := f["RemoteLUN"].(*ssa.Call); ok && call.Call.IsInvoke() && call.Call.Method.Name() == "RemoteLUN" {
									okLUN = true
								}
								okOp := false
								for _, fv := range f { // the embedded Operation struct is a promoted (unnamed) selector
									if ld, ok := fv.(*ssa.UnOp); ok {
										// *c.Operation(), called where the literal is built or once before the
										// retried operation and kept in a variable it captures
										src := p.Resolve(ld.X)
										for i := 0; i < 4; i++ {
											l2, isLd := src.(*ssa.UnOp)
											if !isLd || l2.Op != token.MUL {
												break
											}
											var cell *ssa.Alloc
											switch a := l2.X.(type) {
											case *ssa.FreeVar:
												cell, _ = freeVarBinding(a).(*ssa.Alloc)
											case *ssa.Alloc:
												cell = a
											}
											if cell == nil {
												break
											}
											sv := singleStore(cell)
											if sv == nil {
												break
											}
											src = sv
										}
										if call, ok := src.(*ssa.Call); ok && call.Call.IsInvoke() && call.Call.Method.Name() == "Operation" {
											okOp = true
										}
									}
								}
								seq, _ := constInt(f["Sequence"])
								note("message literal", okAddr && okLUN && okOp && seq == 1, fmt.Sprintf("message literal: addresses ok=%v LUN from command=%v operation from command=%v sequence=%d", okAddr, okLUN, okOp, seq), pos)
							}
						}
					}
				}
			})
			for _, key := range []string{"RMCP literal", "message literal"} {
				v := res[key]
				if v == nil {
					continue
				}
				good := "version 6, sequence 0xFF, class 7"
				if key == "message literal" {
					good = "BMC slave address 0x10→0x20, software ID 0x40→0x81, LUN and operation from the command, sequence 1"
				}
				r.Check(v.ok, name+"|"+key, v.pos, good, v.why)
			}
		}
	}
	// the Address() helpers: slave address<<1, software ID<<1|1
	for _, w := range []struct{ typ, want string }{{"SlaveAddress", "{f[6:0],0b0}"}, {"SoftwareID", "{f[6:0],0b1}"}} {
		fn := c.Method("pkg/ipmi", w.typ, "Address")
		if fn == nil {
			r.Lost("ipmi." + w.typ + ".Address")
			continue
		}
		rets := returnsOf(fn)
		ok := false
		if len(rets) == 1 {
			// (x << 1) | lsb
			v := stripConv(rets[0].Results[0])
			lsb := int64(0)
			if bo, isBo := v.(*ssa.BinOp); isBo && bo.Op == token.OR {
				if k, isK := constInt(bo.Y); isK {
					lsb = k
					v = stripConv(bo.X)
				}
			}
			if bo, isBo := v.(*ssa.BinOp); isBo && bo.Op == token.SHL {
				if k, isK := constInt(bo.Y); isK && k == 1 && stripConv(bo.X) == ssa.Value(fn.Params[0]) {
					ok = (w.typ == "SlaveAddress" && lsb == 0) || (w.typ == "SoftwareID" && lsb == 1)
				}
			}
		}
		r.Check(ok, "ipmi."+w.typ+".Address", fn.Pos(), w.want, "address byte is not value<<1 with the slave/software-ID bit")
	}
}

// callConstArg: v is a call of method `name` with a constant receiver/argument; returns that constant.
func callConstArg(v ssa.Value, name string) int64 {
	call, ok := v.(*ssa.Call)
	if !ok || call.Call.StaticCallee() == nil || call.Call.StaticCallee().Name() != name || len(call.Call.Args) != 1 {
		return -1
	}
	k, isK := constInt(call.Call.Args[0])
	if !isK {
		return -1
	}
	return k
}

// checkRequestPassedWhole: the exported helpers that take a request (`GetSessionInfo(ctx,
// *ipmi.GetSessionInfoReq)`, …) and wrap it in a command send what the caller asked for: the
// command's Req is the whole parameter (`Req: *r`), or every field of it copied from the same
// field of the parameter. A helper that copies only some fields sends zero for the others.
func checkRequestPassedWhole(c *Ctx, r *Report) {
	r.Rule("request-passed-whole", "a helper that wraps its request parameter in a command copies the whole request (or every one of its fields)", 4)
	for _, fn := range c.LibFuncs() {
		if fn.Parent() != nil || !c.libFn(fn) {
			continue
		}
		for _, prm := range fn.Params {
			pt, ok := prm.Type().Underlying().(*types.Pointer)
			if !ok {
				continue
			}
			reqT, ok := pt.Elem().(*types.Named)
			if !ok {
				continue
			}
			reqS, ok := reqT.Underlying().(*types.Struct)
			if !ok {
				continue
			}
			rawInstrs(fn, false, func(in ssa.Instruction) {
				al, ok := in.(*ssa.Alloc)
				if !ok {
					return
				}
				cmdS, ok := al.Type().(*types.Pointer).Elem().Underlying().(*types.Struct)
				if !ok {
					return
				}
				hasReq := false
				for i := 0; i < cmdS.NumFields(); i++ {
					if cmdS.Field(i).Name() == "Req" && types.Identical(cmdS.Field(i).Type(), reqT) {
						hasReq = true
					}
				}
				if !hasReq {
					return
				}
				key := c.FnName(fn) + "|" + reqT.Obj().Name()
				f, _, _ := complitFieldsAlloc(al)
				loadOfParamField := func(v ssa.Value, field string) bool {
					ld, ok := stripConv(v).(*ssa.UnOp)
					if !ok || ld.Op != token.MUL {
						return false
					}
					if field == "" {
						return ld.X == ssa.Value(prm)
					}
					fa, ok := ld.X.(*ssa.FieldAddr)
					if !ok || fa.X != ssa.Value(prm) {
						return false
					}
					sf := structField(fa.X.Type(), fa.Field)
					return sf != nil && sf.Name() == field
				}
				if v, whole := f["Req"]; whole {
					r.Check(loadOfParamField(v, ""), key, al.Pos(), "Req is the whole request parameter", "the command's request is not the request the caller passed")
					return
				}
				var missing []string
				n := 0
				for i := 0; i < reqS.NumFields(); i++ {
					fld := reqS.Field(i)
					if fld.Embedded() {
						continue // the layer bookkeeping (BaseLayer) is not part of the request
					}
					n++
					if v, has := f["Req."+fld.Name()]; !has || !loadOfParamField(v, fld.Name()) {
						missing = append(missing, fld.Name())
					}
				}
				if n == 0 {
					return
				}
				sort.Strings(missing)
				r.Check(len(missing) == 0, key, al.Pos(), "every field of the request parameter is copied", "the command's request does not carry the caller's "+strings.Join(missing, ", ")+": the helper sends zero there whatever was asked")
			})
		}
	}
}

// checkUsernameGuard: the only usernames RAKP Message 1 refuses are those longer than 16 bytes,
// and it refuses them before anything is written. Shared with C01 ("all usernames of 0..16
// bytes": a guard that also refuses 16 fails the handshake before it starts).
func checkUsernameGuard(c *Ctx, r *Report) {
	r.Rule("username-guard", "a username longer than 16 bytes is rejected before anything is written to the buffer", 1)
	if fn := c.Method("pkg/ipmi", "RAKPMessage1", "SerializeTo"); fn == nil {
		r.Lost("ipmi.RAKPMessage1.SerializeTo")
	} else {
		ok := false
		for _, ifi := range ifsOf(fn) {
			op, x, y, _, isBin := condOf(ifi.Cond)
			if !isBin || op != token.GTR {
				continue
			}
			arg, isLen := lenOf(x)
			k, isK := constInt(y)
			if !isLen || !isK || k != 16 {
				continue
			}
			if ld, isLd := arg.(*ssa.UnOp); !isLd || apOf(ld.X).SelString() != "Username" {
				continue
			}
			// the "too long" arm returns an error; every buffer operation is behind the other arm
			tooLong := ifi.Block().Succs[0]
			ret, isRet := tooLong.Instrs[len(tooLong.Instrs)-1].(*ssa.Return)
			if !isRet || isNilConst(ret.Results[0]) {
				continue
			}
			ok = true
			allInstrs(fn, false, func(in ssa.Instruction) {
				if cc := asCall(in); cc != nil && cc.IsInvoke() && strings.HasSuffix(cc.Value.Type().String(), "SerializeBuffer") {
					if reachAvoiding(fn, nil, nil, map[edge]bool{{ifi.Block(), ifi.Block().Succs[1]}: true})[in.Block()] {
						ok = false
					}
				}
			})
		}
		r.Check(ok, "ipmi.RAKPMessage1.SerializeTo|len(Username) > 16", fn.Pos(), "rejected with an error before the buffer is touched", "a username longer than 16 bytes is not rejected before the buffer is written (it would be truncated or overflow the length byte)")
	}
}
