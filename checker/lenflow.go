package main

// Engine E1 "lenflow": a path-sensitive abstract interpreter over go/ssa that
// tracks integers as linear forms over symbols (input lengths, loaded bytes,
// call results), slices by their length, and a store of linear constraints;
// every index, slice, make, division and contract precondition reached from
// an entry point becomes an obligation that must be entailed by the
// constraints of *every* path reaching it (Fourier–Motzkin with integer
// tightening). Slice bounds are checked against len, not cap: a reply is a
// window on a reused receive buffer, so slicing beyond len reads stale bytes.
// Loops are summarised by Houdini-style inferred invariants at the loop head.
// Nothing is executed: all values are symbolic.

import (
	"fmt"
	"go/constant"
	"go/token"
	"go/types"
	"sort"
	"strings"
	"sync"

	"golang.org/x/tools/go/ssa"
)

// ---------------------------------------------------------------- values

type lfVal interface{}

type vInt struct {
	E Lin
	B *bv // bit provenance (nil = unknown); only maintained in bits mode
}
type vSlice struct {
	Len Lin
	Org *sliceOrg // identity/offset within a named byte buffer (wire input or output)
	// bits mode: an array value copied out of a local array (`return buf` of a [4]byte the
	// function filled) carries the elements it had when copied: heap-key suffix → value
	Snap *arrSnap
}

type arrSnap struct{ Elems map[string]lfVal }

// sliceOrg identifies a window into a byte buffer: Name "d" for decoder input,
// "pre<n>"/"app<n>" for bytes obtained from SerializeBuffer.PrependBytes/AppendBytes.
type sliceOrg struct {
	ID   int
	Name string
	Off  Lin
}

type elemRef struct {
	Org *sliceOrg
	Idx Lin // index within the buffer (offset already added)
}
type vBoolConst bool
type vCmp struct { // a OP b over integers
	Op   token.Token
	A, B Lin
	Bit  *bvBit // when set: the comparison is true exactly when this bit is 1
}
type vOpaqueBool struct {
	ID   int
	Name string // bits mode: the receiver field this boolean was loaded from
}
type vNot struct{ X lfVal }
type vPtr struct {
	Obj  int
	Path string
	Nil  int      // 0 non-nil/unknown, 1 definitely nil (literal)
	Elem *elemRef // element of a named byte buffer
}
type vNilable struct { // interface / pointer-ish value whose nil-ness matters
	ID    int
	Nil   int           // 1 nil, 2 non-nil, 0 unknown
	Dyn   *ssa.Function // for function values: the known function
	Inner lfVal         // for interfaces made from a known value
}
type vTuple []lfVal
type vFloat struct { // E / Den as a real number
	E   Lin
	Den int64
	Op  string // "", "ceil", "floor"
}
type vFunc struct {
	Fn   *ssa.Function
	Bind []lfVal
}
type vOpaque struct{}

// ---------------------------------------------------------------- state

type lfState struct {
	cons    []Cons
	heap    map[string]lfVal
	decided map[int]bool // opaque boolean id → value chosen on this path
	trail   []string     // human-readable branch decisions (for reports)
	events  []lfEvent    // bits mode: stores to receiver fields / output bytes, in order
	// bits mode, only with lfEngine.bitFacts: source bits whose value the branches taken so far
	// have fixed ("src#idx" → value); a branch contradicting one is infeasible
	bitFacts map[string]bool
}

type lfEvent struct {
	Kind, Name, Val string
	Pos             token.Pos
	B               *bv  // structured value when known (integers: bits; booleans: one bit)
	L               *Lin // for "len" events: the requested length
	// element events ("wire" stores with a symbolic index, "cmp" comparisons of a loaded byte):
	Org string // buffer the element belongs to
	Idx *Lin   // its index in that buffer
	V   *Lin   // the value stored / compared with, as a linear form (nil when not linear)
	// events of a loop body, generalised over its iterations (Kind prefixed "loop:"):
	Loop *lfLoopMeta
	// hash events: which hash object the bytes went into / was summed / reset, and the
	// position of the call in the entry function that led to it (the event itself may come
	// from a wrapper or helper interpreted inline)
	Recv    string
	RootPos token.Pos
}

// lfLoopMeta describes the loop an event was generalised over: the symbols
// standing for the loop-carried integers at the head of an iteration, each
// with its value on entry and, when every back edge adds the same constant,
// that stride; the conditions under which the iteration reaches the back edge;
// and what is known at the head of every iteration.
type lfLoopMeta struct {
	Pos    token.Pos
	Syms   []Sym
	Entry  map[Sym]Lin
	Stride map[Sym]int64 // 0 = not a constant stride
	Guard  []string      // conditions (rendered) taken from the head to the back edge
	Cons   []Cons        // constraints at the back edge of the generalised iteration
}

// lfSumRef is the range of a tracked buffer a checksum was computed over.
type lfSumRef struct {
	Org      string
	Off, Len Lin
}

// lfElemRef locates a byte that was loaded from a tracked buffer.
type lfElemRef struct {
	Org string
	Idx Lin
}

func (s *lfState) clone() *lfState {
	n := &lfState{cons: append([]Cons{}, s.cons...), heap: make(map[string]lfVal, len(s.heap)), decided: make(map[int]bool, len(s.decided)), trail: append([]string{}, s.trail...), events: append([]lfEvent{}, s.events...)}
	for k, v := range s.heap {
		n.heap[k] = v
	}
	for k, v := range s.decided {
		n.decided[k] = v
	}
	if s.bitFacts != nil {
		n.bitFacts = make(map[string]bool, len(s.bitFacts))
		for k, v := range s.bitFacts {
			n.bitFacts[k] = v
		}
	}
	return n
}

type lfFrame struct {
	fn     *ssa.Function
	env    map[ssa.Value]lfVal
	parent *lfFrame
	site   *ssa.Call // the call, in the parent frame, that this frame interprets
	depth  int
	loops  []*Loop
	active []*lfLoopCtx
}

func (f *lfFrame) cloneEnv() *lfFrame {
	n := *f
	n.env = make(map[ssa.Value]lfVal, len(f.env))
	for k, v := range f.env {
		n.env[k] = v
	}
	n.active = append([]*lfLoopCtx{}, f.active...)
	return &n
}

// emitting: events are recorded (top-level analysis, or a loop-capture pass).
func (e *lfEngine) emitting() bool { return e.onStore != nil && (e.quiet == 0 || e.capture > 0) }

type lfLoopCtx struct {
	loop   *Loop
	onBack func(fr *lfFrame, st *lfState, from *ssa.BasicBlock)
	final  bool
}

type lfObl struct {
	Key     string
	Pos     token.Pos
	What    string
	Proved  int
	Failed  int
	Unknown int
	Why     string
}

type lfEngine struct {
	bitFacts bool // record, per path, the source bits fixed by single-bit tests (lfState.bitFacts)
	// extraction mode (bits mode, string decoders): slices made by the function are tracked
	// buffers "mk<n>" (stores into them are wire events of the element's width), a byte loaded
	// from the input at a symbolic index is a source "ld<sym>" (its index is in elemLoads), a
	// read of a constant package-level table is tbl:<name>(index bits), and []rune→string keeps
	// the identity of the slice
	extract bool
	nMade   int
	// wrapExact: narrowing conversions and narrow arithmetic keep the wrapped value as a linear
	// form (x − W·k), single-bit masks decompose their operand (used for value statements
	// about small arithmetic helpers, not for the bounds analysis)
	wrapExact   bool
	c           *Ctx
	symNames    []string
	nextID      int
	obls        map[string]*lfObl
	order       []string
	quiet       int
	steps       int
	maxSteps    int
	maxDepth    int
	analysed    map[*ssa.Function]bool
	addrTaken   map[string][]*ssa.Function
	pure        map[*ssa.Function]int                             // 0 unknown, 1 pure, 2 impure
	loopsSeen   map[string]string                                 // loop key → termination verdict
	onHeapStore func(st *lfState, x *ssa.Store, p vPtr, sv lfVal) // observer of stores through pointers (rules that ask the engine about one store)
	onEnter     func(st *lfState, callee *ssa.Function)           // observer of calls interpreted inline (may mark the state's trail)
	onCall      func(fr *lfFrame, st *lfState, x *ssa.Call)       // observer of every call before it is interpreted (may append events)
	loopPend    map[string]*Loop                                  // loops with no syntactic ranking argument yet: decided by resolveLoops from sliceLow
	sliceLow    map[*ssa.Slice]int8                               // s[k:] executed: +1 when k ≥ 1 was entailed in every state that reached it, -1 otherwise
	loopPos     map[string]token.Pos
	budgetHit   bool
	entryName   string
	pending     []*ssa.Function
	scheduled   map[*ssa.Function]bool
	copyTotal   map[*ssa.Call]*lfCopy

	// bits mode (engine E2)
	bits    bool
	recvObj int // object id of the entry function's receiver
	// tracked: objects whose fields are tracked by name: the receiver ("" prefix) and, when
	// paramNames is set, pointer-to-struct parameters (prefix "<name>.")
	arrOrg     map[string]int // local/field array → identity of its slices
	paramSyms  map[int]Sym    // integer parameters of the entry function → their symbols
	tracked    map[int]string
	typeNames  map[string]string // bits mode: objects of these struct types (by type string) get this field-name prefix wherever they are created
	paramNames map[int]string    // parameter index → name under which its fields are tracked
	onStore    func(st *lfState, kind, name string, val string, pos token.Pos, b *bv)
	onReturn   func(st *lfState, rets []lfVal)
	bufSeq     int
	initR      *initReader
	boolName   map[int]string
	// fieldWidth: bits mode: wire width of receiver fields narrower than their
	// Go type (values are assumed to be within their wire width)
	fieldWidth map[string]int
	// capture > 0: a loop body is being run once more only to record its events
	capture int
	// elemLoads: symbols standing for bytes loaded from a tracked buffer
	elemLoads map[Sym]lfElemRef
	// sumOf: symbols standing for the checksum of a range of a tracked buffer
	sumOf map[Sym]lfSumRef
	// dLen: length of the entry function's input byte slice (buffer "d")
	dLen *Lin
}

type lfCopy struct{ Total, Partial int }

func newLenflow(c *Ctx, maxDepth int) *lfEngine {
	e := &lfEngine{c: c, obls: map[string]*lfObl{}, maxSteps: 4000000, maxDepth: maxDepth, analysed: map[*ssa.Function]bool{}, scheduled: map[*ssa.Function]bool{}, copyTotal: map[*ssa.Call]*lfCopy{}, pure: map[*ssa.Function]int{}, loopsSeen: map[string]string{}, loopPos: map[string]token.Pos{}, loopPend: map[string]*Loop{}, sliceLow: map[*ssa.Slice]int8{}}
	e.addrTaken = map[string][]*ssa.Function{}
	for _, fn := range c.ModFn {
		if fn.Blocks == nil {
			continue
		}
		rawInstrs(fn, false, func(in ssa.Instruction) {
			for _, op := range in.Operands(nil) {
				if op == nil || *op == nil {
					continue
				}
				var f *ssa.Function
				switch x := (*op).(type) {
				case *ssa.Function:
					f = x
				case *ssa.MakeClosure:
					f, _ = x.Fn.(*ssa.Function)
				}
				if f == nil || !c.InModule(f) {
					continue
				}
				if call := asCall(in); call != nil && call.Value == *op {
					continue // in call position
				}
				k := sigKey(f.Signature)
				dup := false
				for _, g := range e.addrTaken[k] {
					if g == f {
						dup = true
					}
				}
				if !dup {
					e.addrTaken[k] = append(e.addrTaken[k], f)
				}
			}
		})
	}
	return e
}

// sigKey renders a signature without parameter names or receiver.
func sigKey(sig *types.Signature) string {
	var sb strings.Builder
	sb.WriteString("func(")
	for i := 0; i < sig.Params().Len(); i++ {
		if i > 0 {
			sb.WriteString(",")
		}
		sb.WriteString(types.TypeString(sig.Params().At(i).Type(), nil))
	}
	sb.WriteString(")(")
	for i := 0; i < sig.Results().Len(); i++ {
		if i > 0 {
			sb.WriteString(",")
		}
		sb.WriteString(types.TypeString(sig.Results().At(i).Type(), nil))
	}
	sb.WriteString(")")
	if sig.Variadic() {
		sb.WriteString("...")
	}
	return sb.String()
}

// newLenflowShared creates a worker engine that shares the read-only tables of base.
func newLenflowShared(c *Ctx, maxDepth int, base *lfEngine) *lfEngine {
	e := &lfEngine{c: c, obls: map[string]*lfObl{}, maxSteps: base.maxSteps, maxDepth: maxDepth, analysed: map[*ssa.Function]bool{}, scheduled: map[*ssa.Function]bool{}, copyTotal: map[*ssa.Call]*lfCopy{}, pure: map[*ssa.Function]int{}, loopsSeen: map[string]string{}, loopPos: map[string]token.Pos{}, loopPend: map[string]*Loop{}, sliceLow: map[*ssa.Slice]int8{}}
	e.addrTaken = base.addrTaken
	e.bits = base.bits
	e.fieldWidth = base.fieldWidth
	return e
}

// merge folds a worker's results into e.
func (e *lfEngine) merge(w *lfEngine) {
	for _, key := range w.order {
		o := w.obls[key]
		if cur, ok := e.obls[key]; ok {
			cur.Proved += o.Proved
			cur.Failed += o.Failed
			cur.Unknown += o.Unknown
			if cur.Why == "" {
				cur.Why = o.Why
			}
		} else {
			e.obls[key] = o
			e.order = append(e.order, key)
		}
	}
	for k, v := range w.loopsSeen {
		e.loopsSeen[k] = v
		e.loopPos[k] = w.loopPos[k]
	}
	for k, l := range w.loopPend {
		e.loopPend[k] = l
	}
	for sl, v := range w.sliceLow {
		if cur, ok := e.sliceLow[sl]; !ok || v < cur {
			e.sliceLow[sl] = v
		}
	}
	for f := range w.analysed {
		e.analysed[f] = true
	}
	for k, v := range w.copyTotal {
		if cur, ok := e.copyTotal[k]; ok {
			cur.Total += v.Total
			cur.Partial += v.Partial
		} else {
			e.copyTotal[k] = v
		}
	}
}

func (e *lfEngine) newSym(name string) Sym {
	e.symNames = append(e.symNames, name)
	return Sym(len(e.symNames) - 1)
}

func (e *lfEngine) id() int { e.nextID++; return e.nextID }

func (e *lfEngine) linString(a Lin) string {
	var parts []string
	for _, s := range a.syms() {
		k := a.T[s]
		n := e.symNames[s]
		switch k {
		case 1:
			parts = append(parts, "+"+n)
		case -1:
			parts = append(parts, "-"+n)
		default:
			parts = append(parts, fmt.Sprintf("%+d·%s", k, n))
		}
	}
	if a.C != 0 || len(parts) == 0 {
		parts = append(parts, fmt.Sprintf("%+d", a.C))
	}
	return strings.TrimPrefix(strings.Join(parts, " "), "+")
}

// ---------------------------------------------------------------- type helpers

func intRange(t types.Type) (lo, hi int64, bounded bool) {
	b, ok := t.Underlying().(*types.Basic)
	if !ok {
		return 0, 0, false
	}
	switch b.Kind() {
	case types.Uint8:
		return 0, 255, true
	case types.Uint16:
		return 0, 65535, true
	case types.Uint32:
		return 0, 1<<32 - 1, true
	case types.Int8:
		return -128, 127, true
	case types.Int16:
		return -32768, 32767, true
	case types.Int32:
		return -(1 << 31), 1<<31 - 1, true
	case types.Bool:
		return 0, 0, false
	}
	return 0, 0, false
}

func isIntType(t types.Type) bool {
	b, ok := t.Underlying().(*types.Basic)
	return ok && b.Info()&types.IsInteger != 0
}

func isUnsigned(t types.Type) bool {
	b, ok := t.Underlying().(*types.Basic)
	return ok && b.Info()&types.IsUnsigned != 0
}

func isFloatType(t types.Type) bool {
	b, ok := t.Underlying().(*types.Basic)
	return ok && b.Info()&types.IsFloat != 0
}

func isBoolType(t types.Type) bool {
	b, ok := t.Underlying().(*types.Basic)
	return ok && b.Info()&types.IsBoolean != 0
}

func sliceLike(t types.Type) bool {
	switch u := t.Underlying().(type) {
	case *types.Slice:
		return true
	case *types.Array:
		return true
	case *types.Basic:
		return u.Info()&types.IsString != 0
	}
	return false
}

// fresh creates an unknown value of type t, with range constraints where the type bounds it.
func (e *lfEngine) fresh(st *lfState, t types.Type, name string) lfVal {
	switch u := t.Underlying().(type) {
	case *types.Basic:
		switch {
		case u.Info()&types.IsInteger != 0:
			s := e.newSym(name)
			if lo, hi, ok := intRange(t); ok {
				st.cons = append(st.cons, geq(linSym(s), linConst(lo)), leq(linSym(s), linConst(hi)))
			} else if u.Info()&types.IsUnsigned != 0 {
				st.cons = append(st.cons, geq(linSym(s), linConst(0)))
			}
			return vInt{E: linSym(s)}
		case u.Info()&types.IsBoolean != 0:
			return vOpaqueBool{ID: e.id()}
		case u.Info()&types.IsString != 0:
			s := e.newSym("len(" + name + ")")
			st.cons = append(st.cons, geq(linSym(s), linConst(0)))
			return vSlice{Len: linSym(s)}
		}
	case *types.Slice:
		s := e.newSym("len(" + name + ")")
		st.cons = append(st.cons, geq(linSym(s), linConst(0)))
		return vSlice{Len: linSym(s)}
	case *types.Array:
		return vSlice{Len: linConst(u.Len())}
	case *types.Pointer:
		obj := e.id()
		e.nameByType(obj, u.Elem())
		return vPtr{Obj: obj, Path: ""}
	case *types.Interface, *types.Signature, *types.Map, *types.Chan:
		return vNilable{ID: e.id()}
	case *types.Tuple:
		var out vTuple
		for i := 0; i < u.Len(); i++ {
			out = append(out, e.fresh(st, u.At(i).Type(), fmt.Sprintf("%s#%d", name, i)))
		}
		return out
	}
	return vOpaque{}
}

// ---------------------------------------------------------------- obligations

func (e *lfEngine) obligation(fr *lfFrame, in ssa.Instruction, what string) *lfObl {
	pos := in.Pos()
	if !pos.IsValid() {
		// find a nearby position
		for _, x := range in.Block().Instrs {
			if x.Pos().IsValid() {
				pos = x.Pos()
			}
			if x == in {
				break
			}
		}
	}
	// construct key: function | instruction text normalised | what
	desc := in.String()
	if v, ok := in.(ssa.Value); ok {
		desc = v.Name() + "=" + desc
	}
	key := e.c.FnName(fr.fn) + "|" + e.c.Pos(pos) + "|" + what
	_ = desc
	o := e.obls[key]
	if o == nil {
		o = &lfObl{Key: key, Pos: pos, What: what}
		e.obls[key] = o
		e.order = append(e.order, key)
	}
	return o
}

// require records that cons must hold here on this path.
func (e *lfEngine) require(fr *lfFrame, st *lfState, in ssa.Instruction, what string, need ...Cons) {
	if e.quiet > 0 {
		return
	}
	o := e.obligation(fr, in, what)
	for _, c := range need {
		if !entails(st.cons, c) {
			o.Failed++
			if o.Why == "" {
				o.Why = fmt.Sprintf("cannot show %s ≥ 0 on path [%s] (entry %s); known: %s", e.linString(c.E), strings.Join(lastN(st.trail, 8), "; "), e.entryName, e.consSummary(st, c))
			}
			return
		}
	}
	o.Proved++
}

func (e *lfEngine) unknownObl(fr *lfFrame, in ssa.Instruction, what, why string) {
	if e.quiet > 0 {
		return
	}
	o := e.obligation(fr, in, what)
	o.Unknown++
	if o.Why == "" {
		o.Why = why
	}
}

func lastN(s []string, n int) []string {
	if len(s) > n {
		return s[len(s)-n:]
	}
	return s
}

// consSummary lists the constraints mentioning the symbols of the goal.
func (e *lfEngine) consSummary(st *lfState, goal Cons) string {
	want := map[Sym]bool{}
	for s := range goal.E.T {
		want[s] = true
	}
	var parts []string
	for _, c := range st.cons {
		rel := false
		for s := range c.E.T {
			if want[s] {
				rel = true
			}
		}
		if rel {
			parts = append(parts, e.linString(c.E)+"≥0")
		}
		if len(parts) >= 10 {
			break
		}
	}
	return strings.Join(parts, ", ")
}

// ---------------------------------------------------------------- evaluation of operands

func (e *lfEngine) val(fr *lfFrame, st *lfState, v ssa.Value) lfVal {
	if x, ok := fr.env[v]; ok {
		return x
	}
	switch x := v.(type) {
	case *ssa.Const:
		if x.Value == nil {
			switch x.Type().Underlying().(type) {
			case *types.Slice:
				return vSlice{Len: linConst(0)}
			case *types.Pointer:
				return vPtr{Obj: 0, Nil: 1}
			}
			return vNilable{ID: 0, Nil: 1}
		}
		switch x.Value.Kind() {
		case constant.Int:
			if k, ok := constant.Int64Val(x.Value); ok {
				return vInt{E: linConst(k)}
			}
		case constant.Bool:
			return vBoolConst(constant.BoolVal(x.Value))
		case constant.String:
			return vSlice{Len: linConst(int64(len(constant.StringVal(x.Value))))}
		case constant.Float:
			if f, ok := constant.Float64Val(x.Value); ok && f == float64(int64(f)) {
				return vFloat{E: linConst(int64(f)), Den: 1}
			}
		}
		return vOpaque{}
	case *ssa.Global:
		return vPtr{Obj: -1000 - e.globalID(x), Path: ""}
	case *ssa.Function:
		return vFunc{Fn: x}
	case *ssa.Builtin:
		return vOpaque{}
	}
	// not yet computed on this path (e.g. value defined in a block not visited): unknown
	r := e.fresh(st, v.Type(), v.Name())
	fr.env[v] = r
	return r
}

var (
	globalIDs   = map[*ssa.Global]int{}
	globalIDsMu sync.Mutex
)

func (e *lfEngine) globalID(g *ssa.Global) int {
	globalIDsMu.Lock()
	defer globalIDsMu.Unlock()
	if id, ok := globalIDs[g]; ok {
		return id
	}
	globalIDs[g] = len(globalIDs) + 1
	return globalIDs[g]
}

func (e *lfEngine) asInt(st *lfState, v lfVal, t types.Type, name string) Lin {
	if i, ok := v.(vInt); ok {
		return i.E
	}
	r := e.fresh(st, t, name)
	if i, ok := r.(vInt); ok {
		return i.E
	}
	s := e.newSym(name)
	return linSym(s)
}

func (e *lfEngine) asSlice(st *lfState, v lfVal, t types.Type, name string) (Lin, bool) {
	switch x := v.(type) {
	case vSlice:
		return x.Len, true
	case vPtr:
		// pointer to array
		if p, ok := t.Underlying().(*types.Pointer); ok {
			if a, ok := p.Elem().Underlying().(*types.Array); ok {
				return linConst(a.Len()), true
			}
		}
	}
	if a, ok := t.Underlying().(*types.Array); ok {
		return linConst(a.Len()), true
	}
	if p, ok := t.Underlying().(*types.Pointer); ok {
		if a, ok := p.Elem().Underlying().(*types.Array); ok {
			return linConst(a.Len()), true
		}
	}
	if sliceLike(t) {
		r := e.fresh(st, t, name).(vSlice)
		return r.Len, true
	}
	return Lin{}, false
}

// normalise wraps an integer into the range of its (narrow) type: kept if
// provably in range, otherwise replaced by a fresh ranged symbol.
func (e *lfEngine) normalise(st *lfState, x Lin, t types.Type, name string) Lin {
	lo, hi, ok := intRange(t)
	if !ok {
		return x
	}
	if k, isK := x.isConst(); isK {
		if k >= lo && k <= hi {
			return x
		}
		return linConst(((k-lo)%(hi-lo+1)+(hi-lo+1))%(hi-lo+1) + lo)
	}
	if entails(st.cons, geq(x, linConst(lo))) && entails(st.cons, leq(x, linConst(hi))) {
		return x
	}
	if e.wrapExact {
		// modular arithmetic kept exact: within one modulus of the type's range the result is
		// x − W·k for the unique k ∈ {−1, 0, 1} that puts it in range
		w := hi - lo + 1
		if entails(st.cons, geq(x, linConst(lo-w))) && entails(st.cons, leq(x, linConst(hi+w))) {
			k := linSym(e.newSym("wrapk(" + e.linString(x) + ")"))
			res := x.add(k.scale(w), -1)
			st.cons = append(st.cons, geq(k, linConst(-1)), leq(k, linConst(1)), geq(res, linConst(lo)), leq(res, linConst(hi)))
			return res
		}
	}
	if e.bits {
		// canonical name: what wraps, not how the source spells it
		name = fmt.Sprintf("wrap%d(%s)", typeBits(t), e.linString(x))
	}
	return e.fresh(st, t, name).(vInt).E
}

// mkCmp builds a comparison value; in bits mode it recognises "single source
// bit (!=|==) 0" and keeps the bit.
func (e *lfEngine) mkCmp(st *lfState, x *ssa.BinOp, a, b Lin, l, r lfVal) lfVal {
	if ka, okA := a.isConst(); okA {
		if kb, okB := b.isConst(); okB {
			switch x.Op {
			case token.EQL:
				return vBoolConst(ka == kb)
			case token.NEQ:
				return vBoolConst(ka != kb)
			case token.LSS:
				return vBoolConst(ka < kb)
			case token.LEQ:
				return vBoolConst(ka <= kb)
			case token.GTR:
				return vBoolConst(ka > kb)
			case token.GEQ:
				return vBoolConst(ka >= kb)
			}
		}
	}
	c := vCmp{Op: x.Op, A: a, B: b}
	if e.bits && (x.Op == token.NEQ || x.Op == token.EQL) {
		li, lok := l.(vInt)
		ri, rok := r.(vInt)
		if lok && rok {
			var bits *bv
			if k, isK := b.isConst(); isK && k == 0 {
				bits = li.B
			} else if k, isK := a.isConst(); isK && k == 0 {
				bits = ri.B
			}
			if bit, ok := bits.singleBit(); ok {
				if x.Op == token.EQL {
					bit = bitXor(bit, bvBit{K: '1'})
				}
				c.Bit = &bit
			}
		}
	}
	return c
}

func typeBits(t types.Type) int {
	b, ok := t.Underlying().(*types.Basic)
	if !ok {
		return 0
	}
	switch b.Kind() {
	case types.Int8, types.Uint8:
		return 8
	case types.Int16, types.Uint16:
		return 16
	case types.Int32, types.Uint32:
		return 32
	case types.Int, types.Int64, types.Uint, types.Uint64, types.Uintptr:
		return 64
	case types.Bool:
		return 1
	}
	return 0
}

func isSignedInt(t types.Type) bool {
	b, ok := t.Underlying().(*types.Basic)
	return ok && b.Info()&types.IsInteger != 0 && b.Info()&types.IsUnsigned == 0
}

// withBits attaches bit provenance to an integer value and, when the linear
// form is a single fresh symbol, names that symbol canonically after the bits
// so that arithmetic over it renders in terms of wire/field bits.
func (e *lfEngine) withBits(v vInt, b *bv) vInt {
	if !e.bits || b == nil {
		return v
	}
	v.B = b
	if len(v.E.T) == 1 && v.E.C == 0 {
		for s, k := range v.E.T {
			if k == 1 && int(s) < len(e.symNames) {
				if kk, isK := b.isConst(); isK {
					_ = kk
				} else {
					e.symNames[s] = b.render()
				}
			}
		}
	}
	return v
}

// bitsOfVal returns the structured bits of a value (nil if unknown).
func (e *lfEngine) bitsOfVal(v lfVal, width int) *bv {
	switch x := v.(type) {
	case vInt:
		if x.B != nil {
			return x.B
		}
		if k, ok := x.E.isConst(); ok && width > 0 {
			return bvConst(k, width)
		}
	case vBoolConst:
		if bool(x) {
			return bvConst(1, 1)
		}
		return bvConst(0, 1)
	case vCmp:
		if x.Bit != nil {
			return &bv{Bits: []bvBit{*x.Bit}}
		}
	case vNot:
		if b := e.bitsOfVal(x.X, 1); b != nil && len(b.Bits) == 1 {
			return &bv{Bits: []bvBit{bitXor(b.Bits[0], bvBit{K: '1'})}}
		}
	case vOpaqueBool:
		if x.Name != "" {
			return bvSrc("f:"+x.Name, 1)
		}
	}
	return nil
}

// renderVal gives the canonical text of a value for layout comparison.
func (e *lfEngine) renderVal(v lfVal) string {
	switch x := v.(type) {
	case vInt:
		if x.B != nil {
			return x.B.render()
		}
		if k, ok := x.E.isConst(); ok {
			return fmt.Sprintf("%d", k)
		}
		return "lin(" + e.linString(x.E) + ")"
	case vBoolConst:
		if bool(x) {
			return "true"
		}
		return "false"
	case vCmp:
		if x.Bit != nil {
			b := &bv{Bits: []bvBit{*x.Bit}}
			return b.String()
		}
		return "cmp(" + e.linString(x.A) + x.Op.String() + e.linString(x.B) + ")"
	case vNot:
		return "!" + e.renderVal(x.X)
	case vOpaqueBool:
		if x.Name != "" {
			return "f:" + x.Name
		}
		return "?bool"
	case vSlice:
		if x.Org != nil {
			if k, ok := x.Org.Off.isConst(); ok {
				if n, ok := x.Len.isConst(); ok {
					return fmt.Sprintf("%s[%d:%d]", x.Org.Name, k, k+n)
				}
				return fmt.Sprintf("%s[%d:+%s]", x.Org.Name, k, e.linString(x.Len))
			}
			return x.Org.Name + "[" + e.linString(x.Org.Off) + ":+" + e.linString(x.Len) + "]"
		}
		if n, ok := x.Len.isConst(); ok && n == 0 {
			return "empty"
		}
		return "?slice"
	case vNilable:
		if x.Nil == 1 {
			return "nil"
		}
		// a value built by a modelled constructor (time.Unix(seconds, 0)): what it was built from
		if inner, ok := x.Inner.(vInt); ok && inner.B != nil && strings.HasPrefix(inner.B.Tag, "unix:") {
			return inner.B.Tag
		}
	case vPtr:
		if x.Nil == 1 {
			return "nil"
		}
	}
	return "?"
}

// ---------------------------------------------------------------- branch conditions

// assume adds the constraints making cond equal to want; returns the list of
// resulting states (0 = infeasible, 2 when a disequality forks).
func (e *lfEngine) assume(st *lfState, cond lfVal, want bool, label string) []*lfState {
	switch c := cond.(type) {
	case vBoolConst:
		if bool(c) == want {
			return []*lfState{st}
		}
		return nil
	case vNot:
		return e.assume(st, c.X, !want, label)
	case vOpaqueBool:
		if v, ok := st.decided[c.ID]; ok {
			if v == want {
				return []*lfState{st}
			}
			return nil
		}
		n := st.clone()
		n.decided[c.ID] = want
		n.trail = append(n.trail, fmt.Sprintf("%s=%v", label, want))
		return []*lfState{n}
	case vCmp:
		if e.bitFacts && c.Bit != nil && (c.Bit.K == 's' || c.Bit.K == 'n') {
			key := fmt.Sprintf("%s#%d", c.Bit.Src, c.Bit.Idx)
			val := want == (c.Bit.K == 's')
			if old, has := st.bitFacts[key]; has {
				if old != val {
					return nil
				}
			} else {
				st = st.clone()
				if st.bitFacts == nil {
					st.bitFacts = map[string]bool{}
				}
				st.bitFacts[key] = val
			}
		}
		op := c.Op
		if !want {
			switch op {
			case token.EQL:
				op = token.NEQ
			case token.NEQ:
				op = token.EQL
			case token.LSS:
				op = token.GEQ
			case token.LEQ:
				op = token.GTR
			case token.GTR:
				op = token.LEQ
			case token.GEQ:
				op = token.LSS
			}
		}
		mk := func(desc string, cs ...Cons) *lfState {
			if infeasibleWith(st.cons, cs...) {
				return nil
			}
			n := st.clone()
			n.cons = append(n.cons, cs...)
			n.trail = append(n.trail, e.linString(c.A)+" "+desc+" "+e.linString(c.B))
			return n
		}
		var out []*lfState
		switch op {
		case token.EQL:
			if n := mk("==", geq(c.A, c.B), leq(c.A, c.B)); n != nil {
				out = append(out, n)
			}
		case token.NEQ:
			if n := mk("<", lt(c.A, c.B)); n != nil {
				out = append(out, n)
			}
			if n := mk(">", gt(c.A, c.B)); n != nil {
				out = append(out, n)
			}
		case token.LSS:
			if n := mk("<", lt(c.A, c.B)); n != nil {
				out = append(out, n)
			}
		case token.LEQ:
			if n := mk("<=", leq(c.A, c.B)); n != nil {
				out = append(out, n)
			}
		case token.GTR:
			if n := mk(">", gt(c.A, c.B)); n != nil {
				out = append(out, n)
			}
		case token.GEQ:
			if n := mk(">=", geq(c.A, c.B)); n != nil {
				out = append(out, n)
			}
		}
		return out
	}
	// unknown condition: both arms feasible, no information
	return []*lfState{st}
}

// ---------------------------------------------------------------- interpreter

type lfCont func(st *lfState, rets []lfVal)

func (e *lfEngine) budget() bool {
	e.steps++
	if e.steps > e.maxSteps {
		e.budgetHit = true
		return false
	}
	return true
}

// runEntry analyses fn as an entry point: parameters are arbitrary.
func (e *lfEngine) runEntry(fn *ssa.Function, setup func(fr *lfFrame, st *lfState)) {
	st := &lfState{heap: map[string]lfVal{}, decided: map[int]bool{}}
	fr := &lfFrame{fn: fn, env: map[ssa.Value]lfVal{}, loops: naturalLoops(fn)}
	e.entryName = e.c.FnName(fn)
	for i, p := range fn.Params {
		v := e.fresh(st, p.Type(), p.Name())
		if e.bits {
			if pv, ok := v.(vPtr); ok && i == 0 && fn.Signature.Recv() != nil {
				e.recvObj = pv.Obj
				if e.tracked == nil {
					e.tracked = map[int]string{}
				}
				e.tracked[pv.Obj] = ""
			} else if pv, ok := v.(vPtr); ok {
				if n, has := e.paramNames[i]; has {
					if e.tracked == nil {
						e.tracked = map[int]string{}
					}
					e.tracked[pv.Obj] = n + "."
				}
			}
			if sv, ok := v.(vSlice); ok {
				if sl, ok := p.Type().Underlying().(*types.Slice); ok {
					if b, ok := sl.Elem().Underlying().(*types.Basic); ok && b.Kind() == types.Uint8 {
						sv.Org = &sliceOrg{ID: e.id(), Name: "d", Off: linConst(0)}
						v = sv
						if e.dLen == nil {
							dl := sv.Len
							e.dLen = &dl
						}
					}
				}
			}
		}
		fr.env[p] = v
		if iv, ok := v.(vInt); ok && len(iv.E.T) == 1 && iv.E.C == 0 {
			for sy := range iv.E.T {
				if e.paramSyms == nil {
					e.paramSyms = map[int]Sym{}
				}
				e.paramSyms[i] = sy
			}
		}
	}
	if setup != nil {
		setup(fr, st)
	}
	e.analysed[fn] = true
	e.checkLoops(fn)
	e.execFrom(fr, st, fn.Blocks[0], nil, 0, func(*lfState, []lfVal) {})
}

// enter transfers control to block b coming from block from.
func (e *lfEngine) enter(fr *lfFrame, st *lfState, b, from *ssa.BasicBlock, k lfCont) {
	if !e.budget() {
		return
	}
	// back edge / exit of an active loop?
	for i := len(fr.active) - 1; i >= 0; i-- {
		lc := fr.active[i]
		if b == lc.loop.Header && from != nil && lc.loop.Blocks[from] {
			lc.onBack(fr, st, from)
			return
		}
		if !lc.loop.Blocks[b] {
			if !lc.final {
				return // exits are ignored while inferring invariants
			}
			// leaving the loop: pop it
			fr = fr.cloneEnv()
			fr.active = fr.active[:i]
			continue
		}
		break
	}
	// entering a loop header from outside?
	for _, l := range fr.loops {
		if l.Header == b && (from == nil || !l.Blocks[from]) {
			already := false
			for _, lc := range fr.active {
				if lc.loop == l {
					already = true
				}
			}
			if !already {
				if e.unrollable(fr, st, l, from) {
					// a loop with a small constant trip count is executed as written, iteration by
					// iteration, with concrete counter values: no abstraction needed
					break
				}
				e.execLoop(fr, st, l, from, k)
				return
			}
		}
	}
	e.execFrom(fr, st, b, from, 0, k)
}

// unrollable: every loop-carried integer of the loop enters with a constant, one
// of them is stepped by a non-zero constant on every back edge and compared with
// a constant in a condition that leaves the loop, and the trip count that
// follows is at most 16. Such a loop terminates after that many concrete
// iterations whatever else happens in the body, so it can be interpreted
// without summarising it.
func (e *lfEngine) unrollable(fr *lfFrame, st *lfState, l *Loop, from *ssa.BasicBlock) bool {
	h := l.Header
	var counter *ssa.Phi
	var start, stride int64
	for _, in := range h.Instrs {
		ph, ok := in.(*ssa.Phi)
		if !ok {
			break
		}
		var entry ssa.Value
		for j, p := range h.Preds {
			if p == from {
				entry = ph.Edges[j]
			}
		}
		if entry == nil {
			return false
		}
		if !isIntType(ph.Type()) {
			// a loop-carried slice or pointer: only if it enters as a constant-free value we do not track
			return false
		}
		ev, ok := e.val(fr, st, entry).(vInt)
		if !ok {
			return false
		}
		k0, isK := ev.E.isConst()
		if !isK {
			return false
		}
		if c, _ := constStride(ph, l); c != 0 && counter == nil {
			counter, start, stride = ph, k0, c
		}
	}
	if counter == nil {
		return false
	}
	// an exit test of the counter (or counter+stride) against a constant
	for b := range l.Blocks {
		ifi, ok := b.Instrs[len(b.Instrs)-1].(*ssa.If)
		if !ok || (l.Blocks[b.Succs[0]] && l.Blocks[b.Succs[1]]) {
			continue
		}
		bo, ok := ifi.Cond.(*ssa.BinOp)
		if !ok {
			continue
		}
		var bound int64
		var isK bool
		var side ssa.Value
		if bound, isK = constInt(bo.Y); isK {
			side = bo.X
		} else if bound, isK = constInt(bo.X); isK {
			side = bo.Y
		}
		if !isK {
			continue
		}
		if side != ssa.Value(counter) {
			if add, ok := side.(*ssa.BinOp); !ok || add.Op != token.ADD || add.X != ssa.Value(counter) {
				continue
			}
		}
		switch bo.Op {
		case token.LSS, token.LEQ, token.GTR, token.GEQ, token.NEQ:
		default:
			continue
		}
		trips := (bound - start) / stride
		if trips < 0 {
			trips = -trips
		}
		return trips <= 16
	}
	return false
}

// cmpEvents records, on the states of both arms of a branch that compares a
// byte loaded from a tracked buffer with an integer, which of "equal" and
// "unequal" holds on that arm.
func (e *lfEngine) cmpEvents(cond lfVal, ts, fs []*lfState, pos token.Pos) {
	neg := false
	for {
		if n, ok := cond.(vNot); ok {
			neg = !neg
			cond = n.X
			continue
		}
		break
	}
	cm, ok := cond.(vCmp)
	if !ok || (cm.Op != token.EQL && cm.Op != token.NEQ) {
		return
	}
	single := func(l Lin) (Sym, bool) {
		if len(l.T) == 1 && l.C == 0 {
			for sy, k := range l.T {
				if k == 1 {
					return sy, true
				}
			}
		}
		return 0, false
	}
	// a checksum compared with a loaded byte: "sum" event carrying the covered range (Idx =
	// offset, L = length) and the index of the byte it is compared with (V)
	for _, pr := range [][2]Lin{{cm.A, cm.B}, {cm.B, cm.A}} {
		sy, ok := single(pr[0])
		if !ok {
			continue
		}
		sr, ok := e.sumOf[sy]
		if !ok {
			continue
		}
		osy, ok := single(pr[1])
		if !ok {
			continue
		}
		ref, ok := e.elemLoads[osy]
		if !ok || ref.Org != sr.Org {
			continue
		}
		off, ln, at := sr.Off, sr.Len, ref.Idx
		emitS := func(states []*lfState, arm bool) {
			eq := (cm.Op == token.EQL) == arm
			if neg {
				eq = !eq
			}
			out := "ne"
			if eq {
				out = "eq"
			}
			for _, s := range states {
				s.events = append(s.events, lfEvent{Kind: "sum", Name: "checksum(" + sr.Org + "[" + e.linString(off) + ":+" + e.linString(ln) + "])", Val: out + " " + sr.Org + "[" + e.linString(at) + "]", Pos: pos, Org: sr.Org, Idx: &off, L: &ln, V: &at})
			}
		}
		emitS(ts, true)
		emitS(fs, false)
		return
	}
	for _, pr := range [][2]Lin{{cm.A, cm.B}, {cm.B, cm.A}} {
		sy, ok := single(pr[0])
		if !ok {
			continue
		}
		ref, ok := e.elemLoads[sy]
		if !ok {
			continue
		}
		other := pr[1]
		idx := ref.Idx
		emit := func(states []*lfState, arm bool) {
			eq := (cm.Op == token.EQL) == arm
			if neg {
				eq = !eq
			}
			out := "ne"
			if eq {
				out = "eq"
			}
			for _, s := range states {
				s.events = append(s.events, lfEvent{Kind: "cmp", Name: ref.Org + "[" + e.linString(idx) + "]", Val: out + " lin(" + e.linString(other) + ")", Pos: pos, Org: ref.Org, Idx: &idx, V: &other})
			}
		}
		emit(ts, true)
		emit(fs, false)
		return
	}
}

func (e *lfEngine) execFrom(fr *lfFrame, st *lfState, b, from *ssa.BasicBlock, start int, k lfCont) {
	for i := start; i < len(b.Instrs); i++ {
		if !e.budget() {
			return
		}
		in := b.Instrs[i]
		switch x := in.(type) {
		case *ssa.Phi:
			if from != nil {
				for j, p := range b.Preds {
					if p == from {
						fr.env[x] = e.val(fr, st, x.Edges[j])
					}
				}
			}
			if _, ok := fr.env[x]; !ok {
				fr.env[x] = e.fresh(st, x.Type(), x.Name())
			}
		case *ssa.If:
			cond := e.val(fr, st, x.Cond)
			label := e.c.Pos(x.Cond.Pos())
			if !x.Cond.Pos().IsValid() {
				label = x.Cond.Name()
			}
			ts := e.assume(st, cond, true, label)
			fs := e.assume(st, cond, false, label)
			n := len(ts) + len(fs)
			for _, s := range ts {
				f2 := fr
				if n > 1 {
					f2 = fr.cloneEnv()
					if s == st {
						s = st.clone()
					}
				}
				if e.bits && e.emitting() {
					e.cmpEvents(cond, []*lfState{s}, nil, x.Pos())
				}
				e.enter(f2, s, b.Succs[0], b, k)
			}
			for _, s := range fs {
				f2 := fr
				if n > 1 {
					f2 = fr.cloneEnv()
					if s == st {
						s = st.clone()
					}
				}
				if e.bits && e.emitting() {
					e.cmpEvents(cond, nil, []*lfState{s}, x.Pos())
				}
				e.enter(f2, s, b.Succs[1], b, k)
			}
			return
		case *ssa.Jump:
			e.enter(fr, st, b.Succs[0], b, k)
			return
		case *ssa.Return:
			var rets []lfVal
			for _, rv := range x.Results {
				rets = append(rets, e.val(fr, st, rv))
			}
			// a return inside a loop under invariant inference is ignored
			for _, lc := range fr.active {
				if !lc.final {
					return
				}
			}
			if fr.parent == nil && e.onReturn != nil && e.quiet == 0 {
				e.onReturn(st, rets)
			}
			k(st, rets)
			return
		case *ssa.Panic:
			e.unknownObl(fr, in, "explicit panic", "an explicit panic statement is reachable")
			return
		case *ssa.Lookup:
			// lookup in a package-level constant table of functions: one state per entry
			if e.tableLookup(fr, st, x, func(st2 *lfState, fr2 *lfFrame) {
				e.execFrom(fr2, st2, b, from, i+1, k)
			}) {
				return
			}
			e.step(fr, st, in)
		case *ssa.UnOp:
			// a read from a package-level constant table (array or slice of the module, never
			// written outside its initialiser): the value is the initialiser's, one state per
			// feasible index when the index is symbolic
			if x.Op == token.MUL && e.tableLoad(fr, st, x, func(st2 *lfState, fr2 *lfFrame) {
				e.execFrom(fr2, st2, b, from, i+1, k)
			}) {
				return
			}
			e.step(fr, st, in)
		case *ssa.Call:
			// calls may fork (inlined callees with several return states)
			e.doCall(fr, st, x, func(st2 *lfState, res lfVal, fr2 *lfFrame) {
				fr2.env[x] = res
				e.execFrom(fr2, st2, b, from, i+1, k)
			})
			return
		default:
			e.step(fr, st, in)
		}
	}
}

// tableLookup handles m[k] where m is a package-level map of the module
// initialised with constant integer keys and function values: the path forks
// per entry with k constrained to the key, so that a later dynamic call
// resolves to exactly the selected function.
func (e *lfEngine) tableLookup(fr *lfFrame, st *lfState, x *ssa.Lookup, cont func(*lfState, *lfFrame)) bool {
	ld, ok := x.X.(*ssa.UnOp)
	if !ok || ld.Op != token.MUL {
		return false
	}
	g, ok := ld.X.(*ssa.Global)
	if !ok || g.Pkg == nil || !strings.HasPrefix(g.Pkg.Pkg.Path(), modPath) {
		return false
	}
	if e.initR == nil {
		e.initR = newInitReader(e.c)
	}
	tbl := e.initR.global(g)
	if tbl.Kind != "map" || len(tbl.Entries) == 0 {
		return false
	}
	type ent struct {
		k  int64
		fn *ssa.Function
	}
	var ents []ent
	membership := false // a table of something else than functions, asked `_, ok := m[k]`
	for _, en := range tbl.Entries {
		k, isK := en.K.Int()
		if !isK {
			return false
		}
		if en.V.Kind != "func" {
			if !x.CommaOk || len(tbl.Entries) > 64 {
				return false
			}
			membership = true
		}
		ents = append(ents, ent{k, en.V.Func})
	}
	// the table must not be written outside the initialiser (checked by C19); here: no MapUpdate on it in library code
	idx, isInt := e.val(fr, st, x.Index).(vInt)
	if !isInt {
		return false
	}
	mk := func(s2 *lfState, f2 *lfFrame, fn *ssa.Function, found bool) {
		var v lfVal = vNilable{ID: e.id(), Nil: 1}
		if found {
			v = vNilable{ID: e.id(), Nil: 2, Inner: vFunc{Fn: fn}}
		}
		if membership {
			if tt, isT := x.Type().(*types.Tuple); isT && tt.Len() > 0 {
				v = e.fresh(s2, tt.At(0).Type(), g.Name()+"[…]")
			} else {
				v = vOpaque{}
			}
		}
		if x.CommaOk {
			f2.env[x] = vTuple{v, vBoolConst(found)}
		} else {
			f2.env[x] = v
		}
		cont(s2, f2)
	}
	for _, en := range ents {
		cs := []Cons{geq(idx.E, linConst(en.k)), leq(idx.E, linConst(en.k))}
		if infeasibleWith(st.cons, cs...) {
			continue
		}
		s2 := st.clone()
		s2.cons = append(s2.cons, cs...)
		s2.trail = append(s2.trail, fmt.Sprintf("%s[%d]", g.Name(), en.k))
		mk(s2, fr.cloneEnv(), en.fn, true)
	}
	// key not in the table (no constraint kept: over-approximation)
	s2 := st.clone()
	s2.trail = append(s2.trail, g.Name()+"[other]")
	mk(s2, fr.cloneEnv(), nil, false)
	return true
}

// step executes one non-control instruction.
func (e *lfEngine) step(fr *lfFrame, st *lfState, in ssa.Instruction) {
	switch x := in.(type) {
	case *ssa.DebugRef, *ssa.RunDefers:
	case *ssa.Defer, *ssa.Go:
	case *ssa.Alloc:
		obj := e.id()
		if pt, ok := x.Type().Underlying().(*types.Pointer); ok {
			e.nameByType(obj, pt.Elem())
		}
		fr.env[x] = vPtr{Obj: obj}
		// zero value: array/ints are zero; left unknown (fresh on load) except arrays keep their length by type
	case *ssa.FieldAddr:
		base := e.val(fr, st, x.X)
		f := structField(x.X.Type(), x.Field)
		name := fmt.Sprintf("#%d", x.Field)
		if f != nil {
			name = f.Name()
		}
		if p, ok := base.(vPtr); ok {
			if p.Nil == 1 {
				e.unknownObl(fr, in, "nil dereference", "field address of a nil pointer literal")
			}
			fr.env[x] = vPtr{Obj: p.Obj, Path: p.Path + "." + name}
		} else {
			fr.env[x] = vPtr{Obj: e.id(), Path: "." + name}
		}
	case *ssa.Field:
		fr.env[x] = e.fresh(st, x.Type(), x.Name())
	case *ssa.IndexAddr:
		base := e.val(fr, st, x.X)
		idx := e.asInt(st, e.val(fr, st, x.Index), x.Index.Type(), "idx")
		if ln, ok := e.asSlice(st, base, x.X.Type(), valueName(x.X)); ok {
			e.require(fr, st, in, "index in range: "+exprText(x.X)+"["+exprText(x.Index)+"]", geq(idx, linConst(0)), lt(idx, ln))
		} else {
			e.unknownObl(fr, in, "index in range", "indexed value is not a tracked slice/array")
		}
		var p vPtr
		if bp, ok := base.(vPtr); ok {
			p = vPtr{Obj: bp.Obj, Path: bp.Path + "[" + idx.key() + "]"}
		} else if sv, ok := base.(vSlice); ok && sv.Org != nil {
			at := sv.Org.Off.add(idx, 1)
			p = vPtr{Obj: -50000 - sv.Org.ID, Path: "[" + at.key() + "]", Elem: &elemRef{Org: sv.Org, Idx: at}}
		} else {
			p = vPtr{Obj: e.id(), Path: "[]"}
		}
		fr.env[x] = p
	case *ssa.Index:
		base := e.val(fr, st, x.X)
		idx := e.asInt(st, e.val(fr, st, x.Index), x.Index.Type(), "idx")
		if ln, ok := e.asSlice(st, base, x.X.Type(), valueName(x.X)); ok {
			e.require(fr, st, in, "index in range: "+exprText(x.X)+"["+exprText(x.Index)+"]", geq(idx, linConst(0)), lt(idx, ln))
		}
		fr.env[x] = e.fresh(st, x.Type(), exprText(x.X)+"["+exprText(x.Index)+"]")
	case *ssa.Lookup:
		if _, isMap := x.X.Type().Underlying().(*types.Map); !isMap {
			base := e.val(fr, st, x.X)
			idx := e.asInt(st, e.val(fr, st, x.Index), x.Index.Type(), "idx")
			if ln, ok := e.asSlice(st, base, x.X.Type(), valueName(x.X)); ok {
				e.require(fr, st, in, "index in range: "+exprText(x.X)+"["+exprText(x.Index)+"]", geq(idx, linConst(0)), lt(idx, ln))
			}
		}
		fr.env[x] = e.fresh(st, x.Type(), x.Name())
	case *ssa.Slice:
		e.doSlice(fr, st, x)
	case *ssa.MakeSlice:
		n := e.asInt(st, e.val(fr, st, x.Len), x.Len.Type(), "len")
		e.require(fr, st, in, "make: length ≥ 0: "+exprText(x.Len), geq(n, linConst(0)))
		if e.extract {
			e.nMade++
			fr.env[x] = vSlice{Len: n, Org: &sliceOrg{ID: e.id(), Name: fmt.Sprintf("mk%d", e.nMade), Off: linConst(0)}}
			return
		}
		fr.env[x] = vSlice{Len: n}
	case *ssa.MakeMap, *ssa.MakeChan:
		fr.env[in.(ssa.Value)] = vNilable{ID: e.id(), Nil: 2}
	case *ssa.MakeInterface:
		fr.env[x] = vNilable{ID: e.id(), Nil: 2, Inner: e.val(fr, st, x.X)}
	case *ssa.MakeClosure:
		f, _ := x.Fn.(*ssa.Function)
		var bind []lfVal
		for _, b := range x.Bindings {
			bind = append(bind, e.val(fr, st, b))
		}
		fr.env[x] = vFunc{Fn: f, Bind: bind}
	case *ssa.ChangeType:
		fr.env[x] = e.val(fr, st, x.X)
	case *ssa.ChangeInterface:
		fr.env[x] = e.val(fr, st, x.X)
	case *ssa.SliceToArrayPointer:
		if ln, ok := e.asSlice(st, e.val(fr, st, x.X), x.X.Type(), valueName(x.X)); ok {
			if a, ok := x.Type().(*types.Pointer).Elem().Underlying().(*types.Array); ok {
				e.require(fr, st, in, "slice to array: length sufficient", geq(ln, linConst(a.Len())))
			}
		}
		fr.env[x] = vPtr{Obj: e.id()}
	case *ssa.Convert:
		e.doConvert(fr, st, x)
	case *ssa.BinOp:
		e.doBinOp(fr, st, x)
	case *ssa.UnOp:
		e.doUnOp(fr, st, x)
	case *ssa.Store:
		addr := e.val(fr, st, x.Addr)
		if p, ok := addr.(vPtr); ok {
			if p.Nil == 1 {
				e.unknownObl(fr, in, "nil dereference", "store through a nil pointer literal")
			}
			key := fmt.Sprintf("%d%s", p.Obj, p.Path)
			// a store to a path invalidates everything beneath and above it
			for hk := range st.heap {
				if hk != key && (strings.HasPrefix(hk, key) || strings.HasPrefix(key, hk)) && strings.HasPrefix(hk, fmt.Sprintf("%d", p.Obj)) {
					delete(st.heap, hk)
				}
			}
			sv := e.val(fr, st, x.Val)
			st.heap[key] = sv
			if av, isA := sv.(vSlice); isA && av.Snap != nil {
				if e.arrOrg == nil {
					e.arrOrg = map[string]int{}
				}
				aid, has := e.arrOrg[key]
				if !has {
					aid = e.id()
					e.arrOrg[key] = aid
				}
				for suffix, ev := range av.Snap.Elems {
					st.heap[key+suffix] = ev
					st.heap[fmt.Sprintf("%d%s", -50000-aid, suffix)] = ev
				}
				delete(st.heap, key)
			}
			if e.onHeapStore != nil && e.quiet == 0 {
				e.onHeapStore(st, x, p, sv)
			}
			if e.bits && e.emitting() {
				if pfx, isT := e.tracked[p.Obj]; isT && p.Path != "" {
					e.onStore(st, "field", pfx+strings.TrimPrefix(p.Path, "."), e.renderVal(sv), x.Pos(), e.bitsOfVal(sv, typeBits(x.Val.Type())))
				} else if p.Elem != nil && p.Elem.Org.Name != "d" {
					if k, isK := p.Elem.Idx.isConst(); isK {
						e.onStore(st, "wire", fmt.Sprintf("%s[%d]", p.Elem.Org.Name, k), e.renderVal(sv), x.Pos(), e.bitsOfVal(sv, 8))
					} else {
						w := 8
						if e.extract && typeBits(x.Val.Type()) > 8 {
							w = typeBits(x.Val.Type())
						}
						e.onStore(st, "wire", p.Elem.Org.Name+"["+e.linString(p.Elem.Idx)+"]", e.renderVal(sv), x.Pos(), e.bitsOfVal(sv, w))
					}
					if n := len(st.events); n > 0 && st.events[n-1].Kind == "wire" {
						idx := p.Elem.Idx
						st.events[n-1].Org, st.events[n-1].Idx = p.Elem.Org.Name, &idx
						if iv, isI := sv.(vInt); isI {
							vl := iv.E
							st.events[n-1].V = &vl
						}
					}
				}
			}
		}
	case *ssa.Extract:
		t := e.val(fr, st, x.Tuple)
		if tv, ok := t.(vTuple); ok && x.Index < len(tv) {
			fr.env[x] = tv[x.Index]
		} else {
			fr.env[x] = e.fresh(st, x.Type(), x.Name())
		}
	case *ssa.TypeAssert:
		if x.CommaOk {
			fr.env[x] = vTuple{e.fresh(st, x.AssertedType, x.Name()), vOpaqueBool{ID: e.id()}}
		} else {
			fr.env[x] = e.fresh(st, x.AssertedType, x.Name())
			what := "type assertion without comma-ok: " + exprText(x.X) + ".(" + types.TypeString(x.AssertedType, shortQual) + ")"
			if why, ok := e.assertJustified(x); ok {
				if e.quiet == 0 {
					e.obligation(fr, in, what).Proved++
				}
			} else {
				e.unknownObl(fr, in, what, "panics if the dynamic type differs: "+why)
			}
		}
	case *ssa.MapUpdate, *ssa.Send:
	case *ssa.Range, *ssa.Next, *ssa.Select:
		if v, ok := in.(ssa.Value); ok {
			fr.env[v] = e.fresh(st, v.Type(), v.Name())
		}
	default:
		if v, ok := in.(ssa.Value); ok {
			fr.env[v] = e.fresh(st, v.Type(), v.Name())
		}
	}
}

func shortQual(p *types.Package) string { return p.Name() }

// assertJustified: x.(*T) where x = packet.Layer(LT) (nil-checked by the
// caller or not — a nil interface also fails the assertion, so the value must
// have been compared with nil on this path, which the engine sees as the
// non-nil arm) is safe when *T is the only module type whose LayerType()
// returns LT (gopacket contract: Layer(t) returns a layer with LayerType()==t).
func (e *lfEngine) assertJustified(x *ssa.TypeAssert) (string, bool) {
	if why, ok, handled := e.assertJustifiedVia(x); handled {
		return why, ok
	}
	call, ok := x.X.(*ssa.Call)
	if !ok || !call.Call.IsInvoke() || call.Call.Method.Name() != "Layer" || len(call.Call.Args) != 1 {
		return "operand is not the result of gopacket.Packet.Layer", false
	}
	// the layer type asked for: a package-level layer type, or a parameter that is one at
	// every call of this function (a helper shared by several layer types; for a generic
	// helper each instance has its own calls)
	var globals []*ssa.Global
	var collect func(v ssa.Value, depth int) bool
	collect = func(v ssa.Value, depth int) bool {
		if depth > 3 {
			return false
		}
		switch a := v.(type) {
		case *ssa.UnOp:
			if g, ok := a.X.(*ssa.Global); ok {
				globals = append(globals, g)
				return true
			}
		case *ssa.Parameter:
			fn := a.Parent()
			idx := -1
			for j, q := range fn.Params {
				if q == a {
					idx = j
				}
			}
			n := 0
			okAll := true
			for caller := range e.c.All {
				if caller.Blocks == nil {
					continue
				}
				for _, b := range caller.Blocks {
					for _, in := range b.Instrs {
						cc := asCall(in)
						if cc == nil || cc.StaticCallee() != fn || idx < 0 || idx >= len(cc.Args) {
							continue
						}
						n++
						if !collect(cc.Args[idx], depth+1) {
							okAll = false
						}
					}
				}
			}
			return n > 0 && okAll
		}
		return false
	}
	if !collect(call.Call.Args[0], 0) || len(globals) == 0 {
		return "layer type is not a package-level layer type", false
	}
	// the result must have been tested against nil before the assertion
	tested := false
	for _, ref := range *call.Referrers() {
		if bo, ok := ref.(*ssa.BinOp); ok && (bo.Op == token.EQL || bo.Op == token.NEQ) && (isNilConst(bo.X) || isNilConst(bo.Y)) {
			if mustPrecede(x.Parent(), bo, x) {
				tested = true
			}
		}
	}
	if !tested {
		return "the layer is not compared with nil before the assertion", false
	}
	for _, g := range globals {
		n := 0
		for _, fn := range e.c.LibFuncs() {
			if fn.Name() != "LayerType" || fn.Signature.Recv() == nil {
				continue
			}
			for _, ret := range returnsOf(fn) {
				for _, v := range possibleValues(ret.Results[0]) {
					if l2, ok := v.(*ssa.UnOp); ok && l2.X == ssa.Value(g) {
						rt := fn.Signature.Recv().Type()
						if !types.Identical(rt, x.AssertedType) {
							return "another type (" + types.TypeString(rt, shortQual) + ") also reports this layer type", false
						}
						n++
					}
				}
			}
		}
		if n == 0 {
			return "no module type reports this layer type", false
		}
	}
	return "", true
}

func valueName(v ssa.Value) string {
	return exprText(v)
}

// exprText renders a short source-like description of an SSA value.
func exprText(v ssa.Value) string {
	switch x := v.(type) {
	case *ssa.Parameter:
		return x.Name()
	case *ssa.Const:
		if x.Value == nil {
			return "nil"
		}
		return x.Value.ExactString()
	case *ssa.Slice:
		lo, hi := "", ""
		if x.Low != nil {
			lo = exprText(x.Low)
		}
		if x.High != nil {
			hi = exprText(x.High)
		}
		return exprText(x.X) + "[" + lo + ":" + hi + "]"
	case *ssa.BinOp:
		return "(" + exprText(x.X) + x.Op.String() + exprText(x.Y) + ")"
	case *ssa.Convert:
		return exprText(x.X)
	case *ssa.ChangeType:
		return exprText(x.X)
	case *ssa.UnOp:
		if x.Op == token.MUL {
			return apOf(x.X).String()
		}
		return x.Op.String() + exprText(x.X)
	case *ssa.Call:
		if b, ok := x.Call.Value.(*ssa.Builtin); ok && len(x.Call.Args) == 1 {
			return b.Name() + "(" + exprText(x.Call.Args[0]) + ")"
		}
		return shortName(calleeName(&x.Call)) + "(…)"
	case *ssa.Phi:
		if x.Comment != "" {
			return x.Comment
		}
	case *ssa.FieldAddr, *ssa.IndexAddr, *ssa.Alloc, *ssa.Global:
		return apOf(v).String()
	case *ssa.Extract:
		return exprText(x.Tuple) + fmt.Sprintf("#%d", x.Index)
	}
	return v.Name()
}

func (e *lfEngine) doSlice(fr *lfFrame, st *lfState, x *ssa.Slice) {
	base := e.val(fr, st, x.X)
	ln, ok := e.asSlice(st, base, x.X.Type(), valueName(x.X))
	if !ok {
		e.unknownObl(fr, x, "slice bounds", "sliced value is not a tracked slice/array/string")
		fr.env[x] = e.fresh(st, x.Type(), x.Name())
		return
	}
	lo, hi := linConst(0), ln
	if x.Low != nil {
		lo = e.asInt(st, e.val(fr, st, x.Low), x.Low.Type(), "lo")
	}
	if x.High != nil {
		hi = e.asInt(st, e.val(fr, st, x.High), x.High.Type(), "hi")
	}
	if x.Low != nil || x.High != nil {
		e.require(fr, st, x, "slice within length: "+exprText(x), geq(lo, linConst(0)), leq(lo, hi), leq(hi, ln))
	}
	if x.Low != nil && x.High == nil && e.quiet == 0 {
		v := int8(-1)
		if entails(st.cons, geq(lo, linConst(1))) {
			v = 1
		}
		if cur, ok := e.sliceLow[x]; !ok || v < cur {
			e.sliceLow[x] = v
		}
	}
	out := vSlice{Len: hi.add(lo, -1)}
	if sv, ok := base.(vSlice); ok && sv.Org != nil {
		out.Org = &sliceOrg{ID: sv.Org.ID, Name: sv.Org.Name, Off: sv.Org.Off.add(lo, 1)}
	} else if bp, ok := base.(vPtr); ok && e.bits {
		// slice of a (field or local) array: identity by object/path
		// one identity per array, however many times it is sliced
		akey := fmt.Sprint(bp.Obj) + bp.Path
		if e.arrOrg == nil {
			e.arrOrg = map[string]int{}
		}
		aid, has := e.arrOrg[akey]
		if !has {
			aid = e.id()
			e.arrOrg[akey] = aid
		}
		out.Org = &sliceOrg{ID: aid, Name: "arr:" + akey, Off: lo}
		if pfx, isT := e.tracked[bp.Obj]; isT {
			out.Org.Name = "f:" + pfx + strings.TrimPrefix(bp.Path, ".")
		}
	}
	fr.env[x] = out
}

func (e *lfEngine) doConvert(fr *lfFrame, st *lfState, x *ssa.Convert) {
	src := e.val(fr, st, x.X)
	from, to := x.X.Type(), x.Type()
	switch {
	case isIntType(from) && isIntType(to):
		v := e.asInt(st, src, from, x.Name())
		out := vInt{E: e.normalise(st, v, to, exprText(x))}
		if si, ok := src.(vInt); ok && si.B != nil && e.bits {
			out = e.withBits(out, si.B.resize(typeBits(to), isSignedInt(from)))
		}
		fr.env[x] = out
	case isIntType(from) && isFloatType(to):
		fr.env[x] = vFloat{E: e.asInt(st, src, from, x.Name()), Den: 1}
	case isFloatType(from) && isIntType(to):
		if f, ok := src.(vFloat); ok && f.Den > 0 && (f.Op == "ceil" || f.Op == "floor") {
			q := e.newSym(f.Op + "(" + e.linString(f.E) + "/" + fmt.Sprint(f.Den) + ")")
			qq := linSym(q)
			if f.Op == "ceil" {
				// Den·q ≥ E  and  Den·q ≤ E + Den − 1
				st.cons = append(st.cons, geq(qq.scale(f.Den), f.E), leq(qq.scale(f.Den), f.E.addConst(f.Den-1)))
			} else {
				st.cons = append(st.cons, leq(qq.scale(f.Den), f.E), geq(qq.scale(f.Den), f.E.addConst(-(f.Den-1))))
			}
			fr.env[x] = vInt{E: e.normalise(st, qq, to, exprText(x))}
		} else {
			fr.env[x] = e.fresh(st, to, x.Name())
		}
	case sliceLike(from) && sliceLike(to):
		if s, ok := src.(vSlice); ok {
			// []byte ↔ string keep their byte length; []rune→string does not
			if sameElemSize(from, to) {
				fr.env[x] = s
				return
			}
			if e.extract && s.Org != nil {
				if fv, isS := e.fresh(st, to, x.Name()).(vSlice); isS {
					fv.Org = s.Org
					fr.env[x] = fv
					return
				}
			}
		}
		fr.env[x] = e.fresh(st, to, x.Name())
	default:
		fr.env[x] = e.fresh(st, to, x.Name())
	}
}

func sameElemSize(a, b types.Type) bool {
	sz := func(t types.Type) int {
		switch u := t.Underlying().(type) {
		case *types.Basic:
			return 1 // string
		case *types.Slice:
			if bt, ok := u.Elem().Underlying().(*types.Basic); ok && (bt.Kind() == types.Uint8) {
				return 1
			}
			return 4
		}
		return 0
	}
	return sz(a) == 1 && sz(b) == 1
}

func (e *lfEngine) doUnOp(fr *lfFrame, st *lfState, x *ssa.UnOp) {
	switch x.Op {
	case token.MUL: // load
		addr := e.val(fr, st, x.X)
		if p, ok := addr.(vPtr); ok {
			if p.Nil == 1 {
				e.unknownObl(fr, x, "nil dereference", "load through a nil pointer literal")
			}
			key := fmt.Sprintf("%d%s", p.Obj, p.Path)
			if v, ok := st.heap[key]; ok {
				fr.env[x] = v
				return
			}
			if at, isArr := x.Type().Underlying().(*types.Array); isArr && e.bits && p.Elem == nil {
				// the whole array by value: a snapshot of its elements
				snap := &arrSnap{Elems: map[string]lfVal{}}
				for hk, hv := range st.heap {
					if strings.HasPrefix(hk, key+"[") && strings.HasSuffix(hk, "]") && !strings.Contains(hk[len(key)+1:], "[") {
						snap.Elems[hk[len(key):]] = hv
					}
				}
				if aid, has := e.arrOrg[key]; has {
					// elements written through a slice of the array live under the slice identity
					pfx := fmt.Sprintf("%d[", -50000-aid)
					for hk, hv := range st.heap {
						if strings.HasPrefix(hk, pfx) {
							snap.Elems[hk[len(pfx)-1:]] = hv
						}
					}
				}
				if len(snap.Elems) > 0 {
					fr.env[x] = vSlice{Len: linConst(at.Len()), Snap: snap}
					return
				}
			}
			v := e.fresh(st, x.Type(), apOf(x.X).String())
			// (a load nobody uses — `_ = b[2]`, the bounds-check hint — reads nothing that matters)
			if e.bits && p.Elem != nil && e.emitting() && x.Referrers() != nil && len(*x.Referrers()) > 0 {
				// a byte of an output buffer read before anything was stored into it on this
				// path: whatever an earlier packet left there
				switch n := p.Elem.Org.Name; {
				case n == "d", strings.HasPrefix(n, "arr:"), strings.HasPrefix(n, "f:"):
				default:
					idx := p.Elem.Idx
					st.events = append(st.events, lfEvent{Kind: "stale", Name: n + "[" + e.linString(idx) + "]", Val: "read before written", Pos: x.Pos(), Org: n, Idx: &idx})
				}
			}
			if e.bits && p.Elem != nil {
				if iv, isI := v.(vInt); isI && len(iv.E.T) == 1 && iv.E.C == 0 {
					for sy := range iv.E.T {
						if e.elemLoads == nil {
							e.elemLoads = map[Sym]lfElemRef{}
						}
						e.elemLoads[sy] = lfElemRef{Org: p.Elem.Org.Name, Idx: p.Elem.Idx}
					}
				}
			}
			if e.bits {
				if p.Elem != nil && p.Elem.Org.Name == "d" {
					if k, isK := p.Elem.Idx.isConst(); isK {
						if iv, ok := v.(vInt); ok {
							v = e.withBits(iv, bvSrc(fmt.Sprintf("d%d", k), 8))
							st.heap[key] = v
						}
					} else if iv, ok := v.(vInt); ok && e.extract && len(iv.E.T) == 1 && iv.E.C == 0 {
						for sy := range iv.E.T {
							iv.B = bvSrc(fmt.Sprintf("ld%d", int(sy)), 8)
						}
						v = iv
					}
				} else if pfx, isT := e.tracked[p.Obj]; isT && p.Path != "" && !strings.Contains(p.Path, "[") {
					name := pfx + strings.TrimPrefix(p.Path, ".")
					switch y := v.(type) {
					case vInt:
						if w := typeBits(x.Type()); w > 0 {
							b := bvSrc("f:"+name, w)
							if fw, ok := e.fieldWidth[name]; ok && fw < w {
								for i := fw; i < w; i++ {
									b.Bits[i] = bvBit{K: '0'}
								}
								st.cons = append(st.cons, leq(y.E, linConst(int64(1)<<uint(fw)-1)), geq(y.E, linConst(0)))
							}
							v = e.withBits(y, b)
						}
					case vOpaqueBool:
						y.Name = name
						v = y
						if e.boolName == nil {
							e.boolName = map[int]string{}
						}
						e.boolName[y.ID] = name
					case vSlice:
						// a string or slice field: its length is named after the field, not after
						// the variable the code happens to reach it through
						if len(y.Len.T) == 1 && y.Len.C == 0 {
							for sy := range y.Len.T {
								if int(sy) < len(e.symNames) {
									e.symNames[sy] = "len(f:" + name + ")"
								}
							}
						}
					}
				}
			}
			if !strings.Contains(p.Path, "[") {
				st.heap[key] = v
			}
			fr.env[x] = v
			return
		}
		fr.env[x] = e.fresh(st, x.Type(), x.Name())
	case token.NOT:
		fr.env[x] = vNot{e.val(fr, st, x.X)}
	case token.SUB:
		if isIntType(x.Type()) {
			v := e.asInt(st, e.val(fr, st, x.X), x.X.Type(), x.Name())
			fr.env[x] = vInt{E: e.normalise(st, v.scale(-1), x.Type(), exprText(x))}
			return
		}
		fr.env[x] = e.fresh(st, x.Type(), x.Name())
	case token.XOR:
		// bitwise complement: (2^w − 1) − x for an unsigned type, −x − 1 for a signed one
		if e.wrapExact && isIntType(x.Type()) {
			if lo, hi, ok := intRange(x.Type()); ok {
				v := e.asInt(st, e.val(fr, st, x.X), x.X.Type(), x.Name())
				if lo == 0 {
					fr.env[x] = vInt{E: v.scale(-1).addConst(hi)}
				} else {
					fr.env[x] = vInt{E: v.scale(-1).addConst(-1)}
				}
				return
			}
		}
		fr.env[x] = e.fresh(st, x.Type(), x.Name())
	default:
		fr.env[x] = e.fresh(st, x.Type(), x.Name())
	}
}

func (e *lfEngine) doBinOp(fr *lfFrame, st *lfState, x *ssa.BinOp) {
	l, r := e.val(fr, st, x.X), e.val(fr, st, x.Y)
	t := x.Type()
	switch x.Op {
	case token.EQL, token.NEQ, token.LSS, token.LEQ, token.GTR, token.GEQ:
		if isIntType(x.X.Type()) {
			a := e.asInt(st, l, x.X.Type(), exprText(x.X))
			b := e.asInt(st, r, x.Y.Type(), exprText(x.Y))
			fr.env[x] = e.mkCmp(st, x, a, b, l, r)
			return
		}
		if isBoolType(x.X.Type()) {
			fr.env[x] = vOpaqueBool{ID: e.id()}
			return
		}
		// nil comparisons of pointers/interfaces
		nilOf := func(v lfVal) (id int, nilness int, ok bool) {
			switch y := v.(type) {
			case vNilable:
				return y.ID, y.Nil, true
			case vPtr:
				if y.Nil == 1 {
					return 0, 1, true
				}
				return y.Obj, 0, true
			case vSlice:
				return 0, 0, false
			}
			return 0, 0, false
		}
		li, ln, lok := nilOf(l)
		ri, rn, rok := nilOf(r)
		if lok && rok && (x.Op == token.EQL || x.Op == token.NEQ) {
			var known, val bool
			var id int
			switch {
			case ln == 1 && rn == 1:
				known, val = true, true
			case ln == 1 && rn == 2, ln == 2 && rn == 1:
				known, val = true, false
			case ln == 1:
				id = ri
			case rn == 1:
				id = li
			}
			if known {
				if x.Op == token.NEQ {
					val = !val
				}
				fr.env[x] = vBoolConst(val)
				return
			}
			if id != 0 {
				// "value(id) is nil" as an opaque boolean keyed by the value's identity
				var b lfVal = vOpaqueBool{ID: -id}
				if x.Op == token.NEQ {
					b = vNot{b}
				}
				fr.env[x] = b
				return
			}
		}
		fr.env[x] = vOpaqueBool{ID: e.id()}
		return
	}
	if !isIntType(t) {
		if isFloatType(t) && x.Op == token.QUO {
			if f, ok := l.(vFloat); ok && f.Op == "" {
				if g, ok := r.(vFloat); ok && g.Op == "" && g.Den == 1 {
					if k, isK := g.E.isConst(); isK && k > 0 {
						fr.env[x] = vFloat{E: f.E, Den: f.Den * k}
						return
					}
				}
			}
		}
		if sliceLike(t) && x.Op == token.ADD { // string concatenation
			if a, ok := l.(vSlice); ok {
				if b, ok := r.(vSlice); ok {
					fr.env[x] = vSlice{Len: a.Len.add(b.Len, 1)}
					return
				}
			}
		}
		fr.env[x] = e.fresh(st, t, x.Name())
		return
	}
	a := e.asInt(st, l, x.X.Type(), exprText(x.X))
	b := e.asInt(st, r, x.Y.Type(), exprText(x.Y))
	name := exprText(x)
	nonNeg := func(v Lin) bool { return entails(st.cons, geq(v, linConst(0))) }
	if e.bits {
		defer func() {
			rv, ok := fr.env[x].(vInt)
			if !ok {
				return
			}
			li, lok := l.(vInt)
			ri, rok := r.(vInt)
			w := typeBits(t)
			if !lok || !rok || w == 0 {
				return
			}
			lb, rb := li.B, ri.B
			if lb == nil {
				if k, isK := li.E.isConst(); isK {
					lb = bvConst(k, w)
				}
			}
			if rb == nil {
				if k, isK := ri.E.isConst(); isK {
					rb = bvConst(k, w)
				}
			}
			var out *bv
			switch x.Op {
			case token.AND:
				out = bvBinary("&", lb, rb, w)
			case token.OR:
				out = bvBinary("|", lb, rb, w)
			case token.XOR:
				out = bvBinary("^", lb, rb, w)
			case token.AND_NOT:
				out = bvBinary("&^", lb, rb, w)
			case token.ADD:
				out = bvBinary("+", lb, rb, w)
				if out == nil {
					out = bvAddSub(lb, rb, w, false)
				}
			case token.SUB:
				out = bvAddSub(lb, rb, w, true)
			case token.SHL:
				if k, isK := ri.E.isConst(); isK && k >= 0 && k < 64 && lb != nil {
					out = lb.resize(w, false).shl(int(k), w)
				}
			case token.SHR:
				if k, isK := ri.E.isConst(); isK && k >= 0 && k < 64 && lb != nil {
					out = lb.resize(w, isSignedInt(x.X.Type())).shr(int(k), isSignedInt(x.X.Type()))
				}
			}
			if out != nil {
				fr.env[x] = e.withBits(rv, out)
			}
		}()
	}
	// both operands constant: fold exactly (non-negative operands; the narrowing of the
	// result type is applied by normalise)
	if ka, okA := a.isConst(); okA {
		if kb, okB := b.isConst(); okB && ka >= 0 && kb >= 0 {
			var res int64
			folded := true
			switch x.Op {
			case token.AND:
				res = ka & kb
			case token.OR:
				res = ka | kb
			case token.XOR:
				res = ka ^ kb
			case token.AND_NOT:
				res = ka &^ kb
			case token.SHR:
				if kb < 63 {
					res = ka >> uint(kb)
				} else {
					folded = false
				}
			default:
				folded = false
			}
			if folded {
				fr.env[x] = vInt{E: e.normalise(st, linConst(res), t, name)}
				return
			}
		}
	}
	switch x.Op {
	case token.ADD:
		fr.env[x] = vInt{E: e.normalise(st, a.add(b, 1), t, name)}
	case token.SUB:
		fr.env[x] = vInt{E: e.normalise(st, a.add(b, -1), t, name)}
	case token.MUL:
		if k, ok := b.isConst(); ok {
			fr.env[x] = vInt{E: e.normalise(st, a.scale(k), t, name)}
		} else if k, ok := a.isConst(); ok {
			fr.env[x] = vInt{E: e.normalise(st, b.scale(k), t, name)}
		} else {
			fr.env[x] = e.fresh(st, t, name)
		}
	case token.QUO, token.REM:
		k, isK := b.isConst()
		if !isK {
			e.require(fr, st, x, "division by non-zero: "+name, gt(b, linConst(0)))
			fr.env[x] = e.fresh(st, t, name)
			return
		}
		if k == 0 {
			e.unknownObl(fr, x, "division by non-zero: "+name, "constant zero divisor")
			fr.env[x] = e.fresh(st, t, name)
			return
		}
		if k > 0 && nonNeg(a) {
			q := linSym(e.newSym("(" + e.linString(a) + ")/" + fmt.Sprint(k)))
			rm := linSym(e.newSym("(" + e.linString(a) + ")%" + fmt.Sprint(k)))
			// a = k·q + r, 0 ≤ r ≤ k−1, q ≥ 0
			st.cons = append(st.cons, geq(a, q.scale(k).add(rm, 1)), leq(a, q.scale(k).add(rm, 1)), geq(rm, linConst(0)), leq(rm, linConst(k-1)), geq(q, linConst(0)))
			if x.Op == token.QUO {
				fr.env[x] = vInt{E: q}
			} else {
				fr.env[x] = vInt{E: rm}
			}
			return
		}
		fr.env[x] = e.fresh(st, t, name)
	case token.AND:
		// x & mask: within [0, mask], and ≤ x when x ≥ 0
		m, isM := b.isConst()
		other := a
		if !isM {
			m, isM = a.isConst()
			other = b
		}
		if isM && m > 0 && m&(m-1) == 0 && e.wrapExact && nonNeg(other) {
			// one bit: x & 2^k = 2^k·t with x = 2^(k+1)·q + 2^k·t + r, t ∈ {0,1}, 0 ≤ r < 2^k
			tt := linSym(e.newSym("bit(" + name + ")"))
			q := linSym(e.newSym("hi(" + name + ")"))
			rm := linSym(e.newSym("lo(" + name + ")"))
			sum := q.scale(2*m).add(tt.scale(m), 1).add(rm, 1)
			st.cons = append(st.cons, geq(tt, linConst(0)), leq(tt, linConst(1)), geq(q, linConst(0)), geq(rm, linConst(0)), leq(rm, linConst(m-1)), geq(other, sum), leq(other, sum))
			fr.env[x] = vInt{E: tt.scale(m)}
			return
		}
		if isM && m > 0 && (m+1)&m == 0 && e.wrapExact && nonNeg(other) {
			// low mask: x & (2^k − 1) = r with x = 2^k·q + r, 0 ≤ r < 2^k
			q := linSym(e.newSym("hi(" + name + ")"))
			rm := linSym(e.newSym("lo(" + name + ")"))
			sum := q.scale(m+1).add(rm, 1)
			st.cons = append(st.cons, geq(q, linConst(0)), geq(rm, linConst(0)), leq(rm, linConst(m)), geq(other, sum), leq(other, sum))
			fr.env[x] = vInt{E: rm}
			return
		}
		if isM && m >= 0 {
			s := linSym(e.newSym(name))
			st.cons = append(st.cons, geq(s, linConst(0)), leq(s, linConst(m)))
			if nonNeg(other) {
				st.cons = append(st.cons, leq(s, other))
			}
			fr.env[x] = vInt{E: s}
			return
		}
		fr.env[x] = e.fresh(st, t, name)
	case token.SHR:
		if k, ok := b.isConst(); ok && k >= 0 && k < 62 && nonNeg(a) {
			q := linSym(e.newSym(name))
			p := int64(1) << uint(k)
			st.cons = append(st.cons, leq(q.scale(p), a), geq(q.scale(p), a.addConst(-(p-1))), geq(q, linConst(0)))
			fr.env[x] = vInt{E: q}
			return
		}
		fr.env[x] = e.fresh(st, t, name)
	case token.SHL:
		if k, ok := b.isConst(); ok && k >= 0 && k < 31 {
			fr.env[x] = vInt{E: e.normalise(st, a.scale(int64(1)<<uint(k)), t, name)}
			return
		}
		fr.env[x] = e.fresh(st, t, name)
	case token.OR, token.XOR, token.AND_NOT:
		v := e.fresh(st, t, name)
		if x.Op == token.OR && nonNeg(a) && nonNeg(b) {
			// a|b ≤ a+b and ≥ max(a,b)
			s := v.(vInt).E
			st.cons = append(st.cons, leq(s, a.add(b, 1)), geq(s, a), geq(s, b))
		}
		fr.env[x] = v
	default:
		fr.env[x] = e.fresh(st, t, name)
	}
}

// ---------------------------------------------------------------- loops

func (e *lfEngine) execLoop(fr *lfFrame, st *lfState, l *Loop, from *ssa.BasicBlock, k lfCont) {
	h := l.Header
	// phi nodes of the header and their entry values
	type phiInfo struct {
		phi    *ssa.Phi
		entry  lfVal
		sym    Lin // fresh symbol standing for the value at the loop head (ints: value; slices: length)
		isInt  bool
		isSl   bool
		stride int64 // every back edge adds this constant (0: none)
		word   bool  // word-sized integer (no wrap-around under the engine's standing assumption)
	}
	var phis []*phiInfo
	for _, in := range h.Instrs {
		ph, ok := in.(*ssa.Phi)
		if !ok {
			break
		}
		pi := &phiInfo{phi: ph}
		for j, p := range h.Preds {
			if p == from {
				pi.entry = e.val(fr, st, ph.Edges[j])
			}
		}
		if pi.entry == nil {
			pi.entry = e.fresh(st, ph.Type(), ph.Name())
		}
		switch pi.entry.(type) {
		case vInt:
			pi.isInt = true
		case vSlice:
			pi.isSl = true
		}
		phis = append(phis, pi)
	}
	// heap entries written inside the loop are unknown at the head
	st = st.clone()
	e.havocLoopHeap(fr, st, l)

	name := func(pi *phiInfo) string {
		if pi.phi.Comment != "" {
			return pi.phi.Comment
		}
		return pi.phi.Name()
	}
	for _, pi := range phis {
		if pi.isInt {
			s := e.newSym(name(pi) + "@loop")
			pi.sym = linSym(s)
			if lo, hi, ok := intRange(pi.phi.Type()); ok {
				st.cons = append(st.cons, geq(pi.sym, linConst(lo)), leq(pi.sym, linConst(hi)))
			}
			pi.stride, pi.word = constStride(pi.phi, l)
		} else if pi.isSl {
			s := e.newSym("len(" + name(pi) + ")@loop")
			pi.sym = linSym(s)
			st.cons = append(st.cons, geq(pi.sym, linConst(0)))
		}
	}
	// constant strides: when every back edge of a word-sized integer carries phi+c, its
	// value at the head is entry + c·K for the number K ≥ 0 of completed iterations, the
	// same K for all such integers of this loop (overflow of word-sized arithmetic is
	// excluded by the engine's standing assumption)
	var iterK *Lin
	for _, pi := range phis {
		if !pi.isInt || pi.stride == 0 || !pi.word {
			continue
		}
		ent, isI := pi.entry.(vInt)
		if !isI {
			continue
		}
		if iterK == nil {
			kq := linSym(e.newSym("iter@loop"))
			iterK = &kq
			st.cons = append(st.cons, geq(kq, linConst(0)))
		}
		eq := pi.sym.add(ent.E, -1).add(*iterK, -pi.stride)
		st.cons = append(st.cons, Cons{eq}, Cons{eq.scale(-1)})
	}
	// candidate invariants (each is a constraint over the head symbols and outer symbols)
	type cand struct {
		c     Cons
		alive bool
		// the same constraint with the head symbols replaced by the back-edge values is checked at each back edge
	}
	var cands []*cand
	addCand := func(c Cons) {
		// must hold on entry
		sub := e.substPhis(c, nil)
		_ = sub
		cands = append(cands, &cand{c: c, alive: true})
	}
	// lengths in scope (outer slices): candidates for upper bounds
	var outerLens []Lin
	seenLen := map[string]bool{}
	for _, v := range fr.env {
		if s, ok := v.(vSlice); ok {
			if _, isC := s.Len.isConst(); !isC && !seenLen[s.Len.key()] {
				seenLen[s.Len.key()] = true
				outerLens = append(outerLens, s.Len)
			}
		}
	}
	sort.Slice(outerLens, func(i, j int) bool { return outerLens[i].key() < outerLens[j].key() })
	entryOf := func(pi *phiInfo) (Lin, bool) {
		switch x := pi.entry.(type) {
		case vInt:
			return x.E, true
		case vSlice:
			return x.Len, true
		}
		return Lin{}, false
	}
	for _, pi := range phis {
		ent, ok := entryOf(pi)
		if !ok {
			continue
		}
		addCand(geq(pi.sym, ent))
		addCand(leq(pi.sym, ent))
		if pi.isInt {
			for _, ol := range outerLens {
				addCand(leq(pi.sym, ol))
			}
		}
	}
	// bounds the loop itself compares against: for a rotated loop (`for i := range n`: the
	// test sits at the bottom and is made on the next value) "i < n" holds at the head though
	// no path from the head has tested it; proposed for every integer the loop compares with a
	// value computed before the loop, kept only if it holds on entry and across every back edge
	{
		seenB := map[string]bool{}
		for b := range l.Blocks {
			if len(b.Instrs) == 0 {
				continue
			}
			ifi, isIf := b.Instrs[len(b.Instrs)-1].(*ssa.If)
			if !isIf {
				continue
			}
			bo, isBo := ifi.Cond.(*ssa.BinOp)
			if !isBo {
				continue
			}
			switch bo.Op {
			case token.LSS, token.LEQ, token.GTR, token.GEQ:
			default:
				continue
			}
			for _, side := range []ssa.Value{bo.X, bo.Y} {
				if !isIntType(side.Type().Underlying()) {
					continue
				}
				if in, isIn := side.(ssa.Instruction); isIn && in.Block() != nil && l.Blocks[in.Block()] {
					continue // computed inside the loop
				}
				if _, isC := side.(*ssa.Const); isC {
					continue
				}
				bv, ok := fr.env[side]
				if !ok {
					continue
				}
				bi, isInt := bv.(vInt)
				if !isInt || seenB[bi.E.key()] {
					continue
				}
				seenB[bi.E.key()] = true
				for _, pi := range phis {
					if pi.isInt {
						addCand(lt(pi.sym, bi.E))
						addCand(leq(pi.sym, bi.E))
					}
				}
			}
		}
	}
	// relations between pairs of integer phis and between int phis and slice phis' lengths
	for _, p := range phis {
		for _, q := range phis {
			if p == q || !(p.isInt || p.isSl) || !(q.isInt || q.isSl) {
				continue
			}
			if p.isInt && q.isSl {
				addCand(leq(p.sym, q.sym))
			}
		}
	}
	// two integers advancing in lock-step keep their distance (narrow counters included: the
	// candidate survives the back-edge check only if the narrow one provably does not wrap)
	for i, p := range phis {
		for _, q := range phis[i+1:] {
			if !p.isInt || !q.isInt || p.stride == 0 || p.stride != q.stride || (p.word && q.word) {
				continue
			}
			pe, ok1 := entryOf(p)
			qe, ok2 := entryOf(q)
			if ok1 && ok2 {
				d := p.sym.add(q.sym, -1).add(pe, -1).add(qe, 1) // (p − q) − (pe − qe)
				addCand(Cons{d})
				addCand(Cons{d.scale(-1)})
			}
		}
	}
	// keep only candidates that hold on entry
	entrySubst := func(c Cons) Cons {
		m := map[Sym]Lin{}
		for _, pi := range phis {
			if !(pi.isInt || pi.isSl) {
				continue
			}
			ent, _ := entryOf(pi)
			for s := range pi.sym.T {
				m[s] = ent
			}
		}
		return Cons{linSubstAll(c.E, m)}
	}
	for _, cd := range cands {
		if !entails(st.cons, entrySubst(cd.c)) {
			cd.alive = false
		}
	}

	bindHead := func(f2 *lfFrame) {
		for _, pi := range phis {
			switch {
			case pi.isInt:
				f2.env[pi.phi] = vInt{E: pi.sym}
			case pi.isSl:
				f2.env[pi.phi] = vSlice{Len: pi.sym}
			default:
				f2.env[pi.phi] = e.fresh(st, pi.phi.Type(), name(pi))
			}
		}
	}
	firstNonPhi := 0
	for firstNonPhi < len(h.Instrs) {
		if _, ok := h.Instrs[firstNonPhi].(*ssa.Phi); !ok {
			break
		}
		firstNonPhi++
	}
	backSubst := func(c Cons, f2 *lfFrame, s2 *lfState, fromB *ssa.BasicBlock) Cons {
		m := map[Sym]Lin{}
		for _, pi := range phis {
			if !(pi.isInt || pi.isSl) {
				continue
			}
			var bv Lin
			found := false
			for j, p := range h.Preds {
				if p == fromB {
					switch y := e.val(f2, s2, pi.phi.Edges[j]).(type) {
					case vInt:
						bv, found = y.E, true
					case vSlice:
						bv, found = y.Len, true
					}
				}
			}
			for s := range pi.sym.T {
				if _, has := c.E.T[s]; has {
					if !found {
						// unknown back-edge value: the candidate cannot be shown
						return Cons{linConst(-1)}
					}
					m[s] = bv
				}
			}
		}
		return Cons{linSubstAll(c.E, m)}
	}

	// Houdini iterations
	for iter := 0; iter < 12; iter++ {
		s1 := st.clone()
		for _, cd := range cands {
			if cd.alive {
				s1.cons = append(s1.cons, cd.c)
			}
		}
		f1 := fr.cloneEnv()
		bindHead(f1)
		changed := false
		lc := &lfLoopCtx{loop: l}
		lc.onBack = func(f2 *lfFrame, s2 *lfState, fromB *ssa.BasicBlock) {
			for _, cd := range cands {
				if cd.alive && !entails(s2.cons, backSubst(cd.c, f2, s2, fromB)) {
					cd.alive = false
					changed = true
				}
			}
		}
		f1.active = append(f1.active, lc)
		e.quiet++
		e.execFrom(f1, s1, h, nil, firstNonPhi, func(*lfState, []lfVal) {})
		e.quiet--
		if !changed {
			break
		}
	}
	// capture pass (bit-provenance mode): the events of one generalised iteration
	if e.bits && e.emitting() {
		sC := st.clone()
		for _, cd := range cands {
			if cd.alive {
				sC.cons = append(sC.cons, cd.c)
			}
		}
		n0, t0 := len(sC.events), len(sC.trail)
		fC := fr.cloneEnv()
		bindHead(fC)
		meta := &lfLoopMeta{Pos: firstPos(h), Entry: map[Sym]Lin{}, Stride: map[Sym]int64{}}
		for _, pi := range phis {
			if !pi.isInt {
				continue
			}
			for sy := range pi.sym.T {
				meta.Syms = append(meta.Syms, sy)
				if ent, ok := pi.entry.(vInt); ok {
					meta.Entry[sy] = ent.E
				}
				meta.Stride[sy] = pi.stride
			}
		}
		var loopEvs []lfEvent
		lcC := &lfLoopCtx{loop: l}
		lcC.onBack = func(f2 *lfFrame, s2 *lfState, fromB *ssa.BasicBlock) {
			m := *meta
			m.Guard = append([]string{}, s2.trail[t0:]...)
			m.Cons = append([]Cons{}, s2.cons...)
			// one marker per way of reaching the back edge, so that rules can tell whether
			// an event occurs on every iteration
			mk := m
			loopEvs = append(loopEvs, lfEvent{Kind: "loop:path", Name: strings.Join(m.Guard, " ∧ "), Pos: m.Pos, Loop: &mk})
			for _, ev := range s2.events[n0:] {
				ev.Kind = "loop:" + ev.Kind
				if ev.Loop == nil {
					mm := m
					ev.Loop = &mm
				}
				loopEvs = append(loopEvs, ev)
			}
		}
		fC.active = append(fC.active, lcC)
		e.quiet++
		e.capture++
		e.execFrom(fC, sC, h, nil, firstNonPhi, func(*lfState, []lfVal) {})
		e.capture--
		e.quiet--
		st.events = append(st.events, loopEvs...)
	}
	// final pass with the inferred invariants
	s1 := st.clone()
	var inv []string
	for _, cd := range cands {
		if cd.alive {
			s1.cons = append(s1.cons, cd.c)
			inv = append(inv, e.linString(cd.c.E)+"≥0")
		}
	}
	s1.trail = append(s1.trail, "loop@"+e.c.Pos(firstPos(h)))
	f1 := fr.cloneEnv()
	bindHead(f1)
	lc := &lfLoopCtx{loop: l, final: true}
	lc.onBack = func(*lfFrame, *lfState, *ssa.BasicBlock) {}
	f1.active = append(f1.active, lc)
	e.execFrom(f1, s1, h, nil, firstNonPhi, k)
}

// constStride: every in-loop incoming edge of the integer phi is phi + c for
// one constant c ≠ 0 (c returned; 0 when not so). word reports whether the phi
// is a word-sized integer.
func constStride(ph *ssa.Phi, l *Loop) (int64, bool) {
	bt, ok := ph.Type().Underlying().(*types.Basic)
	if !ok || bt.Info()&types.IsInteger == 0 {
		return 0, false
	}
	word := false
	switch bt.Kind() {
	case types.Int, types.Int64, types.Uint, types.Uint64, types.Uintptr:
		word = true
	}
	var stride int64
	n := 0
	for j, p := range ph.Block().Preds {
		if !l.Blocks[p] {
			continue
		}
		bo, ok := ph.Edges[j].(*ssa.BinOp)
		if !ok || (bo.Op != token.ADD && bo.Op != token.SUB) {
			return 0, word
		}
		var k int64
		var isK bool
		switch {
		case bo.X == ssa.Value(ph):
			k, isK = constInt(bo.Y)
			if bo.Op == token.SUB {
				k = -k
			}
		case bo.Y == ssa.Value(ph) && bo.Op == token.ADD:
			k, isK = constInt(bo.X)
		}
		if !isK || k == 0 || (n > 0 && k != stride) {
			return 0, word
		}
		stride = k
		n++
	}
	if n == 0 {
		return 0, word
	}
	return stride, word
}

func (e *lfEngine) substPhis(c Cons, _ interface{}) Cons { return c }

// linSubstAll simultaneously replaces the symbols in m.
func linSubstAll(a Lin, m map[Sym]Lin) Lin {
	out := Lin{T: map[Sym]int64{}, C: a.C}
	for k, v := range a.T {
		if _, sub := m[k]; !sub {
			out.T[k] = v
		}
	}
	for k, v := range a.T {
		if by, sub := m[k]; sub {
			out = out.add(by, v)
		}
	}
	return out
}

// linSubst replaces symbol s in a by the linear form by.
func linSubst(a Lin, s Sym, by Lin) Lin {
	coef, has := a.T[s]
	if !has {
		return a
	}
	out := Lin{T: map[Sym]int64{}, C: a.C}
	for k, v := range a.T {
		if k != s {
			out.T[k] = v
		}
	}
	return out.add(by, coef)
}

func firstPos(b *ssa.BasicBlock) token.Pos {
	for _, in := range b.Instrs {
		if in.Pos().IsValid() {
			return in.Pos()
		}
	}
	return token.NoPos
}

// havocLoopHeap forgets heap facts about locations stored to inside the loop,
// and everything if the loop makes a call that is not known to be pure.
func (e *lfEngine) havocLoopHeap(fr *lfFrame, st *lfState, l *Loop) {
	all := false
	var paths []string
	for b := range l.Blocks {
		for _, in := range b.Instrs {
			switch x := in.(type) {
			case *ssa.Store:
				a := apOf(x.Addr)
				paths = append(paths, a.SelString())
			case *ssa.Call:
				if !e.callIsPure(&x.Call) {
					all = true
				}
			}
		}
	}
	if all {
		st.heap = map[string]lfVal{}
		return
	}
	for hk := range st.heap {
		for _, p := range paths {
			if p == "" {
				continue
			}
			last := p
			if i := strings.LastIndex(p, "."); i >= 0 {
				last = p[i+1:]
			}
			if strings.Contains(hk, "."+last) {
				delete(st.heap, hk)
			}
		}
	}
}

// callIsPure: the call cannot modify tracked heap locations.
func (e *lfEngine) callIsPure(cc *ssa.CallCommon) bool {
	if _, ok := cc.Value.(*ssa.Builtin); ok {
		return true
	}
	n := calleeName(cc)
	if lfContractPure[n] || strings.HasPrefix(n, "fmt.") || strings.HasPrefix(n, "math.") || strings.HasPrefix(n, "(encoding/binary.") || strings.HasPrefix(n, "errors.") {
		return true
	}
	if f := cc.StaticCallee(); f != nil && e.c.InModule(f) {
		return e.isPure(f)
	}
	// code outside the module that is handed nothing it could write through (only numbers,
	// booleans and strings) cannot change anything the analysis tracks
	if f := cc.StaticCallee(); f != nil && !cc.IsInvoke() {
		for _, a := range cc.Args {
			switch t := a.Type().Underlying().(type) {
			case *types.Basic:
				_ = t
			default:
				return false
			}
		}
		return true
	}
	return false
}

func (e *lfEngine) isPure(f *ssa.Function) bool {
	if v := e.pure[f]; v != 0 {
		return v == 1
	}
	e.pure[f] = 1 // optimistic for recursion
	ok := f.Blocks != nil
	rawInstrs(f, false, func(in ssa.Instruction) {
		switch x := in.(type) {
		case *ssa.Store:
			// stores to locals only
			if _, isAl := apOf(x.Addr).Root.(*ssa.Alloc); !isAl {
				ok = false
			}
		case *ssa.MapUpdate, *ssa.Send, *ssa.Go, *ssa.Defer:
			ok = false
		case *ssa.Call:
			if !e.callIsPure(&x.Call) {
				ok = false
			}
		}
	})
	if ok {
		e.pure[f] = 1
	} else {
		e.pure[f] = 2
	}
	return ok
}

var lfContractPure = map[string]bool{
	"crypto/hmac.Equal": true, "crypto/subtle.ConstantTimeCompare": true,
	"(github.com/google/gopacket.DecodeFeedback).SetTruncated": true,
	"(hash.Hash).Write": true, "(hash.Hash).Sum": true, "(hash.Hash).Reset": true, "(hash.Hash).Size": true, "(hash.Hash).BlockSize": true,
	"(io.Writer).Write":               true,
	"(crypto/cipher.Block).BlockSize": true, "crypto/cipher.NewCBCDecrypter": true, "crypto/cipher.NewCBCEncrypter": true,
	"(crypto/cipher.BlockMode).CryptBlocks":       true,
	"github.com/gebn/bmc/internal/pkg/bcd.Decode": true,
}

// nameByType: in bits mode with typeNames set, a newly created object of a listed struct
// type is tracked under that type's prefix (so that the fields of "the RAKP Message 1" have
// one name whether the object is a parameter, a local, or came back from a call).
func (e *lfEngine) nameByType(obj int, t types.Type) {
	if e.typeNames == nil {
		return
	}
	if pfx, ok := e.typeNames[types.TypeString(t, nil)]; ok {
		if e.tracked == nil {
			e.tracked = map[int]string{}
		}
		e.tracked[obj] = pfx
	}
}

var (
	roGlobalMu    sync.Mutex
	roGlobalCache = map[*ssa.Global]bool{}
)

// readOnlyGlobal: a package-level variable of the module that no function other than the
// package initialisers stores to or through, and whose address is not handed on.
func (e *lfEngine) readOnlyGlobal(g *ssa.Global) bool {
	roGlobalMu.Lock()
	if v, ok := roGlobalCache[g]; ok {
		roGlobalMu.Unlock()
		return v
	}
	roGlobalMu.Unlock()
	ro := g.Pkg != nil && strings.HasPrefix(g.Pkg.Pkg.Path(), modPath)
	if ro {
		for _, fn := range e.c.ModFn {
			if fn.Blocks == nil || fn.Name() == "init" {
				continue
			}
			for _, b := range fn.Blocks {
				for _, in := range b.Instrs {
					switch x := in.(type) {
					case *ssa.Store:
						if apOf(x.Addr).Root == ssa.Value(g) {
							ro = false
						}
					case *ssa.MapUpdate:
						if apOf(x.Map).Root == ssa.Value(g) {
							ro = false
						}
					}
				}
			}
		}
	}
	roGlobalMu.Lock()
	roGlobalCache[g] = ro
	roGlobalMu.Unlock()
	return ro
}

// tableLoad: x = *(&table[idx].f.g…) with table a read-only package-level array or slice.
func (e *lfEngine) tableLoad(fr *lfFrame, st *lfState, x *ssa.UnOp, cont func(*lfState, *lfFrame)) bool {
	var fields []string
	addr := x.X
	for i := 0; i < 8; i++ {
		// the element's address may have been taken once and kept in a local (flag := &table[i])
		fa, ok := addr.(*ssa.FieldAddr)
		if !ok {
			break
		}
		f := structField(fa.X.Type(), fa.Field)
		if f == nil {
			return false
		}
		fields = append([]string{f.Name()}, fields...)
		addr = fa.X
	}
	ia, ok := addr.(*ssa.IndexAddr)
	if !ok {
		return false
	}
	var g *ssa.Global
	switch b := ia.X.(type) {
	case *ssa.Global:
		g = b
	case *ssa.UnOp:
		if b.Op == token.MUL {
			g, _ = b.X.(*ssa.Global)
		}
	}
	if g == nil || !e.readOnlyGlobal(g) {
		return false
	}
	if e.initR == nil {
		e.initR = newInitReader(e.c)
	}
	tbl := e.initR.global(g)
	if tbl == nil || tbl.Kind != "slice" || len(tbl.Elems) == 0 || len(tbl.Elems) > 64 {
		return false
	}
	idx, isInt := e.val(fr, st, ia.Index).(vInt)
	if !isInt {
		return false
	}
	if e.extract && len(fields) == 0 && idx.B != nil {
		if _, isK := idx.E.isConst(); !isK {
			if w := typeBits(x.Type().Underlying()); w > 0 {
				if res, ok := e.fresh(st, x.Type(), g.Name()+"[…]").(vInt); ok {
					res.B = bvTagged("tbl:"+g.Name(), w, idx.B)
					fr.env[x] = res
					cont(st, fr)
					return true
				}
			}
		}
	}
	valueOf := func(k int) (lfVal, bool) {
		gv := tbl.Elems[k]
		for _, f := range fields {
			if gv == nil || (gv.Kind != "struct" && gv.Kind != "zero") {
				return nil, false
			}
			if gv.Kind == "zero" {
				continue
			}
			next, has := gv.Fields[f]
			if !has {
				// a field the literal does not mention holds its zero value
				next = &GVal{Kind: "zero"}
			}
			gv = next
		}
		if gv == nil {
			return nil, false
		}
		if gv.Kind == "zero" {
			if bt, ok := x.Type().Underlying().(*types.Basic); ok {
				switch {
				case bt.Info()&types.IsBoolean != 0:
					return vBoolConst(false), true
				case bt.Info()&types.IsInteger != 0:
					out := vInt{E: linConst(0)}
					if e.bits {
						if w := typeBits(x.Type().Underlying()); w > 0 && w <= 64 {
							out = e.withBits(out, bvConst(0, w))
						}
					}
					return out, true
				}
			}
			return nil, false
		}
		switch gv.Kind {
		case "const":
			if gv.Const == nil {
				return nil, false
			}
			switch gv.Const.Kind() {
			case constant.Int:
				v, ok := constant.Int64Val(gv.Const)
				if !ok {
					return nil, false
				}
				out := vInt{E: linConst(v)}
				if e.bits {
					if w := typeBits(x.Type().Underlying()); w > 0 && w <= 64 {
						out = e.withBits(out, bvConst(v, w))
					}
				}
				return out, true
			case constant.Bool:
				return vBoolConst(constant.BoolVal(gv.Const)), true
			}
		case "func":
			if gv.Func == nil {
				return nil, false
			}
			if _, isIface := x.Type().Underlying().(*types.Interface); isIface {
				return vNilable{ID: e.id(), Nil: 2, Inner: vFunc{Fn: gv.Func}}, true
			}
			return vFunc{Fn: gv.Func}, true
		}
		return nil, false
	}
	if k, isK := idx.E.isConst(); isK {
		if k < 0 || int(k) >= len(tbl.Elems) {
			return false
		}
		v, ok := valueOf(int(k))
		if !ok {
			return false
		}
		fr.env[x] = v
		cont(st, fr)
		return true
	}
	// every element must be readable, else leave the load to the generic model
	vals := make([]lfVal, len(tbl.Elems))
	for k := range tbl.Elems {
		v, ok := valueOf(k)
		if !ok {
			return false
		}
		vals[k] = v
	}
	forked := false
	for k := range tbl.Elems {
		cs := []Cons{geq(idx.E, linConst(int64(k))), leq(idx.E, linConst(int64(k)))}
		if infeasibleWith(st.cons, cs...) {
			continue
		}
		s2 := st.clone()
		s2.cons = append(s2.cons, cs...)
		s2.trail = append(s2.trail, fmt.Sprintf("%s[%d]", g.Name(), k))
		f2 := fr.cloneEnv()
		f2.env[x] = vals[k]
		forked = true
		cont(s2, f2)
	}
	return forked
}

// assertJustifiedVia: the asserted value is the first result of a module function that hands
// back what gopacket.Packet.Layer(t) gave it (or nil together with an error), t being a
// package-level layer type — written in the function, or held in a field of the read-only
// package-level descriptor the function is called on. The caller must have examined the
// error before asserting. handled=false when the operand does not have this form.
func (e *lfEngine) assertJustifiedVia(x *ssa.TypeAssert) (why string, ok bool, handled bool) {
	ex, isEx := x.X.(*ssa.Extract)
	if !isEx || ex.Index != 0 {
		return "", false, false
	}
	call, isCall := ex.Tuple.(*ssa.Call)
	if !isCall {
		return "", false, false
	}
	callee := call.Call.StaticCallee()
	if callee == nil || callee.Blocks == nil || !e.c.InModule(callee) || callee.Signature.Results().Len() != 2 {
		return "", false, false
	}
	// the caller looked at the error first
	errTested := false
	for _, ref := range *call.Referrers() {
		e2, ok := ref.(*ssa.Extract)
		if !ok || e2.Index != 1 {
			continue
		}
		for _, r2 := range *e2.Referrers() {
			if bo, ok := r2.(*ssa.BinOp); ok && (bo.Op == token.EQL || bo.Op == token.NEQ) && (isNilConst(bo.X) || isNilConst(bo.Y)) && mustPrecede(x.Parent(), bo, x) {
				errTested = true
			}
		}
	}
	if !errTested {
		return "the helper's error is not examined before the assertion", false, true
	}
	var globals []*ssa.Global
	n := 0
	for _, ret := range returnsOf(callee) {
		if len(ret.Results) != 2 {
			return "", false, false
		}
		if isNilConst(ret.Results[0]) {
			continue
		}
		if !isNilConst(ret.Results[1]) {
			return "the helper returns a layer together with an error", false, true
		}
		lc, isL := ret.Results[0].(*ssa.Call)
		if !isL || !lc.Call.IsInvoke() || lc.Call.Method.Name() != "Layer" || len(lc.Call.Args) != 1 {
			return "the helper's result is not what gopacket.Packet.Layer returned", false, true
		}
		// compared with nil in the helper before it is returned
		tested := false
		for _, ref := range *lc.Referrers() {
			if bo, ok := ref.(*ssa.BinOp); ok && (bo.Op == token.EQL || bo.Op == token.NEQ) && (isNilConst(bo.X) || isNilConst(bo.Y)) && mustPrecede(callee, bo, ret) {
				tested = true
			}
		}
		if !tested {
			return "the helper does not compare the layer with nil", false, true
		}
		n++
		ld, isLd := lc.Call.Args[0].(*ssa.UnOp)
		if !isLd || ld.Op != token.MUL {
			return "layer type is not a package-level layer type", false, true
		}
		switch a := ld.X.(type) {
		case *ssa.Global:
			globals = append(globals, a)
		case *ssa.FieldAddr:
			// a field of the descriptor the helper was called on
			if len(callee.Params) == 0 || a.X != ssa.Value(callee.Params[0]) || len(call.Call.Args) == 0 {
				return "layer type is not a package-level layer type", false, true
			}
			var desc *ssa.Global
			switch r := call.Call.Args[0].(type) {
			case *ssa.Global:
				desc = r
			case *ssa.UnOp:
				desc, _ = r.X.(*ssa.Global)
			}
			f := structField(a.X.Type(), a.Field)
			if desc == nil || f == nil || !e.readOnlyGlobal(desc) {
				return "layer type is held in something other than a read-only package-level descriptor", false, true
			}
			found := false
			for _, st := range fieldStores[f] {
				fa := st.Addr.(*ssa.FieldAddr)
				if fa.X != ssa.Value(desc) {
					continue
				}
				if l2, ok := st.Val.(*ssa.UnOp); ok && l2.Op == token.MUL {
					if g, ok := l2.X.(*ssa.Global); ok {
						globals = append(globals, g)
						found = true
					}
				}
			}
			if !found {
				return "the descriptor's layer type is not initialised from a package-level layer type", false, true
			}
		default:
			return "layer type is not a package-level layer type", false, true
		}
	}
	if n == 0 {
		return "the helper never returns a layer", false, true
	}
	for _, g := range globals {
		m := 0
		for _, fn := range e.c.LibFuncs() {
			if fn.Name() != "LayerType" || fn.Signature.Recv() == nil {
				continue
			}
			for _, ret := range returnsOf(fn) {
				for _, v := range possibleValues(ret.Results[0]) {
					if l2, ok := v.(*ssa.UnOp); ok && l2.X == ssa.Value(g) {
						rt := fn.Signature.Recv().Type()
						if !types.Identical(rt, x.AssertedType) {
							return "another type (" + types.TypeString(rt, shortQual) + ") also reports this layer type", false, true
						}
						m++
					}
				}
			}
		}
		if m == 0 {
			return "no module type reports this layer type", false, true
		}
	}
	return "", true, true
}
