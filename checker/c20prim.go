package main

import (
	"fmt"
	"go/token"
	"go/types"

	"golang.org/x/tools/go/ssa"
)

// C20, primitives as bit functions. complement.Twos is modelled by contract everywhere else
// (E2: "sign extension from n bits if the bits above n are zero"); here the contract is
// discharged against the function's own code: for each width n the function is interpreted by
// engine E2 with `bits` = n and an input whose low n bits are symbolic sources and whose other
// bits are zero, and the returned vector must be those n bits followed by 16−n copies of bit
// n−1 — for every value of the sources at once, whichever bit trick or branch computes it
// (xor/subtract with a ripple-carry adder over the bit domain, or-ing in a mask under a sign
// test, shifting up and arithmetically down).
func checkTwosPrimitive(c *Ctx, r *Report) {
	r.Rule("twos-is-sign-extension", "complement.Twos(v, n) returns v's low n bits sign-extended to 16 bits, for every width n = 1..16 and every value whose bits above n are zero", 16)
	f := c.Func("internal/pkg/complement", "Twos")
	if f == nil {
		for _, g := range c.LibFuncs() {
			if g.Signature.Recv() == nil && g.Name() == "Twos" && normSig(g.Signature) == "func([2]uint8,uint8)(int16)" {
				f = g
			}
		}
	}
	if f == nil || len(f.Params) != 2 {
		r.Lost("complement.Twos")
		return
	}
	if at, ok := f.Params[0].Type().Underlying().(*types.Array); !ok || at.Len() != 2 {
		r.Unk("complement.Twos|signature", f.Pos(), "first parameter is not a [2]byte")
		return
	}
	r.Fn(c.FnName(f))
	for n := 1; n <= 16; n++ {
		key := fmt.Sprintf("complement.Twos|width %d", n)
		got, facts, why := twosBits(c, f, n)
		if why != "" {
			r.Unk(key, f.Pos(), why)
			continue
		}
		want0 := (&bv{Bits: bvSrc("v", 16).Bits[:n]}).resize(16, true)
		want := want0
		ok := len(got) > 0
		desc := ""
		for gi, g := range got {
			want := substBitFacts(want0, facts[gi])
			if g == nil || g.Tag != "" || len(g.Bits) != 16 {
				ok = false
				desc = "result is not a bit function of the input"
				continue
			}
			for i := range g.Bits {
				if g.Bits[i] != want.Bits[i] {
					ok = false
					desc = fmt.Sprintf("returns %s, want %s", g.String(), want.render())
				}
			}
		}
		r.Check(ok, key, f.Pos(), want.render(), fmt.Sprintf("complement.Twos with %d bits is not the sign extension of the low %d bits: %s", n, n, desc))
	}
}

// twosBits interprets f with bits = n; one result vector per returning path.
func twosBits(c *Ctx, f *ssa.Function, n int) (out []*bv, facts []map[string]bool, why string) {
	e := newLenflow(c, 4)
	e.bits = true
	e.elemLoads = map[Sym]lfElemRef{}
	e.bitFacts = true
	e.onStore = func(st *lfState, kind, name, val string, pos token.Pos, b *bv) {}
	e.onReturn = func(st *lfState, rets []lfVal) {
		if len(rets) == 0 {
			out = append(out, nil)
			facts = append(facts, st.bitFacts)
			return
		}
		iv, ok := rets[0].(vInt)
		if !ok || iv.B == nil {
			if ok {
				if k, isK := iv.E.isConst(); isK {
					out = append(out, bvConst(k, 16))
					facts = append(facts, st.bitFacts)
					return
				}
			}
			out = append(out, nil)
			facts = append(facts, st.bitFacts)
			return
		}
		out = append(out, substBitFacts(iv.B.resize(16, false), st.bitFacts))
		facts = append(facts, st.bitFacts)
	}
	src := bvSrc("v", 16)
	for i := n; i < 16; i++ {
		src.Bits[i] = bvBit{K: '0'}
	}
	e.runEntry(f, func(fr *lfFrame, st *lfState) {
		hi := e.fresh(st, types.Typ[types.Uint8], "hi").(vInt)
		lo := e.fresh(st, types.Typ[types.Uint8], "lo").(vInt)
		hi.B = &bv{Bits: src.Bits[8:16]}
		lo.B = &bv{Bits: src.Bits[0:8]}
		if k, isK := hi.B.isConst(); isK {
			hi.E = linConst(k)
		}
		if k, isK := lo.B.isConst(); isK {
			lo.E = linConst(k)
		}
		fr.env[f.Params[0]] = vSlice{Len: linConst(2), Snap: &arrSnap{Elems: map[string]lfVal{
			"[" + linConst(0).key() + "]": hi,
			"[" + linConst(1).key() + "]": lo,
		}}}
		fr.env[f.Params[1]] = vInt{E: linConst(int64(n)), B: bvConst(int64(n), 8)}
	})
	if e.budgetHit {
		return out, facts, "budget exhausted"
	}
	if len(out) == 0 {
		return nil, nil, "no returning path"
	}
	return out, facts, ""
}

// substBitFacts replaces the source bits a path has fixed by their values.
func substBitFacts(b *bv, facts map[string]bool) *bv {
	if b == nil || b.Tag != "" || len(facts) == 0 {
		return b
	}
	out := &bv{Bits: append([]bvBit{}, b.Bits...)}
	for i, x := range out.Bits {
		if x.K != 's' && x.K != 'n' {
			continue
		}
		v, has := facts[fmt.Sprintf("%s#%d", x.Src, x.Idx)]
		if !has {
			continue
		}
		if v == (x.K == 's') {
			out.Bits[i] = bvBit{K: '1'}
		} else {
			out.Bits[i] = bvBit{K: '0'}
		}
	}
	return out
}

// checkLatin1Exact: the 8-bit ASCII + Latin-1 decoder is a copy: on every success path the
// string returned is the conversion of exactly the first c bytes of the input — the window
// b[0:c] itself, not something computed from it (trimmed, filtered, re-encoded) — and the
// number of bytes consumed is c. Engine E1 in bits mode: the returned string still carries
// the identity of the input buffer, offset 0 and length c are entailed.
func checkLatin1Exact(c *Ctx, r *Report, f *ssa.Function) {
	r.Rule("latin1-is-a-copy", "the 8-bit ASCII + Latin-1 decoder returns exactly string(b[0:c]) and consumes c bytes on every success path", 1)
	name := c.FnName(f)
	if len(f.Params) != 2 {
		r.Unk(name+"|copy of b[0:c]", f.Pos(), "unexpected decoder signature")
		return
	}
	e := newLenflow(c, 4)
	e.bits = true
	e.elemLoads = map[Sym]lfElemRef{}
	e.onStore = func(st *lfState, kind, name, val string, pos token.Pos, b *bv) {}
	nOK, bad := 0, ""
	var cLin Lin
	e.onReturn = func(st *lfState, rets []lfVal) {
		if len(rets) != 3 {
			bad = "unexpected result arity"
			return
		}
		// success paths only
		if ev, ok := rets[2].(vNilable); ok {
			if ev.Nil == 2 {
				return
			}
			if ev.Nil == 0 {
				if isNil, has := st.decided[-ev.ID]; has && !isNil {
					return
				}
			}
		} else if _, isPtr := rets[2].(vPtr); !isPtr {
			return
		}
		sv, ok := rets[0].(vSlice)
		if !ok || sv.Org == nil || sv.Org.Name != "d" {
			bad = "the string returned is not a window on the input bytes (it was computed from them)"
			return
		}
		if !entails(st.cons, geq(sv.Org.Off, linConst(0))) || !entails(st.cons, leq(sv.Org.Off, linConst(0))) {
			bad = "the string returned does not start at the first input byte"
			return
		}
		if !entails(st.cons, geq(sv.Len, cLin)) || !entails(st.cons, leq(sv.Len, cLin)) {
			bad = "the string returned is not c bytes long"
			return
		}
		n, isInt := rets[1].(vInt)
		if !isInt || !entails(st.cons, geq(n.E, cLin)) || !entails(st.cons, leq(n.E, cLin)) {
			bad = "the number of bytes consumed is not c"
			return
		}
		nOK++
	}
	e.runEntry(f, func(fr *lfFrame, st *lfState) {
		if cv, ok := fr.env[f.Params[1]].(vInt); ok {
			cLin = cv.E
		}
	})
	if e.budgetHit {
		r.Unk(name+"|copy of b[0:c]", f.Pos(), "budget exhausted")
		return
	}
	if bad == "" && nOK == 0 {
		bad = "no success path found"
	}
	r.Check(bad == "", name+"|copy of b[0:c]", f.Pos(), fmt.Sprintf("string(b[0:c]), c consumed, on %d success paths", nOK), "the Latin-1 decoder does not return the first c input bytes unchanged: "+bad)
}

// stringDecoderTable: type/length encoding → decoder function, read from the package-level
// StringEncoding → StringDecoder table.
func stringDecoderTable(c *Ctx) (map[int64]*ssa.Function, *ssa.Global) {
	ir := newInitReader(c)
	v, g := ir.globalByType("pkg/ipmi", "stringEncodingDecoders", "map["+modPath+"/pkg/ipmi.StringEncoding]"+modPath+"/pkg/ipmi.StringDecoder")
	if g == nil {
		return nil, nil
	}
	got := map[int64]*ssa.Function{}
	for _, e := range v.Entries {
		if k, ok := e.K.Int(); ok && e.V.Kind == "func" {
			got[k] = e.V.Func
		}
	}
	return got, g
}

// checkLatin1Decoders applies checkLatin1Exact to the decoder(s) the table selects for the
// 8-bit encodings (3: ASCII + Latin-1; 0: "Unicode", decoded the same way).
func checkLatin1Decoders(c *Ctx, r *Report) {
	got, g := stringDecoderTable(c)
	if g == nil || got[3] == nil {
		r.Rule("latin1-is-a-copy", "", 1)
		r.Lost("ipmi string encoding decoder table / 8-bit decoder")
		return
	}
	done := map[*ssa.Function]bool{}
	for _, k := range []int64{3, 0} {
		if f := got[k]; f != nil && !done[f] && (k == 3 || classifyStringDecoder(f) == "latin1") {
			done[f] = true
			r.Fn(c.FnName(f))
			checkLatin1Exact(c, r, f)
		}
	}
}
