package main

import (
	"fmt"
	"go/token"
	"go/types"
	"sort"
	"strings"

	"golang.org/x/tools/go/ssa"
)

func init() { register("C10", checkC10) }

// serializeLayerArgs resolves the variadic layer arguments of a
// gopacket.SerializeLayers call to the values stored in the varargs array.
func serializeLayerArgs(call *ssa.Call) []ssa.Value {
	if len(call.Call.Args) < 3 {
		return nil
	}
	sl, ok := call.Call.Args[2].(*ssa.Slice)
	if !ok {
		return nil
	}
	al, ok := sl.X.(*ssa.Alloc)
	if !ok {
		return nil
	}
	elems := map[int64]ssa.Value{}
	var max int64 = -1
	for _, ref := range *al.Referrers() {
		ia, ok := ref.(*ssa.IndexAddr)
		if !ok {
			continue
		}
		k, isK := constInt(ia.Index)
		if !isK {
			return nil
		}
		for _, r2 := range *ia.Referrers() {
			if st, ok := r2.(*ssa.Store); ok && st.Addr == ssa.Value(ia) {
				elems[k] = st.Val
				if k > max {
					max = k
				}
			}
		}
	}
	var out []ssa.Value
	for i := int64(0); i <= max; i++ {
		out = append(out, elems[i])
	}
	return out
}

// registeredLayers collects the selectors of all struct fields whose address
// is registered with DecodingLayerContainer.Put anywhere in the library.
func (c *Ctx) registeredLayers() (map[string]bool, int) {
	out := map[string]bool{}
	n := 0
	for _, fn := range c.LibFuncs() {
		for _, s := range c.registeredLayerFields(fn) {
			out[s] = true
			n++
		}
	}
	return out, n
}

// retriedAfterDecode: the retry operation op can be re-invoked after having
// run the decoder (some path through a decode call returns a non-nil-constant
// error).
func retriedAfterDecode(op *ssa.Function) bool {
	res := false
	for _, b := range op.Blocks {
		for _, in := range b.Instrs {
			if !isDecodeCall(in) {
				continue
			}
			for _, ret := range returnsOf(op) {
				if !canReach(in, ret) {
					continue
				}
				for _, v := range possibleValues(ret.Results[len(ret.Results)-1]) {
					if !isNilConst(v) {
						res = true
					}
				}
			}
		}
	}
	return res
}

// freshAt decides whether the layer field sel has been overwritten as a whole
// on every path from fn's entry to instruction at, with no decode call in
// between; entryFresh is the state on entry.
func freshAt(fn *ssa.Function, sel string, at ssa.Instruction, entryFresh bool) (bool, string) {
	var stores []ssa.Instruction
	var decodes []ssa.Instruction
	allInstrs(fn, false, func(in ssa.Instruction) {
		if s, _, _, ok := storeSel(in); ok && s == sel {
			stores = append(stores, in)
		}
		if isDecodeCall(in) {
			decodes = append(decodes, in)
		}
	})
	dirtiedAfter := func(w ssa.Instruction) bool {
		for _, d := range decodes {
			if (w == nil || canReach(w, d)) && canReach(d, at) {
				return true
			}
		}
		return false
	}
	for _, w := range stores {
		if mustPrecede(fn, w, at) && !dirtiedAfter(w) {
			return true, "whole-value store precedes on every path"
		}
	}
	if entryFresh && !dirtiedAfter(nil) {
		return true, "fresh on entry and not decoded into before this point"
	}
	if len(stores) == 0 {
		return false, "the layer is never re-initialised in this function although the decoder overwrites it"
	}
	return false, "no whole-value store to the layer dominates this point without an intervening decode"
}

// checkFreshLayers is the typestate rule shared by C03, C10 and C17.
func checkFreshLayers(c *Ctx, r *Report, rule string) {
	r.Rule(rule, "typestate fresh/dirty: every struct field registered with DecodingLayerContainer.Put is overwritten by each decode; a layer passed to gopacket.SerializeLayers must have been re-initialised (whole-value store) since the last decode on every path, where the entry state of a retried closure is the join of the state at backoff.Retry and the closure's own exits", 8)
	reg, _ := c.registeredLayers()
	if len(reg) < 3 {
		r.Lost("layer fields registered with DecodingLayerContainer.Put")
		return
	}
	retryOps := map[*ssa.Function]RetrySite{}
	for _, rs := range c.RetrySites() {
		if rs.Op != nil {
			retryOps[rs.Op] = rs
		}
	}
	for _, fn := range c.LibFuncs() {
		for _, b := range fn.Blocks {
			for _, in := range b.Instrs {
				call, ok := in.(*ssa.Call)
				if !ok || !isCallTo(in, fnSerializeLayers) {
					continue
				}
				r.Fn(c.FnName(fn))
				args := serializeLayerArgs(call)
				if args == nil {
					r.Unk(c.FnName(fn)+"|SerializeLayers args", call.Pos(), "variadic layers not resolvable")
					continue
				}
				for _, a := range args {
					if a == nil {
						continue
					}
					sel := apOf(stripConv(a)).SelString()
					if !reg[sel] {
						continue
					}
					var entryState func(fn *ssa.Function, depth int) (bool, string)
					entryState = func(fn *ssa.Function, depth int) (bool, string) {
						if rs, isOp := retryOps[fn]; isOp {
							if retriedAfterDecode(fn) {
								return false, "closure re-entered by backoff.Retry after a decode"
							}
							fresh, _ := freshAt(rs.Parent, sel, rs.Call, false)
							return fresh, "state at backoff.Retry in " + c.FnName(rs.Parent)
						}
						// a helper that only ever runs as part of its callers: the state at its entry is
						// the state at its call sites
						if depth > 0 && c.onlySpliced(fn) {
							all, n := true, 0
							for _, g := range c.ModFn {
								// (promotion wrappers of an unexported method are never called: calls through an
								// embedded field are direct calls of the method)
								if g.Blocks == nil || g.Synthetic != "" {
									continue
								}
								rawInstrs(g, false, func(i ssa.Instruction) {
									cl, isCall := i.(*ssa.Call)
									if !isCall || cl.Call.StaticCallee() != fn {
										return
									}
									n++
									gFresh, _ := entryState(g, depth-1)
									if ok, _ := freshAt(g, sel, cl, gFresh); !ok {
										all = false
									}
								})
							}
							if n > 0 {
								return all, fmt.Sprintf("state at the helper's %d call sites", n)
							}
						}
						return false, "function entry (connection may have decoded earlier replies)"
					}
					entryFresh, where := entryState(fn, 2)
					ok, why := freshAt(fn, sel, call, entryFresh)
					r.Check(ok, c.FnName(fn)+"|SerializeLayers("+sel+")", call.Pos(), why, "layer "+sel+" may still hold the previously decoded reply when it is serialised ("+where+"): "+why)
				}
			}
		}
	}
}

func checkC10(c *Ctx, r *Report) {
	r.Explain = "Retry structure: exact true-set of CompletionCode.IsTemporary; classification of every CFG path of the three send closures by the outcome it handles and the value it returns to backoff.Retry; terminal-error plumbing of the in-session closure; backoff.Reset before each Retry on a reused back-off; the completion code returned by SendCommand is the decoded one; typestate freshness of every layer serialised inside or before a retried closure. Decides the shape of the retry logic on all paths, not back-off timing."
	r.NotDecided = []string{"timing of the exponential back-off", "that retransmitted bytes equal the first transmission byte-for-byte (follows from freshness + C06 layouts, not checked as values)"}
	r.Trusted = []string{"go/types, go/ssa (x/tools v0.29.0)", "backoff.Retry calls the operation until it returns nil, Stop, or the context is done", "gopacket LayersDecoder overwrites exactly the layers registered with Put"}

	checkTemporaryCodes(c, r)

	scs := checkClosureExits(c, r)

	// (b2) the back-off policy is the backoff package's default: nothing caps the number of
	// attempts or the elapsed time, so temporary codes and garbage are retried for as long
	// as the caller's context allows
	r.Rule("backoff-policy-default", "the module neither shortens a back-off policy's elapsed-time cap nor wraps a policy in a retry-count limit: retrying ends only through the context (or a final outcome), as with the backoff package's defaults", 1)
	nPol := 0
	for _, fn := range c.LibFuncs() {
		rawInstrs(fn, false, func(in ssa.Instruction) {
			if st, ok := in.(*ssa.Store); ok {
				if fa, ok := st.Addr.(*ssa.FieldAddr); ok {
					t := fa.X.Type()
					if pt, ok := t.Underlying().(*types.Pointer); ok {
						t = pt.Elem()
					}
					if strings.Contains(types.TypeString(t, nil), "cenkalti/backoff") {
						f := structField(fa.X.Type(), fa.Field)
						fname := "?"
						if f != nil {
							fname = f.Name()
						}
						// intervals and multipliers are timing (not decided); what ends the loop early is
						// the elapsed-time cap. 0 (never) and the package default are what the code has now.
						if fname != "MaxElapsedTime" {
							return
						}
						if k, isK := constInt(st.Val); isK && (k == 0 || k == int64(15*60*1e9)) {
							return
						}
						nPol++
						r.Bad(c.FnName(fn)+"|policy field "+fname, st.Pos(), "a field of the back-off policy is overwritten ("+fname+"): the retry loop no longer runs for as long as the caller's context allows (or no longer backs off as documented)")
					}
				}
			}
			if cc := asCall(in); cc != nil {
				switch n := calleeName(cc); {
				case strings.HasSuffix(n, "backoff/v4.WithMaxRetries"), strings.HasSuffix(n, "backoff.WithMaxRetries"):
					nPol++
					r.Bad(c.FnName(fn)+"|WithMaxRetries", in.Pos(), "the retry loop is limited to a number of attempts instead of by the caller's context")
				}
			}
		})
	}
	if nPol == 0 {
		r.OK("no policy writes", token.NoPos, "0 stores to back-off policy fields, 0 retry-count wrappers in the module")
	}

	// (c) Reset precedes Retry for reused back-offs
	r.Rule("reset-before-retry", "a back-off object stored in the connection is Reset before every backoff.Retry that uses it", 3)
	for _, rs := range c.RetrySites() {
		pname := c.FnName(rs.Parent)
		r.Fn(pname)
		if len(rs.Call.Call.Args) < 2 {
			continue
		}
		bo := stripConv(rs.Call.Call.Args[1])
		// the policy is a parameter of a retry helper: fresh if every caller constructs it
		if args := c.paramArgs(bo); len(args) > 0 {
			allFresh := true
			for _, a := range args {
				av := stripConv(a)
				if call, ok := av.(*ssa.Call); ok && isCallTo(call, fnBackoffWithCtx) {
					av = stripConv(call.Call.Args[0])
				}
				if _, isCall := av.(*ssa.Call); !isCall {
					allFresh = false
				}
			}
			if allFresh {
				r.OK(pname+"|Retry(fresh back-off from every caller)", rs.Call.Pos(), "back-off constructed by each caller for this call")
				continue
			}
		}
		var inner ssa.Value = bo
		if call, ok := bo.(*ssa.Call); ok && isCallTo(call, fnBackoffWithCtx) {
			inner = stripConv(call.Call.Args[0])
		}
		if call, ok := inner.(*ssa.Call); ok {
			// freshly constructed back-off: nothing to reset
			r.OK(pname+"|Retry(fresh "+shortName(calleeName(&call.Call))+")", rs.Call.Pos(), "back-off constructed for this call")
			continue
		}
		sel := apOf(inner).SelString()
		// a connection field that only ever holds backoff.WithContext(<inner>, ·): resetting <inner> resets it
		if wsel, ok := c.wrapperInner(sel); ok {
			sel = wsel
		}
		found := false
		allInstrs(rs.Parent, false, func(in ssa.Instruction) {
			if isCallTo(in, fnBackoffReset) {
				if apOf(asCall(in).Value).SelString() == sel && mustPrecede(rs.Parent, in, rs.Call) {
					found = true
				}
			}
		})
		r.Check(found, pname+"|Reset("+sel+") before Retry", rs.Call.Pos(), "Reset precedes Retry on every path", "reused back-off "+sel+" is not Reset before backoff.Retry: the first retry interval depends on earlier commands")
	}

	// (d) SendCommand returns the decoded completion code
	r.Rule("code-from-message-layer", "SendCommand returns, on its non-error paths after the exchange, the completion code read from the decoded message layer after the exchange returned", 2)
	for _, sc := range c.sendCommandImpls() {
		name := c.FnName(sc)
		r.Fn(name)
		// the exchange: the call of the function that runs a sending operation under backoff.Retry
		// (the operation may be a function literal or a method value)
		starters := map[*ssa.Function]bool{}
		for _, s := range scs {
			starters[s.Parent] = true
		}
		var exch *ssa.Call
		allInstrs(sc, false, func(in ssa.Instruction) {
			if call, ok := in.(*ssa.Call); ok {
				if f := viewCallee(sc, call); f != nil && starters[f] {
					exch = call
				}
			}
		})
		if exch == nil {
			r.Unk(name+"|exchange call", sc.Pos(), "cannot find the call that performs the exchange")
			continue
		}
		good := true
		why := ""
		n := 0
		for _, ret := range returnsOf(sc) {
			if !canReachIn(sc, exch, ret) || len(ret.Results) != 2 {
				continue
			}
			for _, v := range viewOrigins(sc, ret.Results[0]) {
				if k, isK := constInt(v); isK && k == 0 {
					// the error path before a code is known
					continue
				}
				n++
				ld, isLd := v.(*ssa.UnOp)
				okLd := isLd && ld.Op == token.MUL && mustPrecede(sc, exch, ld)
				if okLd {
					aps := viewAPs(sc, ld.X)
					okLd = len(aps) > 0
					for _, ap := range aps {
						okLd = okLd && strings.HasSuffix(ap.SelString(), fMsg+".CompletionCode")
					}
				}
				if !okLd {
					good = false
					why = "returned code is " + apOf(v).String()
				}
			}
		}
		r.Check(good && n > 0, name+"|returned code", exch.Pos(), "code = messageLayer.CompletionCode read after the exchange", "SendCommand returns a completion code that is not the decoded message layer's: "+why)
		// … on every path on which the exchange succeeded, whatever happens afterwards (a
		// response body that does not decode is reported together with the code, not instead of it)
		okAll, nAll := true, 0
		posAll := exch.Pos()
		completeAll := enumPaths(sc, 1, 100000, func(p CPath) {
			ret, isRet := p.Last().(*ssa.Return)
			if !isRet || ret.Parent() != sc || len(ret.Results) != 2 {
				return
			}
			if p.nilFound(exch) != 0 {
				return // the exchange failed (or its result was never tested): no code to report
			}
			nAll++
			v := p.Resolve(ret.Results[0])
			ld, isLd := v.(*ssa.UnOp)
			if !isLd || ld.Op != token.MUL || !strings.HasSuffix(p.AP(ld.X).SelString(), fMsg+".CompletionCode") {
				okAll, posAll = false, ret.Pos()
			}
		})
		if completeAll && nAll > 0 {
			r.Check(okAll, name+"|code on every path after the exchange", posAll, "every return after a successful exchange carries the decoded completion code", "a path on which the exchange succeeded returns something else than the decoded completion code (a response body that fails to decode must not hide the code the BMC sent)")
		}
	}

	// (e) typestate
	checkFreshLayers(c, r, "fresh-layers")

	// retried "until the context expires": the caller's own, on every retry loop (rule shared
	// with C13)
	checkRetryBoundedByContext(c, r)

	// retrying ends with "the first valid response": a reply is one only if it answers the
	// caller's command (rule shared with C11)
	checkReplyMatchesRequest(c, r)

	// a command whose retries were given up is a failed command (rule shared by C04, C10, C13)
	checkRetryFailureReturned(c, r)

	// every datagram received is handed to the retry logic, and retransmission is decided there
	// only: the transport neither filters replies (an undecodable one would become a lost one, which
	// is terminal inside a session) nor sends on its own (rule shared with C11, C09)
	checkOneWriteOneRead(c, r)
	checkSendSites(c, r)
	// a session-less command sent again is encoded again: the buffer is never replayed (shared with C09)
	checkSessionlessSerialisedAfresh(c, r, nil)
	checkContextUndiminished(c, r)
	// "each retransmission being a complete, correctly addressed encoding": signed from clean
	// hash state — a reply rejected just before the retransmission must not be left in the
	// session's HMAC (shared with C03, C17)
	checkHashAlwaysReset(c, r)
	// ... of that same command: the message and RMCP layers are rebuilt from the same literals
	// for every transmission (shared with C03, C06)
	checkBuildLiterals(c, r)
	// "it returns the first valid response carrying any other completion code": a command whose
	// retries ended without one returns an error — nothing after the retry loop turns what the
	// layers last held (a temporary code, a rejected reply) into a result (shared with C13)
	checkSuccessNeedsExchange(c, r)
	{
		errFns := c.ctxFuncs()
		for _, rs := range c.RetrySites() {
			if rs.Op != nil && rs.Op.Parent() != nil {
				errFns = append(errFns, rs.Op)
			}
		}
		checkErrorsExamined(c, r, "errors-examined", "every context-taking function of the library, and every operation handed to backoff.Retry, returns success only on paths where every error a module call returned was compared with nil", 10, errFns)
	}
	// "a reply that cannot be decoded" includes one whose checksums are wrong, whatever its
	// completion-code byte says (shared with C07)
	checkMessageChecksums(c, r)
}

// lateFailure: the path classified the completion code as final and then found a call's error
// non-nil; returns that decision's kind.
func lateFailure(ds []Decision) string {
	final, out := false, ""
	for _, d := range ds {
		if d.Kind == "temporary" && !d.Arm {
			final = true
			continue
		}
		if final && d.Arm && (strings.HasPrefix(d.Kind, "err:") || d.Kind == "decode-err") {
			out = d.Kind
		}
	}
	return out
}

// rejectSig summarises the decisions on a path that are not the standard ones.
func rejectSig(ds []Decision) string {
	var extra []string
	for _, d := range ds {
		switch d.Kind {
		case "send-err", "decode-err", "innermost-err", "serialize-err", "temporary":
		default:
			if strings.HasPrefix(d.Kind, "flag:") {
				continue
			}
			s := d.Kind
			if !d.Arm {
				s = "!" + s
			}
			extra = append(extra, s)
		}
	}
	sort.Strings(extra)
	return strings.Join(extra, ",")
}

// sendCommandImpls: the methods named by the Connection interface's
// SendCommand in package bmc.
func (c *Ctx) sendCommandImpls() []*ssa.Function {
	var out []*ssa.Function
	for _, tn := range []string{"V2Session", "V2Sessionless"} {
		if f := c.Method("", tn, "SendCommand"); f != nil && f.Blocks != nil {
			out = append(out, f)
		}
	}
	return out
}

// wrapperInner: if every store to the field with selector sel is the result of
// backoff.WithContext(x, ·), return x's selector.
func (c *Ctx) wrapperInner(sel string) (string, bool) {
	inner := ""
	n := 0
	okAll := true
	for _, fn := range c.LibFuncs() {
		rawInstrs(fn, false, func(in ssa.Instruction) {
			s, _, st, ok := storeSel(in)
			if !ok || s != sel {
				return
			}
			n++
			call, isCall := stripConv(st.Val).(*ssa.Call)
			if !isCall || !isCallTo(call, fnBackoffWithCtx) {
				okAll = false
				return
			}
			inner = apOf(stripConv(call.Call.Args[0])).SelString()
		})
	}
	return inner, n > 0 && okAll && inner != ""
}

// checkClosureExits classifies every exit of the send closures and checks the terminal-error
// plumbing of the in-session one. Shared with C13, whose last clause ("no call reports
// success without having received a valid response") is decided by exactly these paths: a
// transport failure that is neither returned to the retry loop nor recorded and handed to
// the caller is a success without a response.
func checkClosureExits(c *Ctx, r *Report) []SendClosure {
	scs := c.SendClosures()
	if len(scs) < 3 {
		r.Rule("closure-exits", "", 3)
		r.Lost(fmt.Sprintf("send closures (found %d, want 3)", len(scs)))
	}
	for _, s := range scs {
		fname := c.FnName(s.Fn)
		r.Fn(fname)
		r.Fn(c.FnName(s.Parent))
		if hasLoop(s.Fn) {
			r.Rule("closure-exits", "", 3)
			r.Unk(fname+"|loop", s.Fn.Pos(), "closure has a loop")
			continue
		}
		// (b) classify exits
		var terminalCell Cell
		haveTerminal := false
		temporarySeen := false
		complete := enumPaths(s.Fn, 1, 4096, func(p CPath) {
			ds := pathDecisions(p)
			ret, _ := p.Last().(*ssa.Return)
			if ret == nil {
				return
			}
			rv := p.Resolve(ret.Results[0])
			// a closure may hand an error straight back (`return f()`) instead of testing it: that is
			// the two paths "f's error is nil → nil returned" and "non-nil → it is returned"
			var twins [][]Decision
			if !isNilConst(rv) && !knownNonNil(rv) {
				if k := errSource(rv); k != "" {
					tested := false
					for _, d := range ds {
						if d.Err == rv {
							tested = true
						}
					}
					if !tested {
						twins = append(twins, append(append([]Decision{}, ds...), Decision{Kind: k, Arm: true, Err: rv}))
						ds = append(ds, Decision{Kind: k, Arm: false, Err: rv})
						rv = ssa.NewConst(nil, rv.Type())
					}
				}
			}
			sig := decisionsString(ds)
			r.Rule("closure-exits", "each path of a send closure returns to backoff.Retry what the documented behaviour requires: non-nil (retry) for undecodable replies, a wrong innermost layer and temporary codes; nil for a final code; session-less transport errors are retried; in-session transport/serialise errors are recorded as terminal and end the retry loop", 12)
			for _, tw := range twins {
				// the error itself is what is returned on the twin: non-nil by construction
				tsig := decisionsString(tw)
				switch {
				case hasDecision(tw, "serialize-err", true) || hasDecision(tw, "send-err", true):
					r.Check(!s.Session, fname+"|transport-error path", ret.Pos(), "session-less transport failure is returned (retried until the context expires)", "in-session transport failure must end the command (record the error, return nil to stop retrying); path "+tsig)
				case hasDecision(tw, "decode-err", true):
					r.OK(fname+"|decode-error path", ret.Pos(), "undecodable reply → retry")
				case hasDecision(tw, "innermost-err", true):
					r.OK(fname+"|wrong-innermost-layer path", ret.Pos(), "reply without the expected innermost layer → retry")
				default:
					if lf := lateFailure(tw); lf != "" {
						r.Bad(fname+"|final code then "+lf, ret.Pos(), "a reply carrying a final completion code is retried because a later step failed ("+lf+"): the first valid response with a non-temporary code must end the retries and be returned with that code; path "+tsig)
					} else {
						r.OK(fname+"|reject path "+rejectSig(tw), ret.Pos(), "reply rejected by an additional check → retry")
					}
				}
			}
			switch {
			case hasDecision(ds, "serialize-err", true) || hasDecision(ds, "send-err", true):
				what := "transport"
				var errv ssa.Value
				for _, d := range ds {
					if (d.Kind == "serialize-err" || d.Kind == "send-err") && d.Arm {
						errv = d.Err
						if d.Kind == "serialize-err" {
							what = "serialise"
						}
					}
				}
				if s.Session {
					// must record errv into a captured cell and return nil
					stored := false
					for _, in := range p.Instrs() {
						if cell, v, ok := cellStoreView(s.Fn, in); ok && (v == errv || p.Resolve(v) == errv) {
							stored = true
							terminalCell, haveTerminal = cell, true
						}
					}
					r.Check(stored && isNilConst(rv), fname+"|"+what+"-error path", ret.Pos(), "in-session "+what+" failure recorded as terminal error, retry loop ended", "in-session "+what+" failure must end the command (record the error, return nil to stop retrying); path "+sig)
				} else {
					r.Check(c.nonNilOnPath(p, ds, rv), fname+"|"+what+"-error path", ret.Pos(), "session-less "+what+" failure is returned (retried until the context expires)", "session-less "+what+" failure must be returned to backoff.Retry so that it is retried; path "+sig)
				}
			case hasDecision(ds, "decode-err", true):
				r.Check(c.nonNilOnPath(p, ds, rv), fname+"|decode-error path", ret.Pos(), "undecodable reply → retry", "a reply that cannot be decoded must make the closure return non-nil (retry); path "+sig)
			case hasDecision(ds, "innermost-err", true):
				r.Check(c.nonNilOnPath(p, ds, rv), fname+"|wrong-innermost-layer path", ret.Pos(), "reply without the expected innermost layer → retry", "a reply lacking the expected innermost layer must make the closure return non-nil; path "+sig)
			case hasDecision(ds, "temporary", true):
				temporarySeen = true
				r.Check(c.nonNilOnPath(p, ds, rv), fname+"|temporary-code path", ret.Pos(), "temporary completion code → retry", "a temporary completion code must make the closure return non-nil (retry); path "+sig)
			default:
				// every tested error absent, code final (or checks added by the library that reject the reply)
				if isNilConst(rv) {
					// the accepting path must have passed decode and innermost checks
					need := hasDecision(ds, "decode-err", false) && hasDecision(ds, "innermost-err", false) && hasDecision(ds, "send-err", false)
					if s.Command {
						need = need && hasDecision(ds, "temporary", false)
					}
					r.Check(need, fname+"|accept path "+rejectSig(ds), ret.Pos(), "nil only after send, decode, innermost-layer and final-code checks", "closure returns nil (stop retrying) without having passed all of: send ok, decode ok, innermost layer ok, code not temporary; path "+sig)
				} else {
					// a reply whose completion code was classified final is the answer: a step that
					// fails after that (decoding the body early, a cache update) must not turn it into
					// a retry — the caller gets the code, and the decode error, from SendCommand.
					// Comparisons of the decoded layers with the request (acceptance criteria) may
					// come in any order; a failed call may not.
					lateFail := lateFailure(ds)
					if lateFail != "" {
						r.Bad(fname+"|final code then "+lateFail, ret.Pos(), "a reply carrying a final completion code is retried because a later step failed ("+lateFail+"): the first valid response with a non-temporary code must end the retries and be returned with that code; path "+sig)
					} else {
						r.Check(c.nonNilOnPath(p, ds, rv), fname+"|reject path "+rejectSig(ds), ret.Pos(), "reply rejected by an additional check → retry", "closure returns an error value not known to be non-nil; path "+sig)
					}
				}
			}
		})
		if !complete {
			r.Rule("closure-exits", "", 3)
			r.Unk(fname+"|paths", s.Fn.Pos(), "too many paths")
		}
		if s.Command {
			r.Rule("temporary-tested", "command closures test the decoded completion code with IsTemporary", 2)
			// the argument of IsTemporary must be the decoded message layer's completion code
			okArg := false
			allInstrs(s.Fn, false, func(in ssa.Instruction) {
				if isCallTo(in, fnIsTemporary) {
					a := asCall(in).Args[0]
					for _, o := range viewOrigins(s.Fn, a) {
						ld, ok := o.(*ssa.UnOp)
						if !ok || ld.Op != token.MUL {
							continue
						}
						aps := viewAPs(s.Fn, ld.X)
						all := len(aps) > 0
						for _, ap := range aps {
							all = all && strings.HasSuffix(ap.SelString(), fMsg+".CompletionCode")
						}
						if all {
							okArg = true
						}
					}
				}
			})
			r.Check(temporarySeen && okArg, fname+"|IsTemporary(messageLayer.CompletionCode)", s.Fn.Pos(), "decoded completion code is classified", "the closure does not classify the decoded message layer's completion code with IsTemporary")
		}
		if s.Session {
			r.Rule("terminal-error-returned", "after backoff.Retry returns nil the in-session function returns the recorded terminal error", 1)
			if !haveTerminal {
				r.Bad(c.FnName(s.Parent)+"|terminal cell", s.Parent.Pos(), "no terminal-error cell shared with the enclosing function is written by the operation")
			} else {
				ok := false
				// parent: on the Retry-nil arm the returned value is a load of the cell
				for _, ret := range returnsOf(s.Parent) {
					for _, v := range possibleValues(ret.Results[0]) {
						if ld, isLd := v.(*ssa.UnOp); isLd && ld.Op == token.MUL && terminalCell.addrIn(ld.X) && mustPrecede(s.Parent, s.Retry, ld) {
							ok = true
						}
					}
				}
				// and the cell starts nil: a freshly allocated variable (or field of a fresh object) is
				// nil; what matters is that the enclosing function stores nothing but nil into it
				initNil := terminalCell.Obj.Parent() == s.Parent
				rawInstrs(s.Parent, false, func(in ssa.Instruction) {
					if st, isSt := in.(*ssa.Store); isSt && terminalCell.addrIn(st.Addr) && !isNilConst(st.Val) {
						initNil = false
					}
				})
				r.Check(ok && initNil, c.FnName(s.Parent)+"|return terminalErr", s.Retry.Pos(), "terminal error cell initialised nil and returned after Retry", "the terminal error recorded by the closure is not returned by the enclosing function (or the cell is not initialised to nil)")
			}
		}
	}

	return scs
}

// checkTemporaryCodes: the exact true-set of CompletionCode.IsTemporary (shared with C14: a
// cancelled reservation, 0xC5, must reach the SDR walk as a final code for the walk to restart).
func checkTemporaryCodes(c *Ctx, r *Report) {
	r.Rule("temporary-codes", "the set of completion codes classified as temporary is exactly {0xC0 node busy, 0xC3 timeout}", 1)
	if f := c.Method("pkg/ipmi", "CompletionCode", "IsTemporary"); f == nil {
		r.Lost("ipmi.CompletionCode.IsTemporary")
	} else {
		r.Fn(c.FnName(f))
		set, err := predicateTrueSet(f, 0, 255)
		if err != nil {
			r.Unk("ipmi.CompletionCode.IsTemporary|true-set", f.Pos(), "predicate not analysable: "+err.Error())
		} else {
			got := rangesString(set)
			r.Check(got == "{0xC0,0xC3}", "ipmi.CompletionCode.IsTemporary|true-set", f.Pos(), "true-set "+got, "true-set is "+got+", want {0xC0,0xC3}")
		}
	}

}
