#!/usr/bin/env python3
"""Confirms candidate seeded changes produced by sub-agents and runs the checks
against them.

For each /tmp/seed/<Cxx>/out/m<i>.diff:
  1. in a scratch worktree of /repo HEAD: the diff applies, the tree builds,
     the existing suite passes, the demonstration FAILS with the change and
     PASSES without it;
  2. on /repo itself: apply, run the owning property's quick check (and any
     extra checks given on the command line), undo.
Results are written to /tmp/seed/results.json and printed as a table.

usage: seedconfirm.py [Cxx ...] [--extra Cyy,Czz] [--skip-demo]
"""
import json, os, re, subprocess, sys, shutil, glob

ENV = dict(os.environ, GOFLAGS="-mod=mod", GOPROXY="off", GOSUMDB="off", GOTOOLCHAIN="local")
WID = os.environ.get("SEED_WORKER", "0")
SW = "/tmp/seedwt" + WID

def sh(cmd, cwd=None, timeout=900):
    p = subprocess.run(cmd, shell=True, cwd=cwd, env=ENV, capture_output=True, text=True, timeout=timeout)
    return p.returncode, p.stdout + p.stderr

def pkgdir_of(demo):
    src = open(demo).read()
    m = re.search(r'^package\s+(\w+)', src, re.M)
    pkg = m.group(1) if m else "bmc"
    tags = ""
    m2 = re.search(r'^//go:build\s+(\w+)', src, re.M)
    if m2:
        tags = "-tags " + m2.group(1)
    d = {"bmc": ".", "bmc_test": ".", "ipmi": "pkg/ipmi", "ipmi_test": "pkg/ipmi", "dcmi": "pkg/dcmi", "dcmi_test": "pkg/dcmi",
         "transport": "internal/pkg/transport", "bcd": "internal/pkg/bcd", "complement": "internal/pkg/complement"}.get(pkg, ".")
    tests = re.findall(r'^func (Test\w+)\(', src, re.M)
    return d, tags, tests

def apply(diff, cwd):
    rc, out = sh(f"git apply --whitespace=nowarn {diff}", cwd)
    if rc != 0:
        rc, out = sh(f"git apply --3way --whitespace=nowarn {diff}", cwd)
    return rc, out

def confirm(prop, i, skip_demo=False):
    out = f"/tmp/seed/{prop}/out"
    diff = f"{out}/m{i}.diff"
    res = {"property": prop, "mutation": i, "diff": diff}
    if not os.path.exists(diff):
        res["status"] = "no diff"
        return res
    demos = glob.glob(f"{out}/m{i}_demo_test.go") + glob.glob(f"{out}/m{i}_demo/*.go")
    sh(f"git -C /repo worktree remove --force {SW}")
    shutil.rmtree(SW, ignore_errors=True)
    rc, o = sh(f"git -C /repo worktree add --detach {SW} HEAD")
    if rc != 0:
        res["status"] = "worktree failed: " + o[-200:]
        return res
    try:
        rc, o = apply(diff, SW)
        res["applies"] = rc == 0
        if rc != 0:
            res["status"] = "does not apply to HEAD: " + o[-300:]
            return res
        rc, o = sh("go build ./... ", SW)
        res["builds"] = rc == 0
        if rc != 0:
            res["status"] = "build fails: " + o[-300:]
            return res
        rc, o = sh("go test -vet=off -count=1 ./...", SW)
        res["suite_passes"] = rc == 0
        if rc != 0:
            res["status"] = "suite fails with change: " + o[-300:]
            return res
        if not skip_demo and demos:
            demo = demos[0]
            d, tags, tests = pkgdir_of(demo)
            dst = os.path.join(SW, d, f"zz_m{i}_demo_test.go")
            shutil.copy(demo, dst)
            run = "-run '^(" + "|".join(tests) + ")$'" if tests else ""
            rc1, o1 = sh(f"go test -vet=off -count=1 {tags} {run} ./{d}", SW, timeout=1200)
            res["demo_fails_with_change"] = rc1 != 0 and "[build failed]" not in o1 and "[setup failed]" not in o1
            sh("git checkout -- .", SW)
            rc2, o2 = sh(f"go test -vet=off -count=1 {tags} {run} ./{d}", SW, timeout=1200)
            res["demo_passes_without"] = rc2 == 0
            if not res["demo_fails_with_change"]:
                res["status"] = "demo does not fail with change: " + o1[-300:]
                return res
            if not res["demo_passes_without"]:
                res["status"] = "demo fails without change: " + o2[-300:]
                return res
            res["demo"] = {"file": demo, "dir": d, "tags": tags, "tests": tests}
        res["status"] = "confirmed"
    finally:
        sh(f"git -C /repo worktree remove --force {SW}")
        shutil.rmtree(SW, ignore_errors=True)
    return res

CK = "/tmp/seedck" + WID

def run_checks(res, props):
    """Runs the checks against a scratch worktree with the change applied
    (check.sh -repo), so that /repo and /verif/evidence stay untouched."""
    diff = res["diff"]
    sh(f"git -C /repo worktree remove --force {CK}")
    shutil.rmtree(CK, ignore_errors=True)
    sh(f"git -C /repo worktree add --detach {CK} HEAD")
    det = {}
    try:
        rc, o = apply(diff, CK)
        if rc != 0:
            res["check"] = "diff does not apply"
            return
        for p in props:
            env = f"VERIF_REPO={CK} VERIF_OUT=/tmp/seedout{WID}"
            rc, o = sh(f"{env} ./check.sh {p} quick", "/verif", timeout=1800)
            lines = [l for l in o.splitlines() if "[violated]" in l or "[undecided]" in l or l.startswith("FATAL")]
            det[p] = {"exit": rc, "findings": [l.replace(CK + "/", "")[:400] for l in lines[:6]]}
    finally:
        sh(f"git -C /repo worktree remove --force {CK}")
        shutil.rmtree(CK, ignore_errors=True)
    res["detected_by"] = [p for p in det if det[p]["exit"] != 0]
    res["checks"] = det

def main():
    args = [a for a in sys.argv[1:] if not a.startswith("--")]
    extra = []
    skip_demo = "--skip-demo" in sys.argv
    for a in sys.argv[1:]:
        if a.startswith("--extra"):
            extra = a.split("=", 1)[1].split(",")
    props = args or sorted(os.listdir("/tmp/seed"))
    props = [p for p in props if re.match(r"C\d\d$", p)]
    claimed = [c["property_id"] for c in json.load(open("/verif/MANIFEST.json"))["checks"]]
    RES = f"/tmp/seed/results{WID}.json"
    results = []
    if os.path.exists(RES):
        results = json.load(open(RES))
    recheck = "--recheck" in sys.argv
    for p in props:
        for i in (1, 2):
            if recheck:
                old = [x for x in results if x["property"] == p and x["mutation"] == i]
                if not old:
                    # look in the other workers' files
                    for f in glob.glob("/tmp/seed/results*.json"):
                        old += [x for x in json.load(open(f)) if x["property"] == p and x["mutation"] == i and x.get("status") == "confirmed"]
                if not old:
                    continue
                r = dict(old[-1])
                prev = set(r.get("detected_by") or [])
                prevchecks = dict(r.get("checks") or {})
                run_checks(r, [q for q in extra if q in claimed])
                r["detected_by"] = sorted(prev | set(r.get("detected_by") or []))
                prevchecks.update(r.get("checks") or {})
                r["checks"] = prevchecks
                results = [x for x in results if not (x["property"] == p and x["mutation"] == i)] + [r]
                print(p, f"m{i}", "rechecked | detected by:", r["detected_by"], flush=True)
                json.dump(results, open(RES, "w"), indent=1)
                continue
            r = confirm(p, i, skip_demo)
            if r.get("status") == "confirmed":
                run = [q for q in ([p] + extra) if q in claimed]
                if "all" in extra:
                    run = [p] + [q for q in claimed if q != p]
                run_checks(r, run)
            results = [x for x in results if not (x["property"] == p and x["mutation"] == i)] + [r]
            print(p, f"m{i}", r.get("status"), "| detected by:", r.get("detected_by"), flush=True)
            json.dump(results, open(RES, "w"), indent=1)

main()
