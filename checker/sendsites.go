package main

import (
	"fmt"
	"go/types"
	"os"
	"strings"

	"golang.org/x/tools/go/ssa"
)

// checkSendSites: a who-may-call rule. Everything the checks say about transmissions —
// one sequence number per datagram (C09), acceptance of authentic replies only (C04),
// retry classification (C10), context bounds (C13), accounting (C18) — is said about the
// operations handed to backoff.Retry. A datagram that leaves through any other call of
// Transport.Send (a "send once" shortcut, a probe, a keep-alive) is covered by none of it.
// Every call of Transport.Send outside the transport package must therefore lie in the
// flattened view of a retried operation.
func checkSendSites(c *Ctx, r *Report) {
	r.Rule("send-sites", "every call of Transport.Send in the library is made by an operation handed to backoff.Retry (no transmission bypasses sequence numbering, reply acceptance, retry classification and accounting)", 1)
	inClosure := map[ssa.Instruction]bool{}
	for _, rs := range c.RetrySites() {
		if rs.Op == nil {
			continue
		}
		viewInstrs(rs.Op, func(in ssa.Instruction) {
			if isCallTo(in, fnTransportSend) {
				inClosure[in] = true
			}
		})
	}
	for _, fn := range c.LibFuncs() {
		if fn.Pkg != nil && strings.HasSuffix(fn.Pkg.Pkg.Path(), "/internal/pkg/transport") {
			continue
		}
		fn := fn
		rawInstrs(fn, false, func(in ssa.Instruction) {
			if !isCallTo(in, fnTransportSend) {
				return
			}
			r.Check(inClosure[in], c.FnName(fn)+"|Transport.Send", in.Pos(), "inside a retried operation", "a datagram is transmitted outside every operation handed to backoff.Retry: it is not numbered, checked, classified or counted the way the library's transmissions are")
		})
	}
}

// isExchangeCall: the call talks to the BMC — a module function that reaches Transport.Send,
// or a context-taking, error-returning method of one of the module's interfaces (Session,
// Connection, SessionCommands, …), whose implementations do.
func (c *Ctx) isExchangeCall(in ssa.Instruction) bool {
	cc := asCall(in)
	if cc == nil {
		return false
	}
	if isCallTo(in, fnTransportSend) {
		return true
	}
	// backoff.Retry runs the operation at least once; the operations handed to it are the
	// library's sending operations (send-sites)
	if isCallTo(in, fnBackoffRetry) || isCallTo(in, "github.com/cenkalti/backoff/v4.RetryNotify") {
		return true
	}
	if sf := cc.StaticCallee(); sf != nil {
		return c.InModule(sf) && sf.Blocks != nil && (c.reachesSend(sf) || c.reachesRetry(sf))
	}
	if cc.IsInvoke() {
		pk := cc.Method.Pkg()
		if pk == nil || !(pk.Path() == modPath || strings.HasPrefix(pk.Path(), modPath+"/")) {
			return false
		}
		sig := cc.Signature()
		hasCtx, hasErr := false, false
		for i := 0; i < sig.Params().Len(); i++ {
			if isContextType(sig.Params().At(i).Type()) {
				hasCtx = true
			}
		}
		for i := 0; i < sig.Results().Len(); i++ {
			if isErrorType(sig.Results().At(i).Type()) {
				hasErr = true
			}
		}
		return hasCtx && hasErr
	}
	return false
}

// checkSuccessNeedsExchange: "no call reports success without having received a valid
// response", as a must-pass-through: a context-taking library function whose job involves
// talking to the BMC returns a nil error only on paths that made at least one exchange.
// The exceptions are listed with their reason; anything else — a cached answer, a "the BMC is
// probably gone anyway" shortcut — is a success nobody confirmed.
func checkSuccessNeedsExchange(c *Ctx, r *Report) {
	r.Rule("success-needs-exchange", "every context-taking library function that talks to the BMC returns success only on paths on which it made at least one exchange (listed exceptions: selecting a single acceptable cipher suite needs no discovery)", 10)
	for _, fn := range c.ctxFuncs() {
		has, outsideLoop := false, false
		loops := viewLoops(fn)
		fl := flatOf(fn)
		// (a call whose body is spliced into the view is not itself an exchange: its body is there)
		isExch := func(in ssa.Instruction) bool {
			if call, ok := in.(*ssa.Call); ok && fl.Spliced(call) {
				return false
			}
			return c.isExchangeCall(in)
		}
		viewInstrs(fn, func(in ssa.Instruction) {
			if isExch(in) {
				has = true
				if innermostLoop(loops, in.Block()) == nil {
					outsideLoop = true
				}
			}
		})
		if !has {
			continue
		}
		name := c.FnName(fn)
		// every exchange sits in a loop: the path through zero turns of it is excluded by what the
		// loop runs over (a non-empty table, a counter that starts below its bound), which is for
		// the rules about those loops to decide (C14, C16), not for a path count
		if !outsideLoop {
			r.OK(name+"|exchanges in loops", fn.Pos(), "all exchanges are made by paging/walking loops (decided by the rules about those loops)")
			continue
		}
		// the selector: with exactly one acceptable suite there is nothing to discover (C12 decides
		// that this is the only such path)
		if cs := c.Named("pkg/ipmi", "CipherSuite"); cs != nil && fn.Signature.Results().Len() == 2 && isPtrTo(fn.Signature.Results().At(0).Type(), cs) {
			r.OK(name+"|exception", fn.Pos(), "cipher suite selector: a single acceptable suite is proposed without discovery")
			continue
		}
		ok, n := true, 0
		pos := fn.Pos()
		complete := enumPaths(fn, 2, 2000000, func(p CPath) {
			ret, isRet := p.Last().(*ssa.Return)
			if !isRet || ret.Parent() != fn || c.errOutcome(fn, p) == 1 {
				return
			}
			n++
			if os.Getenv("BMCVERIF_DBG") != "" {
				fmt.Fprintln(os.Stderr, "DBG", name, "outcome", c.errOutcome(fn, p), "instrs", len(p.Instrs()))
				for _, in := range p.Instrs() {
					if cc := asCall(in); cc != nil {
						fmt.Fprintln(os.Stderr, "   call", calleeName(cc), c.isExchangeCall(in))
					}
				}
			}
			for _, in := range p.Instrs() {
				if isExch(in) {
					return
				}
			}
			ok = false
			pos = ret.Pos()
		})
		if !complete {
			r.Unk(name+"|success needs exchange", fn.Pos(), "too many paths")
			continue
		}
		r.Check(ok, name+"|success needs exchange", pos, fmt.Sprintf("%d success paths, each with an exchange", n), "a path returns success without any exchange with the BMC: nothing was sent, no response was received, and the caller is told the operation succeeded")
	}
}

// reachesRetry: fn (or a module function it calls statically) calls backoff.Retry — with an
// operation it was handed, which by send-sites is one of the library's sending operations.
func (c *Ctx) reachesRetry(fn *ssa.Function) bool {
	seen := map[*ssa.Function]bool{}
	var walk func(f *ssa.Function) bool
	walk = func(f *ssa.Function) bool {
		if f == nil || seen[f] || f.Blocks == nil {
			return false
		}
		seen[f] = true
		found := false
		rawInstrs(f, false, func(in ssa.Instruction) {
			if isCallTo(in, fnBackoffRetry) || isCallTo(in, "github.com/cenkalti/backoff/v4.RetryNotify") {
				found = true
			}
			if cc := asCall(in); cc != nil && !found {
				if sf := cc.StaticCallee(); sf != nil && c.InModule(sf) && walk(sf) {
					found = true
				}
			}
		})
		return found
	}
	return walk(fn)
}

// checkRefusedLeavesNoTrace: "such datagrams are treated as if no valid response had arrived".
// On every path of the in-session operation that decodes a reply and then refuses it (returns
// non-nil to backoff.Retry), nothing is stored into the session object after the decode: a
// datagram anyone can send (flag cleared, no key needed) must not move session state — a
// replay window, a counter, a "last seen" — that later authentic replies are judged by.
func checkRefusedLeavesNoTrace(c *Ctx, r *Report) {
	r.Rule("refused-leaves-no-trace", "on every path of the in-session operation that refuses a decoded reply, no field of the session object is written after the decode", 1)
	v2s := c.Named("", "V2Session")
	n := 0
	for _, s := range c.SendClosures() {
		if !s.Session {
			continue
		}
		n++
		name := c.FnName(s.Fn)
		ok := true
		var pos = s.Fn.Pos()
		what := ""
		complete := enumPaths(s.Fn, 1, 200000, func(p CPath) {
			ret, isRet := p.Last().(*ssa.Return)
			if !isRet || ret.Parent() != s.Fn || len(ret.Results) != 1 {
				return
			}
			if isNilConst(p.Resolve(ret.Results[0])) {
				return // accepted (or ended): stores on the accepting path are the session's business
			}
			decoded := false
			for _, oc := range p.Occs() {
				if isDecodeCall(oc.In) {
					decoded = true
					continue
				}
				st, isSt := oc.In.(*ssa.Store)
				if !decoded || !isSt {
					continue
				}
				a := p.APIn(oc.Ctx, st.Addr)
				if a.Root == nil || len(a.Sel) == 0 {
					continue
				}
				if v2s != nil && isPtrTo(a.Root.Type(), v2s) {
					ok = false
					pos = st.Pos()
					what = a.SelString()
				} else if fv, isFV := a.Root.(*ssa.FreeVar); isFV {
					// the captured session pointer is a cell: *s is the session
					if pt, isP := fv.Type().(*types.Pointer); isP && v2s != nil && isPtrTo(pt.Elem(), v2s) {
						ok = false
						pos = st.Pos()
						what = a.SelString()
					}
				}
			}
		})
		if !complete {
			r.Unk(name+"|refused reply", s.Fn.Pos(), "too many paths")
			continue
		}
		r.Check(ok, name+"|refused reply", pos, "no session state written after the decode on refusing paths", "a reply that is then refused has already been written into the session ("+what+"): an unauthenticated datagram changes what later authentic replies are judged against")
	}
	if n == 0 {
		r.Lost("in-session send closure")
	}
}
