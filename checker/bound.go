package main

import (
	"fmt"
	"go/constant"
	"go/token"
	"go/types"
	"strings"

	"golang.org/x/tools/go/ssa"
)

// State shared between a retried operation and the function that starts it
// lives either in captured variables (the operation is a function literal) or
// in the fields of a small object whose method is passed as a method value
// (`backoff.Retry(x.attempt, …)`). The tables below let both spellings be read
// the same way: the receiver of a bound method is resolved to the object bound
// at the MakeClosure site as a free variable is to its binding, and a field
// written once in the whole module names the value stored there.

var (
	boundMethod map[*ssa.Function]*ssa.Function      // bound-method wrapper → method
	boundSites  map[*ssa.Function][]*ssa.MakeClosure // method → sites (in the module) where it is bound
	fieldStores map[*types.Var][]*ssa.Store          // struct field → stores into it, module-wide
)

func (c *Ctx) indexBoundMethods() {
	boundMethod = map[*ssa.Function]*ssa.Function{}
	boundSites = map[*ssa.Function][]*ssa.MakeClosure{}
	fieldStores = map[*types.Var][]*ssa.Store{}
	var scan func(fn *ssa.Function)
	scan = func(fn *ssa.Function) {
		for _, b := range fn.Blocks {
			for _, in := range b.Instrs {
				switch x := in.(type) {
				case *ssa.MakeClosure:
					w, ok := x.Fn.(*ssa.Function)
					if !ok || !strings.HasSuffix(w.Name(), "$bound") || len(w.FreeVars) != 1 || len(x.Bindings) != 1 {
						continue
					}
					var m *ssa.Function
					for _, wb := range w.Blocks {
						for _, wi := range wb.Instrs {
							if call, ok := wi.(*ssa.Call); ok && call.Call.StaticCallee() != nil && len(call.Call.Args) > 0 && call.Call.Args[0] == ssa.Value(w.FreeVars[0]) {
								m = call.Call.StaticCallee()
							}
						}
					}
					if m != nil {
						boundMethod[w] = m
						boundSites[m] = append(boundSites[m], x)
					}
				case *ssa.Store:
					if fa, ok := x.Addr.(*ssa.FieldAddr); ok {
						if f := structField(fa.X.Type(), fa.Field); f != nil {
							fieldStores[f] = append(fieldStores[f], x)
						}
					}
				}
			}
		}
		for _, an := range fn.AnonFuncs {
			scan(an)
		}
	}
	for _, fn := range c.ModFn {
		if fn.Parent() == nil {
			scan(fn)
		}
	}
}

// closureFn resolves a function value to the function that runs when it is
// called: a literal, a named function, or the method behind a method value.
func closureFn(v ssa.Value) *ssa.Function {
	switch x := stripConv(v).(type) {
	case *ssa.MakeClosure:
		f, ok := x.Fn.(*ssa.Function)
		if !ok {
			return nil
		}
		if m := boundMethod[f]; m != nil {
			return m
		}
		return f
	case *ssa.Function:
		return x
	}
	return nil
}

// recvBinding: for the receiver parameter of a method that is bound as a method
// value at exactly one site, the object bound there (the receiver's value in
// every call made through that method value).
func recvBinding(p *ssa.Parameter) ssa.Value {
	fn := p.Parent()
	if fn == nil || fn.Signature.Recv() == nil || len(fn.Params) == 0 || fn.Params[0] != p {
		return nil
	}
	sites := boundSites[fn]
	if len(sites) != 1 {
		return nil
	}
	// the method must not be called in any other way (then the receiver could be something else)
	if directCallers[fn] > 0 {
		return nil
	}
	return sites[0].Bindings[0]
}

var directCallers map[*ssa.Function]int

func (c *Ctx) indexDirectCallers() {
	directCallers = map[*ssa.Function]int{}
	for _, fn := range c.ModFn {
		if strings.HasSuffix(fn.Name(), "$bound") {
			continue
		}
		for _, b := range fn.Blocks {
			for _, in := range b.Instrs {
				if cc := asCall(in); cc != nil {
					if f := cc.StaticCallee(); f != nil {
						directCallers[f]++
					}
				}
			}
		}
	}
}

// fieldOrigin: obj is a local object and its field f has exactly one writer in
// the whole module, a store into obj itself: every read of the field (through
// any alias of obj) sees that value or the zero value. Returns the stored value.
func fieldOrigin(obj *ssa.Alloc, f *types.Var) ssa.Value {
	// only for fields that hold a reference or a scalar: a struct- or array-typed field holds
	// a copy with storage of its own, which later writes may change independently
	switch f.Type().Underlying().(type) {
	case *types.Struct, *types.Array:
		return nil
	}
	sts := fieldStores[f]
	if len(sts) != 1 {
		return nil
	}
	fa := sts[0].Addr.(*ssa.FieldAddr)
	if fa.X != ssa.Value(obj) {
		return nil
	}
	return sts[0].Val
}

// Cell is a location shared between an operation and the function that starts
// it: a captured variable, or a field of the operation's state object.
type Cell struct {
	Obj *ssa.Alloc // allocated in the starting function
	Sel string     // "" for a captured variable, the field path otherwise
}

func (c Cell) Name() string {
	n := c.Obj.Comment
	if n == "" {
		n = c.Obj.Name()
	}
	if c.Sel != "" {
		return c.Sel
	}
	return n
}

// cellOf: the shared cell an address (inside an operation) denotes.
func cellOf(addr ssa.Value) (Cell, bool) {
	switch x := addr.(type) {
	case *ssa.FreeVar:
		if al, ok := freeVarBinding(x).(*ssa.Alloc); ok {
			return Cell{Obj: al}, true
		}
		return Cell{}, false
	case *ssa.FieldAddr:
		a := apOf(x)
		al, ok := a.Root.(*ssa.Alloc)
		if !ok || len(a.Sel) == 0 {
			return Cell{}, false
		}
		in, isIn := addr.(ssa.Instruction)
		if !isIn || al.Parent() == in.Parent() {
			return Cell{}, false
		}
		return Cell{Obj: al, Sel: a.SelString()}, true
	}
	return Cell{}, false
}

// cellAddrIn: addr, inside the starting function, denotes the cell.
func (c Cell) addrIn(addr ssa.Value) bool {
	if c.Sel == "" {
		return addr == ssa.Value(c.Obj)
	}
	a := apOf(addr)
	return a.Root == ssa.Value(c.Obj) && a.SelString() == c.Sel
}

// cellStore: is `in` a store of val into a shared cell?
func cellStore(in ssa.Instruction) (Cell, ssa.Value, bool) {
	st, ok := in.(*ssa.Store)
	if !ok {
		return Cell{}, nil, false
	}
	cl, ok := cellOf(st.Addr)
	if !ok {
		return Cell{}, nil, false
	}
	return cl, st.Val, true
}

// cellLoad: is v a load of a shared cell?
func cellLoad(v ssa.Value) (Cell, bool) {
	ld, ok := v.(*ssa.UnOp)
	if !ok || ld.Op != token.MUL {
		return Cell{}, false
	}
	return cellOf(ld.X)
}

// isStateObject: the local object is what a method value is bound to (directly,
// or by value through a load of it).
func isStateObject(al *ssa.Alloc) bool {
	for _, sites := range boundSites {
		for _, mc := range sites {
			b := mc.Bindings[0]
			if b == ssa.Value(al) {
				return true
			}
			if ld, ok := b.(*ssa.UnOp); ok && ld.X == ssa.Value(al) {
				return true
			}
		}
	}
	return false
}

// ---------------------------------------------------------------- scalar state across invocations

// cellStep describes what one path through an operation does with a scalar
// shared cell: which values of the cell (at the start of the invocation) let
// the path be taken, and the value the cell holds afterwards.
type cellStep struct {
	Pred    func(v int64) bool
	Next    func(v int64) int64
	Tested  bool // the path consulted the cell
	Written bool
	Desc    string
}

func constScalar(v ssa.Value) (int64, bool) {
	k, ok := v.(*ssa.Const)
	if !ok || k.Value == nil {
		return 0, false
	}
	if k.Value.Kind() == constant.Bool {
		if constant.BoolVal(k.Value) {
			return 1, true
		}
		return 0, true
	}
	return constInt(v)
}

func cmpInt(op token.Token, a, b int64) bool {
	switch op {
	case token.EQL:
		return a == b
	case token.NEQ:
		return a != b
	case token.LSS:
		return a < b
	case token.LEQ:
		return a <= b
	case token.GTR:
		return a > b
	case token.GEQ:
		return a >= b
	}
	return false
}

// cellStepOf reads a path of an operation with respect to one cell. ok=false
// when the path uses the cell in a way this reading does not cover.
func cellStepOf(p CPath, cell Cell) (cellStep, bool) {
	occs := p.OccsPos()
	firstStore := len(occs)
	var stores []int
	for i, oc := range occs {
		if cl, _, ok := cellStoreView(p.fl.Root, oc.In); ok && cl == cell {
			stores = append(stores, i)
			if i < firstStore {
				firstStore = i
			}
		}
	}
	isLoad := func(v ssa.Value) (int, bool) {
		v = stripConv(v)
		cl, ok := cellLoadView(p.fl.Root, v)
		if !ok || cl != cell {
			return 0, false
		}
		return lastOcc(occs, len(occs)-1, v.(ssa.Instruction)), true
	}
	type conj struct {
		op token.Token
		k  int64
	}
	var cs []conj
	okAll := true
	for _, rel := range p.relationsPos(occs) {
		for _, pr := range [][2]ssa.Value{{rel.X, rel.Y}, {rel.Y, rel.X}} {
			at, isL := isLoad(p.Upto(occs[rel.At].Seg).ResolveIn(rel.Ctx, pr[0]))
			if !isL {
				continue
			}
			op := rel.Op
			if pr[0] != rel.X {
				op = flipOp(op)
			}
			k, isK := constScalar(p.Upto(occs[rel.At].Seg).ResolveIn(rel.Ctx, pr[1]))
			if !isK || at > firstStore {
				okAll = false
				continue
			}
			cs = append(cs, conj{op, k})
		}
	}
	for _, bf := range p.boolFacts() {
		at, isL := isLoad(bf.V)
		if !isL {
			continue
		}
		if at > firstStore {
			okAll = false
			continue
		}
		k := int64(0)
		if bf.True {
			k = 1
		}
		cs = append(cs, conj{token.EQL, k})
	}
	st := cellStep{Tested: len(cs) > 0, Written: len(stores) > 0}
	st.Pred = func(v int64) bool {
		for _, c := range cs {
			if !cmpInt(c.op, v, c.k) {
				return false
			}
		}
		return true
	}
	st.Next = func(v int64) int64 { return v }
	if len(stores) > 1 {
		return st, false
	}
	if len(stores) == 1 {
		oc := occs[stores[0]]
		val := p.Upto(oc.Seg).ResolveIn(oc.Ctx, oc.In.(*ssa.Store).Val)
		if k, isK := constScalar(val); isK {
			st.Next = func(int64) int64 { return k }
			st.Desc = fmt.Sprintf("← %d", k)
		} else if bo, isB := stripConv(val).(*ssa.BinOp); isB && bo.Op == token.ADD {
			_, isL := isLoad(p.Upto(oc.Seg).ResolveIn(oc.Ctx, bo.X))
			d, isK := constInt(bo.Y)
			if !isL || !isK {
				return st, false
			}
			st.Next = func(v int64) int64 { return v + d }
			st.Desc = fmt.Sprintf("+= %d", d)
		} else {
			return st, false
		}
	}
	return st, okAll
}

// cellInitial: the value the cell holds when the starting function reaches `before`
// (its backoff.Retry call): the cell's object is allocated by that function (fresh per
// call) and the function stores at most one constant into the cell, before that point;
// none means the zero value.
func cellInitial(cell Cell, parent *ssa.Function, before ssa.Instruction) (int64, bool) {
	if cell.Obj == nil {
		return 0, false
	}
	// allocated by the starting function, or by a helper it calls on the way (a factory that
	// returns the operation's counter): in either case once per call of the starting function
	owner := cell.Obj.Parent()
	inView := false
	for _, f := range flatOf(parent).Funcs() {
		if f == owner {
			inView = true
		}
	}
	if !inView || !mustPrecede(parent, cell.Obj, before) {
		return 0, false
	}
	val, n := int64(0), 0
	okAll := true
	rawInstrs(owner, false, func(in ssa.Instruction) {
		st, isSt := in.(*ssa.Store)
		if !isSt || !cell.addrIn(st.Addr) {
			return
		}
		n++
		k, isK := constScalar(st.Val)
		if !isK || !mustPrecede(parent, st, before) {
			okAll = false
			return
		}
		val = k
	})
	return val, okAll && n <= 1
}

// scalarCellsOf lists the scalar (boolean or integer) shared cells an operation reads.
func scalarCellsOf(op *ssa.Function) []Cell {
	seen := map[Cell]bool{}
	var out []Cell
	viewInstrs(op, func(in ssa.Instruction) {
		v, ok := in.(ssa.Value)
		if !ok {
			return
		}
		cl, ok := cellLoadView(op, v)
		if !ok || seen[cl] {
			return
		}
		b, isB := v.Type().Underlying().(*types.Basic)
		if !isB || b.Info()&(types.IsBoolean|types.IsInteger) == 0 {
			return
		}
		seen[cl] = true
		out = append(out, cl)
	})
	return out
}

// cellOfView is cellOf for an address inside op's flattened view: the address may be a field
// of a helper's receiver or parameter that is, at every splice of the helper, the captured
// variable or state object (`attempts.begin()` with `attempts` captured by the literal).
func cellOfView(op *ssa.Function, addr ssa.Value) (Cell, bool) {
	if cl, ok := cellOf(addr); ok {
		return cl, true
	}
	aps := viewAPs(op, addr)
	if len(aps) == 0 {
		return Cell{}, false
	}
	var out Cell
	for i, a := range aps {
		al, ok := a.Root.(*ssa.Alloc)
		if !ok {
			return Cell{}, false
		}
		// allocated outside the operation (by the function that starts it)
		for _, f := range flatOf(op).Funcs() {
			if al.Parent() == f {
				return Cell{}, false
			}
		}
		cl := Cell{Obj: al, Sel: a.SelString()}
		if i > 0 && cl != out {
			return Cell{}, false
		}
		out = cl
	}
	return out, true
}

func cellStoreView(op *ssa.Function, in ssa.Instruction) (Cell, ssa.Value, bool) {
	st, ok := in.(*ssa.Store)
	if !ok {
		return Cell{}, nil, false
	}
	cl, ok := cellOfView(op, st.Addr)
	if !ok {
		return Cell{}, nil, false
	}
	return cl, st.Val, true
}

func cellLoadView(op *ssa.Function, v ssa.Value) (Cell, bool) {
	ld, ok := v.(*ssa.UnOp)
	if !ok || ld.Op != token.MUL {
		return Cell{}, false
	}
	return cellOfView(op, ld.X)
}

// ---------------------------------------------------------------- state structs

// A state struct is an unexported struct type of the module whose values only ever live in
// locals (a per-call object that carries what a multi-step operation has accumulated: the
// handshake's messages and keys, the exchange's command and context). A field of such a type
// with a single writer in the whole module holds, wherever it is read, the value that writer
// stored (in the same call of the operation) — reading it is reading that value.

func stateStructField(f *types.Var) bool {
	if f == nil || f.Exported() || f.Pkg() == nil || !(f.Pkg().Path() == modPath || strings.HasPrefix(f.Pkg().Path(), modPath+"/")) {
		return false
	}
	return true
}

func isStateStructType(t types.Type) bool {
	if p, ok := t.Underlying().(*types.Pointer); ok {
		t = p.Elem()
	}
	n, ok := t.(*types.Named)
	if !ok || n.Obj().Exported() || n.Obj().Pkg() == nil {
		return false
	}
	if _, isStruct := n.Underlying().(*types.Struct); !isStruct {
		return false
	}
	pp := n.Obj().Pkg().Path()
	return pp == modPath || strings.HasPrefix(pp, modPath+"/")
}

// canonValue follows reads of single-writer fields of state structs to the value stored:
// `h.openSessionRsp` is the response the Open Session stage stored, whichever stage reads it.
func canonValue(v ssa.Value) ssa.Value {
	for i := 0; i < 8; i++ {
		switch x := v.(type) {
		case *ssa.UnOp:
			if x.Op != token.MUL {
				return v
			}
			fa, ok := x.X.(*ssa.FieldAddr)
			if !ok {
				return v
			}
			f := structField(fa.X.Type(), fa.Field)
			if !stateStructField(f) || !isStateStructType(fa.X.Type()) {
				return v
			}
			sts := fieldStores[f]
			if len(sts) != 1 {
				return v
			}
			v = sts[0].Val
			continue
		case *ssa.Extract:
			// a pointer result of an unexported wrapper that can only hand back one value (its
			// other returns are nil): `rsp, err := s.proposeAndConfirm(…)` is the response the
			// exchange inside the wrapper returned
			call, ok := x.Tuple.(*ssa.Call)
			if !ok {
				return v
			}
			if _, isPtr := x.Type().Underlying().(*types.Pointer); !isPtr {
				return v
			}
			f := call.Call.StaticCallee()
			if f == nil || f.Blocks == nil || f.Object() == nil || f.Object().Exported() || f.Pkg == nil || !(f.Pkg.Pkg.Path() == modPath || strings.HasPrefix(f.Pkg.Pkg.Path(), modPath+"/")) {
				return v
			}
			var only ssa.Value
			for _, ret := range returnsOf(f) {
				if x.Index >= len(ret.Results) {
					return v
				}
				rv := ret.Results[x.Index]
				if isNilConst(rv) {
					continue
				}
				if only != nil && only != rv {
					return v
				}
				only = rv
			}
			if only == nil {
				return v
			}
			if _, isParam := only.(*ssa.Parameter); isParam {
				return v
			}
			v = only
			continue
		case *ssa.Field:
			f := structField(x.X.Type(), x.Field)
			if !stateStructField(f) || !isStateStructType(x.X.Type()) {
				return v
			}
			sts := fieldStores[f]
			if len(sts) != 1 {
				return v
			}
			v = sts[0].Val
			continue
		}
		return v
	}
	return v
}

// canonEq: the two values denote the same thing once reads of single-writer state fields and
// results of single-result wrappers are followed.
func canonEq(a, b ssa.Value) bool {
	if a == nil || b == nil {
		return false
	}
	return a == b || canonValue(a) == canonValue(b)
}

// paramArgs: when v is a parameter of an unexported module function (or of an instance of a
// generic one) that is only ever called directly, the values its call sites pass for it —
// "the helper's back-off is the one its caller built". nil when v is not such a parameter.
func (c *Ctx) paramArgs(v ssa.Value) []ssa.Value {
	prm, ok := stripConv(v).(*ssa.Parameter)
	if !ok {
		return nil
	}
	f := prm.Parent()
	if f == nil || !unexportedName(f) || f.Parent() != nil {
		return nil
	}
	idx := -1
	for i, p := range f.Params {
		if p == prm {
			idx = i
		}
	}
	if idx < 0 {
		return nil
	}
	same := func(g *ssa.Function) bool {
		if g == f {
			return true
		}
		return g != nil && g.Origin() != nil && (g.Origin() == f || g.Origin() == f.Origin())
	}
	var out []ssa.Value
	for _, fn := range c.ModFn {
		bad := false
		allInstrs(fn, true, func(in ssa.Instruction) {
			cc := asCall(in)
			if cc == nil {
				// the function used as a value: its callers are not all known
				for _, op := range in.Operands(nil) {
					if op != nil && *op != nil {
						if g, isF := (*op).(*ssa.Function); isF && same(g) {
							bad = true
						}
					}
				}
				return
			}
			if g := cc.StaticCallee(); same(g) {
				args := callArgs(cc)
				if idx < len(args) {
					out = append(out, args[idx])
				}
			}
		})
		if bad {
			return nil
		}
	}
	return out
}
