package main

import (
	"fmt"
	"go/token"
	"os"

	"golang.org/x/tools/go/ssa"
)

// cmdErrscan lists, for every library function, the module calls whose error a
// success path of the function's flattened view never examines (development aid
// for the errors-examined rules).
func cmdErrscan(args []string) int {
	repo := "/repo"
	if len(args) > 0 {
		repo = args[0]
	}
	c, err := loadRepo(repo, "quick", "amd64")
	if err != nil {
		fmt.Fprintln(os.Stderr, err)
		return 1
	}
	for _, fn := range c.LibFuncs() {
		if fn.Parent() != nil || errResultIndex(fn) < 0 {
			continue
		}
		seen := map[string]bool{}
		enumPaths(fn, 1, 20000, func(p CPath) {
			ret, isRet := p.Last().(*ssa.Return)
			if !isRet || ret.Parent() != fn || c.errOutcome(fn, p) == 1 {
				return
			}
			for _, call := range p.untestedErrors(func(f *ssa.Function) bool { return c.InModule(f) }, modPath) {
				k := c.FnName(fn) + ": " + shortName(calleeName(&call.Call)) + " @ " + c.Pos(call.Pos())
				if !seen[k] {
					seen[k] = true
					fmt.Println(k)
				}
			}
		})
	}
	return 0
}

// checkErrorsExamined is the shared rule "no failure is passed over": for each of the given
// functions (judged with their flattened views), on every path that does not return an
// error, every error returned by a call into the module was compared with nil (or is what
// the function returns). A dropped error is a success reported over a failure.
func checkErrorsExamined(c *Ctx, r *Report, rule, doc string, min int, fns []*ssa.Function) {
	r.Rule(rule, doc, min)
	for _, fn := range fns {
		if fn == nil || fn.Blocks == nil || errResultIndex(fn) < 0 {
			continue
		}
		name := c.FnName(fn)
		r.Fn(name)
		ok := true
		why := ""
		pos := fn.Pos()
		// (each segment up to twice: a failure inside a loop body is followed by the loop's next
		// turn or its exit, both of which pass the loop head again)
		complete := enumPaths(fn, 2, 2000000, func(p CPath) {
			ret, isRet := p.Last().(*ssa.Return)
			if !isRet || ret.Parent() != fn || c.errOutcome(fn, p) == 1 {
				return
			}
			for _, call := range p.untestedErrors(func(f *ssa.Function) bool { return c.InModule(f) }, modPath) {
				ok = false
				why = "success is reported although the error of " + shortName(calleeName(&call.Call)) + " was never examined"
				pos = call.Pos()
			}
			// … and an error that was examined and found non-nil is not passed over either
			for _, call := range p.failedErrors(func(f *ssa.Function) bool { return c.InModule(f) }, modPath) {
				ok = false
				why = "success is reported on a path on which " + shortName(calleeName(&call.Call)) + " returned an error"
				pos = call.Pos()
			}
		})
		if !complete {
			r.Unk(name+"|errors examined", fn.Pos(), "too many paths")
			continue
		}
		r.Check(ok, name+"|errors examined", pos, "every module error is compared with nil before success is reported", why)
	}
}

// ctxFuncs lists the library functions that take a context and return an error, except
// helpers that only ever run spliced into another function's view (judged there).
func (c *Ctx) ctxFuncs() []*ssa.Function {
	var out []*ssa.Function
	for _, fn := range c.LibFuncs() {
		if fn.Parent() != nil || errResultIndex(fn) < 0 {
			continue
		}
		has := false
		for _, p := range fn.Params {
			if isContextType(p.Type()) {
				has = true
			}
		}
		if !has || c.onlySpliced(fn) {
			continue
		}
		out = append(out, fn)
	}
	return out
}

// nilDecisionOnPath: what the last comparison of v with nil on the path found — 1 non-nil,
// 0 nil, -1 never compared.
func nilDecisionOnPath(p CPath, v ssa.Value) int {
	out := -1
	for _, tk := range p.Ifs() {
		op, x, y, neg, isBin := condOf(tk.If.Cond)
		if !isBin || (op != token.NEQ && op != token.EQL) {
			continue
		}
		arm := tk.Arm
		if neg {
			arm = !arm
		}
		var e ssa.Value
		if isNilConst(y) {
			e = x
		} else if isNilConst(x) {
			e = y
		}
		if e == nil || !(e == v || p.Resolve(e) == v) {
			continue
		}
		if (op == token.NEQ) == arm {
			out = 1
		} else {
			out = 0
		}
	}
	return out
}

// checkRetryFailureReturned: when backoff.Retry gives up (its result was found non-nil), the
// function that started the retries reports failure — it does not turn an exchange that never
// completed into a success, whatever else happened during the attempts.
func checkRetryFailureReturned(c *Ctx, r *Report) {
	r.Rule("retry-failure-returned", "on every path on which backoff.Retry's result was found non-nil, the function that called it returns a non-nil error", 3)
	for _, rs := range c.RetrySites() {
		fn := rs.Call.Parent()
		if fn == nil || errResultIndex(fn) < 0 {
			continue
		}
		name := c.FnName(fn)
		r.Fn(name)
		ok, n := true, 0
		pos := rs.Call.Pos()
		complete := enumPaths(fn, 1, 200000, func(p CPath) {
			ret, isRet := p.Last().(*ssa.Return)
			if !isRet || ret.Parent() != fn {
				return
			}
			if p.nilFound(rs.Call) != 1 {
				return
			}
			n++
			if c.errOutcome(fn, p) != 1 {
				ok = false
				pos = ret.Pos()
			}
		})
		if !complete {
			r.Unk(name+"|retry failure", rs.Call.Pos(), "too many paths")
			continue
		}
		r.Check(ok, name+"|retry failure", pos, fmt.Sprintf("%d paths on which the retries were given up all return an error", n), "the retries were given up (backoff.Retry returned an error) and the function reports success all the same: the caller takes whatever the decoded layers last held for the response")
	}
}
