package main

import (
	"fmt"
	"go/token"
	"go/types"
	"strings"

	"golang.org/x/tools/go/ssa"
)

func init() { register("C02", checkC02) }

// boolCallIf: ifi's condition is the (possibly negated) result of a call to
// one of names (or ConstantTimeCompare(...) == 1). Returns the call and
// whether the If's Succs[0] is the arm on which the call returned true.
func boolCallIf(ifi *ssa.If, names ...string) (*ssa.Call, bool) {
	v := ifi.Cond
	neg := false
	for {
		if u, ok := v.(*ssa.UnOp); ok && u.Op == token.NOT {
			neg = !neg
			v = u.X
			continue
		}
		break
	}
	if bo, ok := v.(*ssa.BinOp); ok && (bo.Op == token.EQL || bo.Op == token.NEQ) {
		if k, isK := constInt(bo.Y); isK && k == 1 {
			if call, ok := bo.X.(*ssa.Call); ok && isCallTo(call, fnSubtleCompare) {
				v = call
				if bo.Op == token.NEQ {
					neg = !neg
				}
			}
		}
	}
	call, ok := v.(*ssa.Call)
	if !ok || !isCallTo(call, names...) {
		return nil, false
	}
	return call, !neg
}

// handshakeHelpers: methods of the session-less connection whose first result
// is a pointer to one of the three handshake response layers.
func (c *Ctx) handshakeHelpers() map[string]*ssa.Function {
	out := map[string]*ssa.Function{}
	want := map[string]*types.Named{
		"OpenSessionRsp": c.Named("pkg/ipmi", "OpenSessionRsp"),
		"RAKPMessage2":   c.Named("pkg/ipmi", "RAKPMessage2"),
		"RAKPMessage4":   c.Named("pkg/ipmi", "RAKPMessage4"),
	}
	cands := map[string][]*ssa.Function{}
	for _, fn := range c.LibFuncs() {
		if fn.Pkg == nil || !c.libFn(fn) || fn.Signature.Results().Len() != 2 || fn.Parent() != nil {
			continue
		}
		for k, n := range want {
			if isPtrTo(fn.Signature.Results().At(0).Type(), n) && len(fn.AnonFuncs) == 0 {
				cands[k] = append(cands[k], fn)
			}
		}
	}
	// several functions may hand the response on (a wrapper that also checks what the
	// response says): the helper is the innermost one — it calls none of the others
	for k, fs := range cands {
		for _, fn := range fs {
			callsOther := false
			rawInstrs(fn, false, func(in ssa.Instruction) {
				if cc := asCall(in); cc != nil {
					for _, g := range fs {
						if g != fn && cc.StaticCallee() == g {
							callsOther = true
						}
					}
				}
			})
			if !callsOther {
				out[k] = fn
			}
		}
	}
	return out
}

func checkC02(c *Ctx, r *Report) {
	r.Explain = "Must-pass-through facts about session establishment: (1) every CFG path of the session constructor that returns a session has taken the true arm of a constant-time comparison between the RAKP Message 2 AuthCode received (whole field, not re-sliced) and the RAKP2 computation (identified by its hash transcript, see C01) over the very RAKP1 sent and RAKP2 received, and likewise for the RAKP Message 4 ICV; the mismatch arm of the first returns the incorrect-password sentinel, of the second a non-nil error; (2) each handshake helper returns a response only after comparing its tag with the request's and its status with OK, and only if the payload exchange returned no error; (3) truncated/malformed handshake replies cannot index out of range (bounds obligations of the three handshake decoders, engine E1). Decides the presence of the checks on all paths; the strength of HMAC is trusted."
	r.NotDecided = []string{"value-level soundness of HMAC (trusted)", "that no other secret than the caller's password/KG would produce the same codes"}
	r.Trusted = []string{"go/types, go/ssa (x/tools v0.29.0)", "crypto/hmac.Equal compares whole slices in constant time"}

	m := c.findCtor()
	if m == nil || m.M1 == nil || m.M2 == nil || m.M4 == nil {
		r.Rule("rakp2-authcode-verified", "", 1)
		r.Lost("session constructor and its RAKP exchanges")
	} else {
		name := c.FnName(m.Fn)
		r.Fn(name)
		// classify the comparisons present
		type cmp struct {
			ifi      *ssa.If
			call     *ssa.Call
			trueSucc bool
			kind     string // rakp2 | rakp4 | ""
			why      string
		}
		var cmps []cmp
		for _, ifi := range ifsOf(m.Fn) {
			call, ts := boolCallIf(ifi, fnHmacEqual, fnSubtleCompare)
			if call == nil {
				continue
			}
			cm := cmp{ifi: ifi, call: call, trueSucc: ts}
			a, b := call.Call.Args[0], call.Call.Args[1]
			sites, _ := c.transcriptSites(m)
			for _, pr := range [][2]ssa.Value{{a, b}, {b, a}} {
				// the computed side: the digest of one of the RAKP computations (a call of the
				// function computing it, or the Sum of the computation written out)
				kind := ""
				var site *trSite
				for k, st := range sites {
					if st.Result != nil && st.Result == pr[1] && st.Shape == "" {
						kind, site = k, st
					}
				}
				if kind == "" {
					cm.why = "computed side is not one of the RAKP transcript computations"
					continue
				}
				if !site.OverM1M2 {
					cm.why = "computed over messages other than the RAKP1 sent / RAKP2 received"
					continue
				}
				switch {
				case kind == "rakp2" && fieldLoadOf(pr[0], m.M2, "AuthCode"):
					cm.kind = "rakp2"
				case kind == "rakp4" && fieldLoadOf(pr[0], m.M4, "ICV"):
					cm.kind = "rakp4"
				default:
					cm.why = "received side is not the whole AuthCode/ICV field of the reply matching the " + kind + " computation"
				}
			}
			cmps = append(cmps, cm)
		}
		nSucc := 0
		m.successPaths(func(p CPath) {
			nSucc++
			label := exitLabel(p)
			for _, want := range []string{"rakp2", "rakp4"} {
				if want == "rakp2" {
					r.Rule("rakp2-authcode-verified", "a session is returned only after hmac.Equal(RAKP2.AuthCode, RAKP2 computation under the password) held", 1)
				} else {
					r.Rule("rakp4-icv-verified", "a session is returned only after hmac.Equal(RAKP4.ICV, RAKP4 computation under the SIK) held", 1)
				}
				ok := false
				for _, cm := range cmps {
					if cm.kind != want {
						continue
					}
					arm, on := p.Took(cm.ifi)
					if on && arm == cm.trueSucc {
						ok = true
					}
				}
				why := "no comparison of the received " + want + " code with the computed one guards this success path"
				for _, cm := range cmps {
					if cm.kind == "" && cm.why != "" {
						why += " (a comparison exists but " + cm.why + ")"
					}
				}
				r.Check(ok, name+"|"+want+"|path "+label, p.Last().Pos(), "comparison held on this path", why)
			}
		})
		if nSucc == 0 {
			r.Rule("rakp2-authcode-verified", "", 1)
			r.Unk(name+"|success paths", m.Fn.Pos(), "no path returns the session literal")
		}
		// mismatch arms: every path that takes the mismatch edge returns no session and the right error
		r.Rule("mismatch-errors", "RAKP2 mismatch returns the incorrect-password sentinel; RAKP4 mismatch returns a non-nil error; neither returns a session", 2)
		for _, cm := range cmps {
			if cm.kind == "" {
				continue
			}
			ok, n := true, 0
			why := ""
			enumPaths(m.Fn, 2, 200000, func(p CPath) {
				arm, on := p.Took(cm.ifi)
				if !on || arm == cm.trueSucc {
					return
				}
				ret, isRet := p.Last().(*ssa.Return)
				if !isRet {
					return
				}
				n++
				sess := p.Resolve(ret.Results[0])
				ev := p.Resolve(ret.Results[1])
				if !isNilConst(sess) {
					ok, why = false, "a session is returned although the comparison failed"
					return
				}
				switch cm.kind {
				case "rakp2":
					good := false
					if ld, isLd := ev.(*ssa.UnOp); isLd {
						if g, isG := ld.X.(*ssa.Global); isG && g.Name() == "ErrIncorrectPassword" && c.sentinelError(g) {
							good = true
						}
					}
					if !good {
						ok, why = false, "RAKP2 AuthCode mismatch does not return (nil, ErrIncorrectPassword)"
					}
				case "rakp4":
					good := false
					if call, isCall := ev.(*ssa.Call); isCall {
						nn := calleeName(&call.Call)
						good = nn == "fmt.Errorf" || nn == "errors.New"
					} else if ld, isLd := ev.(*ssa.UnOp); isLd {
						if g, isG := ld.X.(*ssa.Global); isG && c.sentinelError(g) {
							good = true
						}
					}
					if !good {
						ok, why = false, "RAKP4 ICV mismatch does not return (nil, non-nil error)"
					}
				}
			})
			if n == 0 {
				ok, why = false, "no path takes the mismatch arm"
			}
			r.Check(ok, name+"|"+cm.kind+" mismatch", cm.ifi.Pos(), "mismatch → error, no session", why)
			// ... and that is what the caller of the exported constructor gets: in the view of every
			// exported function the handshake is spliced into, a path through the mismatch arm ends
			// with that function returning no session and — for RAKP 2 — the incorrect-password
			// sentinel itself (not the error of a later attempt, a wrapped or a replaced one)
			for _, root := range c.LibFuncs() {
				if root == m.Fn || root.Parent() != nil || unexportedName(root) || !c.libFn(root) || errResultIndex(root) < 0 {
					continue
				}
				if !flatOf(root).Contains(cm.ifi) {
					continue
				}
				rname := c.FnName(root)
				ok2, n2 := true, 0
				why2 := ""
				complete := enumPaths(root, 2, 400000, func(p CPath) {
					arm, on := p.Took(cm.ifi)
					if !on || arm == cm.trueSucc {
						return
					}
					ret, isRet := p.Last().(*ssa.Return)
					if !isRet || ret.Parent() != root || len(ret.Results) != 2 {
						return
					}
					n2++
					if !isNilConst(p.Resolve(ret.Results[0])) {
						ok2, why2 = false, "a session is returned on a path on which the comparison failed"
						return
					}
					if cm.kind == "rakp2" {
						good := false
						if ld, isLd := p.Resolve(ret.Results[1]).(*ssa.UnOp); isLd {
							if g, isG := ld.X.(*ssa.Global); isG && g.Name() == "ErrIncorrectPassword" && c.sentinelError(g) {
								good = true
							}
						}
						if !good {
							ok2, why2 = false, "after a RAKP2 AuthCode mismatch the function does not return ErrIncorrectPassword (it goes on, or returns another error)"
						}
					} else if c.errOutcome(root, p) == 0 {
						ok2, why2 = false, "after a RAKP4 ICV mismatch the function returns a nil error"
					}
				})
				if !complete {
					r.Unk(rname+"|"+cm.kind+" mismatch reaches the caller", cm.ifi.Pos(), "too many paths")
					continue
				}
				if n2 == 0 {
					ok2, why2 = false, "no path of the exported function takes the mismatch arm"
				}
				r.Check(ok2, rname+"|"+cm.kind+" mismatch reaches the caller", cm.ifi.Pos(), "mismatch → the caller gets the error, no session", why2)
			}
		}
	}

	// key provenance of the two comparisons (shared with C01)
	{
		found := map[string]*trSite{}
		if m != nil && m.M1 != nil && m.M2 != nil {
			sites, _ := c.transcriptSites(m)
			for k, st := range sites {
				if st.Shape == "" {
					found[k] = st
				}
			}
		}
		checkKeyWiring(c, r, found)
	}

	// (2) handshake helpers
	helpers := c.handshakeHelpers()
	for _, k := range []string{"OpenSessionRsp", "RAKPMessage2", "RAKPMessage4"} {
		fn := helpers[k]
		r.Rule("handshake-reply-validated", "each handshake helper returns the response only if the exchange returned no error, the response tag equals the request tag and the status is OK", 9)
		if fn == nil {
			r.Lost("handshake helper returning *ipmi." + k)
			continue
		}
		name := c.FnName(fn)
		r.Fn(name)
		req := fn.Params[len(fn.Params)-1]
		n := 0
		enumPaths(fn, 2, 4096, func(p CPath) {
			ret, ok := p.Last().(*ssa.Return)
			if !ok || isNilConst(p.Resolve(ret.Results[0])) {
				return
			}
			n++
			label := exitLabel(p)
			rsp := p.Resolve(ret.Results[0])
			okTag, okStatus, okErr := false, false, false
			occs := p.OccsPos()
			// a compared value is the response's field: read directly, or copied first into a
			// small header value that a helper receives (store-to-load forwarding along the path)
			isField := func(rel RelationPos, v ssa.Value, base ssa.Value, f string) bool {
				if p.loadOfField(v, base, f) {
					return true
				}
				o := p.originAt(occs, rel.At, rel.Ctx, v)
				return o != nil && p.loadOfField(o, base, f)
			}
			for _, rel := range p.relationsPos(occs) {
				if rel.Op != token.EQL {
					continue
				}
				for _, pr := range [][2]ssa.Value{{rel.X, rel.Y}, {rel.Y, rel.X}} {
					if isField(rel, pr[0], rsp, "Tag") && isField(rel, pr[1], req, "Tag") {
						okTag = true
					}
					if isField(rel, pr[0], rsp, "Status") {
						if kk, isK := constInt(p.Resolve(pr[1])); isK && kk == 0 {
							okStatus = true
						}
					}
					if isNilConst(pr[1]) {
						if call, isCall := pr[0].(*ssa.Call); isCall {
							if f := call.Call.StaticCallee(); f != nil && c.reachesSend(f) {
								okErr = true
							}
						}
					}
				}
			}
			r.Check(okErr, name+"|exchange error|path "+label, ret.Pos(), "exchange error tested nil", "the response is returned although the payload exchange's error was not tested")
			r.Check(okTag, name+"|tag|path "+label, ret.Pos(), "tag compared with the request's", "the response is returned without its tag having been compared with the request's")
			r.Check(okStatus, name+"|status|path "+label, ret.Pos(), "status compared with OK", "the response is returned without its status having been compared with OK")
		})
		if n == 0 {
			r.Unk(name+"|success path", fn.Pos(), "no path returns a response")
		}
		// ... and tag and status are all a helper judges: every other field of the reply (the echoed
		// console session ID, the BMC's random number and GUID) is covered by the authentication
		// code, so a wrong value is an *incorrect-password* outcome of the constructor's comparison —
		// a helper that rejects it first reports something else
		respT := c.Named("pkg/ipmi", k)
		okOnly, whyOnly := true, ""
		viewInstrs(fn, func(in ssa.Instruction) {
			bo, isBo := in.(*ssa.BinOp)
			if !isBo || (bo.Op != token.EQL && bo.Op != token.NEQ) || respT == nil {
				return
			}
			for _, v := range []ssa.Value{bo.X, bo.Y} {
				for _, o := range append(viewOrigins(fn, v), v) {
					ld, isLd := stripConv(o).(*ssa.UnOp)
					if !isLd || ld.Op != token.MUL {
						continue
					}
					fa, isFA := ld.X.(*ssa.FieldAddr)
					if !isFA || !isPtrTo(fa.X.Type(), respT) {
						continue
					}
					if f := structField(fa.X.Type(), fa.Field); f != nil && f.Name() != "Tag" && f.Name() != "Status" {
						okOnly, whyOnly = false, f.Name()
					}
				}
			}
		})
		r.Check(okOnly, name+"|judges tag and status only", fn.Pos(), "no other reply field is compared before the authentication code", "the helper compares the reply's "+whyOnly+" itself: a value the authentication code covers is rejected with another error than the incorrect-password one (or accepted on other grounds)")
	}

	// (3) bounds of handshake decoders — E1
	checkLenflowFor(c, r, "handshake-decoders-in-bounds", []string{"OpenSessionRsp", "RAKPMessage2", "RAKPMessage4"})

	// (4) "a wrong RAKP 2 code yields the incorrect-password error": through every exported
	// entry point above the constructor, too (NewSession → NewV2Session)
	checkSentinelReachesCaller(c, r, "ErrIncorrectPassword")

	// (5) "under the caller's password (and BMC key)": the options reach the constructor as the
	// caller passed them
	checkOptionsUnaltered(c, r)
	checkHandshakeRepliesReadOnly(c, r)
}

// classifyTranscript0 is classifyTranscript guarded for functions that are not transcript-shaped.
func classifyTranscript0(c *Ctx, fn *ssa.Function) (string, string, string) {
	for _, t := range c.transcriptFuncs() {
		if t == fn {
			return classifyTranscript(c, fn)
		}
	}
	return "", "", "not a transcript function"
}

// reachesSend: fn (transitively, through static callees and closures in the
// module) contains a Transport.Send call.
func (c *Ctx) reachesSend(fn *ssa.Function) bool {
	seen := map[*ssa.Function]bool{}
	var walk func(f *ssa.Function) bool
	walk = func(f *ssa.Function) bool {
		if f == nil || seen[f] || f.Blocks == nil {
			return false
		}
		seen[f] = true
		if sendCount(f) > 0 {
			return true
		}
		for _, a := range f.AnonFuncs {
			if walk(a) {
				return true
			}
		}
		found := false
		allInstrs(f, false, func(in ssa.Instruction) {
			if cc := asCall(in); cc != nil {
				if sf := cc.StaticCallee(); sf != nil && c.InModule(sf) && walk(sf) {
					found = true
				}
			}
			// a function value made here (a literal, or a method value) may be run by the callee it is handed to
			if mc, ok := in.(*ssa.MakeClosure); ok {
				if g := closureFn(mc); g != nil && c.InModule(g) && walk(g) {
					found = true
				}
			}
		})
		return found
	}
	return walk(fn)
}

// checkHandshakeRepliesReadOnly: what the AuthCode and the integrity check value are computed
// over are the fields of the replies as decoded. Outside the decoders' package nothing stores
// into a field of a decoded RAKP Message 2/4 or Open Session Response: a field overwritten
// before the comparison (with a "canonical" GUID remembered from an earlier command, say) makes
// the comparison say nothing about what was on the wire.
func checkHandshakeRepliesReadOnly(c *Ctx, r *Report) {
	r.Rule("handshake-replies-read-only", "no function outside pkg/ipmi stores into a field of a decoded RAKP Message 2, RAKP Message 4 or Open Session Response", 1)
	replies := map[string]bool{"RAKPMessage2": true, "RAKPMessage4": true, "OpenSessionRsp": true}
	isReplyPtr := func(t types.Type) string {
		pt, ok := t.Underlying().(*types.Pointer)
		if !ok {
			return ""
		}
		n, ok := pt.Elem().(*types.Named)
		if !ok || n.Obj().Pkg() == nil || !strings.HasSuffix(n.Obj().Pkg().Path(), "pkg/ipmi") || !replies[n.Obj().Name()] {
			return ""
		}
		return n.Obj().Name()
	}
	nFn, nBad := 0, 0
	for _, fn := range c.LibFuncs() {
		if fn.Pkg == nil || strings.HasSuffix(fn.Pkg.Pkg.Path(), "pkg/ipmi") {
			continue
		}
		nFn++
		fn := fn
		rawInstrs(fn, true, func(in ssa.Instruction) {
			st, ok := in.(*ssa.Store)
			if !ok {
				return
			}
			v := st.Addr
			for depth := 0; depth < 6; depth++ {
				switch x := v.(type) {
				case *ssa.FieldAddr:
					if name := isReplyPtr(x.X.Type()); name != "" {
						nBad++
						r.Bad(c.FnName(fn)+"|store into "+name, st.Pos(), "a field of a decoded "+name+" is overwritten outside its decoder: the authentication code is then compared over something else than the reply that arrived")
						return
					}
					v = x.X
					continue
				case *ssa.IndexAddr:
					v = x.X
					continue
				}
				return
			}
		})
	}
	if nBad == 0 {
		r.OK("handshake replies|read-only", token.NoPos, fmt.Sprintf("%d functions outside pkg/ipmi, none stores into a decoded handshake reply", nFn))
	}
}
