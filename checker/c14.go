package main

import (
	"fmt"
	"go/token"
	"go/types"
	"strings"

	"golang.org/x/tools/go/ssa"
)

func init() { register("C14", checkC14) }

// findSDRWalk locates the SDR walk: the function of package bmc in whose
// flattened view a map of type bmc.SDRRepository is updated and the
// repository is reserved — the smallest such view, so that callers that merely
// contain the walk are not taken for it.
func (c *Ctx) findSDRWalk() (*ssa.Function, *ssa.MapUpdate) {
	repoT := c.Named("", "SDRRepository")
	if repoT == nil {
		return nil, nil
	}
	var best *ssa.Function
	var bestMu *ssa.MapUpdate
	bestN := 0
	for _, fn := range c.LibFuncs() {
		var mu *ssa.MapUpdate
		reserves := false
		viewInstrs(fn, func(in ssa.Instruction) {
			if x, ok := in.(*ssa.MapUpdate); ok {
				if n, ok := x.Map.Type().(*types.Named); ok && n.Obj() == repoT.Obj() {
					mu = x
				}
			}
			if cc := asCall(in); cc != nil && cc.IsInvoke() && cc.Method.Name() == "ReserveSDRRepository" {
				reserves = true
			}
		})
		if mu != nil && reserves {
			n := len(flatOf(fn).Ctxs)
			if best == nil || n < bestN {
				best, bestMu, bestN = fn, mu, n
			}
		}
	}
	return best, bestMu
}

// typeAssertTo finds values in fn produced by asserting to *ipmi.<name>.
func typeAssertsTo(fn *ssa.Function, n *types.Named) []*ssa.TypeAssert {
	var out []*ssa.TypeAssert
	viewInstrs(fn, func(in ssa.Instruction) {
		if ta, ok := in.(*ssa.TypeAssert); ok && isPtrTo(ta.AssertedType, n) {
			out = append(out, ta)
		}
	})
	return out
}

func checkC14(c *Ctx, r *Report) {
	r.Explain = "Structure of SDR repository retrieval: in the walk, (1) the key of the only map store derives from the decoded SDR header's own record ID; (2) the store is behind the header-type == Full Sensor test, the size guard and a successful body read whose request uses Offset = header length, Length = the header's length and the reservation obtained for this walk; (3) the next request's record ID is the last response's Next and offset/length are reset to a header read; (4) the loop exits normally only at record ID 0xFFFF and every failing call aborts the walk with an error and no map; in the outer retry closure (5) the result is assigned only on the path where neither the addition nor the erase timestamp comparison reports a newer value, both comparing the info taken before with the info taken after the walk, and (6) the function returns the result only when backoff.Retry returned nil. Decides data flow and guards on all paths; completeness for all repository contents needs a peer and is not decided."
	r.NotDecided = []string{"completeness/uniqueness for every repository content and modification point (history-dependent; needs a simulated BMC)", "field values of each record (C07 layouts)"}
	r.Trusted = []string{"go/types, go/ssa (x/tools v0.29.0)", "gopacket.NewPacket(...).Layer(t) returns the decoded layer of type t or nil"}

	// "every field equal to the reference decoding … all ID-string encodings and lengths": the
	// record's name is decoded with the encoding and the full 5-bit character count its
	// type/length byte announces (rules shared with C07, C20)
	checkIDStringHeader(c, r)
	checkLatin1Decoders(c, r)
	// a cancelled reservation (0xC5) restarts the walk only if it reaches the walk: it must be a
	// final completion code, not one the command layer keeps retrying under the dead reservation
	// (rule shared with C10)
	checkTemporaryCodes(c, r)
	// the packed ID-string encodings, character by character (shared with C20, C07)
	checkPackedDecoders(c, r)
	// every record type's header and every ID-string length decode (shared with C07)
	checkMinimalEncodings(c, r, func(m minimalEncoding) bool { return m.Type == "SDR" || m.Type == "FullSensorRecord" })

	// the walk's own requests and replies: a body read asks for the bytes the walk asked for, and
	// the two timestamps compared before and after the walk are the ones on the wire, whatever
	// their value (layout tables shared with C06 and C07)
	r.Rule("sdr-command-layouts", "Get SDR requests, Get SDR / Reserve SDR Repository replies and the repository info's timestamps have the specified layout for every field value", 10)
	{
		sdrCmd := func(t string) bool {
			return strings.HasPrefix(t, "GetSDR") || strings.HasPrefix(t, "ReserveSDRRepository")
		}
		var specs []layerSpec
		for _, sp := range requestSpecs {
			if sdrCmd(sp.Type) {
				specs = append(specs, sp)
			}
		}
		compareSpec(c, r, specs, "wire", map[string][]string{})
		specs = nil
		for _, sp := range responseSpecs {
			if sdrCmd(sp.Type) {
				specs = append(specs, sp)
			}
		}
		compareSpec(c, r, specs, "field", map[string][]string{})
	}

	walk, mu := c.findSDRWalk()
	if walk == nil {
		r.Rule("key-is-record-id", "", 1)
		r.Lost("SDR walk (function updating a bmc.SDRRepository map)")
		return
	}
	name := c.FnName(walk)
	r.Fn(name)
	sdrT := c.Named("pkg/ipmi", "SDR")
	fsrT := c.Named("pkg/ipmi", "FullSensorRecord")
	hdrs := typeAssertsTo(walk, sdrT)
	fsrs := typeAssertsTo(walk, fsrT)

	// (1) key provenance
	r.Rule("key-is-record-id", "records are stored under the record ID decoded from their own SDR header", 1)
	// isHdrField: v is a load of field f of a decoded SDR header (seen through helpers)
	isHdrField1 := func(v ssa.Value, f string) bool {
		ld, ok := v.(*ssa.UnOp)
		if !ok || ld.Op != token.MUL {
			return false
		}
		aps := viewAPs(walk, ld.X)
		if len(aps) == 0 {
			return false
		}
		for _, a := range aps {
			isH := false
			for _, h := range hdrs {
				if a.Root == ssa.Value(h) {
					isH = true
				}
			}
			if !isH || a.SelString() != f {
				return false
			}
		}
		return true
	}
	// a value that is the header's field f — read where it is used, or handed to a helper as
	// an argument (`readBody(…, header.Length)`)
	isHdrField := func(v ssa.Value, f string) bool {
		if isHdrField1(v, f) {
			return true
		}
		os := viewOrigins(walk, v)
		if len(os) == 0 {
			return false
		}
		for _, o := range os {
			if !isHdrField1(o, f) {
				return false
			}
		}
		return true
	}
	okKey := isHdrField(mu.Key, "ID")
	whyKey := "map key is " + apOf(mu.Key).String()
	if ld, ok := mu.Key.(*ssa.UnOp); ok && ld.Op == token.MUL && !okKey {
		whyKey = "the record is stored under " + apOf(ld.X).String() + " (the ID that was requested), not the ID in the record's own header: the first record (requested as 0x0000) lands under the wrong key"
	}
	r.Check(okKey, name+"|map key", mu.Pos(), "key = header.ID", whyKey)
	// ... and it is nothing but the key: the ID asked for and the ID found differ legitimately
	// (0x0000 asks for the first record, whatever its ID), so no branch of the walk may depend
	// on the header's ID
	{
		nCmp := 0
		viewInstrs(walk, func(in ssa.Instruction) {
			ifi, ok := in.(*ssa.If)
			if !ok {
				return
			}
			bo, isBin := ifi.Cond.(*ssa.BinOp)
			if !isBin {
				return
			}
			if isHdrField(bo.X, "ID") || isHdrField(bo.Y, "ID") {
				nCmp++
				r.Bad(name+"|no branch on the header's ID", bo.Pos(), "the walk branches on the record ID found in the header: the first record is requested as 0x0000 and has an ID of its own, so a test against the requested ID (or any other value) refuses or skips records the repository holds")
			}
		})
		if nCmp == 0 {
			r.OK(name+"|no branch on the header's ID", walk.Pos(), "the header's ID is used as the key only")
		}
	}

	// value is the asserted Full Sensor Record of the body packet
	r.Rule("value-is-decoded-record", "the stored value is the Full Sensor Record layer decoded from the body read", 1)
	okVal := true
	vos := viewOrigins(walk, mu.Value)
	for _, o := range vos {
		isF := false
		for _, f := range fsrs {
			if o == ssa.Value(f) {
				isF = true
			}
		}
		okVal = okVal && isF
	}
	okVal = okVal && len(vos) > 0
	r.Check(okVal, name+"|map value", mu.Pos(), "value = decoded *FullSensorRecord", "stored value is not the decoded Full Sensor Record")

	// (2) guards
	r.Rule("store-guards", "the store is behind: header type == Full Sensor, length within the supported maximum, a successful second Get SDR with Offset = header length and Length = header.Length under this walk's reservation", 5)
	// header type test
	var typeEdge *edge
	for _, ifi := range viewIfs(walk) {
		op, x, y, neg, isBin := condOf(ifi.Cond)
		if !isBin || (op != token.EQL && op != token.NEQ) {
			continue
		}
		for _, pr := range [][2]ssa.Value{{x, y}, {y, x}} {
			k, isK := constInt(pr[1])
			if isHdrField(pr[0], "Type") && isK && k == 1 { // RecordTypeFullSensor = 0x01
				e := edge{ifi.Block(), ifi.Block().Succs[0]}
				if (op == token.NEQ) != neg {
					e = edge{ifi.Block(), ifi.Block().Succs[1]}
				}
				typeEdge = &e
			}
		}
	}
	if typeEdge == nil {
		r.Bad(name+"|type guard", mu.Pos(), "no test header.Type == Full Sensor Record (0x01) found")
	} else {
		reach := reachAvoiding(walk, nil, nil, map[edge]bool{*typeEdge: true})
		r.Check(!reach[mu.Block()], name+"|type guard", mu.Pos(), "store only for Full Sensor Records", "the store is reachable for records whose header type is not Full Sensor")
	}
	// size guard: header.Length > max → error return
	okSize := false
	for _, ifi := range viewIfs(walk) {
		op, x, y, _, isBin := condOf(ifi.Cond)
		if !isBin || (op != token.GTR && op != token.GEQ) {
			continue
		}
		if !isHdrField(x, "Length") {
			continue
		}
		if k, isK := constInt(y); isK && k >= 59 && k <= 255 {
			// the "too long" arm must not reach the store
			okSize = !reachAvoiding(walk, ifi.Block().Succs[0], nil, nil)[mu.Block()]
		}
	}
	r.Check(okSize, name+"|size guard", mu.Pos(), "over-long records are an error, never stored truncated", "no guard rejecting records longer than the supported maximum before the body read")

	// the request object and its stores
	sends := []*ssa.Call{}
	viewInstrs(walk, func(in ssa.Instruction) {
		if call, ok := in.(*ssa.Call); ok && call.Call.IsInvoke() && call.Call.Method.Name() == "SendCommand" {
			sends = append(sends, call)
		}
	})
	if len(sends) != 2 {
		r.Unk(name+"|requests", walk.Pos(), fmt.Sprintf("expected two Get SDR SendCommand calls (header, body), found %d", len(sends)))
		return
	}
	hdrSend, bodySend := sends[0], sends[1]
	if !mustPrecede(walk, hdrSend, bodySend) {
		hdrSend, bodySend = bodySend, hdrSend
	}
	// stores to Req fields
	type reqStore struct {
		sel string
		st  *ssa.Store
	}
	var rs []reqStore
	viewInstrs(walk, func(in ssa.Instruction) {
		if sel, _, st, ok := storeSel(in); ok && strings.HasPrefix(sel, "Req.") {
			rs = append(rs, reqStore{sel, st})
		}
	})
	lastStoreBefore := func(sel string, at ssa.Instruction) *ssa.Store {
		var best *ssa.Store
		for _, s := range rs {
			if s.sel == sel && mustPrecede(walk, s.st, at) && s.st.Block() == at.Block() || (s.sel == sel && s.st.Block() != at.Block() && mustPrecede(walk, s.st, at)) {
				if best == nil || canReachIn(walk, best, s.st) {
					best = s.st
				}
			}
		}
		return best
	}
	offSt := lastStoreBefore("Req.Offset", bodySend)
	lenSt := lastStoreBefore("Req.Length", bodySend)
	okOff := false
	if offSt != nil {
		if k, isK := constInt(offSt.Val); isK && k == 5 && canReachIn(walk, hdrSend, offSt) {
			okOff = true
		}
	}
	r.Check(okOff, name+"|body read offset", bodySend.Pos(), "Offset = 5 (header length)", "the body read does not start at offset 5, right after the SDR header")
	r.Check(lenSt != nil && isHdrField(lenSt.Val, "Length") && canReachIn(walk, hdrSend, lenSt), name+"|body read length", bodySend.Pos(), "Length = header.Length", "the body read does not request exactly header.Length bytes")
	// store behind body read success
	r.Check(mustPrecede(walk, bodySend, mu), name+"|store after body read", mu.Pos(), "body read precedes the store", "the record is stored without a preceding body read")

	// reservation: the request literal's ReservationID from the Reserve call's result
	r.Rule("reservation", "partial reads use the reservation ID obtained at the start of this walk", 1)
	// every store to the request's reservation ID carries this walk's reservation, and one of
	// them precedes the first request: header reads and body reads alike run under it, so a
	// cancelled reservation is noticed whichever request comes next
	okRes, nRes := false, 0
	viewInstrs(walk, func(in ssa.Instruction) {
		sel, _, st, ok := storeSel(in)
		if !ok || !strings.HasSuffix(sel, "ReservationID") || !strings.Contains(sel, "Req") {
			return
		}
		nRes++
		fromReserve := false
		if ld, isLd := st.Val.(*ssa.UnOp); isLd {
			for _, a := range viewAPs(walk, ld.X) {
				ex, isEx := a.Root.(*ssa.Extract)
				if !isEx || a.SelString() != "ReservationID" {
					continue
				}
				if call, isCall := ex.Tuple.(*ssa.Call); isCall && call.Call.IsInvoke() && call.Call.Method.Name() == "ReserveSDRRepository" && mustPrecede(walk, call, hdrSend) {
					fromReserve = true
				}
			}
		}
		if !fromReserve {
			nRes = -1000 // a store of something else (a constant, say): some requests run without the reservation
			return
		}
		if mustPrecede(walk, st, hdrSend) {
			okRes = true
		}
	})
	okRes = okRes && nRes > 0
	r.Check(okRes, name+"|reservation ID", walk.Pos(), "from ReserveSDRRepository at the start of the walk", "Get SDR requests do not carry the reservation ID returned by this walk's Reserve SDR Repository")

	checkWalkCommandsReserved(c, r)

	// (3) chain
	r.Rule("next-chain", "after each record the next request asks for the response's Next record ID with offset 0 and the header length; the first request asks for 0x0000", 4)
	// Decided per feasible path of the walk's flattened view with the record loop taken up to
	// twice: what the request holds at each header read is the last value stored into it on
	// the path (field assignments at the top or the bottom of the loop, a loop variable, a
	// helper — all the same), and the exit that returns the map is taken where the ID that
	// would be requested next equals 0xFFFF.
	cmdRoot := func(p CPath, oc OccPos) ssa.Value {
		call := oc.In.(*ssa.Call)
		args := callArgs(&call.Call)
		if len(args) == 0 {
			return nil
		}
		return p.Upto(oc.Seg).APIn(oc.Ctx, args[len(args)-1]).Root
	}
	okFirst, okNext, okReset, okExit := true, true, true, true
	nFirst, nNext, nExit := 0, 0, 0
	whyNext := ""
	completeW := enumPaths(walk, 2, 200000, func(p CPath) {
		occs := p.OccsPos()
		var hdrs []int
		for i, oc := range occs {
			if oc.In == ssa.Instruction(hdrSend) {
				hdrs = append(hdrs, i)
			}
		}
		fieldAt := func(at int, root ssa.Value, sel string) (ssa.Value, bool) {
			v, si, ok := p.storedBefore(occs, at, func(a AP) bool { return a.Root == root && a.SelString() == sel })
			if !ok {
				return nil, false
			}
			return p.forward(occs, si, nil, v), true
		}
		constIs := func(v ssa.Value, has bool, want int64, required bool) bool {
			if !has {
				return !required
			}
			k, isK := constInt(v)
			return isK && k == want
		}
		for n, h := range hdrs {
			root := cmdRoot(p, occs[h])
			if root == nil {
				okFirst = false
				continue
			}
			id, hasID := fieldAt(h, root, "Req.RecordID")
			off, hasOff := fieldAt(h, root, "Req.Offset")
			ln, hasLn := fieldAt(h, root, "Req.Length")
			if n == 0 {
				nFirst++
				// a freshly allocated request holds zeroes where nothing was stored
				if !(constIs(id, hasID, 0, false) && constIs(off, hasOff, 0, false) && constIs(ln, hasLn, 5, true)) {
					okFirst = false
				}
				continue
			}
			nNext++
			// the ID: Rsp.Next of the same request object, read after the previous header read
			good := false
			if ld, ok := stripConv(id).(*ssa.UnOp); hasID && ok && ld.Op == token.MUL {
				for j := hdrs[n-1] + 1; j < h; j++ {
					if occs[j].In == ssa.Instruction(ld) {
						a := p.Upto(occs[j].Seg).APIn(occs[j].Ctx, ld.X)
						if a.Root == root && a.SelString() == "Rsp.Next" {
							good = true
						}
					}
				}
			}
			if !good {
				okNext = false
				whyNext = "the ID requested after a record is not that record's Rsp.Next"
			}
			if !(constIs(off, hasOff, 0, true) && constIs(ln, hasLn, 5, true)) {
				okReset = false
			}
		}
		// normal exit: the map is returned
		ret, isRet := p.Last().(*ssa.Return)
		if !isRet || ret.Parent() != walk || len(ret.Results) != 2 || isNilConst(p.Resolve(ret.Results[0])) || len(hdrs) == 0 {
			return
		}
		nExit++
		last := hdrs[len(hdrs)-1]
		root := cmdRoot(p, occs[last])
		exitOK := false
		for _, rel := range p.relations() {
			if rel.Op != token.EQL {
				continue
			}
			for _, pr := range [][2]ssa.Value{{rel.X, rel.Y}, {rel.Y, rel.X}} {
				k, isK := constInt(p.Resolve(pr[1]))
				if !isK || k != 0xffff {
					continue
				}
				// the compared value, as of the end of the path, forwarded through the request
				v := p.forward(occs, len(occs)-1, nil, pr[0])
				if ld, ok := stripConv(v).(*ssa.UnOp); ok && ld.Op == token.MUL {
					for j := last + 1; j < len(occs); j++ {
						if occs[j].In == ssa.Instruction(ld) {
							a := p.Upto(occs[j].Seg).APIn(occs[j].Ctx, ld.X)
							if a.Root == root && a.SelString() == "Rsp.Next" {
								exitOK = true
							}
						}
					}
				}
			}
		}
		if !exitOK {
			okExit = false
		}
	})
	if !completeW {
		r.Unk(name+"|next record", walk.Pos(), "too many paths")
	} else {
		r.Check(okNext && nNext > 0, name+"|next record", walk.Pos(), "RecordID ← Rsp.Next", "the next request's record ID is not taken from the last response's Next field: "+whyNext)
		r.Check(okReset && nNext > 0, name+"|reset to header read", walk.Pos(), "Offset ← 0, Length ← 5 before the next header read", "offset/length are not reset to a header read (0, 5) after a body read")
		r.Check(okFirst && nFirst > 0, name+"|first request", walk.Pos(), "RecordID 0x0000, Offset 0, Length 5", "the first request is not a header read of record 0x0000")
		r.Check(okExit && nExit > 0, name+"|loop exit", walk.Pos(), "loop ends at record ID 0xFFFF", "the walk's loop does not end exactly when the next record ID is 0xFFFF")
	}

	// the retried retrieval reports success only if the walk and both repository-info reads
	// did: every error it is given is examined (rule shared with C13)
	{
		var ops []*ssa.Function
		for _, rs := range c.RetrySites() {
			if rs.Op == nil {
				continue
			}
			callsWalk := false
			viewInstrs(rs.Op, func(in ssa.Instruction) {
				if cc := asCall(in); cc != nil && cc.StaticCallee() == walk {
					callsWalk = true
				}
			})
			if callsWalk {
				ops = append(ops, rs.Op)
			}
		}
		checkWalkErrorsAbort(c, r, walk)
		checkErrorsExamined(c, r, "retrieval-errors-examined", "the retried retrieval operation reports success only on paths where the errors of the walk and of both repository-info reads were compared with nil", 1, ops)
	}

	r.Rule("errors-abort", "every return other than the final one returns a nil map and a non-nil error; the final return is reached only through the 0xFFFF exit", 3)
	checkWalkFreshMap(c, r, walk, mu)
	for _, ret := range returnsOf(walk) {
		if len(ret.Results) != 2 {
			continue
		}
		v0 := ret.Results[0]
		if isNilConst(v0) {
			ok := !isNilConst(ret.Results[1])
			r.Check(ok, name+"|error return after "+lastCallBefore(ret), ret.Pos(), "nil map with an error", "returns (nil, nil)")
		} else {
			r.Check(isNilConst(ret.Results[1]) && !canReachIn(walk, ret, hdrSend), name+"|final return", ret.Pos(), "map returned with nil error after the loop", "a partial map is returned together with an error or from inside the loop")
		}
	}
	// error discipline: each SendCommand result goes through ValidateResponse and is tested
	for i, s := range sends {
		tested := false
		for _, ref := range *s.Referrers() {
			if ex, ok := ref.(*ssa.Extract); ok {
				for _, r2 := range *ex.Referrers() {
					if call, ok := r2.(*ssa.Call); ok && call.Call.StaticCallee() != nil && call.Call.StaticCallee().Name() == "ValidateResponse" {
						for _, r3 := range *call.Referrers() {
							if bo, ok := r3.(*ssa.BinOp); ok && bo.Op == token.NEQ {
								tested = true
							}
						}
					}
				}
			}
		}
		r.Check(tested, fmt.Sprintf("%s|SendCommand#%d validated", name, i), s.Pos(), "completion code and error validated", "a Get SDR exchange's error/completion code is not validated before its payload is used")
	}

	// (5),(6) outer closure. The walk is an anchor here: it is referred to by its call.
	markOpaque(walk)
	var outer *RetrySite
	for _, rs := range c.RetrySites() {
		if rs.Op == nil {
			continue
		}
		calls := false
		viewInstrs(rs.Op, func(in ssa.Instruction) {
			if cc := asCall(in); cc != nil && cc.StaticCallee() == walk {
				calls = true
			}
		})
		if calls {
			x := rs
			outer = &x
		}
	}
	r.Rule("consistent-snapshot", "the result is published only when neither timestamp comparison (before vs after the walk) reports a newer addition or erase; the retry function returns it only when Retry returned nil", 4)
	if outer == nil {
		r.Lost("retry closure that calls the SDR walk")
		return
	}
	op := outer.Op
	oname := c.FnName(op)
	r.Fn(oname)
	r.Fn(c.FnName(outer.Parent))
	var infoCalls []*ssa.Call
	var walkCall *ssa.Call
	viewInstrs(op, func(in ssa.Instruction) {
		if call, ok := in.(*ssa.Call); ok {
			if call.Call.IsInvoke() && call.Call.Method.Name() == "GetSDRRepositoryInfo" {
				infoCalls = append(infoCalls, call)
			}
			if call.Call.StaticCallee() == walk {
				walkCall = call
			}
		}
	})
	if len(infoCalls) != 2 || walkCall == nil {
		r.Unk(oname+"|shape", op.Pos(), "expected info, walk, info")
		return
	}
	before, after := infoCalls[0], infoCalls[1]
	if !mustPrecede(op, before, after) {
		before, after = after, before
	}
	r.Check(mustPrecede(op, before, walkCall) && mustPrecede(op, walkCall, after), oname+"|info ≺ walk ≺ info", walkCall.Pos(), "repository info is read before and after the walk", "repository info is not read both before and after the walk")
	// comparisons: time.Time.Before(initial.X, final.X)
	type cmpInfo struct {
		call  *ssa.Call
		field string
		ok    bool
	}
	var cmps []cmpInfo
	rootIs := func(v ssa.Value, c0 *ssa.Call) (string, bool) {
		aps := viewAPs(op, v)
		if len(aps) == 0 {
			return "", false
		}
		sel := aps[0].SelString()
		for _, a := range aps {
			ex, ok := a.Root.(*ssa.Extract)
			if !ok || ex.Tuple != ssa.Value(c0) || a.SelString() != sel {
				return "", false
			}
		}
		return sel, true
	}
	// every time.Time.Before(x, y) of the view, whether it is branched on directly or its
	// result is combined into a boolean first
	viewInstrs(op, func(in ssa.Instruction) {
		call, isCall := in.(*ssa.Call)
		if !isCall || calleeName(&call.Call) != "(time.Time).Before" {
			return
		}
		lf, lok := rootIs(call.Call.Args[0], before)
		rf, rok := rootIs(call.Call.Args[1], after)
		ci := cmpInfo{call: call, field: lf}
		ci.ok = lok && rok && lf == rf
		cmps = append(cmps, ci)
	})
	seen := map[string]bool{}
	for _, ci := range cmps {
		if ci.ok {
			seen[ci.field] = true
		}
	}
	r.Check(seen["LastAddition"] && seen["LastErase"], oname+"|timestamp comparisons", op.Pos(), "initial.LastAddition < final.LastAddition and initial.LastErase < final.LastErase are both tested", fmt.Sprintf("the before/after comparison of both LastAddition and LastErase is missing or compares the wrong values (found %v)", seen))
	// the two snapshots are two objects: every implementation of the method that fetches the
	// repository info hands back a response that belongs to that call alone (a pointer into an
	// object it allocated), never storage shared between calls — or "before" and "after" would
	// be one struct and always compare equal
	if before.Call.IsInvoke() {
		mname := before.Call.Method.Name()
		r.Rule("snapshots-distinct", "every implementation of the repository-info method returns a response object allocated by that call (the before and after snapshots cannot alias)", 1)
		nImpl := 0
		for _, fn := range c.ModFn {
			if fn.Signature.Recv() == nil || fn.Name() != mname || fn.Blocks == nil || fn.Synthetic != "" {
				continue
			}
			if !types.Identical(stripRecv(fn.Signature), before.Call.Method.Type().(*types.Signature)) {
				continue
			}
			nImpl++
			fname := c.FnName(fn)
			r.Fn(fname)
			okFresh, why := true, ""
			complete := enumPaths(fn, 1, 4096, func(p CPath) {
				ret, isRet := p.Last().(*ssa.Return)
				if !isRet || ret.Parent() != fn || len(ret.Results) == 0 {
					return
				}
				v := p.Resolve(ret.Results[0])
				if isNilConst(v) {
					return
				}
				root := p.AP(v).Root
				al, isAl := root.(*ssa.Alloc)
				if !isAl {
					okFresh, why = false, "the response returned is reached from "+rootName(root)+", which outlives the call"
					return
				}
				inView := false
				for _, f := range flatOf(fn).Funcs() {
					if al.Parent() == f {
						inView = true
					}
				}
				if !inView {
					okFresh, why = false, "the response returned is not allocated by the call"
				}
			})
			if !complete {
				r.Unk(fname+"|fresh response", fn.Pos(), "too many paths")
				continue
			}
			r.Check(okFresh, fname+"|fresh response", fn.Pos(), "the response is part of an object this call allocated", why)
		}
		if nImpl == 0 {
			r.Lost("implementations of " + mname)
		}
		r.Rule("consistent-snapshot", "", 4)
	}

	// the result cell is stored only on feasible paths where every comparison was false
	var cell *ssa.FreeVar
	nStores := map[ssa.Instruction]bool{}
	okPub := true
	whyPub := ""
	complete := enumPaths(op, 2, 50000, func(p CPath) {
		ins := p.Instrs()
		for k, in := range ins {
			fc, val, ok := capturedCellStore(in)
			if !ok {
				continue
			}
			cell = fc
			nStores[in] = true
			fields := map[string]bool{}
			for _, bf := range p.boolFacts() {
				for _, ci := range cmps {
					if ci.ok && bf.V == ssa.Value(ci.call) {
						if bf.True {
							okPub, whyPub = false, "stored on a path where the "+ci.field+" comparison reported a newer timestamp"
						} else {
							fields[ci.field] = true
						}
					}
				}
			}
			if !fields["LastAddition"] || !fields["LastErase"] {
				okPub, whyPub = false, "stored on a path that skips a timestamp comparison"
			}
			afterSeen := false
			for _, x := range ins[:k] {
				if x == ssa.Instruction(after) {
					afterSeen = true
				}
			}
			if !afterSeen {
				okPub, whyPub = false, "stored before the second info read"
			}
			v := p.Resolve(val)
			if al, ok := v.(*ssa.Alloc); ok {
				if sv := singleStore(al); sv != nil {
					v = p.Resolve(sv)
				}
			}
			if ex, ok := p.AP(v).Root.(*ssa.Extract); !ok || ex.Tuple != ssa.Value(walkCall) {
				okPub, whyPub = false, "the stored value is not this walk's result"
			}
			if ret, isRet := p.Last().(*ssa.Return); !isRet || len(ret.Results) != 1 || !isNilConst(p.Resolve(ret.Results[0])) {
				okPub, whyPub = false, "the result is stored on a path that then reports an error (the walk is retried, the stored result is stale)"
			}
		}
	})
	if !complete {
		r.Unk(oname+"|publish result", op.Pos(), "too many paths")
	} else {
		r.Check(okPub && cell != nil && len(nStores) == 1, oname+"|publish result", op.Pos(), "result assigned only when the repository did not change, after the second info read", "the walk's result is published on a path where a timestamp comparison was true or skipped, or before the second info read: "+whyPub)
	}
	// (6) parent returns *cell only after Retry returned nil
	okRet := false
	if cell != nil {
		bind := freeVarBinding(cell)
		for _, ret := range returnsOf(outer.Parent) {
			if isNilConst(ret.Results[1]) {
				// success return: must be behind Retry == nil
				for _, ifi := range ifsOf(outer.Parent) {
					op2, x, y, _, isBin := condOf(ifi.Cond)
					if isBin && op2 == token.NEQ && x == ssa.Value(outer.Call) && isNilConst(y) {
						if !reachAvoiding(outer.Parent, nil, nil, map[edge]bool{{ifi.Block(), ifi.Block().Succs[1]}: true})[ret.Block()] {
							for _, l := range leavesOf(ret.Results[0]) {
								if ld, ok := l.(*ssa.UnOp); ok {
									if ld.X == bind {
										okRet = true // the captured variable holds the repository itself
									}
									if ld2, ok := ld.X.(*ssa.UnOp); ok && ld2.X == bind {
										okRet = true // the captured variable holds a pointer to it
									}
								}
							}
						}
					}
				}
			}
		}
	}
	r.Check(okRet, c.FnName(outer.Parent)+"|return after Retry==nil", outer.Call.Pos(), "result returned only when Retry succeeded", "the repository is returned although backoff.Retry reported an error (or the result does not come from the closure)")
}

func lastCallBefore(ret *ssa.Return) string {
	b := ret.Block()
	for len(b.Preds) == 1 {
		for i := len(b.Instrs) - 1; i >= 0; i-- {
			if cc := asCall(b.Instrs[i]); cc != nil {
				if n := calleeName(cc); n != "" && !strings.HasPrefix(n, "fmt.") {
					return shortName(n)
				}
			}
		}
		b = b.Preds[0]
	}
	for i := len(b.Instrs) - 1; i >= 0; i-- {
		if cc := asCall(b.Instrs[i]); cc != nil {
			if n := calleeName(cc); n != "" && !strings.HasPrefix(n, "fmt.") {
				return shortName(n)
			}
		}
	}
	return "?"
}

// stripRecv: the signature of a method without its receiver (as an interface declares it).
func stripRecv(sig *types.Signature) *types.Signature {
	return types.NewSignatureType(nil, nil, nil, sig.Params(), sig.Results(), sig.Variadic())
}

// checkWalkErrorsAbort: nothing is skipped in the SDR walk — a path that found any exchange's
// error non-nil does not go on to report a repository (rule shared by C14 and C13).
func checkWalkErrorsAbort(c *Ctx, r *Report, walk *ssa.Function) {
	name := c.FnName(walk)
	r.Rule("walk-errors-abort", "on every path of the walk on which an exchange returned an error the walk returns an error: no record is left out of a repository reported as retrieved", 1)
	okW, whyW := true, ""
	posW := walk.Pos()
	completeW2 := enumPaths(walk, 2, 200000, func(p CPath) {
		ret, isRet := p.Last().(*ssa.Return)
		if !isRet || ret.Parent() != walk || c.errOutcome(walk, p) == 1 {
			return
		}
		for _, call := range p.failedErrorsOpt(func(f *ssa.Function) bool { return c.InModule(f) }, modPath, true) {
			okW = false
			whyW = "the walk reports a repository on a path on which " + shortName(calleeName(&call.Call)) + " returned an error: the record it was reading is silently left out"
			posW = call.Pos()
		}
	})
	if !completeW2 {
		r.Unk(name+"|walk errors", walk.Pos(), "too many paths")
	} else {
		r.Check(okW, name+"|walk errors", posW, "every failed exchange ends the walk with an error", whyW)
	}
}

// checkWalkFreshMap: the records of an abandoned walk must not survive: the map the walk fills
// is allocated by the walk itself (shared with C17: nothing read during an earlier pass, or an
// earlier call, is in a later result).
func checkWalkFreshMap(c *Ctx, r *Report, walk *ssa.Function, mu *ssa.MapUpdate) {
	freshMap := true
	mos := viewOrigins(walk, mu.Map)
	for _, o := range mos {
		switch o.(type) {
		case *ssa.MakeMap:
		default:
			freshMap = false
		}
	}
	r.Check(freshMap && len(mos) > 0, c.FnName(walk)+"|fresh result per walk", mu.Pos(), "each walk fills a map of its own", "records are added to a map that outlives the walk: when a walk is abandoned (reservation lost, repository changed) its records survive into the result")
}

// checkWalkCommandsReserved: every Get SDR command object the walk builds is given this walk's
// reservation ID — a second command object for the body read (offset > 0, where the BMC insists
// on a reservation) that is built without it goes out under reservation 0. Shared with C06 (the
// request's fields are those of the walk, reservation included).
func checkWalkCommandsReserved(c *Ctx, r *Report) {
	r.Rule("walk-commands-reserved", "every Get SDR command the walk allocates has its ReservationID stored from this walk's Reserve SDR Repository reply", 1)
	walk, _ := c.findSDRWalk()
	if walk == nil {
		r.Lost("SDR walk (function updating a bmc.SDRRepository map)")
		return
	}
	cmdT := c.Named("pkg/ipmi", "GetSDRCmd")
	if cmdT == nil {
		r.Lost("ipmi.GetSDRCmd")
		return
	}
	reserved := map[ssa.Value]bool{}
	opaque := false
	var allocs []*ssa.Alloc
	viewInstrs(walk, func(in ssa.Instruction) {
		if al, ok := in.(*ssa.Alloc); ok {
			if pt, isP := al.Type().Underlying().(*types.Pointer); isP && types.Identical(pt.Elem(), cmdT) {
				allocs = append(allocs, al)
			}
			return
		}
		sel, root, st, ok := storeSel(in)
		if !ok || !strings.HasSuffix(sel, "ReservationID") || !strings.Contains(sel, "Req") {
			return
		}
		ld, isLd := st.Val.(*ssa.UnOp)
		if !isLd {
			return
		}
		for _, a := range viewAPs(walk, ld.X) {
			ex, isEx := a.Root.(*ssa.Extract)
			if !isEx || a.SelString() != "ReservationID" {
				continue
			}
			if call, isCall := ex.Tuple.(*ssa.Call); isCall && call.Call.IsInvoke() && call.Call.Method.Name() == "ReserveSDRRepository" {
				if _, isAlloc := root.(*ssa.Alloc); isAlloc {
					reserved[root] = true
				} else {
					opaque = true // stored through a parameter or another indirection: not judged here
				}
			}
		}
	})
	name := c.FnName(walk)
	if len(allocs) == 0 || opaque {
		r.OK(name+"|every Get SDR command carries the reservation", walk.Pos(), "command objects not allocated in the walk's own view, or filled through a helper's parameter: decided by the reservation rule on the stores")
		return
	}
	bad := 0
	for _, al := range allocs {
		if !reserved[al] {
			bad++
			r.Bad(name+"|every Get SDR command carries the reservation", al.Pos(), "a Get SDR command object built in the walk never receives this walk's reservation ID: its requests (a partial read at an offset above 0 needs one) go out under reservation 0x0000")
		}
	}
	if bad == 0 {
		r.OK(name+"|every Get SDR command carries the reservation", walk.Pos(), fmt.Sprintf("%d command objects, each with the reservation stored", len(allocs)))
	}
}
