package main

import (
	"fmt"
	"strings"

	"golang.org/x/tools/go/ssa"
)

func init() { register("C07", checkC07) }

// minimalEncoding: the shortest valid encoding of a layer according to the
// specification; the decoder must have a success path that accepts it.
type minimalEncoding struct {
	Pkg, Type, Method string
	Name              string
	Len               int64
	Bytes             map[int64]int64 // wire byte → value
	Ref               string
}

var minimalEncodings = []minimalEncoding{
	{Pkg: "pkg/ipmi", Type: "FullSensorRecord", Method: "DecodeFromBytes", Name: "empty 8-bit ASCII ID string", Len: 43, Bytes: map[int64]int64{42: 0xC0}, Ref: "IPMI v2.0 §43.15: type 11b, length 0 = no data"},
	{Pkg: "pkg/ipmi", Type: "FullSensorRecord", Method: "DecodeFromBytes", Name: "empty packed 6-bit ID string", Len: 43, Bytes: map[int64]int64{42: 0x80}, Ref: "IPMI v2.0 §43.15"},
	{Pkg: "pkg/ipmi", Type: "FullSensorRecord", Method: "DecodeFromBytes", Name: "empty BCD-plus ID string", Len: 43, Bytes: map[int64]int64{42: 0x40}, Ref: "IPMI v2.0 §43.15"},
	{Pkg: "pkg/ipmi", Type: "FullSensorRecord", Method: "DecodeFromBytes", Name: "16-character 8-bit ASCII ID string", Len: 59, Bytes: map[int64]int64{42: 0xD0}, Ref: "IPMI v2.0 §43.1: ID string up to 16 bytes"},
	// the type/length byte's count is five bits: 31 characters is a legal length in every encoding
	{Pkg: "pkg/ipmi", Type: "FullSensorRecord", Method: "DecodeFromBytes", Name: "31-character 8-bit ASCII ID string", Len: 74, Bytes: map[int64]int64{42: 0xDF}, Ref: "IPMI v2.0 §43.15: length in bits [4:0]"},
	{Pkg: "pkg/ipmi", Type: "FullSensorRecord", Method: "DecodeFromBytes", Name: "31-character packed 6-bit ID string", Len: 67, Bytes: map[int64]int64{42: 0x9F}, Ref: "IPMI v2.0 §43.15: 31 characters in 24 bytes"},
	{Pkg: "pkg/ipmi", Type: "FullSensorRecord", Method: "DecodeFromBytes", Name: "31-character BCD-plus ID string", Len: 59, Bytes: map[int64]int64{42: 0x5F}, Ref: "IPMI v2.0 §43.15: 31 characters in 16 bytes"},
	// the SDR header of every record type the repository may hold, OEM records (0xC0) included
	{Pkg: "pkg/ipmi", Type: "SDR", Method: "DecodeFromBytes", Name: "header of an OEM record (type 0xC0)", Len: 5, Bytes: map[int64]int64{3: 0xC0}, Ref: "IPMI v2.0 §43 (record type C0h = OEM)"},
	{Pkg: "pkg/ipmi", Type: "SDR", Method: "DecodeFromBytes", Name: "header of a Full Sensor Record (type 0x01)", Len: 5, Bytes: map[int64]int64{3: 0x01}, Ref: "IPMI v2.0 §43.1"},
	{Pkg: "pkg/ipmi", Type: "SDR", Method: "DecodeFromBytes", Name: "header of a Compact Sensor Record (type 0x02)", Len: 5, Bytes: map[int64]int64{3: 0x02}, Ref: "IPMI v2.0 §43.2"},
	{Pkg: "pkg/ipmi", Type: "SDR", Method: "DecodeFromBytes", Name: "header of a Management Controller Device Locator (type 0x12)", Len: 5, Bytes: map[int64]int64{3: 0x12}, Ref: "IPMI v2.0 §43.9"},
	{Pkg: "pkg/ipmi", Type: "GetDeviceIDRsp", Method: "DecodeFromBytes", Name: "without auxiliary firmware revision", Len: 11, Ref: "IPMI v2.0 §20.1: bytes 13:16 optional"},
	{Pkg: "pkg/ipmi", Type: "GetChassisStatusRsp", Method: "DecodeFromBytes", Name: "without front panel byte", Len: 3, Ref: "IPMI v2.0 §28.2: byte 5 optional"},
	{Pkg: "pkg/ipmi", Type: "RAKPMessage2", Method: "DecodeFromBytes", Name: "error status", Len: 8, Bytes: map[int64]int64{1: 0x12}, Ref: "IPMI v2.0 §13.21: truncated after the session ID when status is non-zero"},
	{Pkg: "pkg/ipmi", Type: "RAKPMessage4", Method: "DecodeFromBytes", Name: "error status", Len: 8, Bytes: map[int64]int64{1: 0x12}, Ref: "IPMI v2.0 §13.23"},
	{Pkg: "pkg/ipmi", Type: "OpenSessionRsp", Method: "DecodeFromBytes", Name: "success", Len: 36, Bytes: map[int64]int64{1: 0, 12: 0, 15: 8, 20: 1, 23: 8, 28: 2, 31: 8}, Ref: "IPMI v2.0 §13.18"},
	{Pkg: "pkg/ipmi", Type: "V2Session", Method: "DecodeFromBytes", Name: "empty unauthenticated payload", Len: 12, Bytes: map[int64]int64{0: 6, 1: 0, 10: 0, 11: 0}, Ref: "IPMI v2.0 §13.6"},
	{Pkg: "pkg/ipmi", Type: "GetSDRRepositoryInfoRsp", Method: "DecodeFromBytes", Name: "complete", Len: 14, Ref: "IPMI v2.0 §33.9"},
	{Pkg: "pkg/dcmi", Type: "GetDCMISensorInfoRsp", Method: "DecodeFromBytes", Name: "no record IDs", Len: 2, Bytes: map[int64]int64{1: 0}, Ref: "DCMI 1.5 §6.5.2"},
}

// acceptsMinimal reports whether some success path of fn is feasible for the encoding.
func acceptsMinimal(c *Ctx, fn *ssa.Function, m minimalEncoding) (bool, int) {
	e := newLenflow(c, 6)
	e.bits = true
	// masks of the type/length byte are kept exact (31 characters stay 31)
	e.wrapExact = true
	ok := false
	nSucc := 0
	errIdx := errResultIndex(fn)
	var lenSym Lin
	byteSyms := map[int64]Lin{}
	e.onReturn = func(st *lfState, rets []lfVal) {
		if errIdx >= 0 && errIdx < len(rets) {
			if nv, isN := rets[errIdx].(vNilable); isN {
				isNil := nv.Nil == 1
				if nv.Nil == 0 {
					if d, has := st.decided[-nv.ID]; has {
						isNil = d
					}
				}
				if !isNil {
					return
				}
			} else {
				return
			}
		}
		nSucc++
		extra := []Cons{geq(lenSym, linConst(m.Len)), leq(lenSym, linConst(m.Len))}
		// wire bytes read on this path are cached in the heap under the data buffer's element keys
		for k, v := range st.heap {
			iv, isInt := v.(vInt)
			if !isInt || iv.B == nil || iv.B.Tag != "" {
				continue
			}
			_ = k
			// a whole-byte source dK
			if len(iv.B.Bits) == 8 && iv.B.Bits[0].K == 's' && strings.HasPrefix(iv.B.Bits[0].Src, "d") {
				var idx int64
				if _, err := fmt.Sscanf(iv.B.Bits[0].Src, "d%d", &idx); err == nil {
					whole := true
					for i, b := range iv.B.Bits {
						if b.K != 's' || b.Src != iv.B.Bits[0].Src || b.Idx != i {
							whole = false
						}
					}
					if whole {
						byteSyms[idx] = iv.E
						if want, has := m.Bytes[idx]; has {
							extra = append(extra, geq(iv.E, linConst(want)), leq(iv.E, linConst(want)))
						}
					}
				}
			}
		}
		// bytes read at an index that depends on the length (`data[len(data)-1]`): the index is
		// known once the length is
		if len(lenSym.T) == 1 && lenSym.C == 0 {
			var ls Sym
			for sy := range lenSym.T {
				ls = sy
			}
			for sy, ref := range e.elemLoads {
				if ref.Org != "d" {
					continue
				}
				idx, known := ref.Idx.C, true
				for t, coef := range ref.Idx.T {
					if t == ls {
						idx += coef * m.Len
					} else {
						known = false
					}
				}
				if !known || len(ref.Idx.T) == 0 {
					continue
				}
				if want, has := m.Bytes[idx]; has {
					extra = append(extra, geq(linSym(sy), linConst(want)), leq(linSym(sy), linConst(want)))
				}
			}
		}
		if !infeasibleWith(st.cons, extra...) {
			ok = true
		}
	}
	e.runEntry(fn, func(fr *lfFrame, st *lfState) {
		for _, p := range fn.Params {
			if sv, isS := fr.env[p].(vSlice); isS && sv.Org != nil && sv.Org.Name == "d" {
				lenSym = sv.Len
			}
		}
	})
	return ok, nSucc
}

func checkC07(c *Ctx, r *Report) {
	r.Explain = "Response decodings against specification tables, decided on bit provenance (engine E2): every decoder is evaluated symbolically into, per struct field, an expression over wire bits (bit tests, masks, shifts, little-endian composition, sign extension from 10/4 bits, BCD, optional tails as path sets) and the set over all success paths is compared with the table transcribed from IPMI v2.0/DCMI 1.5. Further: (a) the decoder accepts the specification's minimal encodings (a success path is satisfiable for the stated length and bytes), (b) both message checksums guard every success exit of the message decoder with the specified byte ranges, (c) the payload windows of the session wrappers are derived from the length field (so, with C05's bounds proof, a length exceeding the data is rejected), (d) bodies shorter than a layer's minimum are rejected (C05: every field read is behind a length guard). Decides layouts for all field values; the ID-string decoders are decided as bit functions per residue of the character index (shared with C20)."
	r.NotDecided = []string{"fields listed under not_covered in the evidence (positions I could not justify independently, e.g. DCMI capability flag bytes, Get Session Info LAN tail, timestamps)", "SDR version BCD arithmetic"}
	r.Trusted = []string{"go/types, go/ssa (x/tools v0.29.0)", "tables transcribed from IPMI v2.0 rev 1.1 and DCMI 1.5 (sections cited per layer)", "engine E1 for the absence of out-of-range reads"}

	nc := map[string][]string{}
	r.Rule("response-layouts", "each decoder extracts every field from exactly the specified bits", 180)
	compareSpec(c, r, responseSpecs, "field", nc)
	r.Extra["not_covered"] = nc

	// a variable-length tail decoded into a value that was used before: what the reference
	// decoding says must not depend on what the value held (rule shared with C17)
	checkDecoderAssignment(c, r, "decoders-overwrite", 28, nil)

	checkIDStringHeader(c, r)
	// "all ID-string encodings for every length": the 8-bit decoder is the identity on the
	// first c bytes (rule shared with C20)
	checkLatin1Decoders(c, r)
	// ... and the two packed encodings extract, for every character index, the specified bits
	// of the specified bytes (rule shared with C20)
	checkPackedDecoders(c, r)
	checkDCMIVersionGuards(c, r)
	checkRejectedLayersNotAdded(c, r)
	// "a body shorter than the layer's minimum is rejected with an error rather than decoded" also
	// means: not skipped. Every error-free SendCommand has run the response layer's decoder on
	// the reply's body, however short (rule shared with C17)
	checkResponseAlwaysDecoded(c, r)

	checkMinimalEncodings(c, r, nil)
	checkRejectsShort(c, r)

	checkMessageChecksums(c, r)

	// (c') the wrappers and the message layer never read beyond the datagram: a length field exceeding
	// the data, or a body shorter than the minimum, cannot be decoded (engine E1 on these decoders)
	checkLenflowFor(c, r, "wrappers-in-bounds", []string{"V2Session", "V1Session", "Message", "SDR", "FullSensorRecord"})

	// (c) session wrapper windows — in the layout table (BaseLayer.Payload); V1: payload window must honour Length
	r.Rule("v1-length-honoured", "the v1.5 session wrapper rejects a length field that exceeds the data", 1)
	if fn := c.Method("pkg/ipmi", "V1Session", "DecodeFromBytes"); fn == nil {
		r.Lost("ipmi.V1Session.DecodeFromBytes")
	} else {
		evs, _ := extractEvents(c, fn, nil)
		ok := true
		n := 0
		for _, le := range evs {
			if !le.OK {
				continue
			}
			n++
			// some branch condition must relate len(data) to the Length byte (d9 or d25)
			rel := false
			for _, cnd := range le.Cond {
				if strings.Contains(cnd, "len(data)") && (strings.Contains(cnd, "d9[") || strings.Contains(cnd, "d25[")) {
					rel = true
				}
			}
			if !rel {
				ok = false
			}
		}
		r.Check(ok && n > 0, "ipmi.V1Session.DecodeFromBytes|length validated", fn.Pos(), "len(data) is compared with the length field on every success path", "the payload length field is never compared with the amount of data: a wrapper whose length exceeds the data is accepted")
	}
}

// checkMessageChecksums (shared with C10: a reply with a wrong checksum is one that "cannot be
// decoded" and is retried, whatever else it carries).
func checkMessageChecksums(c *Ctx, r *Report) {
	r.Rule("checksums-verified", "every success exit of the message decoder is behind checksum 1 == checksum(bytes 0..1) and checksum 2 == checksum(bytes 3..n-2)", 2)
	if fn := c.Method("pkg/ipmi", "Message", "DecodeFromBytes"); fn == nil {
		r.Lost("ipmi.Message.DecodeFromBytes")
	} else {
		// decided on engine E2's checksum events: on every success path the checksum of bytes
		// [0,2) was found equal to byte 2 and the checksum of bytes [3, n−1) equal to byte n−1
		// (the last byte), wherever in the decoder or its helpers the comparisons are made
		evs, why := extractEvents(c, fn, nil)
		ok1, ok2, nOK := true, true, 0
		for _, le := range evs {
			if !le.OK {
				continue
			}
			nOK++
			has1, has2 := false, false
			for _, ev := range le.Events {
				if ev.Kind != "sum" || ev.Org != "d" || !strings.HasPrefix(ev.Val, "eq") || ev.Idx == nil || ev.L == nil || ev.V == nil {
					continue
				}
				if linEq(*ev.Idx, linConst(0)) && linEq(*ev.L, linConst(2)) && linEq(*ev.V, linConst(2)) {
					has1 = true
				}
				if le.DLen != nil && linEq(*ev.Idx, linConst(3)) && linEq(*ev.L, le.DLen.addConst(-4)) && linEq(*ev.V, le.DLen.addConst(-1)) {
					has2 = true
				}
			}
			ok1, ok2 = ok1 && has1, ok2 && has2
		}
		if nOK == 0 {
			ok1, ok2 = false, false
		}
		_ = why
		r.Check(ok1, "ipmi.Message.DecodeFromBytes|checksum1 over bytes 0..1", fn.Pos(), "verified before success", "checksum 1 is not verified over bytes 0..1 before the message is accepted")
		r.Check(ok2, "ipmi.Message.DecodeFromBytes|checksum2 over bytes 3..n-2", fn.Pos(), "verified before success", "checksum 2 is not verified over bytes 3..n-2 before the message is accepted")
		// and the compared values are the wire's own checksum bytes (layout: Checksum1 = d2, Checksum2 = last byte)
	}

}

// checkMinimalEncodings: the decoders accept the specification's boundary encodings (shared, for
// the record layers, with C14 — "any mix of record types … all ID-string encodings and
// lengths" — and C20 — "ID strings of every length").
// shortEncodings: lengths below a layer's minimum (for the stated bytes). No success path may
// be satisfiable for them.
var shortEncodings = []minimalEncoding{
	{Pkg: "pkg/ipmi", Type: "GetSessionInfoRsp", Method: "DecodeFromBytes", Name: "4-byte body with handle 0", Len: 4, Bytes: map[int64]int64{0: 0}, Ref: "IPMI v2.0 §22.20: 3 bytes without an active session, at least 6 with one"},
	{Pkg: "pkg/ipmi", Type: "GetSessionInfoRsp", Method: "DecodeFromBytes", Name: "5-byte body with handle 0", Len: 5, Bytes: map[int64]int64{0: 0}, Ref: "IPMI v2.0 §22.20"},
	{Pkg: "pkg/ipmi", Type: "GetSessionInfoRsp", Method: "DecodeFromBytes", Name: "5-byte body with handle 1", Len: 5, Bytes: map[int64]int64{0: 1}, Ref: "IPMI v2.0 §22.20"},
	{Pkg: "pkg/ipmi", Type: "GetSessionInfoRsp", Method: "DecodeFromBytes", Name: "2-byte body", Len: 2, Ref: "IPMI v2.0 §22.20"},
	{Pkg: "pkg/ipmi", Type: "GetDeviceIDRsp", Method: "DecodeFromBytes", Name: "10-byte body", Len: 10, Ref: "IPMI v2.0 §20.1: 11 bytes without the auxiliary revision"},
	{Pkg: "pkg/ipmi", Type: "GetChannelAuthenticationCapabilitiesRsp", Method: "DecodeFromBytes", Name: "7-byte body", Len: 7, Ref: "IPMI v2.0 §22.13: 8 bytes"},
	{Pkg: "pkg/ipmi", Type: "GetSystemGUIDRsp", Method: "DecodeFromBytes", Name: "15-byte body", Len: 15, Ref: "IPMI v2.0 §22.14: 16 bytes"},
	{Pkg: "pkg/ipmi", Type: "GetSDRRepositoryInfoRsp", Method: "DecodeFromBytes", Name: "13-byte body", Len: 13, Ref: "IPMI v2.0 §33.9: 14 bytes"},
}

// checkRejectsShort: "a body shorter than the layer's minimum is rejected with an error rather
// than decoded", asked of engine E1 per decoder and length: every success path is infeasible.
func checkRejectsShort(c *Ctx, r *Report) {
	r.Rule("rejects-short-body", "no success path of the decoder is satisfiable for a body shorter than the layer's minimum", 4)
	for _, m := range shortEncodings {
		fn := c.Method(m.Pkg, m.Type, m.Method)
		if fn == nil {
			r.Lost(m.Type + "." + m.Method)
			continue
		}
		ok, n := acceptsMinimal(c, fn, m)
		r.Check(!ok, m.Type+"."+m.Method+"|rejects "+m.Name, fn.Pos(), fmt.Sprintf("rejected (%d success paths, none satisfiable)", n), fmt.Sprintf("a success path accepts a %s (%s): a body shorter than the minimum is decoded, not rejected", m.Name, m.Ref))
	}
}

func checkMinimalEncodings(c *Ctx, r *Report, only func(minimalEncoding) bool) {
	r.Rule("accepts-minimal-encoding", "the decoder has a success path for the specification's shortest, longest and boundary encodings", 7)
	for _, m := range minimalEncodings {
		if only != nil && !only(m) {
			continue
		}
		fn := c.Method(m.Pkg, m.Type, m.Method)
		if fn == nil {
			r.Lost(m.Type + "." + m.Method)
			continue
		}
		ok, n := acceptsMinimal(c, fn, m)
		r.Check(ok, m.Type+"."+m.Method+"|"+m.Name, fn.Pos(), fmt.Sprintf("accepted (%d success paths examined)", n), fmt.Sprintf("no success path accepts a %d-byte %s (%s): a valid encoding is rejected", m.Len, m.Name, m.Ref))
	}
}
