// Package fx holds small functions with known verdicts for the analyser's
// self-test: names starting with Good must be fully discharged, names
// starting with Bad must produce at least one failed obligation.
package fx

import (
	"encoding/binary"
	"errors"
)

func GoodIndex(d []byte) byte {
	if len(d) < 3 {
		return 0
	}
	return d[2]
}

func BadIndex(d []byte) byte {
	if len(d) < 2 {
		return 0
	}
	return d[2] // off by one
}

// slices are checked against len, not cap
func BadSliceBeyondLen(d []byte) []byte {
	if cap(d) < 8 {
		return nil
	}
	return d[:8]
}

func GoodVariableOffset(d []byte) uint16 {
	if len(d) < 4 {
		return 0
	}
	off := 0
	if d[0]&1 != 0 {
		if len(d) < 6 {
			return 0
		}
		off = 2
	}
	return binary.LittleEndian.Uint16(d[off+2:])
}

func BadVariableOffset(d []byte) uint16 {
	if len(d) < 4 {
		return 0
	}
	off := 0
	if d[0]&1 != 0 {
		off = 2 // forgot the longer guard
	}
	return binary.LittleEndian.Uint16(d[off+2:])
}

func GoodLoop(d []byte) int {
	if len(d) < 2 {
		return 0
	}
	n := int(d[1])
	if len(d) < 2+2*n {
		return 0
	}
	s := 0
	for i := 0; i < n; i++ {
		s += int(binary.LittleEndian.Uint16(d[2+2*i:]))
	}
	return s
}

func BadLoop(d []byte) int {
	if len(d) < 2 {
		return 0
	}
	n := int(d[1])
	if len(d) < 2+n { // should be 2+2*n
		return 0
	}
	s := 0
	for i := 0; i < n; i++ {
		s += int(binary.LittleEndian.Uint16(d[2+2*i:]))
	}
	return s
}

func GoodCongruence(d []byte) []byte {
	if len(d) < 17 || len(d)%16 != 0 {
		return nil
	}
	// len ≥ 32 follows from the congruence
	return d[16:32]
}

func BadCongruence(d []byte) []byte {
	if len(d) < 17 || len(d)%16 != 0 {
		return nil
	}
	return d[16:33]
}

func GoodScan(d []byte) []byte {
	rest := d
	for len(rest) > 0 {
		if len(rest) < 3 {
			return nil
		}
		n := 3
		if rest[0]&1 == 1 {
			if len(rest) < 6 {
				return nil
			}
			n = 6
		}
		rest = rest[n:]
	}
	return rest
}

func BadDivision(a, b int) int {
	return a / b
}

// predicates
func IsSmall(x uint8) bool  { return x <= 0x5f }
func IsMiddle(x uint8) bool { return x >= 0x60 && x <= 0x7f }
func IsEither(x uint8) bool { return x == 0xc0 || x == 0xc3 }

// bit provenance
type Rec struct {
	Flag bool
	Low  uint8
	High uint8
	Wide uint16
	Sign int16
}

func (r *Rec) Decode(d []byte) {
	if len(d) < 4 {
		return
	}
	r.Flag = d[0]&(1<<7) != 0
	r.Low = d[0] & 0x0f
	r.High = d[1] >> 4
	r.Wide = binary.LittleEndian.Uint16(d[2:4])
	r.Sign = int16(int8(d[1]))
}

// package state
var table = map[int]int{1: 2}

func BadWritesTable(k int)     { table[k] = 1 }
func GoodReadsTable(k int) int { return table[k] }

// ---------------------------------------------------------------- flattened view

type conn struct {
	calls int
	last  error
}

func (c *conn) exchange(b []byte) ([]byte, error) {
	if len(b) == 0 {
		return nil, errEmpty
	}
	c.calls++
	return b, nil
}

var errEmpty = errors.New("empty")

// step is a helper with an error exit and a success exit.
func (c *conn) step(b []byte) error {
	reply, err := c.exchange(b)
	if err != nil {
		return err
	}
	if len(reply) < 2 {
		return errEmpty
	}
	return nil
}

// ViewCaller: spliced, the caller's error test pairs only with the helper's error exits.
func (c *conn) ViewCaller(b []byte) int {
	if err := c.step(b); err != nil {
		return 1
	}
	return 0
}

// ---------------------------------------------------------------- loop runs (three spellings of one fill, one compare)

type Ser struct{ N uint8 }

func (s *Ser) FillIndex(b SerializeBuffer) error {
	n := int(s.N % 16)
	d, err := b.AppendBytes(n + 1)
	if err != nil {
		return err
	}
	for i := 0; i < n; i++ {
		d[i] = uint8(i + 1)
	}
	d[n] = uint8(n)
	return nil
}

func (s *Ser) FillRange(b SerializeBuffer) error {
	n := int(s.N % 16)
	d, err := b.AppendBytes(n + 1)
	if err != nil {
		return err
	}
	for i := range d[:n] {
		d[i] = uint8(i) + 1
	}
	d[n] = uint8(n)
	return nil
}

func fill(d []byte, n int) {
	v := uint8(1)
	for i := 0; i < n; i++ {
		d[i] = v
		v++
	}
}

func (s *Ser) FillHelper(b SerializeBuffer) error {
	n := int(s.N % 16)
	d, err := b.AppendBytes(n + 1)
	if err != nil {
		return err
	}
	fill(d, n)
	d[n] = uint8(n)
	return nil
}

// BadFillShort leaves the last pad byte unwritten.
func (s *Ser) BadFillShort(b SerializeBuffer) error {
	n := int(s.N % 16)
	d, err := b.AppendBytes(n + 1)
	if err != nil {
		return err
	}
	for i := 0; i < n-1; i++ {
		d[i] = uint8(i + 1)
	}
	d[n] = uint8(n)
	return nil
}

// BadStale ors into a byte it never assigned.
func (s *Ser) BadStale(b SerializeBuffer) error {
	d, err := b.PrependBytes(2)
	if err != nil {
		return err
	}
	if s.N > 0 {
		d[0] = 0x80
	}
	d[0] |= s.N & 0x0f
	d[1] = 0
	return nil
}

// SerializeBuffer mirrors the two gopacket methods the engine has contracts for.
type SerializeBuffer interface {
	PrependBytes(n int) ([]byte, error)
	AppendBytes(n int) ([]byte, error)
}

// ---------------------------------------------------------------- view mechanisms added for the refactoring campaigns

var failures int

// DeferCount: a deferred literal over a named result counts failures; spliced at the exits,
// the count happens exactly on the paths that return an error.
func (c *conn) DeferCount(b []byte) (n int, err error) {
	defer func() {
		if err != nil {
			failures++
		}
	}()
	if err = c.step(b); err != nil {
		return 0, err
	}
	return len(b), nil
}

type exchanger interface {
	exchange(b []byte) error
	peer() *conn
}

type viaStep struct{ c *conn }

func (v *viaStep) exchange(b []byte) error { return v.c.step(b) }
func (v *viaStep) peer() *conn             { return v.c }

func runExchange(x exchanger, b []byte) int {
	if err := x.exchange(b); err != nil {
		return 1
	}
	return x.peer().calls
}

// Devirt: the interface method is resolved through the helper's parameter to viaStep's.
func (c *conn) Devirt(b []byte) int {
	return runExchange(&viaStep{c}, b)
}

func newCounter() func() {
	first := true
	return func() {
		if first {
			first = false
			return
		}
		failures++
	}
}

// Factory: a function value that can only be one literal is called through a local.
func Factory() {
	count := newCounter()
	count()
}

type pageReq struct{ Index uint8 }

func sendPage(r *pageReq) int { return int(r.Index) }

// PagesVar and PagesField request pages 0,1,2,…: the index in a loop variable copied into
// the request, or kept in the request and incremented.
func PagesVar(n int) int {
	req := &pageReq{}
	t := 0
	for i := uint8(0); int(i) < n; i++ {
		req.Index = i
		t += Opaque(req)
	}
	return t
}

// (own request types: a field nobody outside the function writes stays what it was across
// the exchange)
type pageReqF struct{ Index uint8 }
type pageReqB struct{ Index uint8 }

func PagesField(n int) int {
	req := &pageReqF{}
	t := 0
	for j := 0; j < n; j++ {
		t += OpaqueF(req)
		req.Index++
	}
	return t
}

// PagesBad skips a page.
func PagesBad(n int) int {
	req := &pageReqB{}
	t := 0
	for j := 0; j < n; j++ {
		t += OpaqueB(req)
		req.Index += 2
	}
	return t
}

func OpaqueF(r *pageReqF) int { opaqueSink += int(r.Index); return opaqueSink }
func OpaqueB(r *pageReqB) int { opaqueSink += int(r.Index); return opaqueSink }

var opaqueSink int

// Opaque stands for an exchange (exported: stays a call in every view).
func Opaque(r *pageReq) int { opaqueSink += int(r.Index); return opaqueSink }
