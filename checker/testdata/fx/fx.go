// Package fx holds small functions with known verdicts for the analyser's
// self-test: names starting with Good must be fully discharged, names
// starting with Bad must produce at least one failed obligation.
package fx

import "encoding/binary"

func GoodIndex(d []byte) byte {
	if len(d) < 3 {
		return 0
	}
	return d[2]
}

func BadIndex(d []byte) byte {
	if len(d) < 2 {
		return 0
	}
	return d[2] // off by one
}

// slices are checked against len, not cap
func BadSliceBeyondLen(d []byte) []byte {
	if cap(d) < 8 {
		return nil
	}
	return d[:8]
}

func GoodVariableOffset(d []byte) uint16 {
	if len(d) < 4 {
		return 0
	}
	off := 0
	if d[0]&1 != 0 {
		if len(d) < 6 {
			return 0
		}
		off = 2
	}
	return binary.LittleEndian.Uint16(d[off+2:])
}

func BadVariableOffset(d []byte) uint16 {
	if len(d) < 4 {
		return 0
	}
	off := 0
	if d[0]&1 != 0 {
		off = 2 // forgot the longer guard
	}
	return binary.LittleEndian.Uint16(d[off+2:])
}

func GoodLoop(d []byte) int {
	if len(d) < 2 {
		return 0
	}
	n := int(d[1])
	if len(d) < 2+2*n {
		return 0
	}
	s := 0
	for i := 0; i < n; i++ {
		s += int(binary.LittleEndian.Uint16(d[2+2*i:]))
	}
	return s
}

func BadLoop(d []byte) int {
	if len(d) < 2 {
		return 0
	}
	n := int(d[1])
	if len(d) < 2+n { // should be 2+2*n
		return 0
	}
	s := 0
	for i := 0; i < n; i++ {
		s += int(binary.LittleEndian.Uint16(d[2+2*i:]))
	}
	return s
}

func GoodCongruence(d []byte) []byte {
	if len(d) < 17 || len(d)%16 != 0 {
		return nil
	}
	// len ≥ 32 follows from the congruence
	return d[16:32]
}

func BadCongruence(d []byte) []byte {
	if len(d) < 17 || len(d)%16 != 0 {
		return nil
	}
	return d[16:33]
}

func GoodScan(d []byte) []byte {
	rest := d
	for len(rest) > 0 {
		if len(rest) < 3 {
			return nil
		}
		n := 3
		if rest[0]&1 == 1 {
			if len(rest) < 6 {
				return nil
			}
			n = 6
		}
		rest = rest[n:]
	}
	return rest
}

func BadDivision(a, b int) int {
	return a / b
}

// predicates
func IsSmall(x uint8) bool  { return x <= 0x5f }
func IsMiddle(x uint8) bool { return x >= 0x60 && x <= 0x7f }
func IsEither(x uint8) bool { return x == 0xc0 || x == 0xc3 }

// bit provenance
type Rec struct {
	Flag  bool
	Low   uint8
	High  uint8
	Wide  uint16
	Sign  int16
}

func (r *Rec) Decode(d []byte) {
	if len(d) < 4 {
		return
	}
	r.Flag = d[0]&(1<<7) != 0
	r.Low = d[0] & 0x0f
	r.High = d[1] >> 4
	r.Wide = binary.LittleEndian.Uint16(d[2:4])
	r.Sign = int16(int8(d[1]))
}

// package state
var table = map[int]int{1: 2}

func BadWritesTable(k int) { table[k] = 1 }
func GoodReadsTable(k int) int { return table[k] }
