package main

import (
	"fmt"
	"go/token"
	"go/types"
	"strings"

	"golang.org/x/tools/go/ssa"
)

func init() { register("C13", checkC13) }

func isContextType(t types.Type) bool {
	n, ok := t.(*types.Named)
	return ok && n.Obj().Pkg() != nil && n.Obj().Pkg().Path() == "context" && n.Obj().Name() == "Context"
}

// ctxParamOf returns the context.Context parameter of fn or of its nearest
// lexically enclosing function.
func ctxParamsOf(fn *ssa.Function) []*ssa.Parameter {
	var out []*ssa.Parameter
	for f := fn; f != nil; f = f.Parent() {
		for _, p := range f.Params {
			if isContextType(p.Type()) {
				out = append(out, p)
			}
		}
	}
	// a method used only as a method value runs on behalf of the function that binds it: that
	// function's context is the one the method's state object carries
	if sites := boundSites[fn]; len(sites) == 1 && directCallers[fn] == 0 {
		for f := sites[0].Parent(); f != nil; f = f.Parent() {
			for _, p := range f.Params {
				if isContextType(p.Type()) {
					out = append(out, p)
				}
			}
		}
	}
	return out
}

// ctxProvenance classifies where a context value comes from: "param" (the
// enclosing function's ctx parameter, possibly through context.With*),
// "background", or "other:<desc>".
func ctxProvenance(fn *ssa.Function, v ssa.Value) string {
	params := ctxParamsOf(fn)
	seen := map[ssa.Value]bool{}
	var walk func(v ssa.Value) string
	walk = func(v ssa.Value) string {
		if seen[v] {
			return "param"
		}
		seen[v] = true
		v = stripConv(v)
		switch x := v.(type) {
		case *ssa.Parameter:
			for _, p := range params {
				if p == x {
					return "param"
				}
			}
			return "other:parameter " + x.Name()
		case *ssa.Extract:
			if call, ok := x.Tuple.(*ssa.Call); ok && x.Index == 0 {
				switch calleeName(&call.Call) {
				case fnCtxWithTimeout, fnCtxWithDeadline, "context.WithCancel", "context.WithTimeoutCause", "context.WithDeadlineCause":
					return walk(call.Call.Args[0])
				}
			}
		case *ssa.Call:
			switch calleeName(&x.Call) {
			case fnCtxBackground, fnCtxTODO:
				return "background"
			case "context.WithValue", "context.WithoutCancel":
				if calleeName(&x.Call) == "context.WithoutCancel" {
					return "background"
				}
				return walk(x.Call.Args[0])
			}
		case *ssa.UnOp:
			if x.Op == token.MUL {
				a := apOf(x.X)
				if p, ok := a.Root.(*ssa.Parameter); ok && len(a.Sel) == 0 {
					return walk(p)
				}
				// read from a write-once field of the operation's state object: what was stored there
				if a2 := apOf(x); len(a2.Sel) == 0 {
					if p, ok := a2.Root.(*ssa.Parameter); ok {
						return walk(p)
					}
				}
				if al, ok := x.X.(*ssa.Alloc); ok {
					if sv := singleStore(al); sv != nil {
						return walk(sv)
					}
				}
			}
		case *ssa.Phi:
			res := "param"
			for _, e := range x.Edges {
				if r := walk(e); r != "param" {
					res = r
				}
			}
			return res
		case *ssa.FreeVar:
			if b := freeVarBinding(x); b != nil {
				return walk(b)
			}
		case *ssa.Field:
			if a := apOf(x); len(a.Sel) == 0 {
				if p, ok := a.Root.(*ssa.Parameter); ok {
					return walk(p)
				}
			}
		}
		return "other:" + rootName(apOf(v).Root)
	}
	return walk(v)
}

// sccs returns the non-trivial strongly connected components (loops) of fn's CFG.
func sccs(fn *ssa.Function) [][]*ssa.BasicBlock {
	index := map[*ssa.BasicBlock]int{}
	low := map[*ssa.BasicBlock]int{}
	on := map[*ssa.BasicBlock]bool{}
	var stack []*ssa.BasicBlock
	var out [][]*ssa.BasicBlock
	n := 0
	var strong func(b *ssa.BasicBlock)
	strong = func(b *ssa.BasicBlock) {
		n++
		index[b], low[b] = n, n
		stack = append(stack, b)
		on[b] = true
		for _, s := range b.Succs {
			if index[s] == 0 {
				strong(s)
				if low[s] < low[b] {
					low[b] = low[s]
				}
			} else if on[s] && index[s] < low[b] {
				low[b] = index[s]
			}
		}
		if low[b] == index[b] {
			var comp []*ssa.BasicBlock
			for {
				x := stack[len(stack)-1]
				stack = stack[:len(stack)-1]
				on[x] = false
				comp = append(comp, x)
				if x == b {
					break
				}
			}
			self := false
			for _, s := range b.Succs {
				if s == b {
					self = true
				}
			}
			if len(comp) > 1 || self {
				out = append(out, comp)
			}
		}
	}
	for _, b := range fn.Blocks {
		if index[b] == 0 {
			strong(b)
		}
	}
	return out
}

// countingLoop: the loop (SCC) has an exit test comparing an induction φ
// (constant start, constant positive step on the back edge) — or a φ+1 of it —
// with a loop-invariant bound, i.e. the iteration count is bounded by local data.
func countingLoop(comp []*ssa.BasicBlock) bool {
	in := map[*ssa.BasicBlock]bool{}
	for _, b := range comp {
		in[b] = true
	}
	var invariant func(v ssa.Value) bool
	invariant = func(v ssa.Value) bool {
		if _, ok := v.(*ssa.Const); ok {
			return true
		}
		i, ok := v.(ssa.Instruction)
		if !ok {
			return true // parameters, globals, functions
		}
		if !in[i.Block()] {
			return true
		}
		// computed inside the loop from invariant operands only (no loads, no phis)
		switch x := v.(type) {
		case *ssa.BinOp:
			return invariant(x.X) && invariant(x.Y)
		case *ssa.Convert:
			return invariant(x.X)
		case *ssa.ChangeType:
			return invariant(x.X)
		case *ssa.Call:
			if b, ok := x.Call.Value.(*ssa.Builtin); ok && (b.Name() == "len" || b.Name() == "cap") {
				return invariant(x.Call.Args[0])
			}
		}
		return false
	}
	isInduction := func(v ssa.Value) bool {
		var ph *ssa.Phi
		switch x := v.(type) {
		case *ssa.Phi:
			ph = x
		case *ssa.BinOp:
			if x.Op == token.ADD {
				if p, ok := x.X.(*ssa.Phi); ok {
					if k, isK := constInt(x.Y); isK && k > 0 {
						ph = p
					}
				}
			}
		}
		if ph == nil || !in[ph.Block()] {
			return false
		}
		okStart, okStep := false, false
		for i, e := range ph.Edges {
			pred := ph.Block().Preds[i]
			if !in[pred] {
				if invariant(e) {
					okStart = true
				}
				continue
			}
			if bo, ok := e.(*ssa.BinOp); ok && bo.Op == token.ADD && bo.X == ssa.Value(ph) {
				if k, isK := constInt(bo.Y); isK && k > 0 {
					okStep = true
					continue
				}
			}
			return false
		}
		return okStart && okStep
	}
	for _, b := range comp {
		ifi, ok := b.Instrs[len(b.Instrs)-1].(*ssa.If)
		if !ok {
			continue
		}
		exits := !in[b.Succs[0]] || !in[b.Succs[1]]
		if !exits {
			continue
		}
		op, x, y, _, isBin := condOf(ifi.Cond)
		if !isBin {
			continue
		}
		switch op {
		case token.LSS, token.LEQ, token.GTR, token.GEQ, token.NEQ, token.EQL:
			if (isInduction(x) && invariant(y)) || (isInduction(y) && invariant(x)) {
				return true
			}
		}
	}
	return false
}

func checkC13(c *Ctx, r *Report) {
	r.Explain = "Structural necessary conditions for context-bounded blocking: (a) in transport.Send every socket write/read is behind either the matching Set*Deadline call fed from ctx.Deadline() of the ctx parameter or the arm on which the context has no deadline; (b) every Transport.Send call site passes a context derived with context.WithTimeout/WithDeadline from the enclosing function's ctx parameter; (c) every backoff.Retry uses backoff.WithContext(·, ctx) with that parameter; (d) ctx-threading — every call in the library that passes a context.Context passes one derived from the caller's own ctx parameter, never context.Background()/TODO(); (e) no other blocking primitive (sleep, channel operation, select, mutex/WaitGroup wait, goroutine start) occurs in library code; (f) every loop in a ctx-taking function either contains a ctx-threaded call on its cycle or is a counting loop bounded by local data; (g) no success without a response — every exit of the send closures returns to the retry loop what the outcome it handled requires, and an in-session transport failure recorded as terminal is what the caller gets. Not the numeric bound, not scheduling."
	r.NotDecided = []string{"the numeric bound deadline + allowance (wall-clock)", "scheduling delays", "blocking inside third-party code beyond the stated contracts"}
	r.Trusted = []string{"go/types, go/ssa (x/tools v0.29.0)", "net.UDPConn read/write honour the deadline last set", "backoff.WithContext stops retrying once the context is done", "context.WithTimeout never extends the parent's deadline"}

	// (g) no success without a response: what each exit of the send closures hands back to the
	// retry loop, and that a recorded in-session failure reaches the caller (shared with C10)
	checkClosureExits(c, r)

	// (a) transport.Send
	send := c.transportSend()
	r.Rule("socket-deadlines", "each blocking socket call in transport.Send is preceded on every path by the matching deadline call with the ctx parameter's deadline, or by the no-deadline arm of ctx.Deadline()", 2)
	if send == nil {
		r.Lost("transport.Send")
	} else {
		name := c.FnName(send)
		r.Fn(name)
		var ctxp *ssa.Parameter
		for _, p := range send.Params {
			if isContextType(p.Type()) {
				ctxp = p
			}
		}
		check := func(io ssa.Instruction, kind string, deadlineFns []string) {
			// deadline calls fed from ctxp.Deadline()
			avoidB := map[*ssa.BasicBlock]bool{}
			avoidE := map[edge]bool{}
			viewInstrs(send, func(in ssa.Instruction) {
				if isCallTo(in, deadlineFns...) {
					args := callArgs(asCall(in))
					if len(args) == 1 {
						if ex, ok := args[0].(*ssa.Extract); ok && ex.Index == 0 {
							if dc, ok := ex.Tuple.(*ssa.Call); ok && dc.Call.IsInvoke() && dc.Call.Method.Name() == "Deadline" && viewVal(send, dc.Call.Value) == ssa.Value(ctxp) {
								if in.Block() != io.Block() || instrIndex(in) < instrIndex(io) {
									avoidB[in.Block()] = true
								}
							}
						}
					}
				}
			})
			for _, ifi := range viewIfs(send) {
				if ex, ok := ifi.Cond.(*ssa.Extract); ok && ex.Index == 1 {
					if dc, ok := ex.Tuple.(*ssa.Call); ok && dc.Call.IsInvoke() && dc.Call.Method.Name() == "Deadline" && viewVal(send, dc.Call.Value) == ssa.Value(ctxp) {
						avoidE[edge{ifi.Block(), ifi.Block().Succs[1]}] = true
					}
				}
			}
			okk := len(avoidB) > 0
			if avoidB[io.Block()] {
				// same block and earlier: fine
			} else if reachAvoiding(send, nil, avoidB, avoidE)[io.Block()] {
				okk = false
			}
			// the deadline test must itself follow any earlier I/O of the other kind: the deadline call must come after the previous blocking call? not required.
			r.Check(okk, name+"|"+kind, io.Pos(), "deadline set from ctx before the call on every path", "socket "+kind+" can be reached without the "+kind+" deadline having been set from the context (blocks past the deadline)")
		}
		nIO := 0
		viewInstrs(send, func(in ssa.Instruction) {
			if isCallTo(in, sockWrites...) {
				nIO++
				check(in, "write", sockWriteDeadline)
			}
			if isCallTo(in, sockReads...) {
				nIO++
				check(in, "read", sockReadDeadline)
			}
		})
		if nIO < 2 {
			r.Unk(name+"|socket calls", send.Pos(), fmt.Sprintf("found %d socket I/O calls, expected a write and a read", nIO))
		}
	}

	// (b) Send call sites
	r.Rule("per-attempt-timeout", "every Transport.Send call passes context.WithTimeout/WithDeadline(ctx parameter, …)", 1)
	for _, fn := range c.LibFuncs() {
		rawInstrs(fn, false, func(in ssa.Instruction) {
			if !isCallTo(in, fnTransportSend) {
				return
			}
			r.Fn(c.FnName(fn))
			arg := asCall(in).Args[0]
			ok := false
			why := "context passed to Send is not derived with context.WithTimeout/WithDeadline"
			if ex, isEx := arg.(*ssa.Extract); isEx && ex.Index == 0 {
				if call, isCall := ex.Tuple.(*ssa.Call); isCall && isCallTo(call, fnCtxWithTimeout, fnCtxWithDeadline) {
					switch p := ctxProvenance(fn, call.Call.Args[0]); p {
					case "param":
						ok = true
					default:
						why = "per-attempt context is derived from " + p + ", not from the caller's context"
					}
				}
			}
			r.Check(ok, c.FnName(fn)+"|Send(ctx)", in.Pos(), "WithTimeout(ctx param)", why)
		})
	}

	// (c) Retry sites
	r.Rule("retry-bounded-by-context", "every backoff.Retry runs under backoff.WithContext(·, ctx parameter)", 4)
	for _, rs := range c.RetrySites() {
		pname := c.FnName(rs.Parent)
		r.Fn(pname)
		ok := false
		why := "back-off is not wrapped with backoff.WithContext"
		if len(rs.Call.Call.Args) == 2 {
			if call, isCall := stripConv(rs.Call.Call.Args[1]).(*ssa.Call); isCall && isCallTo(call, fnBackoffWithCtx) {
				switch p := ctxProvenance(rs.Parent, call.Call.Args[1]); p {
				case "param":
					ok = true
				default:
					why = "retry loop is bounded by " + p + ", not by the caller's context"
				}
			}
		}
		r.Check(ok, pname+"|Retry(WithContext(ctx))", rs.Call.Pos(), "bounded by the caller's context", why)
	}

	// (d) ctx threading
	r.Rule("ctx-threading", "every call passing a context.Context passes one derived from the caller's own ctx parameter", 40)
	for _, fn := range c.LibFuncs() {
		if len(ctxParamsOf(fn)) == 0 {
			// functions without any ctx in scope: any ctx they pass is foreign
			rawInstrs(fn, false, func(in ssa.Instruction) {
				if cc := asCall(in); cc != nil {
					for _, a := range cc.Args {
						if isContextType(a.Type()) {
							n := calleeName(cc)
							if strings.HasPrefix(n, "context.") {
								continue
							}
							r.Bad(c.FnName(fn)+"|"+shortName(n)+"(ctx)", in.Pos(), "a context is passed by a function that has no context parameter: "+ctxProvenance(fn, a))
						}
					}
				}
			})
			continue
		}
		rawInstrs(fn, false, func(in ssa.Instruction) {
			cc := asCall(in)
			if cc == nil {
				return
			}
			n := calleeName(cc)
			if strings.HasPrefix(n, "context.") {
				return
			}
			for _, a := range cc.Args {
				if !isContextType(a.Type()) {
					continue
				}
				p := ctxProvenance(fn, a)
				key := c.FnName(fn) + "|" + shortName(n) + "(ctx)"
				if n == "" {
					key = c.FnName(fn) + "|dynamic call(ctx)"
				}
				r.Check(p == "param", key, in.Pos(), "ctx threaded from the caller", "context passed here comes from "+p+": the callee is not bounded by the caller's context")
			}
		})
	}

	// (e) other blocking primitives
	r.Rule("no-other-blocking", "library code contains no sleep, channel operation, select, lock/wait or goroutine start; the only blocking primitives are the deadline-guarded socket calls", 0)
	blockingCalls := map[string]bool{"time.Sleep": true, "time.After": true, "time.Tick": true, "time.NewTimer": true, "time.NewTicker": true,
		"(*sync.Mutex).Lock": true, "(*sync.RWMutex).Lock": true, "(*sync.RWMutex).RLock": true, "(*sync.WaitGroup).Wait": true, "(*sync.Cond).Wait": true, "(*sync.Once).Do": true}
	nFn := 0
	for _, fn := range c.LibFuncs() {
		nFn++
		rawInstrs(fn, false, func(in ssa.Instruction) {
			switch x := in.(type) {
			case *ssa.Select:
				r.Bad(c.FnName(fn)+"|select", in.Pos(), "select statement in library code (unbounded wait unless it has a ctx arm)")
			case *ssa.Send:
				r.Bad(c.FnName(fn)+"|chan send", in.Pos(), "channel send in library code")
			case *ssa.Go:
				r.Bad(c.FnName(fn)+"|go", in.Pos(), "goroutine started in library code")
			case *ssa.UnOp:
				if x.Op == token.ARROW {
					r.Bad(c.FnName(fn)+"|chan receive", in.Pos(), "channel receive in library code")
				}
			case *ssa.Call:
				if blockingCalls[calleeName(&x.Call)] {
					r.Bad(c.FnName(fn)+"|"+calleeName(&x.Call), in.Pos(), "blocking primitive not bounded by the context")
				}
				// socket I/O outside transport.Send
				if (isCallTo(in, sockReads...) || isCallTo(in, sockWrites...)) && send != nil && !c.privateTo(send, fn) {
					r.Bad(c.FnName(fn)+"|socket I/O", in.Pos(), "socket I/O outside transport.Send (no deadline discipline)")
				}
			}
		})
	}
	r.Extra["functions_scanned_for_blocking_primitives"] = nFn

	// (f) loops
	r.Rule("loops-ctx-bound", "every CFG cycle in a ctx-taking library function contains a call that threads the context (so an expired context ends it) or is a counting loop over local data", 5)
	for _, fn := range c.LibFuncs() {
		if len(ctxParamsOf(fn)) == 0 {
			continue
		}
		for i, comp := range sccs(fn) {
			hasCtxCall := false
			for _, b := range comp {
				for _, in := range b.Instrs {
					if cc := asCall(in); cc != nil {
						for _, a := range cc.Args {
							if isContextType(a.Type()) && ctxProvenance(fn, a) == "param" && !strings.HasPrefix(calleeName(cc), "context.") {
								hasCtxCall = true
							}
						}
					}
				}
			}
			key := fmt.Sprintf("%s|loop#%d", c.FnName(fn), i)
			var pos token.Pos
			for _, in := range comp[len(comp)-1].Instrs {
				if in.Pos().IsValid() {
					pos = in.Pos()
					break
				}
			}
			r.Fn(c.FnName(fn))
			switch {
			case hasCtxCall:
				r.OK(key, pos, "each iteration makes a ctx-bounded call")
			case countingLoop(comp):
				r.OK(key, pos, "counting loop over local data")
			default:
				r.Bad(key, pos, "loop in a blocking function neither threads the context nor is bounded by local data")
			}
		}
	}
}
