package main

import (
	"fmt"
	"go/token"
	"go/types"
	"os"
	"sort"
	"strings"
	"sync"

	"golang.org/x/tools/go/ssa"
)

// doCall interprets a call instruction and continues with each resulting
// state via k.
func (e *lfEngine) doCall(fr *lfFrame, st *lfState, x *ssa.Call, k func(st *lfState, res lfVal, fr *lfFrame)) {
	cc := &x.Call
	// ---- builtins
	if b, ok := cc.Value.(*ssa.Builtin); ok {
		if (b.Name() == "min" || b.Name() == "max") && len(cc.Args) == 2 {
			// exact: the result is one of the arguments, decided by their order
			a0, ok0 := e.val(fr, st, cc.Args[0]).(vInt)
			a1, ok1 := e.val(fr, st, cc.Args[1]).(vInt)
			if ok0 && ok1 && a0.B == nil && a1.B == nil {
				lo, hi := a0, a1 // branch 1: a0 ≤ a1
				forks := []struct {
					c   Cons
					res vInt
				}{{leq(a0.E, a1.E), lo}, {leq(a1.E.add(linConst(1), 1), a0.E), hi}}
				if b.Name() == "max" {
					forks[0].res, forks[1].res = hi, lo
				}
				n := 0
				for i, f := range forks {
					if infeasibleWith(st.cons, f.c) {
						continue
					}
					f2, s2 := fr, st
					if i == 0 {
						f2, s2 = fr.cloneEnv(), st.clone()
					}
					s2.cons = append(s2.cons, f.c)
					n++
					k(s2, f.res, f2)
				}
				if n > 0 {
					return
				}
			}
		}
		k(st, e.builtin(fr, st, x, b.Name()), fr)
		return
	}
	name := calleeName(cc)
	if e.onCall != nil && e.quiet == 0 {
		e.onCall(fr, st, x)
	}
	if e.bits {
		name = e.roleName(cc, name)
		if res, ok := e.bitsIntercept(fr, st, x, name); ok {
			k(st, res, fr)
			return
		}
	}
	// ---- contracts for code outside the module
	if res, ok := e.contract(fr, st, x, name); ok {
		k(st, res, fr)
		return
	}
	// ---- module callees
	var targets []*ssa.Function
	var recvVal lfVal
	// a function literal called directly (or through the local it was assigned to): interpret
	// it with the variables it captured
	if _, isMC := cc.Value.(*ssa.MakeClosure); isMC && !cc.IsInvoke() {
		if vf, ok := e.val(fr, st, cc.Value).(vFunc); ok && vf.Fn != nil && vf.Fn.Blocks != nil && e.c.InModule(vf.Fn) && !e.c.reachesSend(vf.Fn) && fr.depth < e.maxDepth {
			onSt := false
			for p := fr; p != nil; p = p.parent {
				if p.fn == vf.Fn {
					onSt = true
				}
			}
			if !onSt {
				e.inline(fr, st, x, vf.Fn, vf.Bind, nil, k)
				return
			}
		}
	}
	if f := cc.StaticCallee(); f != nil {
		if e.c.InModule(f) && f.Blocks != nil && !e.c.reachesSend(f) {
			if e.tracksSig(f.Signature) {
				targets = []*ssa.Function{f}
			} else if !e.scheduled[f] && !e.analysed[f] {
				// context cannot matter (no integer/slice parameters or results): analyse on its own
				e.scheduled[f] = true
				e.pending = append(e.pending, f)
			}
		}
	} else if cc.IsInvoke() {
		recvVal = e.val(fr, st, cc.Value)
		targets = e.invokeTargets(cc, recvVal)
	} else {
		// call of a function value
		fv := e.val(fr, st, cc.Value)
		if vf, ok := fv.(vFunc); ok && vf.Fn != nil && vf.Fn.Blocks != nil && e.c.InModule(vf.Fn) {
			e.inline(fr, st, x, vf.Fn, vf.Bind, nil, k)
			return
		}
		if e.tracksResult(cc.Signature()) {
			if sg, ok := cc.Value.Type().Underlying().(*types.Signature); ok {
				targets = e.addrTaken[sigKey(sg)]
			}
		}
	}
	onStack := func(f *ssa.Function) bool {
		for p := fr; p != nil; p = p.parent {
			if p.fn == f {
				return true
			}
		}
		return false
	}
	var usable []*ssa.Function
	for _, t := range targets {
		if e.c.reachesSend(t) {
			targets = nil
			usable = nil
			break
		}
		if !onStack(t) && fr.depth < e.maxDepth {
			usable = append(usable, t)
		}
	}
	if len(usable) == 0 {
		// inlining bound reached (or recursion): the callees are analysed on their own, with
		// unconstrained arguments — every obligation inside them is still decided, for all
		// inputs — and the result is unknown here; anything that needs it fails where it is used
		for _, t := range targets {
			if t.Blocks != nil && !e.scheduled[t] && !e.analysed[t] {
				e.scheduled[t] = true
				e.pending = append(e.pending, t)
			}
		}
		// unknown call: forget the heap unless the callee is known not to write it
		st2 := st
		if !e.callIsPure(cc) {
			st2 = st.clone()
			st2.heap = map[string]lfVal{}
		}
		res := e.fresh(st2, x.Type(), shortName(name)+"()")
		// error results of fmt.Errorf-like constructors are non-nil
		k(st2, res, fr)
		return
	}
	for i, t := range usable {
		f2, s2 := fr, st
		if len(usable) > 1 {
			f2, s2 = fr.cloneEnv(), st.clone()
			s2.trail = append(s2.trail, "callee="+t.Name())
		}
		_ = i
		e.inline(f2, s2, x, t, nil, recvVal, k)
	}
}

func stripNamedSig(t types.Type) types.Type {
	return t.Underlying()
}

// tracksSig: the signature has integer/slice/string parameters or results, so
// the calling context can matter for bounds.
func (e *lfEngine) tracksSig(sig *types.Signature) bool {
	if e.tracksResult(sig) {
		return true
	}
	if rv := sig.Recv(); rv != nil && (isIntType(rv.Type()) || sliceLike(rv.Type()) || pointsToStruct(rv.Type()) || e.bits && isStructValue(rv.Type())) {
		return true
	}
	for i := 0; i < sig.Params().Len(); i++ {
		t := sig.Params().At(i).Type()
		if isIntType(t) || sliceLike(t) || pointsToStruct(t) || e.bits && (isStructValue(t) || isHashHash(t)) {
			return true
		}
	}
	return false
}

// isStructValue: a struct passed by value — in bits mode the fields it carries (message
// pointers, say) are what the callee encodes.
func isStructValue(t types.Type) bool {
	_, ok := t.Underlying().(*types.Struct)
	return ok
}

// pointsToStruct: a pointer to a struct — the callee can read and write the
// fields the caller's state tracks (a helper extracted from a decoder or
// serialiser, say), so it is interpreted in the caller's context.
func pointsToStruct(t types.Type) bool {
	p, ok := t.Underlying().(*types.Pointer)
	if !ok {
		return false
	}
	_, ok = p.Elem().Underlying().(*types.Struct)
	return ok
}

// tracksResult: does the signature return something the analysis tracks
// (integers, slices, strings)?
func (e *lfEngine) tracksResult(sig *types.Signature) bool {
	if sig == nil {
		return false
	}
	for i := 0; i < sig.Results().Len(); i++ {
		t := sig.Results().At(i).Type()
		if isIntType(t) || sliceLike(t) {
			return true
		}
	}
	return false
}

// invokeTargets: module methods that can be the target of an interface call,
// only for interfaces declared in the module and results the analysis tracks.
func (e *lfEngine) invokeTargets(cc *ssa.CallCommon, recv lfVal) []*ssa.Function {
	// known dynamic value: a function value converted to a named func type with methods
	if nv, ok := recv.(vNilable); ok && nv.Inner != nil {
		if _, isFn := nv.Inner.(vFunc); isFn {
			// the method set of the named func type the function was converted to: found below by type
			_ = nv
		}
	}
	it, ok := cc.Value.Type().(*types.Named)
	if !ok || it.Obj().Pkg() == nil || !strings.HasPrefix(it.Obj().Pkg().Path(), modPath) {
		return nil
	}
	if !e.tracksResult(cc.Signature()) {
		return nil
	}
	iface, ok := it.Underlying().(*types.Interface)
	if !ok {
		return nil
	}
	var out []*ssa.Function
	seen := map[*ssa.Function]bool{}
	for _, p := range e.c.ModulePackages() {
		scope := p.Types.Scope()
		for _, n := range scope.Names() {
			tn, ok := scope.Lookup(n).(*types.TypeName)
			if !ok {
				continue
			}
			named, ok := tn.Type().(*types.Named)
			if !ok {
				continue
			}
			if _, isI := named.Underlying().(*types.Interface); isI {
				continue
			}
			for _, t := range []types.Type{named, types.NewPointer(named)} {
				if !types.Implements(t, iface) {
					continue
				}
				sel := e.c.Prog.MethodSets.MethodSet(t).Lookup(cc.Method.Pkg(), cc.Method.Name())
				if sel == nil {
					continue
				}
				f := e.c.Prog.MethodValue(sel)
				if f == nil {
					continue
				}
				if f.Synthetic != "" {
					if d := e.c.Prog.FuncValue(sel.Obj().(*types.Func)); d != nil && d.Blocks != nil {
						f = d
					}
				}
				if f.Blocks != nil && !seen[f] {
					seen[f] = true
					out = append(out, f)
				}
				break
			}
		}
	}
	return out
}

// inline interprets callee in the context of the call.
func (e *lfEngine) inline(fr *lfFrame, st *lfState, x *ssa.Call, callee *ssa.Function, bind []lfVal, recv lfVal, k func(st *lfState, res lfVal, fr *lfFrame)) {
	cc := &x.Call
	nf := &lfFrame{fn: callee, env: map[ssa.Value]lfVal{}, parent: fr, site: x, depth: fr.depth + 1, loops: naturalLoops(callee)}
	var args []lfVal
	if cc.IsInvoke() {
		// receiver: the dynamic value inside the interface if known, else unknown of the receiver type
		var rv lfVal
		if nv, ok := recv.(vNilable); ok && nv.Inner != nil {
			rv = nv.Inner
		}
		args = append(args, rv)
	}
	for _, a := range cc.Args {
		args = append(args, e.val(fr, st, a))
	}
	for i, p := range callee.Params {
		if i < len(args) && args[i] != nil && compatible(args[i], p.Type()) {
			nf.env[p] = args[i]
		} else {
			nf.env[p] = e.fresh(st, p.Type(), p.Name())
		}
	}
	for i, fv := range callee.FreeVars {
		if i < len(bind) {
			nf.env[fv] = bind[i]
		} else {
			nf.env[fv] = e.fresh(st, fv.Type(), fv.Name())
		}
	}
	if !e.analysed[callee] {
		e.analysed[callee] = true
		e.checkLoops(callee)
	}
	if e.onEnter != nil && e.quiet == 0 {
		e.onEnter(st, callee)
	}
	e.execFrom(nf, st, callee.Blocks[0], nil, 0, func(s2 *lfState, rets []lfVal) {
		var res lfVal
		switch len(rets) {
		case 0:
			res = vOpaque{}
		case 1:
			res = rets[0]
		default:
			res = vTuple(rets)
		}
		// the caller's environment must not be shared between return states
		k(s2, res, fr.cloneEnv())
	})
}

// compatible: the abstract value can stand for a parameter of type t.
func compatible(v lfVal, t types.Type) bool {
	switch v.(type) {
	case vInt:
		return isIntType(t)
	case vSlice:
		return sliceLike(t)
	case vFloat:
		return isFloatType(t)
	case vBoolConst, vCmp, vOpaqueBool, vNot:
		return isBoolType(t)
	case vPtr:
		_, ok := t.Underlying().(*types.Pointer)
		return ok
	case vFunc:
		_, ok := t.Underlying().(*types.Signature)
		return ok
	case vNilable:
		switch t.Underlying().(type) {
		case *types.Interface, *types.Signature, *types.Map, *types.Chan:
			return true
		}
		return false
	}
	return false
}

func (e *lfEngine) builtin(fr *lfFrame, st *lfState, x *ssa.Call, name string) lfVal {
	args := x.Call.Args
	switch name {
	case "len":
		if ln, ok := e.asSlice(st, e.val(fr, st, args[0]), args[0].Type(), valueName(args[0])); ok {
			return vInt{E: ln}
		}
		s := linSym(e.newSym("len(" + exprText(args[0]) + ")"))
		st.cons = append(st.cons, geq(s, linConst(0)))
		return vInt{E: s}
	case "cap":
		s := linSym(e.newSym("cap(" + exprText(args[0]) + ")"))
		if ln, ok := e.asSlice(st, e.val(fr, st, args[0]), args[0].Type(), valueName(args[0])); ok {
			st.cons = append(st.cons, geq(s, ln))
		} else {
			st.cons = append(st.cons, geq(s, linConst(0)))
		}
		return vInt{E: s}
	case "append":
		a, ok1 := e.asSlice(st, e.val(fr, st, args[0]), args[0].Type(), valueName(args[0]))
		if len(args) == 1 {
			return vSlice{Len: a}
		}
		b, ok2 := e.asSlice(st, e.val(fr, st, args[1]), args[1].Type(), valueName(args[1]))
		if ok1 && ok2 {
			return vSlice{Len: a.add(b, 1)}
		}
		return e.fresh(st, x.Type(), x.Name())
	case "copy":
		n := linSym(e.newSym("copy()"))
		st.cons = append(st.cons, geq(n, linConst(0)))
		// record whether a copy into a whole fixed-size array is total (used by C17)
		if sl, ok := args[0].(*ssa.Slice); ok && sl.Low == nil && sl.High == nil && e.quiet == 0 {
			if pt, ok := sl.X.Type().Underlying().(*types.Pointer); ok {
				if at, ok := pt.Elem().Underlying().(*types.Array); ok {
					if src, ok := e.asSlice(st, e.val(fr, st, args[1]), args[1].Type(), valueName(args[1])); ok {
						c := e.copyTotal[x]
						if c == nil {
							c = &lfCopy{}
							e.copyTotal[x] = c
						}
						if entails(st.cons, geq(src, linConst(at.Len()))) {
							c.Total++
						} else {
							c.Partial++
						}
					}
				}
			}
		}
		if a, ok := e.asSlice(st, e.val(fr, st, args[0]), args[0].Type(), valueName(args[0])); ok {
			st.cons = append(st.cons, leq(n, a))
		}
		if b, ok := e.asSlice(st, e.val(fr, st, args[1]), args[1].Type(), valueName(args[1])); ok {
			st.cons = append(st.cons, leq(n, b))
		}
		if e.bits && e.emitting() {
			dv, _ := e.val(fr, st, args[0]).(vSlice)
			src := e.renderVal(e.val(fr, st, args[1]))
			// []byte(string field), or the string field itself (copy accepts a string source)
			sv := args[1]
			if cv, ok := sv.(*ssa.Convert); ok {
				sv = cv.X
			}
			if ld, ok := sv.(*ssa.UnOp); ok && ld.Op == token.MUL {
				if bt, ok := ld.Type().Underlying().(*types.Basic); ok && bt.Kind() == types.String {
					if p, ok := e.val(fr, st, ld.X).(vPtr); ok {
						if pfx, isT := e.tracked[p.Obj]; isT {
							src = "f:" + pfx + strings.TrimPrefix(p.Path, ".")
						}
					}
				}
			}
			if dv.Org != nil {
				switch {
				case strings.HasPrefix(dv.Org.Name, "f:"):
					e.onStore(st, "field", strings.TrimPrefix(dv.Org.Name, "f:"), "copy("+src+")", x.Pos(), nil)
				case dv.Org.Name != "d":
					e.onStore(st, "wire", e.renderVal(dv), "copy("+src+")", x.Pos(), nil)
				}
			}
		}
		return vInt{E: n}
	case "min", "max":
		r := e.fresh(st, x.Type(), x.Name())
		if ri, ok := r.(vInt); ok {
			for _, a := range args {
				if ai, ok := e.val(fr, st, a).(vInt); ok {
					if name == "min" {
						st.cons = append(st.cons, leq(ri.E, ai.E))
					} else {
						st.cons = append(st.cons, geq(ri.E, ai.E))
					}
				}
			}
		}
		return r
	}
	return e.fresh(st, x.Type(), x.Name())
}

// contract models calls into code outside the module.
func (e *lfEngine) contract(fr *lfFrame, st *lfState, x *ssa.Call, name string) (lfVal, bool) {
	cc := &x.Call
	args := callArgs(cc)
	sliceArg := func(i int) (Lin, bool) {
		if i >= len(args) {
			return Lin{}, false
		}
		return e.asSlice(st, e.val(fr, st, args[i]), args[i].Type(), valueName(args[i]))
	}
	needLen := func(i int, n int64, what string) {
		if ln, ok := sliceArg(i); ok {
			e.require(fr, st, x, what+": "+exprText(args[i])+" has ≥ "+fmt.Sprint(n)+" bytes", geq(ln, linConst(n)))
		} else {
			e.unknownObl(fr, x, what, "argument is not a tracked slice")
		}
	}
	switch name {
	case "(encoding/binary.littleEndian).Uint16", "(encoding/binary.bigEndian).Uint16":
		needLen(0, 2, "binary.Uint16")
		return e.fresh(st, x.Type(), "u16"), true
	case "(encoding/binary.littleEndian).Uint32", "(encoding/binary.bigEndian).Uint32":
		needLen(0, 4, "binary.Uint32")
		return e.fresh(st, x.Type(), "u32"), true
	case "(encoding/binary.littleEndian).Uint64", "(encoding/binary.bigEndian).Uint64":
		needLen(0, 8, "binary.Uint64")
		return e.fresh(st, x.Type(), "u64"), true
	case "(encoding/binary.littleEndian).PutUint16", "(encoding/binary.bigEndian).PutUint16":
		needLen(0, 2, "binary.PutUint16")
		return vOpaque{}, true
	case "(encoding/binary.littleEndian).PutUint32", "(encoding/binary.bigEndian).PutUint32":
		needLen(0, 4, "binary.PutUint32")
		return vOpaque{}, true
	case "(encoding/binary.littleEndian).PutUint64", "(encoding/binary.bigEndian).PutUint64":
		needLen(0, 8, "binary.PutUint64")
		return vOpaque{}, true
	case "(crypto/cipher.Block).BlockSize":
		// field fact (checked separately by the who-writes rule): every store to an
		// AES128CBC.cipher field is the result of crypto/aes.NewCipher, whose blocks are 16 bytes
		if strings.HasSuffix(apOf(cc.Value).SelString(), fAesCipher) {
			return vInt{E: linConst(16)}, true
		}
		s := linSym(e.newSym("BlockSize()"))
		st.cons = append(st.cons, geq(s, linConst(1)))
		return vInt{E: s}, true
	case "crypto/cipher.NewCBCDecrypter", "crypto/cipher.NewCBCEncrypter":
		if ln, ok := sliceArg(1); ok {
			e.require(fr, st, x, "cipher.NewCBC*: len(iv) == block size 16", geq(ln, linConst(16)), leq(ln, linConst(16)))
		} else {
			e.unknownObl(fr, x, "cipher.NewCBC*: len(iv) == block size", "iv is not a tracked slice")
		}
		return vNilable{ID: e.id(), Nil: 2}, true
	case "(crypto/cipher.BlockMode).CryptBlocks":
		dst, ok1 := sliceArg(0)
		src, ok2 := sliceArg(1)
		if ok1 && ok2 {
			e.require(fr, st, x, "CryptBlocks: len(dst) ≥ len(src)", geq(dst, src))
			if e.quiet == 0 {
				o := e.obligation(fr, x, "CryptBlocks: len(src) is a multiple of the block size 16")
				if e.divisible(st, src, 16) {
					o.Proved++
				} else {
					o.Failed++
					if o.Why == "" {
						o.Why = "cannot show " + e.linString(src) + " ≡ 0 (mod 16)"
					}
				}
			}
		} else {
			e.unknownObl(fr, x, "CryptBlocks preconditions", "arguments are not tracked slices")
		}
		return vOpaque{}, true
	case "(hash.Hash).Sum":
		s := linSym(e.newSym("digestSize"))
		st.cons = append(st.cons, geq(s, linConst(0)))
		if ln, ok := sliceArg(0); ok {
			return vSlice{Len: ln.add(s, 1)}, true
		}
		return vSlice{Len: s}, true
	case "(hash.Hash).Write", "(io.Writer).Write":
		return vTuple{e.fresh(st, types.Typ[types.Int], "n"), vNilable{ID: e.id()}}, true
	case "(hash.Hash).Reset", "(github.com/google/gopacket.DecodeFeedback).SetTruncated":
		return vOpaque{}, true
	case "crypto/hmac.Equal":
		return vOpaqueBool{ID: e.id()}, true
	case "fmt.Errorf", "errors.New":
		return vNilable{ID: e.id(), Nil: 2}, true
	case "math.Ceil", "math.Floor":
		if f, ok := e.val(fr, st, args[0]).(vFloat); ok && f.Op == "" {
			op := "ceil"
			if name == "math.Floor" {
				op = "floor"
			}
			return vFloat{E: f.E, Den: f.Den, Op: op}, true
		}
		return vOpaque{}, true
	case "(*net.UDPConn).ReadFromUDP", "(*net.conn).Read", "(*net.conn).Write", "(*net.UDPConn).Write":
		n := linSym(e.newSym(shortName(name) + "#n"))
		st.cons = append(st.cons, geq(n, linConst(0)))
		if ln, ok := sliceArg(0); ok {
			st.cons = append(st.cons, leq(n, ln))
		}
		out := vTuple{vInt{E: n}}
		sig := cc.Signature()
		for i := 1; i < sig.Results().Len(); i++ {
			out = append(out, e.fresh(st, sig.Results().At(i).Type(), "r"))
		}
		return out, true
	case "crypto/rand.Read":
		// fills the whole slice (or returns an error): in bit-provenance mode that is a store of
		// every byte of the region
		if e.bits && e.emitting() && len(args) == 1 {
			if sv, ok := e.val(fr, st, args[0]).(vSlice); ok && sv.Org != nil && sv.Org.Name != "d" {
				st.events = append(st.events, lfEvent{Kind: "wire", Name: e.renderVal(sv), Val: "random", Pos: x.Pos()})
			}
		}
		return vTuple{e.fresh(st, types.Typ[types.Int], "n"), vNilable{ID: e.id()}}, true
	case "crypto/aes.NewCipher":
		return vTuple{vNilable{ID: e.id()}, vNilable{ID: e.id()}}, true
	case "(*bytes.Buffer).Bytes":
		return e.fresh(st, x.Type(), "buffer.Bytes()"), true
	case "(*bytes.Buffer).Write":
		return vTuple{e.fresh(st, types.Typ[types.Int], "n"), vNilable{ID: 0, Nil: 1}}, true
	}
	return nil, false
}

// divisible decides e ≡ 0 (mod m) using the equalities in the store: symbols
// pinned to a constant are substituted, quotient/remainder definitions
// a = m'·q + r are used to rewrite a, then all coefficients must be multiples of m.
func (e *lfEngine) divisible(st *lfState, x Lin, m int64) bool {
	// equalities of the store: pairs c and -c both present (after tightening)
	var eqs []Lin
	keys := map[string]bool{}
	for _, c := range st.cons {
		keys[c.tighten().E.key()] = true
	}
	seenEq := map[string]bool{}
	for _, c := range st.cons {
		ct := c.tighten().E
		neg := Cons{ct.scale(-1)}.tighten().E
		if keys[neg.key()] && !seenEq[ct.key()] && !seenEq[neg.key()] {
			seenEq[ct.key()] = true
			eqs = append(eqs, ct)
		}
	}
	sort.Slice(eqs, func(i, j int) bool { return eqs[i].key() < eqs[j].key() })
	// symbols pinned to a constant
	pinned := map[Sym]int64{}
	pin := func(s Sym) (int64, bool) {
		if v, ok := pinned[s]; ok {
			return v, v != 1<<62
		}
		for c := int64(0); c <= 64; c++ {
			for _, v := range []int64{c, -c} {
				if entails(st.cons, geq(linSym(s), linConst(v))) && entails(st.cons, leq(linSym(s), linConst(v))) {
					pinned[s] = v
					return v, true
				}
			}
		}
		pinned[s] = 1 << 62
		return 0, false
	}
	isDiv := func(a Lin) bool {
		for _, k := range a.T {
			if k%m != 0 {
				return false
			}
		}
		return a.C%m == 0
	}
	visited := map[string]bool{}
	var dfs func(cur Lin, depth int) bool
	dfs = func(cur Lin, depth int) bool {
		if isDiv(cur) {
			return true
		}
		if depth == 0 || visited[cur.key()] {
			return false
		}
		visited[cur.key()] = true
		for _, s := range cur.syms() { // deterministic order
			k := cur.T[s]
			if k%m == 0 {
				continue
			}
			if v, ok := pin(s); ok {
				if dfs(linSubst(cur, s, linConst(v)), depth-1) {
					return true
				}
				continue
			}
			for _, eq := range eqs {
				if ck := eq.T[s]; ck == 1 || ck == -1 {
					rest := eq.add(linSym(s), -ck).scale(-ck) // s = rest
					if dfs(linSubst(cur, s, rest), depth-1) {
						return true
					}
				}
			}
		}
		return false
	}
	return dfs(x, 10)
}

// ---------------------------------------------------------------- termination templates

// checkLoops classifies every natural loop of fn.
func (e *lfEngine) checkLoops(fn *ssa.Function) {
	for i, l := range naturalLoops(fn) {
		key := fmt.Sprintf("%s|loop#%d", e.c.FnName(fn), i)
		if _, ok := e.loopsSeen[key]; ok {
			continue
		}
		e.loopPos[key] = firstPos(l.Header)
		verdict := ""
		switch {
		case countingLoop(l.blockList()):
			verdict = "ok: counting loop (induction variable with positive constant step tested against a loop-invariant bound)"
		case shrinkingSliceLoop(l, nil):
			verdict = "ok: the loop re-slices its input by a positive offset on every iteration while it is non-empty"
		case loopHasCtxCall(fn, l):
			verdict = "ok: every iteration makes a context-bounded exchange (bounded by the context, see C13/C16)"
		default:
			verdict = "unknown: no ranking argument found"
			e.loopPend[key] = l
		}
		e.loopsSeen[key] = verdict
	}
}

// resolveLoops decides the loops left without a syntactic ranking argument from what the
// engine established while executing them: a loop over a slice that is re-sliced, on every
// back edge, by an offset the engine proved ≥ 1 in every state (through helpers, tuple
// results and inner scanning loops alike). To be called after all runs are merged.
func (e *lfEngine) resolveLoops() {
	for key, l := range e.loopPend {
		if shrinkingSliceLoop(l, e.sliceLow) {
			e.loopsSeen[key] = "ok: the loop re-slices its input on every iteration by an offset proved ≥ 1 (engine E1), while it is non-empty"
			delete(e.loopPend, key)
		}
	}
}

// shrinkingSliceLoop: header φ s with back-edge value s[k:], k ≥ 1, and an exit test on len(s).
func shrinkingSliceLoop(l *Loop, proved map[*ssa.Slice]int8) bool {
	for _, in := range l.Header.Instrs {
		ph, ok := in.(*ssa.Phi)
		if !ok {
			continue
		}
		shrinks := false
		for i, ed := range ph.Edges {
			if !l.Blocks[l.Header.Preds[i]] {
				continue
			}
			sl, ok := ed.(*ssa.Slice)
			if !ok || sl.X != ssa.Value(ph) || sl.Low == nil || sl.High != nil {
				return false
			}
			if lb, ok := lowerBound(sl.Low); !ok || lb < 1 {
				if proved == nil || proved[sl] != 1 {
					return false
				}
			}
			shrinks = true
		}
		if !shrinks {
			continue
		}
		// exit test len(s) > 0 / != 0
		if ifi, ok := l.Header.Instrs[len(l.Header.Instrs)-1].(*ssa.If); ok {
			_, x, _, _, isBin := condOf(ifi.Cond)
			if isBin {
				if arg, isLen := lenOf(x); isLen && arg == ssa.Value(ph) {
					return true
				}
			}
		}
	}
	return false
}

func loopHasCtxCall(fn *ssa.Function, l *Loop) bool {
	for b := range l.Blocks {
		for _, in := range b.Instrs {
			if cc := asCall(in); cc != nil {
				for _, a := range cc.Args {
					if isContextType(a.Type()) && ctxProvenance(fn, a) == "param" && !strings.HasPrefix(calleeName(cc), "context.") {
						return true
					}
				}
			}
		}
	}
	return false
}

var _ = token.ADD

// ---------------------------------------------------------------- bits mode (engine E2) call models

func (e *lfEngine) bufName(st *lfState, kind string) string {
	key := "#" + kind
	n := int64(0)
	if v, ok := st.heap[key].(vInt); ok {
		n, _ = v.E.isConst()
	}
	n++
	st.heap[key] = vInt{E: linConst(n)}
	if n == 1 {
		return kind
	}
	return fmt.Sprintf("%s%d", kind, n)
}

// elemBits fetches the bit provenance of element k of the array/slice value v
// (through the heap: local arrays and output buffers are written element-wise).
func (e *lfEngine) elemBits(fr *lfFrame, st *lfState, v ssa.Value, k int64) *bv {
	switch x := v.(type) {
	case *ssa.UnOp: // load of a local array
		if p, ok := e.val(fr, st, x.X).(vPtr); ok {
			key := fmt.Sprintf("%d%s[%s]", p.Obj, p.Path, linConst(k).key())
			if iv, ok := st.heap[key].(vInt); ok {
				if iv.B != nil {
					return iv.B
				}
				if c, isC := iv.E.isConst(); isC {
					return bvConst(c, 8)
				}
			}
		}
	case *ssa.Slice:
		if sv, ok := e.val(fr, st, x).(vSlice); ok && sv.Org != nil {
			if off, isK := sv.Org.Off.isConst(); isK {
				if sv.Org.Name == "d" {
					return bvSrc(fmt.Sprintf("d%d", off+k), 8)
				}
				key := fmt.Sprintf("%d[%s]", -50000-sv.Org.ID, linConst(off+k).key())
				if iv, ok := st.heap[key].(vInt); ok && iv.B != nil {
					return iv.B
				}
			}
		}
		// slice of a local array: x.X is the alloc
		if p, ok := e.val(fr, st, x.X).(vPtr); ok {
			lo := int64(0)
			if x.Low != nil {
				if li, ok := e.val(fr, st, x.Low).(vInt); ok {
					lo, _ = li.E.isConst()
				}
			}
			key := fmt.Sprintf("%d%s[%s]", p.Obj, p.Path, linConst(lo+k).key())
			if iv, ok := st.heap[key].(vInt); ok {
				if iv.B != nil {
					return iv.B
				}
				if c, isC := iv.E.isConst(); isC {
					return bvConst(c, 8)
				}
			}
		}
	}
	// whatever the SSA form (a helper's slice parameter, a φ): a window on a tracked buffer
	if sv, ok := e.val(fr, st, v).(vSlice); ok && sv.Org != nil {
		if off, isK := sv.Org.Off.isConst(); isK {
			if sv.Org.Name == "d" {
				return bvSrc(fmt.Sprintf("d%d", off+k), 8)
			}
			key := fmt.Sprintf("%d[%s]", -50000-sv.Org.ID, linConst(off+k).key())
			if iv, ok := st.heap[key].(vInt); ok && iv.B != nil {
				return iv.B
			}
		}
	}
	return nil
}

// elemLin returns element k of a slice of a local array as a linear form when
// the engine holds one (a byte computed from a length, say).
func (e *lfEngine) elemLin(fr *lfFrame, st *lfState, v ssa.Value, k int64) (Lin, bool) {
	x, ok := v.(*ssa.Slice)
	if !ok {
		return Lin{}, false
	}
	p, ok := e.val(fr, st, x.X).(vPtr)
	if !ok {
		return Lin{}, false
	}
	lo := int64(0)
	if x.Low != nil {
		if li, ok := e.val(fr, st, x.Low).(vInt); ok {
			lo, _ = li.E.isConst()
		}
	}
	key := fmt.Sprintf("%d%s[%s]", p.Obj, p.Path, linConst(lo+k).key())
	if iv, ok := st.heap[key].(vInt); ok {
		return iv.E, true
	}
	return Lin{}, false
}

func concatLE(parts []*bv) *bv {
	out := &bv{}
	for _, p := range parts {
		if p == nil || p.Tag != "" {
			return nil
		}
		out.Bits = append(out.Bits, p.resize(8, false).Bits...)
	}
	return out
}

// roleName maps a module helper that is recognised by what it is (shape or
// signature) to the canonical name the bit-provenance summaries are keyed by,
// so that renaming an unexported helper does not change any layout.
// normSig is sigKey with the byte alias spelled uint8.
func normSig(sig *types.Signature) string {
	return strings.ReplaceAll(sigKey(sig), "byte", "uint8")
}

func (e *lfEngine) roleName(cc *ssa.CallCommon, name string) string {
	// the self-test fixture module declares its own SerializeBuffer with the two methods the
	// engine has contracts for
	if modPath == "fixtures" && cc.IsInvoke() {
		switch name {
		case "(fixtures.SerializeBuffer).PrependBytes":
			return "(github.com/google/gopacket.SerializeBuffer).PrependBytes"
		case "(fixtures.SerializeBuffer).AppendBytes":
			return "(github.com/google/gopacket.SerializeBuffer).AppendBytes"
		}
	}
	f := cc.StaticCallee()
	if f == nil || f.Blocks == nil || f.Signature.Recv() != nil || !e.c.InModule(f) {
		return name
	}
	roleMu.Lock()
	defer roleMu.Unlock()
	if r, ok := roleCache[f]; ok {
		if r != "" {
			return r
		}
		return name
	}
	r := ""
	switch normSig(f.Signature) {
	case "func([]uint8)(uint8)":
		if checksumShape(f) {
			r = modPath + "/pkg/ipmi.checksum"
		}
	case "func(uint8)(time.Duration)":
		if f.Pkg != nil && e.c.libFn(f) {
			r = modPath + "/pkg/dcmi.rollingAvgPeriodDuration"
		}
	case "func(time.Duration)(uint8)":
		if f.Pkg != nil && e.c.libFn(f) {
			r = modPath + "/pkg/dcmi.rollingAvgPeriodByte"
		}
	}
	roleCache[f] = r
	if r != "" {
		return r
	}
	return name
}

var (
	roleMu    sync.Mutex
	roleCache = map[*ssa.Function]string{}
)

func (e *lfEngine) bitsIntercept(fr *lfFrame, st *lfState, x *ssa.Call, name string) (lfVal, bool) {
	cc := &x.Call
	args := callArgs(cc)
	emit := func(kind, n, v string, b ...*bv) {
		if e.emitting() {
			var bb *bv
			if len(b) > 0 {
				bb = b[0]
			}
			e.onStore(st, kind, n, v, x.Pos(), bb)
		}
	}
	if os.Getenv("DBG_CALLS") != "" {
		fmt.Fprintln(os.Stderr, "bitsIntercept:", name, len(args))
	}
	switch name {
	case "(github.com/google/gopacket.SerializeBuffer).PrependBytes", "(github.com/google/gopacket.SerializeBuffer).AppendBytes":
		kind := "pre"
		if strings.HasSuffix(name, "AppendBytes") {
			kind = "app"
		}
		n := e.asInt(st, e.val(fr, st, args[0]), args[0].Type(), "n")
		e.require(fr, st, x, kind+"pend length ≥ 0", geq(n, linConst(0)))
		if cur, ok := st.heap["#buflen"].(vInt); ok {
			st.heap["#buflen"] = vInt{E: cur.E.add(n, 1)}
		}
		bn := e.bufName(st, kind)
		emit("len", bn, e.linString(n))
		if e.emitting() && len(st.events) > 0 {
			nn := n
			st.events[len(st.events)-1].L = &nn
		}
		return vTuple{vSlice{Len: n, Org: &sliceOrg{ID: e.id(), Name: bn, Off: linConst(0)}}, vNilable{ID: e.id()}}, true
	case "(github.com/google/gopacket.SerializeBuffer).Bytes":
		// the buffer's current length: constant between two grow operations
		var s Lin
		if cur, ok := st.heap["#buflen"].(vInt); ok {
			s = cur.E
		} else {
			s = linSym(e.newSym("len(buffer)"))
			// a UDP datagram under construction: below 64 KiB (stated assumption)
			st.cons = append(st.cons, geq(s, linConst(0)), leq(s, linConst(65535)))
			st.heap["#buflen"] = vInt{E: s}
		}
		bn := e.bufName(st, "buf")
		if e.emitting() {
			e.onStore(st, "len", bn, e.linString(s), x.Pos(), nil)
			ss := s
			st.events[len(st.events)-1].L = &ss
		}
		return vSlice{Len: s, Org: &sliceOrg{ID: e.id(), Name: bn, Off: linConst(0)}}, true
	case "(encoding/binary.littleEndian).Uint16", "(encoding/binary.littleEndian).Uint32", "(encoding/binary.bigEndian).Uint16", "(encoding/binary.bigEndian).Uint32":
		nb := int64(2)
		if strings.HasSuffix(name, "32") {
			nb = 4
		}
		if ln, ok := e.asSlice(st, e.val(fr, st, args[0]), args[0].Type(), valueName(args[0])); ok {
			e.require(fr, st, x, "binary.Uint: "+exprText(args[0])+" has ≥ "+fmt.Sprint(nb)+" bytes", geq(ln, linConst(nb)))
		}
		res := e.fresh(st, x.Type(), "u").(vInt)
		var parts []*bv
		for i := int64(0); i < nb; i++ {
			parts = append(parts, e.elemBits(fr, st, args[0], i))
		}
		if strings.Contains(name, "bigEndian") {
			for i, j := 0, len(parts)-1; i < j; i, j = i+1, j-1 {
				parts[i], parts[j] = parts[j], parts[i]
			}
		}
		if b := concatLE(parts); b != nil {
			res = e.withBits(res, b)
		}
		return res, true
	case "(hash.Hash).Sum", "(hash.Hash).Reset":
		// markers that delimit one digest computation on one hash object (the value itself is
		// produced by the contract model)
		if cc.IsInvoke() && isHashHash(cc.Value.Type()) && e.emitting() {
			emit("hashop", strings.TrimPrefix(name, "(hash.Hash)."), "")
			if n := len(st.events); n > 0 && st.events[n-1].Kind == "hashop" {
				st.events[n-1].Recv = objIdent(e.val(fr, st, cc.Value))
				st.events[n-1].RootPos = rootCallPos(fr, x)
			}
		}
		return nil, false
	case "(hash.Hash).Write", "(io.Writer).Write":
		// the hash input is modelled as an append-only byte stream "h": what is written, in order
		if len(args) != 1 || !cc.IsInvoke() || !isHashHash(cc.Value.Type()) {
			return nil, false
		}
		recvID := objIdent(e.val(fr, st, cc.Value))
		nev0 := len(st.events)
		defer func() {
			for i := nev0; i < len(st.events); i++ {
				if st.events[i].Kind == "hash" {
					st.events[i].Recv = recvID
					st.events[i].RootPos = rootCallPos(fr, x)
				}
			}
		}()
		sv := e.val(fr, st, args[0])
		ln, okLen := e.asSlice(st, sv, args[0].Type(), "p")
		cur := linConst(0)
		if c0, ok := st.heap["#hashlen"].(vInt); ok {
			cur = c0.E
		}
		done := false
		if n, isK := ln.isConst(); okLen && isK && n >= 0 && n <= 64 {
			var parts []string
			var bvs []*bv
			all := true
			for k := int64(0); k < n; k++ {
				if b := e.elemBits(fr, st, args[0], k); b != nil {
					parts = append(parts, b.render())
					bvs = append(bvs, b)
				} else if ev, ok := e.elemLin(fr, st, args[0], k); ok {
					parts = append(parts, "lin("+e.linString(ev)+")")
					bvs = append(bvs, nil)
				} else {
					all = false
				}
			}
			if all {
				for k, ptxt := range parts {
					emit("hash", "h["+e.linString(cur.addConst(int64(k)))+"]", ptxt, bvs[k])
				}
				done = true
			}
		}
		if !done {
			src := e.renderVal(sv)
			av := args[0]
			if cv, ok := av.(*ssa.Convert); ok {
				av = cv.X
			}
			if ld, ok := av.(*ssa.UnOp); ok && ld.Op == token.MUL {
				if bt, ok := ld.Type().Underlying().(*types.Basic); ok && bt.Kind() == types.String {
					if p, ok := e.val(fr, st, ld.X).(vPtr); ok {
						if pfx, isT := e.tracked[p.Obj]; isT {
							src = "f:" + pfx + strings.TrimPrefix(p.Path, ".")
						}
					}
				}
			}
			lens := "?"
			if okLen {
				lens = e.linString(ln)
			}
			emit("hash", "h["+e.linString(cur)+":+"+lens+"]", "copy("+src+")")
		}
		if okLen {
			st.heap["#hashlen"] = vInt{E: cur.add(ln, 1)}
		}
		return vTuple{e.fresh(st, types.Typ[types.Int], "n"), vNilable{ID: e.id()}}, true
	case "(encoding/binary.littleEndian).PutUint16", "(encoding/binary.littleEndian).PutUint32", "(encoding/binary.bigEndian).PutUint16", "(encoding/binary.bigEndian).PutUint32":
		nb := int64(2)
		if strings.HasSuffix(name, "32") {
			nb = 4
		}
		sv, ok := e.val(fr, st, args[0]).(vSlice)
		if ok {
			e.require(fr, st, x, "binary.PutUint: "+exprText(args[0])+" has ≥ "+fmt.Sprint(nb)+" bytes", geq(sv.Len, linConst(nb)))
		}
		val, _ := e.val(fr, st, args[1]).(vInt)
		vb := val.B
		if vb == nil {
			if k, isK := val.E.isConst(); isK {
				vb = bvConst(k, int(nb*8))
			}
		}
		if ok && sv.Org != nil {
			if off, isK := sv.Org.Off.isConst(); isK {
				for i := int64(0); i < nb; i++ {
					j := i
					if strings.Contains(name, "bigEndian") {
						j = nb - 1 - i
					}
					var byteB *bv
					if vb != nil && vb.Tag == "" {
						byteB = &bv{Bits: vb.resize(int(nb*8), false).Bits[j*8 : j*8+8]}
					}
					bval := vInt{E: e.fresh(st, types.Typ[types.Uint8], "b").(vInt).E, B: byteB}
					st.heap[fmt.Sprintf("%d[%s]", -50000-sv.Org.ID, linConst(off+i).key())] = bval
					if sv.Org.Name != "d" {
						if byteB != nil {
							emit("wire", fmt.Sprintf("%s[%d]", sv.Org.Name, off+i), e.renderVal(bval), byteB)
						} else {
							emit("wire", fmt.Sprintf("%s[%d]", sv.Org.Name, off+i), fmt.Sprintf("byte%d(%s)", j, e.renderVal(val)))
						}
					}
				}
			}
		} else if p, isP := e.val(fr, st, sliceBase(args[0])).(vPtr); isP {
			// local array buffer: buf[:] — store element-wise
			delete(st.heap, fmt.Sprintf("%d%s", p.Obj, p.Path)) // the array as a whole is no longer what was last stored
			for i := int64(0); i < nb; i++ {
				j := i
				if strings.Contains(name, "bigEndian") {
					j = nb - 1 - i
				}
				var byteB *bv
				if vb != nil && vb.Tag == "" {
					byteB = &bv{Bits: vb.resize(int(nb*8), false).Bits[j*8 : j*8+8]}
				}
				st.heap[fmt.Sprintf("%d%s[%s]", p.Obj, p.Path, linConst(i).key())] = vInt{E: e.fresh(st, types.Typ[types.Uint8], "b").(vInt).E, B: byteB}
			}
		}
		return vOpaque{}, true
	case "github.com/gebn/bmc/internal/pkg/bcd.Decode":
		a, _ := e.val(fr, st, args[0]).(vInt)
		res := e.fresh(st, x.Type(), "bcd").(vInt)
		for s := range res.E.T {
			e.symNames[s] = "bcd(" + e.renderVal(a) + ")"
		}
		res.B = bvTagged("bcd", 8, a.B)
		if a.B == nil {
			res.B = nil
		}
		return res, true
	case "github.com/gebn/bmc/internal/pkg/complement.Twos":
		n, _ := e.val(fr, st, args[1]).(vInt)
		k, _ := n.E.isConst()
		hi, lo := e.elemBits(fr, st, args[0], 0), e.elemBits(fr, st, args[0], 1)
		res := e.fresh(st, x.Type(), "twos").(vInt)
		if hi != nil && lo != nil {
			if cat := concatLE([]*bv{lo, hi}); cat != nil {
				// sign-extend from k bits
				if k > 0 && int(k) <= len(cat.Bits) {
					inner := &bv{Bits: cat.Bits[:k]}
					// upper bits must be zero for the helper's identity to hold
					clean := true
					for _, b := range cat.Bits[k:] {
						if b.K != '0' {
							clean = false
						}
					}
					if clean {
						res = e.withBits(res, inner.resize(16, true))
					} else {
						res.B = bvTagged(fmt.Sprintf("twos%d-dirty", k), 16, cat)
					}
				}
			}
		}
		return res, true
	case "github.com/gebn/bmc/internal/pkg/complement.Ones":
		a, _ := e.val(fr, st, args[0]).(vInt)
		res := e.fresh(st, x.Type(), "ones").(vInt)
		if a.B != nil {
			res.B = bvTagged("ones", 8, a.B)
		}
		return res, true
	case "github.com/gebn/bmc/pkg/ipmi.checksum":
		res := e.fresh(st, x.Type(), "checksum").(vInt)
		res.B = bvTagged("checksum:"+e.renderVal(e.val(fr, st, args[0])), 8)
		// remember what the digest covers, so that a comparison with it becomes an event
		if sv, ok := e.val(fr, st, args[0]).(vSlice); ok && sv.Org != nil && len(res.E.T) == 1 {
			for sy := range res.E.T {
				if e.sumOf == nil {
					e.sumOf = map[Sym]lfSumRef{}
				}
				e.sumOf[sy] = lfSumRef{Org: sv.Org.Name, Off: sv.Org.Off, Len: sv.Len}
			}
		}
		return res, true
	case "github.com/gebn/bmc/pkg/dcmi.rollingAvgPeriodDuration", "github.com/gebn/bmc/pkg/dcmi.rollingAvgPeriodByte":
		a := e.val(fr, st, args[0])
		res := e.fresh(st, x.Type(), "ravg")
		if ri, ok := res.(vInt); ok {
			tag := "ravgDuration"
			if strings.HasSuffix(name, "Byte") {
				tag = "ravgByte"
			}
			ri.B = bvTagged(tag+":"+e.renderVal(a), typeBits(x.Type()))
			return ri, true
		}
		return res, true
	case "time.Unix":
		a := e.val(fr, st, args[0])
		return vNilable{ID: e.id(), Nil: 2, Inner: vInt{E: linConst(0), B: bvTagged("unix:"+e.renderVal(a), 64)}}, true
	}
	return nil, false
}

func sliceBase(v ssa.Value) ssa.Value {
	if sl, ok := v.(*ssa.Slice); ok {
		return sl.X
	}
	return v
}

// objIdent names the object a value denotes, for telling two hash objects apart on a path.
func objIdent(v lfVal) string {
	switch x := v.(type) {
	case vNilable:
		return fmt.Sprintf("i%d", x.ID)
	case vPtr:
		return fmt.Sprintf("p%d%s", x.Obj, x.Path)
	}
	return fmt.Sprintf("?%T", v)
}

// rootCallPos: the position of the call in the entry function within which x is executed.
func rootCallPos(fr *lfFrame, x *ssa.Call) token.Pos {
	for fr != nil && fr.parent != nil && fr.site != nil {
		x = fr.site
		fr = fr.parent
	}
	return x.Pos()
}
