package main

import (
	"fmt"
	"go/ast"
	"go/token"
	"go/types"
	"os"
	"path/filepath"
	"sort"
	"strings"

	"golang.org/x/tools/go/packages"
	"golang.org/x/tools/go/ssa"
	"golang.org/x/tools/go/ssa/ssautil"
)

// modPath is the module under analysis (a variable so that the self-test can
// point the engines at the fixture module).
var modPath = "github.com/gebn/bmc"

var minModulePackages = 8

// Ctx is the loaded, type-checked program plus lookup helpers. Everything a
// rule looks at comes from here; nothing is executed.
type Ctx struct {
	Repo  string
	Tier  string
	Arch  string
	Fset  *token.FileSet
	Pkgs  map[string]*packages.Package // by import path
	SSA   map[string]*ssa.Package      // by import path
	Prog  *ssa.Program
	All   map[*ssa.Function]bool // all functions incl. anonymous ones, whole program
	ModFn []*ssa.Function        // module functions (sorted), non-test
}

// loadRepo parses and type-checks the working tree at dir and builds SSA for
// the whole program (dependencies included, so that contracts about gopacket
// and backoff can be re-checked structurally in the thorough tier).
func loadRepo(dir, tier, arch string) (*Ctx, error) {
	env := append(os.Environ(), "GOFLAGS=-mod=mod", "GOPROXY=off", "GOSUMDB=off", "GOWORK=off", "GOTOOLCHAIN=local", "CGO_ENABLED=0")
	if arch != "" {
		env = append(env, "GOARCH="+arch)
	}
	cfg := &packages.Config{Mode: packages.LoadAllSyntax, Dir: dir, Env: env, Tests: false}
	pkgs, err := packages.Load(cfg, "./...")
	if err != nil {
		return nil, err
	}
	if len(pkgs) == 0 {
		return nil, fmt.Errorf("no packages loaded from %s", dir)
	}
	var errs []string
	packages.Visit(pkgs, nil, func(p *packages.Package) {
		for _, e := range p.Errors {
			errs = append(errs, e.Error())
		}
	})
	if len(errs) > 0 {
		return nil, fmt.Errorf("type-check/load errors: %s", strings.Join(errs, "; "))
	}
	prog, _ := ssautil.AllPackages(pkgs, ssa.InstantiateGenerics)
	prog.Build()
	c := &Ctx{Repo: dir, Tier: tier, Arch: arch, Prog: prog, Pkgs: map[string]*packages.Package{}, SSA: map[string]*ssa.Package{}}
	packages.Visit(pkgs, nil, func(p *packages.Package) {
		c.Pkgs[p.PkgPath] = p
		if c.Fset == nil {
			c.Fset = p.Fset
		}
		if sp := prog.Package(p.Types); sp != nil {
			c.SSA[p.PkgPath] = sp
		}
	})
	nmod := 0
	for path := range c.Pkgs {
		if path == modPath || strings.HasPrefix(path, modPath+"/") {
			nmod++
		}
	}
	if nmod < minModulePackages {
		return nil, fmt.Errorf("only %d module packages loaded (expected >= %d)", nmod, minModulePackages)
	}
	c.resolveFieldNames()
	flatInModule = func(f *ssa.Function) bool { return c.InModule(f) && !c.isCmd(f) }
	resetFlatCache()
	sentinelMu.Lock()
	sentinelCache = map[*ssa.Global]bool{}
	sentinelMu.Unlock()
	flatSentinel = c.sentinelError
	flatProg = prog
	c.All = ssautil.AllFunctions(prog)
	for fn := range c.All {
		if c.InModule(fn) && !c.isCmd(fn) {
			c.ModFn = append(c.ModFn, fn)
		}
	}
	sort.Slice(c.ModFn, func(i, j int) bool {
		a, b := c.ModFn[i], c.ModFn[j]
		if a.String() != b.String() {
			return a.String() < b.String()
		}
		return a.Pos() < b.Pos()
	})
	c.indexBoundMethods()
	c.indexDirectCallers()
	// the three algorithm-table functions (algorithm number → hash/cipher object) are anchors
	// with rules of their own (C01/C03/C12 algorithm-tables); spliced into the session
	// constructor they would multiply its paths by the product of their case counts
	{
		a, i, k := c.algorithmCtors()
		markOpaque(a, i, k)
	}
	return c, nil
}

func fnPkg(fn *ssa.Function) *ssa.Package {
	for fn != nil {
		if fn.Pkg != nil {
			return fn.Pkg
		}
		if fn.Parent() != nil {
			fn = fn.Parent()
			continue
		}
		// wrappers/thunks/bound methods of module types
		if fn.Object() != nil && fn.Object().Pkg() != nil {
			return fn.Prog.Package(fn.Object().Pkg())
		}
		return nil
	}
	return nil
}

func (c *Ctx) InModule(fn *ssa.Function) bool {
	p := fnPkg(fn)
	if p == nil {
		return false
	}
	path := p.Pkg.Path()
	return path == modPath || strings.HasPrefix(path, modPath+"/")
}

// libFn: a function of one of the module's library packages (wherever in the module the
// code lives: the root package, pkg/…, internal/… — not the example commands).
func (c *Ctx) libFn(fn *ssa.Function) bool {
	return c.InModule(fn) && !c.isCmd(fn)
}

func (c *Ctx) isCmd(fn *ssa.Function) bool {
	p := fnPkg(fn)
	return p != nil && strings.HasPrefix(p.Pkg.Path(), modPath+"/cmd/")
}

// LibFuncs returns the module's library functions that have bodies and are
// written in source (no synthetic wrappers).
func (c *Ctx) LibFuncs() []*ssa.Function {
	var out []*ssa.Function
	for _, fn := range c.ModFn {
		if fn.Blocks != nil && fn.Synthetic == "" {
			out = append(out, fn)
		}
	}
	return out
}

func pkgPath(rel string) string {
	if rel == "" || rel == "." {
		return modPath
	}
	return modPath + "/" + rel
}

func (c *Ctx) Pkg(rel string) *ssa.Package { return c.SSA[pkgPath(rel)] }

func (c *Ctx) TPkg(rel string) *types.Package {
	if p := c.Pkgs[pkgPath(rel)]; p != nil {
		return p.Types
	}
	return nil
}

// ExtPkg returns the types.Package for an arbitrary import path.
func (c *Ctx) ExtPkg(path string) *types.Package {
	if p := c.Pkgs[path]; p != nil {
		return p.Types
	}
	return nil
}

// Named looks up a named type in a module package.
func (c *Ctx) Named(rel, name string) *types.Named {
	p := c.TPkg(rel)
	if p == nil {
		return nil
	}
	o := p.Scope().Lookup(name)
	if o == nil {
		return nil
	}
	n, _ := o.Type().(*types.Named)
	return n
}

// Func finds a package-level function.
func (c *Ctx) Func(rel, name string) *ssa.Function {
	p := c.Pkg(rel)
	if p == nil {
		return nil
	}
	return p.Func(name)
}

// Method finds a method (value or pointer receiver) of a named module type.
func (c *Ctx) Method(rel, typ, name string) *ssa.Function {
	n := c.Named(rel, typ)
	if n == nil {
		return nil
	}
	return c.MethodOf(n, name)
}

func (c *Ctx) MethodOf(n *types.Named, name string) *ssa.Function {
	for _, t := range []types.Type{n, types.NewPointer(n)} {
		ms := c.Prog.MethodSets.MethodSet(t)
		for i := 0; i < ms.Len(); i++ {
			sel := ms.At(i)
			if sel.Obj().Name() == name {
				f := c.Prog.MethodValue(sel)
				// unwrap the synthetic pointer wrapper to the declared method
				if f != nil && f.Synthetic != "" {
					if d := c.Prog.FuncValue(sel.Obj().(*types.Func)); d != nil {
						return d
					}
				}
				return f
			}
		}
	}
	return nil
}

// Field returns the *types.Var of a (possibly promoted through embedding)
// field of a named struct type.
func (c *Ctx) Field(n *types.Named, name string) *types.Var {
	if n == nil {
		return nil
	}
	obj, _, _ := types.LookupFieldOrMethod(n, true, nil, name)
	if obj == nil && n.Obj().Pkg() != nil {
		obj, _, _ = types.LookupFieldOrMethod(n, true, n.Obj().Pkg(), name)
	}
	v, _ := obj.(*types.Var)
	return v
}

// Pos renders a position relative to the repository root.
func (c *Ctx) Pos(p token.Pos) string {
	if !p.IsValid() {
		return "-"
	}
	pp := c.Fset.Position(p)
	rel, err := filepath.Rel(c.Repo, pp.Filename)
	if err != nil || strings.HasPrefix(rel, "..") {
		rel = pp.Filename
		if i := strings.Index(rel, "/pkg/mod/"); i >= 0 {
			rel = rel[i+len("/pkg/mod/"):]
		}
	}
	return fmt.Sprintf("%s:%d", rel, pp.Line)
}

// FnName is a stable printable name of a function: pkg-relative, closures as
// parent$N.
func (c *Ctx) FnName(fn *ssa.Function) string {
	s := fn.String()
	s = strings.ReplaceAll(s, modPath+"/", "")
	s = strings.ReplaceAll(s, modPath+".", "bmc.")
	s = strings.ReplaceAll(s, modPath, "bmc")
	return s
}

// FileOf returns the syntax file containing pos within module packages.
func (c *Ctx) FileOf(pos token.Pos) (*packages.Package, *ast.File) {
	for _, p := range c.Pkgs {
		if !(p.PkgPath == modPath || strings.HasPrefix(p.PkgPath, modPath+"/")) {
			continue
		}
		for _, f := range p.Syntax {
			if f.Pos() <= pos && pos < f.End() {
				return p, f
			}
		}
	}
	return nil, nil
}

// ModulePackages returns the library packages of the module (cmd/ excluded), sorted.
func (c *Ctx) ModulePackages() []*packages.Package {
	var out []*packages.Package
	for path, p := range c.Pkgs {
		if (path == modPath || strings.HasPrefix(path, modPath+"/")) && !strings.HasPrefix(path, modPath+"/cmd/") {
			out = append(out, p)
		}
	}
	sort.Slice(out, func(i, j int) bool { return out[i].PkgPath < out[j].PkgPath })
	return out
}
