package main

import (
	"fmt"
	"go/token"
	"regexp"
	"sort"
	"strconv"
	"strings"

	"golang.org/x/tools/go/ssa"
)

func init() { register("C08", checkC08) }

type layerShape struct {
	Name  string
	Ints  map[string]int64
	Bools map[string]bool
}

type twoWayLayer struct {
	Pkg, Type string
	Ser, Dec  string
	Buf       string // output buffer aligned with decoder offset 0
	Widths    map[string]int
	Shapes    []layerShape
	Computed  map[string]bool // fields whose wire bytes are computed on serialisation (lengths, checksums)
	Sweep     map[string]int  // discriminating field → number of values (0…n−1, its wire width) every one of which is a shape
}

var twoWayLayers = []twoWayLayer{
	{Pkg: "pkg/ipmi", Type: "V1Session", Ser: "SerializeTo", Dec: "DecodeFromBytes", Buf: "pre",
		Shapes:   []layerShape{{Name: "no auth code", Ints: map[string]int64{"AuthType": 0}}, {Name: "with auth code", Ints: map[string]int64{"AuthType": 2}}},
		Computed: map[string]bool{"Length": true}, Sweep: map[string]int{"AuthType": 16}},
	{Pkg: "pkg/ipmi", Type: "V2Session", Ser: "SerializeTo", Dec: "DecodeFromBytes", Buf: "pre",
		Widths: map[string]int{"PayloadDescriptor.PayloadType": 6},
		Shapes: []layerShape{
			{Name: "standard payload, unauthenticated", Ints: map[string]int64{"PayloadDescriptor.PayloadType": 0}, Bools: map[string]bool{"Authenticated": false}},
			{Name: "standard payload, authenticated", Ints: map[string]int64{"PayloadDescriptor.PayloadType": 0}, Bools: map[string]bool{"Authenticated": true}},
			{Name: "OEM payload, unauthenticated", Ints: map[string]int64{"PayloadDescriptor.PayloadType": 2}, Bools: map[string]bool{"Authenticated": false}},
			{Name: "OEM payload, authenticated", Ints: map[string]int64{"PayloadDescriptor.PayloadType": 2}, Bools: map[string]bool{"Authenticated": true}},
		},
		Computed: map[string]bool{"Length": true, "Pad": true, "Signature": true}, Sweep: map[string]int{"PayloadDescriptor.PayloadType": 64}},
	{Pkg: "pkg/ipmi", Type: "Message", Ser: "SerializeTo", Dec: "DecodeFromBytes", Buf: "pre",
		Widths: map[string]int{"RemoteLUN": 2, "LocalLUN": 2, "Sequence": 6, "Operation.Function": 6},
		Shapes: []layerShape{
			{Name: "request", Ints: map[string]int64{"Operation.Function": 0x06}},
			{Name: "response", Ints: map[string]int64{"Operation.Function": 0x07}},
			{Name: "group request", Ints: map[string]int64{"Operation.Function": 0x2c}},
			{Name: "group response", Ints: map[string]int64{"Operation.Function": 0x2d}},
			{Name: "OEM request", Ints: map[string]int64{"Operation.Function": 0x2e}},
			{Name: "OEM response", Ints: map[string]int64{"Operation.Function": 0x2f}},
		},
		Computed: map[string]bool{"Checksum1": true, "Checksum2": true}, Sweep: map[string]int{"Operation.Function": 64}},
	{Pkg: "pkg/ipmi", Type: "RAKPMessage1", Ser: "SerializeTo", Dec: "DecodeFromBytes", Buf: "pre",
		Widths: map[string]int{"MaxPrivilegeLevel": 4},
		Shapes: []layerShape{{Name: "any"}}},
	{Pkg: "pkg/ipmi", Type: "AuthenticationPayload", Ser: "Serialise", Dec: "Deserialise", Buf: "app",
		Widths: map[string]int{"Algorithm": 6},
		Shapes: []layerShape{{Name: "explicit", Bools: map[string]bool{"Wildcard": false}}}},
	{Pkg: "pkg/ipmi", Type: "IntegrityPayload", Ser: "Serialise", Dec: "Deserialise", Buf: "app",
		Widths: map[string]int{"Algorithm": 6},
		Shapes: []layerShape{{Name: "explicit", Bools: map[string]bool{"Wildcard": false}}}},
	{Pkg: "pkg/ipmi", Type: "ConfidentialityPayload", Ser: "Serialise", Dec: "Deserialise", Buf: "app",
		Widths: map[string]int{"Algorithm": 6},
		Shapes: []layerShape{{Name: "explicit", Bools: map[string]bool{"Wildcard": false}}}},
}

var wireNameRE = regexp.MustCompile(`^([a-z]+[0-9]*)\[(\d+)\]$`)
var dSrcRE = regexp.MustCompile(`^d(\d+)$`)

// wireBits collects, for one serialiser path, the bits written to buffer buf: byte index → 8 bits.
func wireBits(le layoutEvents, buf string) map[int][]bvBit {
	out := map[int][]bvBit{}
	for _, ev := range le.Events {
		if ev.Kind != "wire" {
			continue
		}
		m := wireNameRE.FindStringSubmatch(ev.Name)
		if m == nil || m[1] != buf {
			continue
		}
		k, _ := strconv.Atoi(m[2])
		if ev.B == nil || ev.B.Tag != "" {
			out[k] = nil // written, value not bit-exact
			continue
		}
		out[k] = ev.B.resize(8, false).Bits
	}
	return out
}

// fieldBits collects the final bits of each field written on a decoder path.
func fieldBits(le layoutEvents) map[string]*bv {
	out := map[string]*bv{}
	for _, ev := range le.Events {
		if ev.Kind == "field" {
			out[ev.Name] = ev.B
		}
	}
	return out
}

func checkC08(c *Ctx, r *Report) {
	r.Explain = "Sibling agreement of the two directions of every two-way layer, decided on bit provenance (engine E2): the serialiser is evaluated symbolically into a map wire-bit → field-bit and the decoder into field-bit → wire-bit, per path; for every layer shape (discriminating field values such as NetFn class, OEM payload type, authenticated flag) the two maps must be mutual inverses on every bit that exists on the wire: every field bit the decoder reads from byte k bit i is the bit the serialiser wrote there, every field bit the serialiser writes is read back by the decoder from the same place, boolean fields agree with the constant the serialiser writes under that decision, and the header lengths agree. In addition (a) buffer-view invalidation: in every SerializeTo no slice obtained from the serialize buffer is used after a later PrependBytes/AppendBytes, which may reallocate; (b) the AES pad convention of writer and reader agree (writer stores i+1 and the count, reader expects a counter from 1 and the count)."
	r.NotDecided = []string{"byte-for-byte equality of re-serialisation for computed fields (lengths, pads, checksums, signatures): their formulas are checked by C03/C07, not as values", "the trailer scan of the v2.0 session decoder as a value statement"}
	r.Trusted = []string{"go/types, go/ssa (x/tools v0.29.0)", "gopacket.SerializeBuffer.PrependBytes/AppendBytes return exactly n bytes and may reallocate", "field values are within their wire width (documented domains)"}

	for _, L := range twoWayLayers {
		ser := c.Method(L.Pkg, L.Type, L.Ser)
		dec := c.Method(L.Pkg, L.Type, L.Dec)
		r.Rule("mutual-inverse", "serialiser and decoder of a two-way layer are mutual inverses on the wire bits, per shape", 14)
		if ser == nil || dec == nil {
			r.Lost(L.Type + "." + L.Ser + "/" + L.Dec)
			continue
		}
		r.Fn(c.FnName(ser))
		r.Fn(c.FnName(dec))
		sp, why1 := extractEvents(c, ser, L.Widths)
		dp, why2 := extractEvents(c, dec, L.Widths)
		if why1 != "" || why2 != "" {
			r.Unk(L.Type+"|extraction", ser.Pos(), "layout extraction incomplete: "+why1+why2)
			continue
		}
		// every value of a discriminating field within its wire width is a shape: the two
		// directions must agree on which values take which form, not only on the forms
		shapes := append([]layerShape{}, L.Shapes...)
		for fld, n := range L.Sweep {
			var boolSets []map[string]bool
			seenB := map[string]bool{}
			for _, sh := range L.Shapes {
				k := fmt.Sprint(sh.Bools)
				if !seenB[k] {
					seenB[k] = true
					boolSets = append(boolSets, sh.Bools)
				}
			}
			for v := 0; v < n; v++ {
				for _, bs := range boolSets {
					dup := false
					for _, sh := range L.Shapes {
						if sh.Ints[fld] == int64(v) && len(sh.Ints) == 1 && fmt.Sprint(sh.Bools) == fmt.Sprint(bs) {
							dup = true
						}
					}
					if dup {
						continue
					}
					name := fmt.Sprintf("%s=%d", fld, v)
					if len(bs) > 0 {
						name += fmt.Sprintf(" %v", bs)
					}
					shapes = append(shapes, layerShape{Name: name, Ints: map[string]int64{fld: int64(v)}, Bools: bs})
				}
			}
		}
		for _, sh := range shapes {
			var sps, dps []layoutEvents
			for _, p := range sp {
				if p.OK && p.feasibleWith(sh.Ints, sh.Bools) {
					sps = append(sps, p)
				}
			}
			for _, p := range dp {
				if p.OK && p.feasibleWith(sh.Ints, sh.Bools) {
					dps = append(dps, p)
				}
			}
			key := L.Type + "|" + sh.Name
			if len(sps) == 0 || len(dps) == 0 {
				r.Bad(key, ser.Pos(), fmt.Sprintf("shape has %d serialiser and %d decoder success paths: one direction cannot handle it", len(sps), len(dps)))
				continue
			}
			problems := map[string]bool{}
			matched := 0
			// a boolean field the shape fixes must come back with that value: if every decoder
			// path of the shape ends with the field set to the opposite constant (the flag is
			// forced, whatever the wire says), decode(serialise(v)) ≠ v
			for fname, want := range sh.Bools {
				nConst, nOther := 0, 0
				for _, d := range dps {
					b := fieldBits(d)[fname]
					if b != nil && b.Tag == "" && len(b.Bits) == 1 && (b.Bits[0].K == '0' || b.Bits[0].K == '1') && (b.Bits[0].K == '1') != want {
						nConst++
					} else {
						nOther++
					}
				}
				if nConst > 0 && nOther == 0 {
					problems[fmt.Sprintf("every decoder path of this shape sets %s to %v whatever the wire holds, the serialised value had %v", fname, !want, want)] = true
				}
			}
			for _, s := range sps {
				wb := wireBits(s, L.Buf)
				for _, d := range dps {
					fb := fieldBits(d)
					// forward: decoder field bits ← wire
					for fname, b := range fb {
						if b == nil || b.Tag != "" || L.Computed[fname] {
							continue
						}
						for j, bit := range b.Bits {
							if bit.K != 's' && bit.K != 'n' {
								continue
							}
							m := dSrcRE.FindStringSubmatch(bit.Src)
							if m == nil {
								continue
							}
							k, _ := strconv.Atoi(m[1])
							wbyte, written := wb[k]
							if !written {
								problems[fmt.Sprintf("decoder reads %s[%d] from byte %d bit %d, which the serialiser never writes", fname, j, k, bit.Idx)] = true
								continue
							}
							if wbyte == nil {
								continue // computed byte
							}
							w := wbyte[bit.Idx]
							switch w.K {
							case 's', 'n':
								want := "f:" + fname
								neg := (w.K == 'n') != (bit.K == 'n')
								if w.Src != want || w.Idx != j || neg {
									problems[fmt.Sprintf("byte %d bit %d: serialiser writes %s[%d]%s, decoder reads it as %s[%d]", k, bit.Idx, strings.TrimPrefix(w.Src, "f:"), w.Idx, ifs(neg, " (inverted)"), fname, j)] = true
								} else {
									matched++
								}
							case '0', '1':
								// boolean decided on this serialiser path?
								if dv, ok := s.Bools[fname]; ok && len(b.Bits) == 1 {
									wv := w.K == '1'
									if bit.K == 'n' {
										wv = !wv
									}
									if wv != dv {
										problems[fmt.Sprintf("byte %d bit %d: serialiser writes %c when %s=%v, decoder reads the opposite", k, bit.Idx, w.K, fname, dv)] = true
									} else {
										matched++
									}
								} else if _, isDisc := sh.Ints[fname]; !isDisc {
									problems[fmt.Sprintf("byte %d bit %d: serialiser writes constant %c where the decoder reads %s[%d]", k, bit.Idx, w.K, fname, j)] = true
								}
							}
						}
					}
					// backward: every field bit written is read back from the same place
					for k, wbyte := range wb {
						for i, w := range wbyte {
							if w.K != 's' && w.K != 'n' || !strings.HasPrefix(w.Src, "f:") {
								continue
							}
							fname := strings.TrimPrefix(w.Src, "f:")
							b := fb[fname]
							if b == nil || b.Tag != "" || w.Idx >= len(b.Bits) {
								problems[fmt.Sprintf("serialiser writes %s[%d] to byte %d bit %d but the decoder does not recover that field bit", fname, w.Idx, k, i)] = true
								continue
							}
							got := b.Bits[w.Idx]
							if got.Src != fmt.Sprintf("d%d", k) || got.Idx != i {
								problems[fmt.Sprintf("serialiser writes %s[%d] to byte %d bit %d but the decoder takes it from %s[%d]", fname, w.Idx, k, i, got.Src, got.Idx)] = true
							}
						}
					}
				}
			}
			if len(problems) == 0 {
				r.OK(key, ser.Pos(), fmt.Sprintf("%d serialiser × %d decoder paths agree on %d bit comparisons", len(sps), len(dps), matched))
			} else {
				var ps []string
				for p := range problems {
					ps = append(ps, p)
				}
				sort.Strings(ps)
				if len(ps) > 4 {
					ps = append(ps[:4], fmt.Sprintf("… %d more", len(ps)-4))
				}
				r.Bad(key, ser.Pos(), strings.Join(ps, "; "))
			}
		}
	}

	// re-serialising a decoded value reproduces the bytes only if the serialiser writes every
	// byte itself, reserved ones included (a recycled buffer is not zeroed): the wire layout of
	// the two-way request layers (rule shared with C06)
	r.Rule("serialiser-writes-every-byte", "the serialisers of the two-way layers write every byte of their fixed part, reserved bytes as zero", 20)
	compareSpec(c, r, specsFor(requestSpecs, "RAKPMessage1"), "wire", nil)
	compareSpec(c, r, sessionHeaderSpecs, "wire", nil)
	compareSpec(c, r, v1SerialiserSpecs, "wire", nil)
	// the other direction of RAKP Message 1: every field read back from the specified bytes, the
	// user name with the whole length byte
	r.Rule("two-way-decoder-layouts", "the decoder of RAKP Message 1 reads every field from the specified bytes (the user name: byte 27 bytes from offset 28)", 5)
	compareSpec(c, r, twoWayDecoderSpecs, "field", nil)
	// … and no serialiser reserves bytes it does not write (rule shared with C17)
	checkSerialisersOverwrite(c, r)
	checkBufferViews(c, r, "buffer-views")
	checkDecoderAcceptsSerialised(c, r)
	checkDecodedPadConsistent(c, r)
	checkAESPadConvention(c, r)
	// the serialiser encrypts under the IV it writes, packet after packet (C03's rule on the AES
	// serialiser: IV, encrypter, pad arithmetic)
	checkAESSerialiser(c, r)
	r.Rule("aes-pad-arithmetic", "the AES serialiser pads every payload length to a block multiple with 0 ≤ n ≤ 15 pad bytes (what the decoder requires)", 1)
	if fn := c.Method("pkg/ipmi", "AES128CBC", "SerializeTo"); fn != nil {
		checkAESPadArithmetic(c, r, fn)
	} else {
		r.Lost("ipmi.AES128CBC.SerializeTo")
	}

	// decoding into a previously used value must give the same result as into a fresh one
	// (definite full assignment, shared with C17) for the two-way layers
	r.Rule("decode-overwrites-everything", "each two-way layer's decoder assigns every field it ever assigns on all success paths, so decode(serialise(v)) does not depend on what the value held before", 8)
	{
		var entries []*ssa.Function
		for _, L := range twoWayLayers {
			if fn := c.Method(L.Pkg, L.Type, L.Dec); fn != nil {
				entries = append(entries, fn)
			}
		}
		// the confidentiality layer is two-way too: whatever state its decoder keeps between
		// packets (a scratch buffer, a cached pad) must be rewritten on every success path
		if fn := c.Method("pkg/ipmi", "AES128CBC", "DecodeFromBytes"); fn != nil {
			entries = append(entries, fn)
		} else {
			r.Lost("ipmi.AES128CBC.DecodeFromBytes")
		}
		lf := newLenflow(c, 4)
		for _, fn := range entries {
			lf.runEntry(fn, nil)
		}
		k := &c17{c: c, lf: lf, cache: map[*ssa.Function]*writeSummary{}, busy: map[*ssa.Function]bool{}}
		for _, fn := range entries {
			reportAssignment(c, r, k, fn)
		}
	}
}

// checkBufferViews: in every SerializeTo/Serialise, a slice obtained from
// b.Bytes(), b.PrependBytes or b.AppendBytes must not be used after a later
// PrependBytes/AppendBytes on the buffer (they may reallocate).
func checkBufferViews(c *Ctx, r *Report, rule string) {
	r.Rule(rule, "no view of the serialize buffer (Bytes/PrependBytes/AppendBytes result) is used after a later PrependBytes/AppendBytes, which may reallocate the buffer", 18)
	const pre = "(github.com/google/gopacket.SerializeBuffer).PrependBytes"
	const app = "(github.com/google/gopacket.SerializeBuffer).AppendBytes"
	const byt = "(github.com/google/gopacket.SerializeBuffer).Bytes"
	for _, fn := range c.LibFuncs() {
		if fn.Name() != "SerializeTo" && fn.Name() != "Serialise" {
			continue
		}
		name := c.FnName(fn)
		r.Fn(name)
		var views, grows []*ssa.Call
		rawInstrs(fn, false, func(in ssa.Instruction) {
			if call, ok := in.(*ssa.Call); ok {
				switch calleeName(&call.Call) {
				case pre, app:
					views = append(views, call)
					grows = append(grows, call)
				case byt:
					views = append(views, call)
				}
			}
		})
		bad := ""
		var badPos token.Pos
		for _, v := range views {
			// all values derived from the view (extracts, slices, index addresses)
			derived := map[ssa.Value]bool{v: true}
			for changed := true; changed; {
				changed = false
				rawInstrs(fn, false, func(in ssa.Instruction) {
					val, ok := in.(ssa.Value)
					if !ok || derived[val] {
						return
					}
					switch x := in.(type) {
					case *ssa.Extract:
						if derived[x.Tuple] && x.Index == 0 {
							derived[val], changed = true, true
						}
					case *ssa.Slice:
						if derived[x.X] {
							derived[val], changed = true, true
						}
					case *ssa.IndexAddr:
						if derived[x.X] {
							derived[val], changed = true, true
						}
					case *ssa.Phi:
						for _, e := range x.Edges {
							if derived[e] {
								derived[val], changed = true, true
							}
						}
					}
				})
			}
			rawInstrs(fn, false, func(in ssa.Instruction) {
				uses := false
				for _, op := range in.Operands(nil) {
					if op != nil && *op != nil && derived[*op] {
						uses = true
					}
				}
				if !uses || in == ssa.Instruction(v) {
					return
				}
				if _, isExtract := in.(*ssa.Extract); isExtract {
					return
				}
				for _, g := range grows {
					if g != v && canReach(v, g) && canReach(g, in) {
						bad = fmt.Sprintf("a view taken by %s is used after %s", shortName(calleeName(&v.Call)), shortName(calleeName(&g.Call)))
						badPos = in.Pos()
					}
				}
			})
		}
		if bad == "" {
			r.OK(name+"|views", fn.Pos(), fmt.Sprintf("%d views, none used after a later grow", len(views)))
		} else {
			r.Bad(name+"|views", badPos, bad+": when the buffer reallocates the write goes to the old copy (e.g. encryption of a stale copy: plaintext is sent)")
		}
	}
}

// checkAESPadConvention: writer stores i+1 for i in [0,padLength) then padLength; reader expects a counter from 1.
func checkAESPadConvention(c *Ctx, r *Report) {
	r.Rule("aes-pad-convention", "the AES layer writes pad bytes 1,2,…,n followed by n, which is what its decoder checks", 1)
	ser := c.Method("pkg/ipmi", "AES128CBC", "SerializeTo")
	if ser == nil {
		r.Lost("ipmi.AES128CBC.SerializeTo")
		return
	}
	r.Fn(c.FnName(ser))
	// decided on the generalised loop events of engine E2: on every success path the appended
	// trailer has length n+1, bytes 0..n−1 are written by a loop as index+1, byte n is n
	evs, why := extractEvents(c, ser, nil)
	ok, nOK, whyNot := true, 0, why
	for _, le := range evs {
		if !le.OK {
			continue
		}
		nOK++
		var n *Lin
		for _, ev := range le.eventsOf("wire", "app") {
			if ev.Idx != nil && ev.V != nil && linEq(*ev.Idx, *ev.V) {
				x := *ev.Idx
				n = &x
			}
		}
		if n == nil {
			ok, whyNot = false, "no trailer byte n holding n (the pad length byte)"
			continue
		}
		if l, has := le.lenOfBuf("app"); !has || !linEq(l, n.addConst(1)) {
			ok, whyNot = false, "the appended trailer is not n+1 bytes long"
			continue
		}
		filled := false
		lastWhy := "no loop writes the pad bytes"
		for _, ev := range le.eventsOf("loop:wire", "app") {
			run, w := runOf(ev)
			if w != "" {
				lastWhy = w
				continue
			}
			if !linEq(run.Idx0, linConst(0)) || !linEq(run.V0, linConst(1)) || run.VAdv != 1 {
				lastWhy = "pad bytes do not start at index 0 with value 1 and step 1"
				continue
			}
			if len(ev.Loop.Guard) != 1 {
				lastWhy = "the pad byte store is conditional within the loop"
				continue
			}
			if cov, w := run.coversUpTo(*n, le.Cons); !cov {
				lastWhy = w
				continue
			}
			filled = true
		}
		if !filled {
			ok, whyNot = false, lastWhy
		}
	}
	if nOK == 0 {
		r.Unk(c.FnName(ser)+"|pad bytes", ser.Pos(), "no success path extracted: "+why)
		return
	}
	r.Check(ok, c.FnName(ser)+"|pad bytes", ser.Pos(), "trailer[i]=i+1 for i<n, trailer[n]=n, length n+1", "the AES trailer is not 1,2,…,n followed by n: "+whyNot)
}

// serialisedEncodings: boundary outputs of the two-way layers' serialisers, written down from
// the specification (not read off the code): the shortest and the block-boundary encodings a
// correct serialiser produces. The decoder of the same layer must have a success path for
// each — a guard off by one on the decoding side rejects exactly these.
var serialisedEncodings = []minimalEncoding{
	{Pkg: "pkg/ipmi", Type: "AES128CBC", Method: "DecodeFromBytes", Name: "empty payload (IV, pad 1..15, pad length 15)", Len: 32, Bytes: map[int64]int64{31: 15}, Ref: "IPMI v2.0 table 13-20"},
	{Pkg: "pkg/ipmi", Type: "AES128CBC", Method: "DecodeFromBytes", Name: "1-byte payload (pad length 14)", Len: 32, Bytes: map[int64]int64{31: 14}, Ref: "IPMI v2.0 table 13-20"},
	{Pkg: "pkg/ipmi", Type: "AES128CBC", Method: "DecodeFromBytes", Name: "15-byte payload (pad length 0)", Len: 32, Bytes: map[int64]int64{31: 0}, Ref: "IPMI v2.0 table 13-20"},
	{Pkg: "pkg/ipmi", Type: "AES128CBC", Method: "DecodeFromBytes", Name: "16-byte payload (pad length 15, two blocks)", Len: 48, Bytes: map[int64]int64{47: 15}, Ref: "IPMI v2.0 table 13-20"},
	{Pkg: "pkg/ipmi", Type: "V2Session", Method: "DecodeFromBytes", Name: "empty unauthenticated payload", Len: 12, Bytes: map[int64]int64{0: 6, 1: 0, 10: 0, 11: 0}, Ref: "IPMI v2.0 §13.6"},
	{Pkg: "pkg/ipmi", Type: "V2Session", Method: "DecodeFromBytes", Name: "empty unauthenticated OEM payload", Len: 18, Bytes: map[int64]int64{0: 6, 1: 2, 16: 0, 17: 0}, Ref: "IPMI v2.0 §13.6 (OEM IANA and payload ID present for payload type 2)"},
	{Pkg: "pkg/ipmi", Type: "V1Session", Method: "DecodeFromBytes", Name: "empty unauthenticated payload", Len: 10, Bytes: map[int64]int64{0: 0, 9: 0}, Ref: "IPMI v2.0 §13.6 (v1.5 format, authentication type none)"},
	// the IPMI message with nothing after its header, per network-function class: 6 header bytes
	// + checksum 2, + completion code in responses, + the group body code / the 3-byte OEM
	// enterprise number
	{Pkg: "pkg/ipmi", Type: "Message", Method: "DecodeFromBytes", Name: "request with an empty body", Len: 7, Bytes: map[int64]int64{1: 0x06 << 2}, Ref: "IPMI v2.0 §13.8"},
	{Pkg: "pkg/ipmi", Type: "Message", Method: "DecodeFromBytes", Name: "response with an empty body", Len: 8, Bytes: map[int64]int64{1: 0x07 << 2}, Ref: "IPMI v2.0 §13.8"},
	{Pkg: "pkg/ipmi", Type: "Message", Method: "DecodeFromBytes", Name: "group-extension request carrying only the body code", Len: 8, Bytes: map[int64]int64{1: 0x2c << 2}, Ref: "IPMI v2.0 §5.1, §13.8"},
	{Pkg: "pkg/ipmi", Type: "Message", Method: "DecodeFromBytes", Name: "group-extension response carrying only the body code", Len: 9, Bytes: map[int64]int64{1: 0x2d << 2}, Ref: "IPMI v2.0 §5.1, §13.8"},
	{Pkg: "pkg/ipmi", Type: "Message", Method: "DecodeFromBytes", Name: "OEM request carrying only the enterprise number", Len: 10, Bytes: map[int64]int64{1: 0x2e << 2}, Ref: "IPMI v2.0 §5.1, §13.8"},
	{Pkg: "pkg/ipmi", Type: "Message", Method: "DecodeFromBytes", Name: "OEM response carrying only the enterprise number", Len: 11, Bytes: map[int64]int64{1: 0x2f << 2}, Ref: "IPMI v2.0 §5.1, §13.8"},
	{Pkg: "pkg/ipmi", Type: "RAKPMessage1", Method: "DecodeFromBytes", Name: "empty username", Len: 28, Bytes: map[int64]int64{27: 0}, Ref: "IPMI v2.0 §13.20"},
	{Pkg: "pkg/ipmi", Type: "RAKPMessage1", Method: "DecodeFromBytes", Name: "16-byte username", Len: 44, Bytes: map[int64]int64{27: 16}, Ref: "IPMI v2.0 §13.20"},
}

func checkDecoderAcceptsSerialised(c *Ctx, r *Report) {
	r.Rule("decoder-accepts-serialised", "the decoder of a two-way layer has a success path for the shortest and the block-boundary encodings its serialiser produces", len(serialisedEncodings))
	for _, m := range serialisedEncodings {
		fn := c.Method(m.Pkg, m.Type, m.Method)
		if fn == nil {
			r.Lost(m.Type + "." + m.Method)
			continue
		}
		ok, n := acceptsMinimal(c, fn, m)
		r.Check(ok, m.Type+"."+m.Method+"|"+m.Name, fn.Pos(), fmt.Sprintf("accepted (%d success paths examined)", n), fmt.Sprintf("no success path accepts a %d-byte %s (%s): the decoder rejects what the serialiser produces", m.Len, m.Name, m.Ref))
	}
}

// checkDecodedPadConsistent: the session wrapper's decoder must find the integrity trailer
// where its serialiser put it. A decoder that *reads* the pad off the wire (counting the 0xFF
// bytes) does so by construction. One that *computes* the pad from the payload length must
// compute what the serialiser computes: header + payload + pad + 2 ≡ 0 (mod 4), 0 ≤ pad ≤ 3,
// with the header length of the path (12 bytes, 18 with the OEM fields) — asked of engine E1
// on every authenticated success path whose Pad does not come from a scan.
func checkDecodedPadConsistent(c *Ctx, r *Report) {
	r.Rule("decoded-pad-consistent", "the session wrapper's decoder reads the integrity pad off the wire, or computes it so that header + payload + pad + 2 ≡ 0 (mod 4) with the path's header length", 1)
	fn := c.Method("pkg/ipmi", "V2Session", "DecodeFromBytes")
	if fn == nil {
		r.Lost("ipmi.V2Session.DecodeFromBytes")
		return
	}
	name := "V2Session.DecodeFromBytes"
	evs, why := extractEvents(c, fn, nil)
	if why != "" {
		r.Unk(name+"|paths", fn.Pos(), why)
		return
	}
	nAuth, nComputed := 0, 0
	ok, whyNot := true, ""
	for _, le := range evs {
		if !le.OK {
			continue
		}
		fields := le.lastWrites("field")
		if sig, has := fields["Signature"]; !has || sig == "empty" || sig == "nil" {
			continue // no trailer on this path
		}
		pad, hasPad := le.Fields["Pad"]
		length, hasLen := le.Fields["Length"]
		var hdr int64
		if _, err := fmt.Sscanf(fields["BaseLayer.Contents"], "d[0:%d]", &hdr); err != nil || !hasPad || !hasLen {
			ok, whyNot = false, "cannot read the header length, payload length or pad of an authenticated success path"
			continue
		}
		nAuth++
		scanned := false
		for sy := range pad.T {
			if le.SymName != nil && strings.Contains(le.SymName(sy), "@loop") {
				scanned = true
			}
		}
		if scanned {
			continue
		}
		nComputed++
		total := pad.add(length, 1).addConst(hdr + 2)
		if !(entails(le.Cons, geq(pad, linConst(0))) && entails(le.Cons, leq(pad, linConst(3))) && divisibleUnder(c, le.Cons, total, 4)) {
			ok = false
			whyNot = fmt.Sprintf("with a %d-byte header the computed pad %s does not make header + payload + pad + 2 a multiple of 4 (the serialiser's pad does): the AuthCode is read from the wrong offset", hdr, fields["Pad"])
		}
	}
	if nAuth == 0 {
		r.Unk(name+"|pad", fn.Pos(), "no authenticated success path")
		return
	}
	r.Check(ok, name+"|pad", fn.Pos(), fmt.Sprintf("%d authenticated success paths: pad read off the wire on %d, computed consistently on %d", nAuth, nAuth-nComputed, nComputed), whyNot)

	// a scan finds every pad the serialiser writes (it writes whatever uint8 the value carries)
	// only if nothing but the end of the data and the first byte that is not 0xFF ends it
	loops := 0
	for _, l := range naturalLoops(fn) {
		var exits []*ssa.If
		scans := false
		for b := range l.Blocks {
			if len(b.Instrs) == 0 {
				continue
			}
			br, isIf := b.Instrs[len(b.Instrs)-1].(*ssa.If)
			if !isIf || (l.Blocks[b.Succs[0]] && l.Blocks[b.Succs[1]]) {
				continue
			}
			exits = append(exits, br)
			if bo, isBin := br.Cond.(*ssa.BinOp); isBin && (isConstVal(bo.X, 0xFF) || isConstVal(bo.Y, 0xFF)) {
				scans = true
			}
		}
		if !scans {
			continue
		}
		loops++
		bad := ""
		for _, br := range exits {
			bo, isBin := br.Cond.(*ssa.BinOp)
			if !isBin {
				bad = "a condition that is not a comparison"
				continue
			}
			if isConstVal(bo.X, 0xFF) || isConstVal(bo.Y, 0xFF) || derivesFromLen(bo.X, 6) || derivesFromLen(bo.Y, 6) {
				continue
			}
			bad = "the comparison " + bo.X.Name() + " " + bo.Op.String() + " " + bo.Y.Name() + ", which involves neither the data's length nor 0xFF"
		}
		r.Check(bad == "", name+"|pad scan ends only at the data's end or a non-0xFF byte", l.Header.Instrs[0].Pos(), fmt.Sprintf("%d loop exits, each on len(data) or on the byte read", len(exits)), "the scan over the 0xFF pad bytes is also ended by "+bad+": a longer pad, which the serialiser writes for a value that carries one, is not found again and the AuthCode is read from the wrong offset")
	}
	if loops == 0 {
		r.OK(name+"|pad scan ends only at the data's end or a non-0xFF byte", fn.Pos(), "no scan loop in the decoder (pad computed; see above)")
	}
}

func isConstVal(v ssa.Value, k int64) bool {
	if cv, ok := v.(*ssa.Convert); ok {
		v = cv.X
	}
	n, ok := constInt(v)
	return ok && n == k
}

// derivesFromLen: v is len(x), or arithmetic on it.
func derivesFromLen(v ssa.Value, depth int) bool {
	if depth == 0 {
		return false
	}
	switch x := v.(type) {
	case *ssa.Call:
		if b, ok := x.Call.Value.(*ssa.Builtin); ok && b.Name() == "len" {
			return true
		}
	case *ssa.BinOp:
		return derivesFromLen(x.X, depth-1) || derivesFromLen(x.Y, depth-1)
	case *ssa.Convert:
		return derivesFromLen(x.X, depth-1)
	case *ssa.Phi:
		for _, e := range x.Edges {
			if derivesFromLen(e, depth-1) {
				return true
			}
		}
	}
	return false
}
