package main

import (
	"fmt"
	"go/token"
	"go/types"
	"strings"

	"golang.org/x/tools/go/ssa"
)

// C20, primitives as bit functions. complement.Twos is modelled by contract everywhere else
// (E2: "sign extension from n bits if the bits above n are zero"); here the contract is
// discharged against the function's own code: for each width n the function is interpreted by
// engine E2 with `bits` = n and an input whose low n bits are symbolic sources and whose other
// bits are zero, and the returned vector must be those n bits followed by 16−n copies of bit
// n−1 — for every value of the sources at once, whichever bit trick or branch computes it
// (xor/subtract with a ripple-carry adder over the bit domain, or-ing in a mask under a sign
// test, shifting up and arithmetically down).
func checkTwosPrimitive(c *Ctx, r *Report) {
	r.Rule("twos-is-sign-extension", "complement.Twos(v, n) returns v's low n bits sign-extended to 16 bits, for every width n = 1..16 and every value whose bits above n are zero", 16)
	f := c.Func("internal/pkg/complement", "Twos")
	if f == nil {
		for _, g := range c.LibFuncs() {
			if g.Signature.Recv() == nil && g.Name() == "Twos" && normSig(g.Signature) == "func([2]uint8,uint8)(int16)" {
				f = g
			}
		}
	}
	if f == nil || len(f.Params) != 2 {
		r.Lost("complement.Twos")
		return
	}
	if at, ok := f.Params[0].Type().Underlying().(*types.Array); !ok || at.Len() != 2 {
		r.Unk("complement.Twos|signature", f.Pos(), "first parameter is not a [2]byte")
		return
	}
	r.Fn(c.FnName(f))
	for n := 1; n <= 16; n++ {
		key := fmt.Sprintf("complement.Twos|width %d", n)
		got, facts, why := twosBits(c, f, n)
		if why != "" {
			r.Unk(key, f.Pos(), why)
			continue
		}
		want0 := (&bv{Bits: bvSrc("v", 16).Bits[:n]}).resize(16, true)
		want := want0
		ok := len(got) > 0
		desc := ""
		for gi, g := range got {
			want := substBitFacts(want0, facts[gi])
			if g == nil || g.Tag != "" || len(g.Bits) != 16 {
				ok = false
				desc = "result is not a bit function of the input"
				continue
			}
			for i := range g.Bits {
				if g.Bits[i] != want.Bits[i] {
					ok = false
					desc = fmt.Sprintf("returns %s, want %s", g.String(), want.render())
				}
			}
		}
		r.Check(ok, key, f.Pos(), want.render(), fmt.Sprintf("complement.Twos with %d bits is not the sign extension of the low %d bits: %s", n, n, desc))
	}
}

// twosBits interprets f with bits = n; one result vector per returning path.
func twosBits(c *Ctx, f *ssa.Function, n int) (out []*bv, facts []map[string]bool, why string) {
	e := newLenflow(c, 4)
	e.bits = true
	e.elemLoads = map[Sym]lfElemRef{}
	e.bitFacts = true
	e.onStore = func(st *lfState, kind, name, val string, pos token.Pos, b *bv) {}
	e.onReturn = func(st *lfState, rets []lfVal) {
		if len(rets) == 0 {
			out = append(out, nil)
			facts = append(facts, st.bitFacts)
			return
		}
		iv, ok := rets[0].(vInt)
		if !ok || iv.B == nil {
			if ok {
				if k, isK := iv.E.isConst(); isK {
					out = append(out, bvConst(k, 16))
					facts = append(facts, st.bitFacts)
					return
				}
			}
			out = append(out, nil)
			facts = append(facts, st.bitFacts)
			return
		}
		out = append(out, substBitFacts(iv.B.resize(16, false), st.bitFacts))
		facts = append(facts, st.bitFacts)
	}
	src := bvSrc("v", 16)
	for i := n; i < 16; i++ {
		src.Bits[i] = bvBit{K: '0'}
	}
	e.runEntry(f, func(fr *lfFrame, st *lfState) {
		hi := e.fresh(st, types.Typ[types.Uint8], "hi").(vInt)
		lo := e.fresh(st, types.Typ[types.Uint8], "lo").(vInt)
		hi.B = &bv{Bits: src.Bits[8:16]}
		lo.B = &bv{Bits: src.Bits[0:8]}
		if k, isK := hi.B.isConst(); isK {
			hi.E = linConst(k)
		}
		if k, isK := lo.B.isConst(); isK {
			lo.E = linConst(k)
		}
		fr.env[f.Params[0]] = vSlice{Len: linConst(2), Snap: &arrSnap{Elems: map[string]lfVal{
			"[" + linConst(0).key() + "]": hi,
			"[" + linConst(1).key() + "]": lo,
		}}}
		fr.env[f.Params[1]] = vInt{E: linConst(int64(n)), B: bvConst(int64(n), 8)}
	})
	if e.budgetHit {
		return out, facts, "budget exhausted"
	}
	if len(out) == 0 {
		return nil, nil, "no returning path"
	}
	return out, facts, ""
}

// substBitFacts replaces the source bits a path has fixed by their values.
func substBitFacts(b *bv, facts map[string]bool) *bv {
	if b == nil || b.Tag != "" || len(facts) == 0 {
		return b
	}
	out := &bv{Bits: append([]bvBit{}, b.Bits...)}
	for i, x := range out.Bits {
		if x.K != 's' && x.K != 'n' {
			continue
		}
		v, has := facts[fmt.Sprintf("%s#%d", x.Src, x.Idx)]
		if !has {
			continue
		}
		if v == (x.K == 's') {
			out.Bits[i] = bvBit{K: '1'}
		} else {
			out.Bits[i] = bvBit{K: '0'}
		}
	}
	return out
}

// checkLatin1Exact: the 8-bit ASCII + Latin-1 decoder is a copy: on every success path the
// string returned is the conversion of exactly the first c bytes of the input — the window
// b[0:c] itself, not something computed from it (trimmed, filtered, re-encoded) — and the
// number of bytes consumed is c. Engine E1 in bits mode: the returned string still carries
// the identity of the input buffer, offset 0 and length c are entailed.
func checkLatin1Exact(c *Ctx, r *Report, f *ssa.Function) {
	r.Rule("latin1-is-a-copy", "the 8-bit ASCII + Latin-1 decoder returns exactly string(b[0:c]) and consumes c bytes on every success path", 1)
	name := c.FnName(f)
	if len(f.Params) != 2 {
		r.Unk(name+"|copy of b[0:c]", f.Pos(), "unexpected decoder signature")
		return
	}
	e := newLenflow(c, 4)
	e.bits = true
	e.elemLoads = map[Sym]lfElemRef{}
	e.onStore = func(st *lfState, kind, name, val string, pos token.Pos, b *bv) {}
	nOK, bad := 0, ""
	var cLin Lin
	e.onReturn = func(st *lfState, rets []lfVal) {
		if len(rets) != 3 {
			bad = "unexpected result arity"
			return
		}
		// success paths only
		if ev, ok := rets[2].(vNilable); ok {
			if ev.Nil == 2 {
				return
			}
			if ev.Nil == 0 {
				if isNil, has := st.decided[-ev.ID]; has && !isNil {
					return
				}
			}
		} else if _, isPtr := rets[2].(vPtr); !isPtr {
			return
		}
		sv, ok := rets[0].(vSlice)
		if !ok || sv.Org == nil || sv.Org.Name != "d" {
			bad = "the string returned is not a window on the input bytes (it was computed from them)"
			return
		}
		if !entails(st.cons, geq(sv.Org.Off, linConst(0))) || !entails(st.cons, leq(sv.Org.Off, linConst(0))) {
			bad = "the string returned does not start at the first input byte"
			return
		}
		if !entails(st.cons, geq(sv.Len, cLin)) || !entails(st.cons, leq(sv.Len, cLin)) {
			bad = "the string returned is not c bytes long"
			return
		}
		n, isInt := rets[1].(vInt)
		if !isInt || !entails(st.cons, geq(n.E, cLin)) || !entails(st.cons, leq(n.E, cLin)) {
			bad = "the number of bytes consumed is not c"
			return
		}
		nOK++
	}
	e.runEntry(f, func(fr *lfFrame, st *lfState) {
		if cv, ok := fr.env[f.Params[1]].(vInt); ok {
			cLin = cv.E
		}
	})
	if e.budgetHit {
		r.Unk(name+"|copy of b[0:c]", f.Pos(), "budget exhausted")
		return
	}
	if bad == "" && nOK == 0 {
		bad = "no success path found"
	}
	r.Check(bad == "", name+"|copy of b[0:c]", f.Pos(), fmt.Sprintf("string(b[0:c]), c consumed, on %d success paths", nOK), "the Latin-1 decoder does not return the first c input bytes unchanged: "+bad)
}

// stringDecoderTable: type/length encoding → decoder function, read from the package-level
// StringEncoding → StringDecoder table.
func stringDecoderTable(c *Ctx) (map[int64]*ssa.Function, *ssa.Global) {
	ir := newInitReader(c)
	v, g := ir.globalByType("pkg/ipmi", "stringEncodingDecoders", "map["+modPath+"/pkg/ipmi.StringEncoding]"+modPath+"/pkg/ipmi.StringDecoder")
	if g == nil {
		return nil, nil
	}
	got := map[int64]*ssa.Function{}
	for _, e := range v.Entries {
		if k, ok := e.K.Int(); ok && e.V.Kind == "func" {
			got[k] = e.V.Func
		}
	}
	return got, g
}

// checkLatin1Decoders applies checkLatin1Exact to the decoder(s) the table selects for the
// 8-bit encodings (3: ASCII + Latin-1; 0: "Unicode", decoded the same way).
func checkLatin1Decoders(c *Ctx, r *Report) {
	got, g := stringDecoderTable(c)
	if g == nil || got[3] == nil {
		r.Rule("latin1-is-a-copy", "", 1)
		r.Lost("ipmi string encoding decoder table / 8-bit decoder")
		return
	}
	done := map[*ssa.Function]bool{}
	for _, k := range []int64{3, 0} {
		if f := got[k]; f != nil && !done[f] && (k == 3 || classifyStringDecoder(f) == "latin1") {
			done[f] = true
			r.Fn(c.FnName(f))
			checkLatin1Exact(c, r, f)
		}
	}
}

// ---------------------------------------------------------------- packed strings

// xIter is one way round a decoder's character loop: the store into the result slice made
// on it, and what is known at its back edge.
type xIter struct {
	Store *lfEvent
	Meta  *lfLoopMeta
	N     int // stores into made slices on this way round
}

// extractionPaths runs engine E2 in extraction mode on a string decoder and returns its
// success paths with, per path, the ways round its loops.
type xPath struct {
	le    layoutEvents
	iters []xIter
	ret   []lfVal
	cons  []Cons
}

func extractionPaths(c *Ctx, f *ssa.Function) (paths []xPath, elem map[Sym]lfElemRef, params []lfVal, why string) {
	e := newLenflow(c, 4)
	e.bits = true
	e.extract = true
	e.elemLoads = map[Sym]lfElemRef{}
	e.onStore = func(st *lfState, kind, name, val string, pos token.Pos, b *bv) {
		st.events = append(st.events, lfEvent{Kind: kind, Name: name, Val: val, Pos: pos, B: b})
	}
	e.onReturn = func(st *lfState, rets []lfVal) {
		if len(rets) != 3 {
			return
		}
		if ev, ok := rets[2].(vNilable); ok {
			if ev.Nil == 2 {
				return
			}
			if ev.Nil == 0 {
				if isNil, has := st.decided[-ev.ID]; has && !isNil {
					return
				}
			}
		}
		xp := xPath{ret: append([]lfVal{}, rets...), cons: append([]Cons{}, st.cons...)}
		var cur *xIter
		for i := range st.events {
			ev := &st.events[i]
			switch {
			case ev.Kind == "loop:path":
				xp.iters = append(xp.iters, xIter{Meta: ev.Loop})
				cur = &xp.iters[len(xp.iters)-1]
			case ev.Kind == "loop:wire" && strings.HasPrefix(ev.Org, "mk") && cur != nil:
				cur.Store = ev
				cur.N++
			}
		}
		paths = append(paths, xp)
	}
	e.runEntry(f, func(fr *lfFrame, st *lfState) {
		for _, p := range f.Params {
			params = append(params, fr.env[p])
		}
		// domain: the character count is the 5-bit field of the type/length byte
		if len(f.Params) == 2 {
			if cv, ok := fr.env[f.Params[1]].(vInt); ok {
				st.cons = append(st.cons, geq(cv.E, linConst(0)), leq(cv.E, linConst(31)))
			}
		}
	})
	if e.budgetHit {
		why = "budget exhausted"
	}
	return paths, e.elemLoads, params, why
}

// checkPackedDecoders: the two packed ID-string encodings as statements about bytes, for every
// length at once. One generalised iteration of the character loop, per residue of the
// character index (mod 4 for 6-bit ASCII, mod 2 for BCD plus), stores into result[i] exactly
// the specified function of the specified input bytes:
//
//	6-bit ASCII (IPMI v2.0 §43.15): four characters in three bytes, least significant bits first —
//	  i = 4q:   0x20 + b[3q][5:0]              i = 4q+1: 0x20 + {b[3q+1][3:0], b[3q][7:6]}
//	  i = 4q+2: 0x20 + {b[3q+2][1:0], b[3q+1][7:4]}   i = 4q+3: 0x20 + b[3q+2][7:2]
//	BCD plus: two characters per byte, high nibble first — i = 2q: table[b[q][7:4]], i = 2q+1: table[b[q][3:0]]
//
// the loop runs i = 0, 1, … up to c, the result is the string of that slice of length c, and
// the bytes consumed are ⌈3c/4⌉ resp. ⌈c/2⌉. Index arithmetic (floor divisions, float idioms)
// is decided by entailment in E1's constraint store; bit extraction by E2's bit vectors.
var theCtx *Ctx

func checkPackedDecoders(c *Ctx, r *Report) {
	theCtx = c
	r.Rule("packed-string-extraction", "for every character index i, the packed 6-bit ASCII and BCD-plus decoders store into result[i] the specified bits of the specified input bytes (0x20 + 6-bit code from bytes 3⌊i/4⌋…; table[nibble of byte ⌊i/2⌋], high nibble first), for i = 0 … c−1, return that string and consume ⌈3c/4⌉ resp. ⌈c/2⌉ bytes", 2)
	got, g := stringDecoderTable(c)
	if g == nil {
		r.Lost("ipmi string encoding decoder table")
		return
	}
	type spec struct {
		enc  int64
		name string
		mod  int64
	}
	for _, sp := range []spec{{2, "packed 6-bit ASCII", 4}, {1, "BCD plus", 2}} {
		f := got[sp.enc]
		if f == nil {
			r.Lost(sp.name + " decoder")
			continue
		}
		name := c.FnName(f)
		r.Fn(name)
		key := name + "|" + sp.name + " extraction"
		paths, elem, params, why := extractionPaths(c, f)
		if why != "" || len(params) != 2 {
			r.Unk(key, f.Pos(), "extraction incomplete: "+why)
			continue
		}
		cv, ok := params[1].(vInt)
		if !ok {
			r.Unk(key, f.Pos(), "character count is not an integer parameter")
			continue
		}
		bad := ""
		nPaths := 0
		for _, xp := range paths {
			if w := judgePackedPath(c, sp.mod, xp, elem, cv.E); w != "" {
				bad = w
			}
			nPaths++
		}
		if nPaths == 0 && bad == "" {
			bad = "no success path"
		}
		r.Check(bad == "", key, f.Pos(), fmt.Sprintf("%d success paths, every residue of the character index decided", nPaths), "the "+sp.name+" decoder does not extract the specified bits: "+bad)
	}
}

func judgePackedPath(c *Ctx, mod int64, xp xPath, elem map[Sym]lfElemRef, cLin Lin) string {
	eq := func(cons []Cons, a, b Lin) bool {
		return entails(cons, geq(a, b)) && entails(cons, leq(a, b))
	}
	// result: the string of a made slice of length c; consumed bytes
	sv, ok := xp.ret[0].(vSlice)
	if len(xp.iters) == 0 {
		// no loop on this path: only legitimate when c ≤ 0 is known
		if entails(xp.cons, leq(cLin, linConst(0))) {
			return ""
		}
		return "a success path produces the string without a character loop"
	}
	if !ok || sv.Org == nil || !strings.HasPrefix(sv.Org.Name, "mk") {
		return "the string returned is not the conversion of the slice the loop fills"
	}
	n, isInt := xp.ret[1].(vInt)
	if !isInt {
		return "bytes consumed is not an integer"
	}
	// consumed = ⌈(8−mod)… : packed6 ⌈3c/4⌉, bcd ⌈c/2⌉  — with c = mod·Q + R
	{
		Q, R := linSym(newAnonSym()), linSym(newAnonSym())
		cons := append(append([]Cons{}, xp.cons...), geq(Q, linConst(0)), geq(R, linConst(0)), leq(R, linConst(mod-1)), geq(cLin, Q.scale(mod).add(R, 1)), leq(cLin, Q.scale(mod).add(R, 1)))
		okN := false
		// ⌈3R/4⌉ = R for R in 0..3; ⌈R/2⌉ = R for R in 0..1
		want := Q.scale(mod-1).add(R, 1)
		if mod == 2 {
			want = Q.add(R, 1)
		}
		if eq(cons, n.E, want) {
			okN = true
		}
		if !okN {
			return "the number of bytes consumed is not the packed length of c characters"
		}
	}
	seen := map[int64]bool{}
	for _, it := range xp.iters {
		if it.Meta == nil {
			continue
		}
		if it.N != 1 || it.Store == nil || it.Store.Org != sv.Org.Name {
			return "a way round the loop does not store exactly one character into the result"
		}
		// the loop variable: stride 1 from 0, and the store's index is it
		// the character index: a loop-carried integer advancing by one whose value, less what it
		// started from, is where the character is stored — `for i := 0; i < c; i++` carries i
		// itself, `for i := range x` carries i−1
		var iLin *Lin
		for _, sy := range it.Meta.Syms {
			if it.Meta.Stride[sy] != 1 || it.Store.Idx == nil {
				continue
			}
			ent, has := it.Meta.Entry[sy]
			if !has {
				continue
			}
			k, isK := ent.isConst()
			if !isK {
				continue
			}
			cand := linSym(sy).addConst(-k)
			if eq(it.Meta.Cons, *it.Store.Idx, cand) {
				iLin = &cand
			}
		}
		if iLin == nil {
			return "no character index running 0, 1, 2, … at which the character is stored"
		}
		i := *iLin
		if it.Store.Idx == nil || !eq(it.Meta.Cons, *it.Store.Idx, i) {
			return "the character is not stored at the character index"
		}
		if !entails(it.Meta.Cons, leq(i, cLin.addConst(-1))) {
			return "the loop body runs for an index ≥ c"
		}
		// the exit of the loop on this path: i ≥ c
		if !entails(xp.cons, geq(i, cLin)) {
			return "the path leaves the loop before the index reaches c"
		}
		// residue of this way round
		hit := false
		for rr := int64(0); rr < mod; rr++ {
			Q := linSym(newAnonSym())
			cons := append(append([]Cons{}, it.Meta.Cons...), geq(Q, linConst(0)), geq(i, Q.scale(mod).addConst(rr)), leq(i, Q.scale(mod).addConst(rr)))
			if infeasibleWith(it.Meta.Cons, cons[len(it.Meta.Cons):]...) {
				continue
			}
			hit = true
			seen[rr] = true
			if w := judgePackedValue(mod, rr, it.Store.B, elem, cons, Q); w != "" {
				return fmt.Sprintf("character index ≡ %d (mod %d): %s", rr, mod, w)
			}
		}
		if !hit {
			return "a way round the loop is infeasible for every residue"
		}
	}
	for rr := int64(0); rr < mod; rr++ {
		if !seen[rr] {
			return fmt.Sprintf("no iteration handles character indices ≡ %d (mod %d)", rr, mod)
		}
	}
	return ""
}

var anonSymCounter = 1 << 28

func newAnonSym() Sym { anonSymCounter++; return Sym(anonSymCounter) }

// judgePackedValue compares the stored bit vector with the specification for residue rr.
func judgePackedValue(mod, rr int64, got *bv, elem map[Sym]lfElemRef, cons []Cons, Q Lin) string {
	if got == nil {
		return "the stored value is not a bit function of the input"
	}
	eq := func(a, b Lin) bool { return entails(cons, geq(a, b)) && entails(cons, leq(a, b)) }
	// role → expected byte index
	role := func(k int64) Lin {
		if mod == 4 {
			return Q.scale(3).addConst(k)
		}
		return Q
	}
	srcOK := func(b bvBit, wantRole int64, wantBit int) bool {
		if !strings.HasPrefix(b.Src, "ld") || b.Idx != wantBit {
			return false
		}
		var id int
		if _, err := fmt.Sscanf(b.Src, "ld%d", &id); err != nil {
			return false
		}
		ref, has := elem[Sym(id)]
		if !has || ref.Org != "d" {
			return false
		}
		return eq(ref.Idx, role(wantRole))
	}
	type wbit struct {
		role int64
		bit  int
	}
	var code []wbit // LSB first
	if mod == 4 {
		switch rr {
		case 0:
			for j := 0; j < 6; j++ {
				code = append(code, wbit{0, j})
			}
		case 1:
			code = []wbit{{0, 6}, {0, 7}, {1, 0}, {1, 1}, {1, 2}, {1, 3}}
		case 2:
			code = []wbit{{1, 4}, {1, 5}, {1, 6}, {1, 7}, {2, 0}, {2, 1}}
		case 3:
			for j := 2; j < 8; j++ {
				code = append(code, wbit{2, j})
			}
		}
		// expected = code + 0x20 over 8 bits, zero-extended: computed with placeholder sources
		ph := &bv{Bits: make([]bvBit, 8)}
		for j := 0; j < 8; j++ {
			if j < 6 {
				ph.Bits[j] = bvBit{K: 's', Src: fmt.Sprintf("w%d", code[j].role), Idx: code[j].bit}
			} else {
				ph.Bits[j] = bvBit{K: '0'}
			}
		}
		want := bvAddSub(ph, bvConst(0x20, 8), 8, false)
		if want == nil {
			return "internal: specification vector not expressible"
		}
		if got.Tag != "" {
			return "the stored value is " + got.String() + ", want 0x20 + the 6-bit code"
		}
		g := got.resize(32, false)
		for j := 0; j < 32; j++ {
			wb := bvBit{K: '0'}
			if j < 8 {
				wb = want.Bits[j]
			}
			gb := g.Bits[j]
			switch wb.K {
			case '0', '1':
				if gb.K != wb.K {
					return fmt.Sprintf("bit %d of the character is %s, want constant %c", j, (&bv{Bits: []bvBit{gb}}).String(), wb.K)
				}
			case 's', 'n':
				var rl int64
				fmt.Sscanf(wb.Src, "w%d", &rl)
				if gb.K != wb.K || !srcOK(gb, rl, wb.Idx) {
					return fmt.Sprintf("bit %d of the character is %s, want bit %d of byte 3⌊i/4⌋+%d", j, (&bv{Bits: []bvBit{gb}}).String(), wb.Idx, rl)
				}
			}
		}
		return ""
	}
	// BCD plus: table[nibble]
	if _, tg := newInitReader(theCtx).globalByType("pkg/ipmi", "bcdPlusRunes", "[16]rune"); tg == nil || got.Tag != "tbl:"+tg.Name() {
		return "the stored value is " + got.String() + ", want a read of the BCD-plus character table"
	}
	if !strings.HasPrefix(got.Tag, "tbl:") || len(got.Args) != 1 || got.Args[0] == nil || got.Args[0].Tag != "" {
		return "the stored value is " + got.String() + ", want a read of the BCD-plus character table"
	}
	idx := got.Args[0]
	lo := 4
	if rr == 1 {
		lo = 0
	}
	for j, b := range idx.Bits {
		if j < 4 {
			if b.K != 's' || !srcOK(b, 0, lo+j) {
				return fmt.Sprintf("table index bit %d is %s, want bit %d of byte ⌊i/2⌋", j, (&bv{Bits: []bvBit{b}}).String(), lo+j)
			}
		} else if b.K != '0' {
			return "the table index is wider than a nibble"
		}
	}
	return ""
}

// checkOnesPrimitive: complement.Ones as a value statement, by abstract interpretation with
// modular arithmetic kept exact (engine E1, wrapExact): on every path of the function, for a
// symbolic input byte b, the returned int8 is entailed to be b when b ≤ 127 and b − 255 when
// b ≥ 128 (8-bit one's complement: −(~b & 0x7F) for a set sign bit, with 0xFF the negative
// zero) — which of the two holds is decided by what the path knows about b.
func checkOnesPrimitive(c *Ctx, r *Report) {
	r.Rule("ones-is-ones-complement", "complement.Ones(b) returns b for b ≤ 127 and b − 255 for b ≥ 128 (8-bit one's complement, 0xFF = −0), on every path, for every b", 1)
	f := c.Func("internal/pkg/complement", "Ones")
	if f == nil {
		for _, g := range c.LibFuncs() {
			if g.Signature.Recv() == nil && g.Name() == "Ones" && normSig(g.Signature) == "func(uint8)(int8)" {
				f = g
			}
		}
	}
	if f == nil || len(f.Params) != 1 {
		r.Lost("complement.Ones")
		return
	}
	r.Fn(c.FnName(f))
	e := newLenflow(c, 4)
	e.wrapExact = true
	var b Lin
	nPaths, bad := 0, ""
	e.onReturn = func(st *lfState, rets []lfVal) {
		nPaths++
		if len(rets) != 1 {
			bad = "unexpected result arity"
			return
		}
		rv, ok := rets[0].(vInt)
		if !ok {
			bad = "the result is not an integer the engine follows"
			return
		}
		eq := func(x, y Lin) bool { return entails(st.cons, geq(x, y)) && entails(st.cons, leq(x, y)) }
		low := entails(st.cons, leq(b, linConst(127)))
		high := entails(st.cons, geq(b, linConst(128)))
		switch {
		case low && eq(rv.E, b):
		case high && eq(rv.E, b.addConst(-255)):
		case !low && !high:
			// the path does not know the sign: both cases must agree with it separately
			c1 := append(append([]Cons{}, st.cons...), leq(b, linConst(127)))
			c2 := append(append([]Cons{}, st.cons...), geq(b, linConst(128)))
			ok1 := infeasibleWith(c1) || (entails(c1, geq(rv.E, b)) && entails(c1, leq(rv.E, b)))
			ok2 := infeasibleWith(c2) || (entails(c2, geq(rv.E, b.addConst(-255))) && entails(c2, leq(rv.E, b.addConst(-255))))
			if !ok1 || !ok2 {
				bad = "on a path that does not test the sign bit the result is not the one's-complement value: returns " + e.linString(rv.E)
			}
		default:
			side := "b ≤ 127: want b"
			if high {
				side = "b ≥ 128: want b − 255"
			}
			bad = "returns " + e.linString(rv.E) + " on the path with " + side
		}
	}
	e.runEntry(f, func(fr *lfFrame, st *lfState) {
		if bv, ok := fr.env[f.Params[0]].(vInt); ok {
			b = bv.E
		}
	})
	if e.budgetHit {
		r.Unk("complement.Ones|value", f.Pos(), "budget exhausted")
		return
	}
	if nPaths == 0 {
		bad = "no returning path"
	}
	r.Check(bad == "", "complement.Ones|value", f.Pos(), fmt.Sprintf("b / b−255 entailed on %d paths", nPaths), "complement.Ones is not 8-bit one's complement: "+bad)
}

// bcdByEntailment: engine E1 in wrap-exact mode interprets the BCD decoder (helpers inlined)
// for a symbolic byte b = 16·Q + R and the value returned must be entailed to be 10·Q + R on
// every path.
func bcdByEntailment(c *Ctx, f *ssa.Function) (bool, string) {
	if len(f.Params) != 1 {
		return false, "unexpected signature"
	}
	e := newLenflow(c, 6)
	e.wrapExact = true
	var b Lin
	n, bad := 0, ""
	e.onReturn = func(st *lfState, rets []lfVal) {
		n++
		if len(rets) != 1 {
			bad = "unexpected result arity"
			return
		}
		rv, ok := rets[0].(vInt)
		if !ok {
			bad = "the result is not an integer the engine follows"
			return
		}
		Q, R := linSym(newAnonSym()), linSym(newAnonSym())
		cons := append(append([]Cons{}, st.cons...), geq(Q, linConst(0)), geq(R, linConst(0)), leq(R, linConst(15)), geq(b, Q.scale(16).add(R, 1)), leq(b, Q.scale(16).add(R, 1)))
		want := Q.scale(10).add(R, 1)
		if !(entails(cons, geq(rv.E, want)) && entails(cons, leq(rv.E, want))) {
			bad = "returns " + e.linString(rv.E)
		}
	}
	e.runEntry(f, func(fr *lfFrame, st *lfState) {
		if bv, ok := fr.env[f.Params[0]].(vInt); ok {
			b = bv.E
		}
	})
	if e.budgetHit {
		return false, "budget exhausted"
	}
	if n == 0 {
		return false, "no returning path"
	}
	return bad == "", bad
}
