module fixtures

go 1.22
