#!/usr/bin/env python3
"""Regenerates /verif/MANIFEST.json from the table below (kept in one place so
that claimed checks, techniques and not_applicable stay consistent)."""
import json, os, sys
here = os.path.dirname(os.path.dirname(os.path.abspath(__file__)))

TRUST = "Trusted: go/packages+go/types+go/ssa (x/tools v0.29.0) as the program model; the Go spec semantics of the modelled instructions; the contracts of gopacket/backoff/crypto listed in DESIGN.md §2.1. Sound for the clauses named in the evidence 'explanation'; the clauses under 'not_decided' are not covered."

# id -> (technique, text, design_ref)
CLAIMED = {}
NA = {}

def claim(pid, technique, text, ref):
    CLAIMED[pid] = (technique, text, ref)

def na(pid, reason):
    NA[pid] = reason

exec(open(os.path.join(here, "tools", "claims.py")).read())

checks = []
for pid in sorted(CLAIMED):
    tech, text, ref = CLAIMED[pid]
    checks.append({
        "property_id": pid,
        "quick_cmd": f"./check.sh {pid} quick",
        "thorough_cmd": f"./check.sh {pid} thorough",
        "evidence_file": f"/verif/evidence/{pid}.json",
        "replay_cmd_template": "./bin/bmcverif replay {path}",
        "engine": "bmcverif",
        "level_claimed": {"category": "other", "text": text, "design_ref": ref},
        "level_note": TRUST,
        "technique": tech,
    })
man = {
    "version": 1,
    "setup_cmd": "cd /verif/checker && GOFLAGS=-mod=mod GOPROXY=off GOSUMDB=off GOTOOLCHAIN=local GOWORK=off CGO_ENABLED=0 go build -o ../bin/bmcverif . && cd /verif && ./bin/bmcverif selftest",
    "hooks": {
        "guard": "verif",
        "enable": "no hooks: the analyser reads /repo's sources; nothing is compiled into gebn/bmc",
        "baseline_off_cmd": "cd /repo && GOFLAGS=-mod=mod GOPROXY=off GOSUMDB=off go test -json -vet=off -count=1 -timeout 25m ./...",
        "source_commits": [],
        "add_only": True,
    },
    "engines": [{
        "name": "bmcverif",
        "path": "/verif/checker",
        "serves_properties": sorted(CLAIMED),
        "kind_free_text": "repository-specific static analyser over go/types + go/ssa: CFG path rules and must-pass-through (E3), length/bounds abstract interpretation (E1), effects/ownership (E4), wire-layout bit provenance (E2), constant tables and predicate true-sets (E5)",
    }],
    "checks": checks,
    "not_applicable": [{"property_id": p, "reason": NA[p]} for p in sorted(NA)],
    "notes": "Static analysis only: every command parses and type-checks /repo's working tree and decides obligations over resolved program objects; nothing runs the library or its tests. Fixed defects are recorded in known_findings.jsonl (state=fixed suppresses nothing).",
}
json.dump(man, open(os.path.join(here, "MANIFEST.json"), "w"), indent=1)
print("claimed:", " ".join(sorted(CLAIMED)), "| not applicable:", " ".join(sorted(NA)))
