package main

import (
	"fmt"
	"go/token"
	"go/types"
	"sort"
	"strings"

	"golang.org/x/tools/go/ssa"
)

func init() { register("C16", checkC16) }

// fieldWriters lists all Stores in the library whose address is field `name`
// of a value of named type t (promoted selectors included).
func (c *Ctx) fieldWriters(t *types.Named, name string) []*ssa.Store {
	var out []*ssa.Store
	for _, fn := range c.LibFuncs() {
		rawInstrs(fn, false, func(in ssa.Instruction) {
			st, ok := in.(*ssa.Store)
			if !ok {
				return
			}
			fa, ok := st.Addr.(*ssa.FieldAddr)
			if !ok {
				return
			}
			f := structField(fa.X.Type(), fa.Field)
			if f == nil || f.Name() != name {
				return
			}
			bt := fa.X.Type()
			if p, ok := bt.Underlying().(*types.Pointer); ok {
				bt = p.Elem()
			}
			if n, ok := bt.(*types.Named); ok && n.Obj() == t.Obj() {
				out = append(out, st)
			}
		})
	}
	return out
}

func lenOf(v ssa.Value) (ssa.Value, bool) {
	call, ok := v.(*ssa.Call)
	if !ok {
		return nil, false
	}
	if b, ok := call.Call.Value.(*ssa.Builtin); ok && b.Name() == "len" {
		return call.Call.Args[0], true
	}
	return nil, false
}

func checkC16(c *Ctx, r *Report) {
	r.Explain = "Structure of the two paged enumerations. Cipher suites: each iteration validates the exchange, appends the chunk it received, stops on a short chunk or at list index 64, otherwise increments the list index by one — the index field is written nowhere else, so the loop runs at most 65 times; the record parser's tag tests, masks and minimum lengths equal the record grammar, algorithms are collected in input order, the cross product is expanded integrity-outer/confidentiality-inner, every error return carries a nil slice and each outer iteration consumes at least three bytes. DCMI sensor info: the instance-start field is len(collected)+1, record IDs are appended in response order, the loop stops when nothing new arrives, at 255, or once the advertised instance count (a byte) is reached — each continuing iteration grows the result; the per-entity map is built in table order, the DCMI entity IDs are used exactly when the standard ones fail or yield nothing, and the result fields map to the right entity keys. Decides the code shape on all paths; completeness for every chunking needs a peer."
	r.NotDecided = []string{"completeness for every way a BMC may split records across chunks (needs a simulated BMC)", "deduplication against a BMC that repeats record IDs across pages (the library trusts instance-start paging)"}
	r.Trusted = []string{"go/types, go/ssa (x/tools v0.29.0)", "bytes.Buffer.Write appends", "IPMI v2.0 §22.15.1 cipher suite record format; DCMI §6.5.2 paging"}

	parser := checkChunkLoop(c, r)

	// =============================== parser
	if parser != nil {
		checkCipherSuiteParser(c, r, parser)
	}

	// =============================== DCMI sensor info
	checkDCMISensorInfo(c, r)
}

// checkChunkLoop decides the cipher-suite retrieval loop (shared with C05: it
// is what bounds discovery against a BMC that keeps sending full chunks).
// Returns the record parser.
func checkChunkLoop(c *Ctx, r *Report) *ssa.Function {
	// =============================== cipher suite retrieval loop
	recT := c.Named("pkg/ipmi", "CipherSuiteRecord")
	var retr, parser *ssa.Function
	for _, fn := range c.LibFuncs() {
		if fn.Pkg == nil || fn.Pkg.Pkg.Path() != modPath || fn.Parent() != nil || fn.Signature.Results().Len() != 2 {
			continue
		}
		if sl, ok := fn.Signature.Results().At(0).Type().(*types.Slice); ok {
			if n, ok := sl.Elem().(*types.Named); ok && recT != nil && n.Obj() == recT.Obj() {
				if len(fn.Params) == 1 {
					if _, isSl := fn.Params[0].Type().(*types.Slice); isSl {
						parser = fn
						continue
					}
				}
				retr = fn
			}
		}
	}
	r.Rule("chunk-loop", "retrieval: validated exchange → append chunk → stop on short chunk or index 64 → index+1; index written nowhere else; all chunks parsed together", 6)
	if retr == nil || parser == nil {
		r.Lost("cipher suite retriever / parser (by result type []ipmi.CipherSuiteRecord)")
	} else {
		name := c.FnName(retr)
		r.Fn(name)
		loops := naturalLoops(retr)
		var send *ssa.Call
		allInstrs(retr, false, func(in ssa.Instruction) {
			if call, ok := in.(*ssa.Call); ok && call.Call.Method != nil && call.Call.Method.Name() == "SendCommand" || ok && call.Call.StaticCallee() != nil && call.Call.StaticCallee().Name() == "SendCommand" {
				send = call
			}
		})
		if len(loops) != 1 || send == nil {
			r.Unk(name+"|shape", retr.Pos(), fmt.Sprintf("expected one loop containing SendCommand (loops=%d)", len(loops)))
		} else {
			L := loops[0]
			// write of chunk
			var write *ssa.Call
			allInstrs(retr, false, func(in ssa.Instruction) {
				if call, ok := in.(*ssa.Call); ok && calleeName(&call.Call) == "(*bytes.Buffer).Write" && L.Blocks[call.Block()] {
					write = call
				}
			})
			okW := false
			if write != nil {
				if ld, ok := write.Call.Args[1].(*ssa.UnOp); ok && apOf(ld.X).SelString() == "Rsp.CipherSuiteRecordsChunk" && mustPrecede(retr, send, write) {
					okW = true
				}
			}
			r.Check(okW, name+"|append chunk", send.Pos(), "every received chunk is appended, after the exchange", "the chunk of each response is not appended to the record buffer after the exchange")
			// validated: error return on ValidateResponse != nil inside loop returns nil slice
			okV := false
			for _, ifi := range ifsOf(retr) {
				_, x, y, _, isBin := condOf(ifi.Cond)
				if isBin && isNilConst(y) {
					if call, ok := x.(*ssa.Call); ok && call.Call.StaticCallee() != nil && call.Call.StaticCallee().Name() == "ValidateResponse" && write != nil {
						// write must be behind the nil edge
						if !reachAvoiding(retr, nil, nil, map[edge]bool{{ifi.Block(), ifi.Block().Succs[1]}: true})[write.Block()] {
							if ret, ok := ifi.Block().Succs[0].Instrs[len(ifi.Block().Succs[0].Instrs)-1].(*ssa.Return); ok && isNilConst(ret.Results[0]) {
								okV = true
							}
						}
					}
				}
			}
			r.Check(okV, name+"|validated", send.Pos(), "a failed exchange aborts with a nil list", "a failed or non-normal exchange does not abort the enumeration with (nil, err)")
			// exit tests
			var exit64, exitShort *ssa.If
			for _, ifi := range ifsOf(retr) {
				if !L.Blocks[ifi.Block()] {
					continue
				}
				op, x, y, _, isBin := condOf(ifi.Cond)
				if !isBin {
					continue
				}
				if ld, ok := x.(*ssa.UnOp); ok && ld.Op == token.MUL && apOf(ld.X).SelString() == "Req.ListIndex" && op == token.EQL {
					if k, isK := constInt(y); isK && k == 64 && !L.Blocks[ifi.Block().Succs[0]] {
						exit64 = ifi
					}
				}
				if arg, ok := lenOf(x); ok && op == token.LSS {
					if ld, ok := arg.(*ssa.UnOp); ok && apOf(ld.X).SelString() == "Rsp.CipherSuiteRecordsChunk" {
						if k, isK := constInt(y); isK && k == 16 && !L.Blocks[ifi.Block().Succs[0]] {
							exitShort = ifi
						}
					}
				}
			}
			r.Check(exitShort != nil, name+"|stop on short chunk", retr.Pos(), "len(chunk) < 16 ends the enumeration", "the loop does not end exactly when a chunk shorter than 16 bytes arrives")
			r.Check(exit64 != nil, name+"|stop at index 64", retr.Pos(), "list index 64 ends the enumeration", "no hard stop at list index 64")
			// increment: the only writers of ListIndex
			reqT := c.Named("pkg/ipmi", "GetChannelCipherSuitesReq")
			ws := c.fieldWriters(reqT, "ListIndex")
			okInc := len(ws) == 1
			if okInc {
				st := ws[0]
				okInc = st.Parent() == retr && L.Blocks[st.Block()] && isIncOf(st, "Req.ListIndex")
				// increment happens on the back edge only: after both exit tests
				if okInc && exit64 != nil && exitShort != nil {
					okInc = mustPrecede(retr, write, st) && canReach(st, send)
				}
			}
			r.Check(okInc, name+"|index+1", retr.Pos(), "the list index is written only by the loop's +1 on the back edge", fmt.Sprintf("the list index is not advanced by exactly one per iteration, or is written elsewhere (%d writers)", len(ws)))
			// every back edge passes the increment
			okBack := false
			if len(ws) == 1 {
				okBack = true
				for b := range L.Blocks {
					for _, s := range b.Succs {
						if s == L.Header && b != ws[0].Block() {
							// back edge source must be dominated by the increment's block
							if !ws[0].Block().Dominates(b) {
								okBack = false
							}
						}
					}
				}
			}
			r.Check(okBack, name+"|terminates", retr.Pos(), "every iteration advances the index towards 64", "an iteration can repeat without advancing the list index (unbounded loop against a BMC that always sends full chunks)")
			// parse(all bytes)
			okP := false
			for _, ret := range returnsOf(retr) {
				if ex, ok := ret.Results[0].(*ssa.Extract); ok {
					if call, ok := ex.Tuple.(*ssa.Call); ok && call.Call.StaticCallee() == parser {
						if bc, ok := call.Call.Args[0].(*ssa.Call); ok && calleeName(&bc.Call) == "(*bytes.Buffer).Bytes" && write != nil && bc.Call.Args[0] == write.Call.Args[0] {
							okP = true
						}
					}
				}
			}
			r.Check(okP, name+"|parse all", retr.Pos(), "the parser receives the whole accumulated buffer", "the result is not the parse of the whole accumulated buffer")
		}
	}

	return parser
}

func checkCipherSuiteParser(c *Ctx, r *Report, parser *ssa.Function) {
	name := c.FnName(parser)
	r.Fn(name)
	data := parser.Params[0]
	loops := viewLoops(parser)

	r.Rule("parser-errors", "every error return of the record parser carries a nil slice, never a partial list", 4)
	nErr := 0
	for _, ret := range returnsOf(parser) {
		if isNilConst(ret.Results[1]) {
			continue
		}
		nErr++
		r.Check(isNilConst(ret.Results[0]), name+"|error return #"+fmt.Sprint(nErr), ret.Pos(), "nil list with the error", "an error is returned together with a partial record list")
	}

	r.Rule("record-grammar", "tag tests and masks equal the record format: start byte>>1 == 0x60 (0xC0 standard / 0xC1 OEM), tag bits >>6: 00 authentication, 01 integrity, 10 confidentiality, algorithm numbers &0x3f, minimum 3 (standard) / 6 (OEM) bytes, OEM IANA little-endian in bytes 2..4", 7)
	type shiftCmp struct {
		shift, k int64
		op       token.Token
	}
	var seen []shiftCmp
	minLens := map[int64]bool{}
	for _, ifi := range ifsOf(parser) {
		op, x, y, _, isBin := condOf(ifi.Cond)
		if !isBin {
			continue
		}
		k, isK := constInt(y)
		if !isK {
			continue
		}
		if bo, ok := x.(*ssa.BinOp); ok && bo.Op == token.SHR {
			if sh, ok := constInt(bo.Y); ok {
				seen = append(seen, shiftCmp{sh, k, op})
			}
		}
		if _, ok := lenOf(x); ok && op == token.LSS {
			minLens[k] = true
		}
	}
	has := func(sh, k int64) bool {
		for _, s := range seen {
			if s.shift == sh && s.k == k {
				return true
			}
		}
		return false
	}
	r.Check(has(1, 0x60), name+"|start-of-record tag", parser.Pos(), "b>>1 == 0x60", "start-of-record test is not (byte>>1) == 0x60")
	r.Check(has(6, 0), name+"|authentication tag", parser.Pos(), "b>>6 == 0", "authentication-algorithm tag test is not (byte>>6) == 0")
	r.Check(has(6, 1), name+"|integrity tag", parser.Pos(), "b>>6 == 1", "integrity-algorithm tag test is not (byte>>6) == 1")
	r.Check(has(6, 2), name+"|confidentiality tag", parser.Pos(), "b>>6 == 2", "confidentiality-algorithm tag test is not (byte>>6) == 2")
	for _, s := range seen {
		if !(s.shift == 1 && s.k == 0x60) && !(s.shift == 6 && (s.k == 0 || s.k == 1 || s.k == 2)) {
			r.Bad(name+fmt.Sprintf("|unexpected tag test >>%d vs %#x", s.shift, s.k), parser.Pos(), "tag test not in the record grammar")
		}
	}
	r.Check(minLens[3] && minLens[6] && len(minLens) == 2, name+"|minimum lengths", parser.Pos(), "3 bytes standard, 6 bytes OEM", fmt.Sprintf("minimum record lengths tested are %v, want {3,6}", keysOf(minLens)))
	// masks on appended algorithm numbers
	maskOK := map[string]bool{}
	allInstrs(parser, false, func(in ssa.Instruction) {
		// values converted to Integrity/Confidentiality algorithm types
		ct, ok := in.(*ssa.ChangeType)
		if !ok {
			return
		}
		n, ok := ct.Type().(*types.Named)
		if !ok {
			return
		}
		tn := n.Obj().Name()
		if tn != "IntegrityAlgorithm" && tn != "ConfidentialityAlgorithm" {
			return
		}
		if bo, ok := ct.X.(*ssa.BinOp); ok && bo.Op == token.AND {
			if m, isM := constInt(bo.Y); isM && m == 0x3f {
				maskOK[tn] = true
				return
			}
		}
		maskOK[tn] = false
	})
	r.Check(maskOK["IntegrityAlgorithm"] && maskOK["ConfidentialityAlgorithm"], name+"|algorithm masks", parser.Pos(), "&0x3f", "integrity/confidentiality algorithm numbers are not the low six bits of their bytes")
	// OEM IANA: joined[2] + joined[3]<<8 + joined[4]<<16
	okIANA := false
	allInstrs(parser, false, func(in ssa.Instruction) {
		if sel, _, st, ok := storeSel(in); ok && strings.HasSuffix(sel, "Enterprise") {
			parts := map[int64]int64{}
			// byteIndex: the index into the parser's input of a loaded byte, seen through a
			// helper that receives a sub-slice of it
			byteIndex := func(v ssa.Value) (int64, bool) {
				ld, ok := stripConv(v).(*ssa.UnOp)
				if !ok || ld.Op != token.MUL {
					return 0, false
				}
				ia, ok := ld.X.(*ssa.IndexAddr)
				if !ok {
					return 0, false
				}
				k, ok := constInt(ia.Index)
				if !ok {
					return 0, false
				}
				base := viewVal(parser, ia.X)
				for i := 0; i < 4; i++ {
					sl, isSl := base.(*ssa.Slice)
					if !isSl {
						break
					}
					lo := int64(0)
					if sl.Low != nil {
						l, isK := constInt(sl.Low)
						if !isK {
							return 0, false
						}
						lo = l
					}
					k += lo
					base = viewVal(parser, sl.X)
				}
				return k, true
			}
			var walk func(v ssa.Value)
			walk = func(v ssa.Value) {
				switch x := stripConv(v).(type) {
				case *ssa.BinOp:
					if x.Op == token.ADD || x.Op == token.OR {
						walk(x.X)
						walk(x.Y)
					} else if x.Op == token.SHL {
						if sh, ok := constInt(x.Y); ok {
							if k, ok := byteIndex(x.X); ok {
								parts[k] = sh
							}
						}
					}
				case *ssa.UnOp:
					if k, ok := byteIndex(x); ok {
						parts[k] = 0
					}
				}
			}
			for _, o := range viewOrigins(parser, st.Val) {
				walk(o)
			}
			if len(parts) == 3 && parts[2] == 0 && parts[3] == 8 && parts[4] == 16 {
				okIANA = true
			}
		}
	})
	r.Check(okIANA, name+"|OEM IANA", parser.Pos(), "bytes 2,3,4 little-endian", "the OEM enterprise number is not bytes 2..4, least significant first")

	r.Rule("expansion-order", "algorithms are collected in input order and the cross product is expanded integrity-outer, confidentiality-inner; records are appended in that order", 4)
	var appendRec *ssa.Call
	var stI, stC *ssa.Store
	allInstrs(parser, false, func(in ssa.Instruction) {
		if call, ok := in.(*ssa.Call); ok {
			if b, ok := call.Call.Value.(*ssa.Builtin); ok && b.Name() == "append" {
				if sl, ok := call.Type().(*types.Slice); ok {
					if n, ok := sl.Elem().(*types.Named); ok && n.Obj().Name() == "CipherSuiteRecord" {
						appendRec = call
					}
				}
			}
		}
		if sel, _, st, ok := storeSel(in); ok {
			if strings.HasSuffix(sel, "IntegrityAlgorithm") && innermostLoop(loops, st.Block()) != nil {
				if _, isC := st.Val.(*ssa.Const); !isC {
					stI = st
				}
			}
			if strings.HasSuffix(sel, "ConfidentialityAlgorithm") {
				if _, isC := st.Val.(*ssa.Const); !isC {
					stC = st
				}
			}
		}
	})
	if appendRec == nil || stI == nil || stC == nil {
		r.Bad(name+"|expansion", parser.Pos(), "cannot find the expansion loops (append of a record, stores of the two algorithms)")
	} else {
		lA := innermostLoop(loops, appendRec.Block())
		lC := innermostLoop(loops, stC.Block())
		lI := innermostLoop(loops, stI.Block())
		ok := lA != nil && lA == lC && lI != nil && lA.Parent == lI && lI != lA
		r.Check(ok, name+"|nesting", appendRec.Pos(), "confidentiality loop nested in integrity loop; append in the inner loop", "the cross product is not expanded integrity-outer / confidentiality-inner with the append innermost")
		r.Check(ok && countingLoop(lA.blockList()) && countingLoop(lI.blockList()), name+"|ascending", appendRec.Pos(), "both expansion loops are ascending range loops", "expansion loops are not ascending index loops over the collected algorithms")
	}
	// the appended record is a fresh zero value in every iteration of the record loop
	if appendRec != nil {
		okFresh := false
		var cell *ssa.Alloc
		if sl, ok := appendRec.Call.Args[1].(*ssa.Slice); ok {
			if al, ok := sl.X.(*ssa.Alloc); ok {
				for _, ref := range *al.Referrers() {
					if ia, ok := ref.(*ssa.IndexAddr); ok {
						for _, r2 := range *ia.Referrers() {
							if st, ok := r2.(*ssa.Store); ok {
								if ld, ok := st.Val.(*ssa.UnOp); ok {
									cell, _ = ld.X.(*ssa.Alloc)
									// a by-value parameter of a spliced helper is a copy of the caller's
									// record: the record to examine is the caller's
									for i := 0; i < 4 && cell != nil; i++ {
										prm := cellParam(cell)
										if prm == nil || prm.Parent() == parser {
											break
										}
										arg, ok := viewVal(parser, prm).(*ssa.UnOp)
										if !ok || arg.Op != token.MUL {
											break
										}
										next, ok := arg.X.(*ssa.Alloc)
										if !ok {
											break
										}
										cell = next
									}
								}
							}
						}
					}
				}
			}
		}
		var outer *Loop
		for l := innermostLoop(loops, appendRec.Block()); l != nil; l = l.Parent {
			outer = l
		}
		if cell != nil && outer != nil {
			// the cell is allocated (zeroed) inside the record loop, or zero-stored there, before the append
			if outer.Blocks[cell.Block()] && mustPrecede(parser, cell, appendRec) {
				okFresh = true
			}
			for _, ref := range *cell.Referrers() {
				if st, ok := ref.(*ssa.Store); ok && st.Addr == ssa.Value(cell) && outer.Blocks[st.Block()] && mustPrecede(parser, st, appendRec) {
					if k, isC := st.Val.(*ssa.Const); isC && k.Value == nil {
						okFresh = true
					}
				}
			}
		}
		r.Check(okFresh, name+"|fresh record per iteration", appendRec.Pos(), "the record value is zeroed at the start of every record", "the record value is not reset for each record: fields set only for some records (the OEM enterprise number) leak into the following records")
	}

	// collection loops: append while tag matches, offset+1 per element
	nColl := 0
	for _, l := range loops {
		hasApp := false
		for b := range l.Blocks {
			for _, in := range b.Instrs {
				if call, ok := in.(*ssa.Call); ok {
					if bi, ok := call.Call.Value.(*ssa.Builtin); ok && bi.Name() == "append" && innermostLoop(loops, b) == l {
						if sl, ok := call.Type().(*types.Slice); ok {
							if n, ok := sl.Elem().(*types.Named); ok && (n.Obj().Name() == "IntegrityAlgorithm" || n.Obj().Name() == "ConfidentialityAlgorithm") && !appendsConst(call) {
								hasApp = true
							}
						}
					}
				}
			}
		}
		if hasApp {
			nColl++
		}
	}
	r.Check(nColl == 2, name+"|collection loops", parser.Pos(), "one scanning loop per algorithm class", fmt.Sprintf("expected two algorithm-collecting loops, found %d", nColl))

	r.Rule("parser-progress", "each iteration of the record loop drops at least three bytes from the remaining input, so the parser terminates", 1)
	okProg := false
	why := "the record loop does not re-slice the remaining input by a positive offset"
	for _, l := range loops {
		if l.Parent != nil {
			continue
		}
		// outer loop: header φ of the data slice, back-edge value = Slice(φ, Low=offset)
		for _, in := range l.Header.Instrs {
			ph, ok := in.(*ssa.Phi)
			if !ok {
				continue
			}
			for i, e := range ph.Edges {
				if !l.Blocks[l.Header.Preds[i]] {
					if e != ssa.Value(data) {
						continue
					}
				} else if sl, ok := e.(*ssa.Slice); ok && sl.X == ssa.Value(ph) && sl.High == nil && sl.Low != nil {
					if lb, ok := lowerBound(sl.Low); ok && lb >= 1 {
						okProg = true
						why = fmt.Sprintf("offset ≥ %d", lb)
					} else {
						why = "cannot bound the consumed offset away from zero"
					}
				}
			}
		}
	}
	r.Check(okProg, name+"|progress", parser.Pos(), why, why)
}

// appendsConst: append(s, k) with a single constant element.
func appendsConst(call *ssa.Call) bool {
	sl, ok := call.Call.Args[1].(*ssa.Slice)
	if !ok {
		return false
	}
	al, ok := sl.X.(*ssa.Alloc)
	if !ok {
		return false
	}
	all := true
	n := 0
	for _, ref := range *al.Referrers() {
		if ia, ok := ref.(*ssa.IndexAddr); ok {
			for _, r2 := range *ia.Referrers() {
				if st, ok := r2.(*ssa.Store); ok {
					n++
					if _, isC := st.Val.(*ssa.Const); !isC {
						all = false
					}
				}
			}
		}
	}
	return n > 0 && all
}

func keysOf(m map[int64]bool) []int64 {
	var out []int64
	for k := range m {
		out = append(out, k)
	}
	sort.Slice(out, func(i, j int) bool { return out[i] < out[j] })
	return out
}

func checkDCMISensorInfo(c *Ctx, r *Report) {
	ir := newInitReader(c)
	r.Rule("entity-tables", "standard entity IDs [0x37 inlet, 0x03 processor, 0x07 system board]; DCMI entity IDs [0x40, 0x41, 0x42]", 2)
	tabs := map[string]string{}
	var tabG = map[string]*ssa.Global{}
	if p := c.Pkg("pkg/dcmi"); p != nil {
		for _, m := range p.Members {
			g, ok := m.(*ssa.Global)
			if !ok {
				continue
			}
			sl, ok := g.Type().(*types.Pointer).Elem().(*types.Slice)
			if !ok {
				continue
			}
			if n, ok := sl.Elem().(*types.Named); !ok || n.Obj().Name() != "EntityID" {
				continue
			}
			v := ir.global(g)
			var ks []string
			for _, e := range v.Elems {
				if k, ok := e.Int(); ok {
					ks = append(ks, fmt.Sprintf("%#x", k))
				}
			}
			tabs[strings.Join(ks, ",")] = g.Name()
			tabG[strings.Join(ks, ",")] = g
		}
	}
	std, dc := tabG["0x37,0x3,0x7"], tabG["0x40,0x41,0x42"]
	r.Check(std != nil, "dcmi standard entity table", token.NoPos, "[0x37,0x3,0x7]", fmt.Sprintf("no entity table [0x37,0x03,0x07]; tables found: %v", tabs))
	r.Check(dc != nil, "dcmi DCMI entity table", token.NoPos, "[0x40,0x41,0x42]", fmt.Sprintf("no entity table [0x40,0x41,0x42]; tables found: %v", tabs))

	// locate functions by type
	siT := c.Named("pkg/dcmi", "SensorInfo")
	cmdT := c.Named("pkg/dcmi", "GetDCMISensorInfoCmd")
	var top, mapper, pager *ssa.Function
	if p := c.Pkg("pkg/dcmi"); p != nil {
		for _, fn := range c.LibFuncs() {
			if fn.Pkg != p || fn.Parent() != nil || fn.Signature.Results().Len() != 2 {
				continue
			}
			res0 := fn.Signature.Results().At(0).Type()
			hasCmd := false
			for _, pp := range fn.Params {
				if isPtrTo(pp.Type(), cmdT) {
					hasCmd = true
				}
			}
			switch {
			case isPtrTo(res0, siT):
				top = fn
			case hasCmd:
				if _, isMap := res0.Underlying().(*types.Map); isMap {
					mapper = fn
				} else if _, isSl := res0.Underlying().(*types.Slice); isSl {
					pager = fn
				}
			}
		}
	}
	if top == nil || mapper == nil || pager == nil || std == nil || dc == nil {
		r.Rule("fallback", "", 1)
		r.Lost("dcmi.GetSensorInfo / getSensorMap / getEntityInstances")
		return
	}
	r.Fn(c.FnName(top))
	r.Fn(c.FnName(mapper))
	r.Fn(c.FnName(pager))
	// the per-family query and the pager are anchors with rules of their own
	markOpaque(mapper, pager)

	// ---- fallback
	r.Rule("fallback", "the DCMI-specific entity IDs are queried exactly when the standard ones returned an error or no record IDs; each result field is read under the matching entity key", 5)
	tname := c.FnName(top)
	var calls []*ssa.Call
	allInstrs(top, false, func(in ssa.Instruction) {
		if call, ok := in.(*ssa.Call); ok && call.Call.StaticCallee() == mapper {
			calls = append(calls, call)
		}
	})
	if len(calls) != 2 {
		r.Unk(tname+"|shape", top.Pos(), "expected two per-family queries")
		return
	}
	first, second := calls[0], calls[1]
	if !mustPrecede(top, first, second) {
		first, second = second, first
	}
	tableArg := func(call *ssa.Call) *ssa.Global {
		a := call.Call.Args[len(call.Call.Args)-1]
		if ld, ok := a.(*ssa.UnOp); ok {
			g, _ := ld.X.(*ssa.Global)
			return g
		}
		return nil
	}
	r.Check(tableArg(first) == std && tableArg(second) == dc, tname+"|family order", first.Pos(), "standard IDs first, DCMI IDs second", "the standard entity IDs are not tried first / the DCMI ones second")
	// the early success return: behind err == nil and count > 0; the second call reachable exactly otherwise
	var errIf, cntIf *ssa.If
	for _, ifi := range ifsOf(top) {
		op, x, y, _, isBin := condOf(ifi.Cond)
		if !isBin {
			continue
		}
		if ex, ok := x.(*ssa.Extract); ok && ex.Tuple == ssa.Value(first) && ex.Index == 1 && isNilConst(y) && op == token.EQL {
			errIf = ifi
		}
		if call, ok := x.(*ssa.Call); ok && op == token.GTR {
			if k, isK := constInt(y); isK && k == 0 && call.Call.StaticCallee() != nil && len(call.Call.Args) == 1 {
				if ex, ok := call.Call.Args[0].(*ssa.Extract); ok && ex.Tuple == ssa.Value(first) {
					// callee must sum the lengths of the map's values
					if sumsLens(call.Call.StaticCallee()) {
						cntIf = ifi
					}
				}
			}
		}
	}
	okFb := errIf != nil && cntIf != nil
	if okFb {
		// second call must be reachable from both failing edges and not from the both-true path
		e1 := edge{errIf.Block(), errIf.Block().Succs[0]}
		e2 := edge{cntIf.Block(), cntIf.Block().Succs[0]}
		bothTrue := cntIf.Block().Succs[0]
		if reachAvoiding(top, bothTrue, nil, nil)[second.Block()] {
			okFb = false
		}
		if !reachAvoiding(top, errIf.Block().Succs[1], nil, nil)[second.Block()] && errIf.Block().Succs[1] != second.Block() {
			okFb = false
		}
		if !reachAvoiding(top, cntIf.Block().Succs[1], nil, nil)[second.Block()] && cntIf.Block().Succs[1] != second.Block() {
			okFb = false
		}
		_, _ = e1, e2
	}
	r.Check(okFb, tname+"|fallback condition", second.Pos(), "fallback ⇔ err != nil ∨ no record IDs", "the DCMI entity IDs are not queried exactly when the standard query failed or returned no record IDs")
	// field ↔ key mapping per return
	wantKeys := map[*ssa.Call]map[string]int64{first: {"Inlet": 0x37, "CPU": 0x03, "Baseboard": 0x07}, second: {"Inlet": 0x40, "CPU": 0x41, "Baseboard": 0x42}}
	// decided per path of the flattened view, so that building the result in a helper changes nothing
	type agg struct {
		okMap, okErr bool
		n            int
		pos          token.Pos
	}
	aggs := map[string]*agg{}
	enumPaths(top, 1, 8192, func(p CPath) {
		ret, isRet := p.Last().(*ssa.Return)
		if !isRet || ret.Parent() != top {
			return
		}
		al, ok := p.Resolve(ret.Results[0]).(*ssa.Alloc)
		if !ok {
			return
		}
		f, _, _ := complitFieldsAlloc(al)
		var src *ssa.Call
		okMap := true
		for fld, v := range f {
			lk, ok := p.Resolve(v).(*ssa.Lookup)
			if !ok {
				okMap = false
				continue
			}
			ex, ok := p.Resolve(lk.X).(*ssa.Extract)
			if !ok {
				okMap = false
				continue
			}
			call, _ := ex.Tuple.(*ssa.Call)
			if src == nil {
				src = call
			}
			k, isK := constInt(p.Resolve(lk.Index))
			if !isK {
				// the key read from a constant position of a package-level table
				k, isK = tableElem(c, p, lk.Index)
			}
			if call != src || !isK || wantKeys[call] == nil || wantKeys[call][fld] != k {
				okMap = false
			}
		}
		which := "standard"
		if src == second {
			which = "DCMI"
		}
		a := aggs[which]
		if a == nil {
			a = &agg{okMap: true, okErr: true, pos: ret.Pos()}
			aggs[which] = a
		}
		a.n++
		if !(okMap && len(f) == 3) {
			a.okMap = false
		}
		// the DCMI-family result must be behind the second call's err == nil
		if src == second {
			tested := false
			for _, tk := range p.Ifs() {
				op, x, y, neg, isBin := condOf(tk.If.Cond)
				if !isBin || !isNilConst(y) || (op != token.NEQ && op != token.EQL) {
					continue
				}
				if ex, ok := p.Resolve(x).(*ssa.Extract); ok && ex.Tuple == ssa.Value(second) && ex.Index == 1 {
					arm := tk.Arm != neg
					if (op == token.NEQ && !arm) || (op == token.EQL && arm) {
						tested = true
					}
				}
			}
			if !tested {
				a.okErr = false
			}
		}
	})
	for _, which := range []string{"standard", "DCMI"} {
		a := aggs[which]
		if a == nil {
			continue
		}
		r.Check(a.okMap, tname+"|"+which+" result mapping", a.pos, "Inlet/CPU/Baseboard read under their entity keys", "result fields are not read from the map under the matching entity IDs")
		if which == "DCMI" {
			r.Check(a.okErr, tname+"|DCMI query error", a.pos, "a failing fallback query is an error", "the fallback query's error is not tested before its result is used")
		}
	}

	// ---- mapper
	r.Rule("per-entity-map", "for each entity of the table, in order: request entity ← that ID, result stored under that ID; an error yields a nil map", 3)
	mname := c.FnName(mapper)
	var mu *ssa.MapUpdate
	var pcall *ssa.Call
	var entSt *ssa.Store
	allInstrs(mapper, false, func(in ssa.Instruction) {
		switch x := in.(type) {
		case *ssa.MapUpdate:
			mu = x
		case *ssa.Call:
			if x.Call.StaticCallee() == pager {
				pcall = x
			}
		case *ssa.Store:
			if sel, _, st, ok := storeSel(in); ok && sel == "Req.Entity" {
				entSt = st
			}
		}
	})
	if mu == nil || pcall == nil || entSt == nil {
		r.Bad(mname+"|shape", mapper.Pos(), "cannot find request-entity store, paging call and map update")
	} else {
		loops := naturalLoops(mapper)
		L := innermostLoop(loops, pcall.Block())
		okLoop := L != nil && countingLoop(L.blockList()) && L.Blocks[mu.Block()] && L.Blocks[entSt.Block()]
		r.Check(okLoop && entSt.Val == mu.Key && mustPrecede(mapper, entSt, pcall) && mustPrecede(mapper, pcall, mu), mname+"|entity loop", pcall.Pos(), "Req.Entity ← id ≺ paging ≺ map[id] ← result, ascending over the table", "the per-entity loop does not set the request entity, page, and store under the same entity ID in table order")
		okVal := false
		if ex, ok := mu.Value.(*ssa.Extract); ok && ex.Tuple == ssa.Value(pcall) && ex.Index == 0 {
			okVal = true
		}
		r.Check(okVal, mname+"|stored value", mu.Pos(), "the paging result of this entity", "the value stored for an entity is not that entity's paging result")
		okNil := false
		for _, ret := range returnsOf(mapper) {
			if !isNilConst(ret.Results[1]) && isNilConst(ret.Results[0]) {
				okNil = true
			}
			if !isNilConst(ret.Results[1]) && !isNilConst(ret.Results[0]) {
				okNil = false
				break
			}
		}
		r.Check(okNil, mname+"|error → nil map", mapper.Pos(), "errors carry no partial map", "an error is returned together with a partial map")
	}

	// ---- pager
	r.Rule("instance-paging", "instance start = collected+1; record IDs appended in response order; stop on an empty page, at 255, or when the advertised count (a byte) is reached; every continuing iteration grows the result", 6)
	pname := c.FnName(pager)
	loops := naturalLoops(pager)
	var send *ssa.Call
	allInstrs(pager, false, func(in ssa.Instruction) {
		if call, ok := in.(*ssa.Call); ok && call.Call.IsInvoke() && call.Call.Method.Name() == "SendCommand" {
			send = call
		}
	})
	if send == nil {
		r.Bad(pname+"|shape", pager.Pos(), "no SendCommand")
		return
	}
	outer := innermostLoop(loops, send.Block())
	if outer == nil {
		r.Bad(pname+"|shape", pager.Pos(), "SendCommand is not in a loop")
		return
	}
	// collected slice φ at the outer header
	var coll *ssa.Phi
	for _, in := range outer.Header.Instrs {
		if ph, ok := in.(*ssa.Phi); ok {
			if _, isSl := ph.Type().Underlying().(*types.Slice); isSl {
				coll = ph
			}
		}
	}
	// InstanceStart store
	okStart := false
	allInstrs(pager, false, func(in ssa.Instruction) {
		if sel, _, st, ok := storeSel(in); ok && sel == "Req.InstanceStart" && outer.Blocks[st.Block()] && mustPrecede(pager, st, send) {
			if cv, ok := st.Val.(*ssa.Convert); ok {
				if bo, ok := cv.X.(*ssa.BinOp); ok && bo.Op == token.ADD {
					if k, isK := constInt(bo.Y); isK && k == 1 {
						if arg, ok := lenOf(bo.X); ok && arg == ssa.Value(coll) {
							okStart = true
						}
					}
				}
			}
		}
	})
	r.Check(okStart, pname+"|instance start", send.Pos(), "InstanceStart = len(collected)+1", "the request's instance start is not len(collected)+1 (pages would overlap or skip)")
	// Instance = 0 before the loop
	okInst := false
	allInstrs(pager, false, func(in ssa.Instruction) {
		if sel, _, st, ok := storeSel(in); ok && sel == "Req.Instance" {
			if k, isK := constInt(st.Val); isK && k == 0 && mustPrecede(pager, st, send) {
				okInst = true
			}
		}
	})
	r.Check(okInst, pname+"|all instances", send.Pos(), "Instance = 0 (all instances)", "the request does not ask for all instances (Instance = 0)")
	// inner append loop: ranges over Rsp.RecordIDs ascending, appends each to collected
	var inner *Loop
	for _, l := range loops {
		if l.Parent == outer {
			inner = l
		}
	}
	okApp := false
	if inner != nil && countingLoop(inner.blockList()) {
		for b := range inner.Blocks {
			for _, in := range b.Instrs {
				call, ok := in.(*ssa.Call)
				if !ok {
					continue
				}
				if bi, ok := call.Call.Value.(*ssa.Builtin); !ok || bi.Name() != "append" {
					continue
				}
				// append(collectedφ', []T{elem}) with elem = Rsp.RecordIDs[i]
				if sl, ok := call.Call.Args[1].(*ssa.Slice); ok {
					if al, ok := sl.X.(*ssa.Alloc); ok {
						for _, ref := range *al.Referrers() {
							if ia, ok := ref.(*ssa.IndexAddr); ok {
								for _, r2 := range *ia.Referrers() {
									if st, ok := r2.(*ssa.Store); ok {
										if ld, ok := st.Val.(*ssa.UnOp); ok {
											if ia2, ok := ld.X.(*ssa.IndexAddr); ok {
												if ld2, ok := ia2.X.(*ssa.UnOp); ok && apOf(ld2.X).SelString() == "Rsp.RecordIDs" {
													okApp = true
												}
											}
										}
									}
								}
							}
						}
					}
				}
			}
		}
	}
	r.Check(okApp, pname+"|append in order", send.Pos(), "every returned record ID appended, ascending", "the record IDs of a page are not all appended in response order")
	// exits: len(Rsp.RecordIDs)==0 ; len(collected)==255 ; header len(collected) < total(byte)
	exitEmpty, exit255, exitTotal := false, false, false
	for _, ifi := range ifsOf(pager) {
		if !outer.Blocks[ifi.Block()] {
			continue
		}
		op, x, y, _, isBin := condOf(ifi.Cond)
		if !isBin {
			continue
		}
		arg, isLen := lenOf(x)
		if !isLen {
			continue
		}
		k, isK := constInt(y)
		leaves := !outer.Blocks[ifi.Block().Succs[0]] || !outer.Blocks[ifi.Block().Succs[1]]
		if ld, ok := arg.(*ssa.UnOp); ok && apOf(ld.X).SelString() == "Rsp.RecordIDs" && op == token.EQL && isK && k == 0 {
			exitEmpty = true
		}
		if op == token.EQL && isK && k == 255 {
			exit255 = true
		}
		if op == token.LSS && leaves && !isK {
			// bound must be a byte-ranged value: φ(…, int(uint8 field))
			byteBound := true
			for _, v := range possibleValues(y) {
				if _, isC := constInt(v); isC {
					continue
				}
				if bo, ok := v.(*ssa.BinOp); ok && bo.Op == token.ADD {
					// initial len+1
					continue
				}
				cv, ok := v.(*ssa.Convert)
				if !ok {
					byteBound = false
					continue
				}
				if bt, ok := cv.X.Type().Underlying().(*types.Basic); !ok || bt.Kind() != types.Uint8 {
					byteBound = false
				}
			}
			exitTotal = byteBound
		}
	}
	r.Check(exitEmpty, pname+"|stop on empty page", send.Pos(), "an empty page ends the enumeration", "an empty page does not end the enumeration (endless loop against a BMC that reports more instances than it returns)")
	r.Check(exit255, pname+"|stop at 255", send.Pos(), "hard stop at 255 collected IDs", "no hard stop at 255 collected record IDs")
	r.Check(exitTotal && exitEmpty && okApp, pname+"|terminates", send.Pos(), "continue only while collected < advertised count ≤ 255; each continuing iteration appends ≥ 1 ID", "cannot show that every continuing iteration makes progress towards a byte-bounded count")
}

// sumsLens: fn returns the sum of len(v) over the values of its map argument.
func sumsLens(fn *ssa.Function) bool {
	if fn == nil || fn.Blocks == nil || len(fn.Params) != 1 {
		return false
	}
	ok := false
	allInstrs(fn, false, func(in ssa.Instruction) {
		if bo, isBo := in.(*ssa.BinOp); isBo && bo.Op == token.ADD {
			if _, isPh := bo.X.(*ssa.Phi); isPh {
				if _, isLen := lenOf(bo.Y); isLen {
					ok = true
				}
			}
		}
	})
	return ok
}


// tableElem: v (on path p) is element k, k constant, of a package-level slice or
// array whose initial contents are known and which is written nowhere else:
// returns that element's constant value.
func tableElem(c *Ctx, p CPath, v ssa.Value) (int64, bool) {
	ld, ok := p.Resolve(stripConv(v)).(*ssa.UnOp)
	if !ok || ld.Op != token.MUL {
		return 0, false
	}
	ia, ok := ld.X.(*ssa.IndexAddr)
	if !ok {
		return 0, false
	}
	k, ok := constInt(p.Resolve(ia.Index))
	if !ok || k < 0 {
		return 0, false
	}
	base, ok := p.Resolve(ia.X).(*ssa.UnOp)
	if !ok || base.Op != token.MUL {
		return 0, false
	}
	g, ok := base.X.(*ssa.Global)
	if !ok {
		return 0, false
	}
	// never reassigned or written through outside its initialiser
	for _, fn := range c.ModFn {
		if fn.Blocks == nil || fn.Name() == "init" {
			continue
		}
		written := false
		rawInstrs(fn, false, func(in ssa.Instruction) {
			if st, ok := in.(*ssa.Store); ok && apOf(st.Addr).Root == ssa.Value(g) {
				written = true
			}
		})
		if written {
			return 0, false
		}
	}
	gv := newInitReader(c).global(g)
	if gv == nil || int(k) >= len(gv.Elems) {
		return 0, false
	}
	return gv.Elems[k].Int()
}
