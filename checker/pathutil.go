package main

import (
	"go/token"

	"golang.org/x/tools/go/ssa"
)

// caseOf: the constant that parameter prm compared equal with on this path (a
// switch arm or an if), taken from the last such comparison whose equal arm
// was followed. ok=false on the default arm.
func (p CPath) caseOf(prm ssa.Value) (int64, bool) {
	var k int64
	found := false
	for _, tk := range p.Ifs() {
		op, x, y, neg, isBin := condOf(tk.If.Cond)
		if !isBin || (op != token.EQL && op != token.NEQ) {
			continue
		}
		var kv ssa.Value
		switch {
		case p.Resolve(stripConv(x)) == prm || x == prm:
			kv = y
		case p.Resolve(stripConv(y)) == prm || y == prm:
			kv = x
		default:
			continue
		}
		c, isK := constInt(kv)
		if !isK {
			continue
		}
		arm := tk.Arm != neg
		if (op == token.EQL) == arm {
			k, found = c, true
		}
	}
	return k, found
}

// objOf: the local object (allocation) a value denotes on this path: a pointer
// to it, or a copy of the struct value held in it. Interface and type
// conversions are looked through.
func (p CPath) objOf(v ssa.Value) *ssa.Alloc {
	for i := 0; i < 8; i++ {
		v = p.Resolve(v)
		switch x := v.(type) {
		case *ssa.MakeInterface:
			v = x.X
			continue
		case *ssa.ChangeType:
			v = x.X
			continue
		case *ssa.ChangeInterface:
			v = x.X
			continue
		case *ssa.Alloc:
			return x
		case *ssa.UnOp:
			if x.Op == token.MUL {
				if al, ok := x.X.(*ssa.Alloc); ok {
					return al
				}
			}
		}
		return nil
	}
	return nil
}

// objFields: the values last stored, along the path, into each field of the
// local object (values resolved on the path). A composite literal and a
// sequence of field assignments to a zero value give the same result.
func (p CPath) objFields(obj *ssa.Alloc) map[string]ssa.Value {
	out := map[string]ssa.Value{}
	if obj == nil {
		return out
	}
	for _, in := range p.Instrs() {
		st, ok := in.(*ssa.Store)
		if !ok {
			continue
		}
		ap := p.AP(st.Addr)
		if ap.Root != ssa.Value(obj) {
			continue
		}
		sel := ap.SelString()
		if sel == "" {
			continue
		}
		out[sel] = p.Resolve(st.Val)
	}
	return out
}
