package main

import (
	"go/constant"
	"go/types"
	"sort"
	"strings"

	"golang.org/x/tools/go/ssa"
)

// Names of the unexported fields that rules address through access paths.
// The defaults are today's spellings; resolveFieldNames re-derives each from
// the field's *type* on every run, so that renaming an unexported field (a
// behaviour-preserving edit) does not lose an anchor. A field that cannot be
// identified uniquely by type keeps its default and the rules that need it
// report the anchor as lost, which is the conservative outcome.
var (
	fSess    = "v2SessionLayer"       // ipmi.V2Session
	fMsg     = "messageLayer"         // ipmi.Message
	fRmcp    = "rmcpLayer"            // layers.RMCP
	fBuf     = "buffer"               // gopacket.SerializeBuffer
	fConf    = "confidentialityLayer" // layerexts.SerializableDecodingLayer
	fInteg   = "integrityAlgorithm"   // hash.Hash (in the session struct)
	fReading = "readingCmd"           // ipmi.GetSensorReadingCmd
	// fields of unexported helper types, found through the types themselves
	fTruncLen  = "length" // the integer field of the truncated-hash wrapper
	fAkmHash   = "hash"   // the hash.Hash field of the key-material generator
	fAesCipher = "cipher" // the cipher.Block field of ipmi.AES128CBC
)

var debugNames = func() {}

func (c *Ctx) resolveFieldNames() {
	defer func() { debugNames() }()
	root := c.TPkg("")
	if root == nil {
		return
	}
	byType := map[string]map[string]bool{}
	names := root.Scope().Names()
	sort.Strings(names)
	for _, n := range names {
		tn, ok := root.Scope().Lookup(n).(*types.TypeName)
		if !ok {
			continue
		}
		st, ok := tn.Type().Underlying().(*types.Struct)
		if !ok {
			continue
		}
		for i := 0; i < st.NumFields(); i++ {
			f := st.Field(i)
			if f.Embedded() {
				continue
			}
			k := types.TypeString(f.Type(), nil)
			if byType[k] == nil {
				byType[k] = map[string]bool{}
			}
			byType[k][f.Name()] = true
		}
	}
	pick := func(dst *string, typ string) {
		m := byType[typ]
		if len(m) != 1 {
			return
		}
		for n := range m {
			*dst = n
		}
	}
	pick(&fSess, modPath+"/pkg/ipmi.V2Session")
	pick(&fMsg, modPath+"/pkg/ipmi.Message")
	pick(&fRmcp, "github.com/google/gopacket/layers.RMCP")
	pick(&fBuf, "github.com/google/gopacket.SerializeBuffer")
	pick(&fConf, modPath+"/pkg/layerexts.SerializableDecodingLayer")
	// the integrity hash is the hash.Hash field of the struct that also holds the confidentiality layer
	for _, n := range names {
		tn, ok := root.Scope().Lookup(n).(*types.TypeName)
		if !ok {
			continue
		}
		st, ok := tn.Type().Underlying().(*types.Struct)
		if !ok {
			continue
		}
		var hashes []string
		hasConf := false
		for i := 0; i < st.NumFields(); i++ {
			f := st.Field(i)
			switch types.TypeString(f.Type(), nil) {
			case "hash.Hash":
				if !f.Embedded() {
					hashes = append(hashes, f.Name())
				}
			case modPath + "/pkg/layerexts.SerializableDecodingLayer":
				hasConf = true
			}
		}
		if hasConf && len(hashes) == 1 {
			fInteg = hashes[0]
		}
	}
	pick(&fReading, modPath+"/pkg/ipmi.GetSensorReadingCmd")
	fieldOfType := func(n *types.Named, match func(types.Type) bool) string {
		if n == nil {
			return ""
		}
		st, ok := n.Underlying().(*types.Struct)
		if !ok {
			return ""
		}
		var found []string
		for i := 0; i < st.NumFields(); i++ {
			f := st.Field(i)
			if !f.Embedded() && match(f.Type()) {
				found = append(found, f.Name())
			}
		}
		if len(found) == 1 {
			return found[0]
		}
		return ""
	}
	isInt := func(t types.Type) bool {
		b, ok := t.Underlying().(*types.Basic)
		return ok && b.Info()&types.IsInteger != 0
	}
	if n := fieldOfType(c.truncatedHashType(), isInt); n != "" {
		fTruncLen = n
	}
	if n := fieldOfType(c.keyMaterialType(), func(t types.Type) bool { return types.TypeString(t, nil) == "hash.Hash" }); n != "" {
		fAkmHash = n
	}
	if n := fieldOfType(c.Named("pkg/ipmi", "AES128CBC"), func(t types.Type) bool { return types.TypeString(t, nil) == "crypto/cipher.Block" }); n != "" {
		fAesCipher = n
	}
}

// funcsBySig returns the package-level functions of module package rel whose
// signature (parameter names ignored) is sig, sorted by name.
func (c *Ctx) funcsBySig(rel, sig string) []*ssa.Function {
	p := c.Pkg(rel)
	if p == nil {
		return nil
	}
	var out []*ssa.Function
	for _, m := range p.Members {
		if f, ok := m.(*ssa.Function); ok && f.Blocks != nil && f.Signature.Recv() == nil && normSig(f.Signature) == sig {
			out = append(out, f)
		}
	}
	sort.Slice(out, func(i, j int) bool { return out[i].Name() < out[j].Name() })
	return out
}

// uniqueFuncBySig is funcsBySig when exactly one function matches; the
// fallback name is tried first so that today's spelling wins when several match.
func (c *Ctx) uniqueFuncBySig(rel, fallback, sig string) *ssa.Function {
	if f := c.Func(rel, fallback); f != nil {
		return f
	}
	if fs := c.funcsBySig(rel, sig); len(fs) == 1 {
		return fs[0]
	}
	// moved to another library package of the module: unique by signature there
	var all []*ssa.Function
	for _, other := range c.libPkgRels() {
		if other != rel {
			all = append(all, c.funcsBySig(other, sig)...)
		}
	}
	if len(all) == 1 {
		return all[0]
	}
	return nil
}

// libPkgRels: the module's library packages (relative paths, sorted), commands excluded.
func (c *Ctx) libPkgRels() []string {
	var out []string
	for path := range c.Pkgs {
		switch {
		case path == modPath:
			out = append(out, "")
		case strings.HasPrefix(path, modPath+"/cmd/"):
		case strings.HasPrefix(path, modPath+"/"):
			out = append(out, strings.TrimPrefix(path, modPath+"/"))
		}
	}
	sort.Strings(out)
	return out
}

// implementors returns the non-interface named types of module package rel
// that declare (not merely promote) method and implement the named interface
// ifaceName of package ifaceRel.
func (c *Ctx) implementors(rel, ifaceRel, ifaceName, method string) []*types.Named {
	in := c.Named(ifaceRel, ifaceName)
	tp := c.TPkg(rel)
	if in == nil || tp == nil {
		return nil
	}
	iface, ok := in.Underlying().(*types.Interface)
	if !ok {
		return nil
	}
	var out []*types.Named
	names := tp.Scope().Names()
	sort.Strings(names)
	for _, n := range names {
		tn, ok := tp.Scope().Lookup(n).(*types.TypeName)
		if !ok || tn.IsAlias() {
			continue
		}
		nt, ok := tn.Type().(*types.Named)
		if !ok || types.IsInterface(nt) {
			continue
		}
		if !types.Implements(nt, iface) && !types.Implements(types.NewPointer(nt), iface) {
			continue
		}
		declared := false
		for i := 0; i < nt.NumMethods(); i++ {
			if nt.Method(i).Name() == method {
				declared = true
			}
		}
		if declared {
			out = append(out, nt)
		}
	}
	return out
}

// namedOr returns the named type with today's spelling if present, otherwise
// the unique candidate.
func (c *Ctx) namedOr(rel, fallback string, cands []*types.Named) *types.Named {
	if n := c.Named(rel, fallback); n != nil {
		return n
	}
	if len(cands) == 1 {
		return cands[0]
	}
	return nil
}

// transportSend is the Send method of the (unexported) implementation of
// transport.Transport.
func (c *Ctx) transportSend() *ssa.Function {
	n := c.namedOr("internal/pkg/transport", "transport", c.implementors("internal/pkg/transport", "internal/pkg/transport", "Transport", "Send"))
	if n == nil {
		return nil
	}
	return c.MethodOf(n, "Send")
}

// truncatedHashType is the root-package struct that embeds hash.Hash next to
// an integer length.
func (c *Ctx) truncatedHashType() *types.Named {
	if n := c.Named("", "truncatedHash"); n != nil {
		return n
	}
	// by shape: in the root package first, then wherever in the module's library packages
	// the type lives
	if cands := c.truncatedHashCands(c.TPkg("")); len(cands) == 1 {
		return cands[0]
	}
	var all []*types.Named
	var paths []string
	for path := range c.Pkgs {
		paths = append(paths, path)
	}
	sort.Strings(paths)
	for _, path := range paths {
		if !(path == modPath || strings.HasPrefix(path, modPath+"/")) || strings.HasPrefix(path, modPath+"/cmd/") {
			continue
		}
		all = append(all, c.truncatedHashCands(c.Pkgs[path].Types)...)
	}
	if len(all) == 1 {
		return all[0]
	}
	return nil
}

func (c *Ctx) truncatedHashCands(tp *types.Package) []*types.Named {
	if tp == nil {
		return nil
	}
	var cands []*types.Named
	names := tp.Scope().Names()
	sort.Strings(names)
	for _, n := range names {
		tn, ok := tp.Scope().Lookup(n).(*types.TypeName)
		if !ok {
			continue
		}
		nt, ok := tn.Type().(*types.Named)
		if !ok {
			continue
		}
		st, ok := nt.Underlying().(*types.Struct)
		if !ok || st.NumFields() != 2 {
			continue
		}
		emb, ints := 0, 0
		for i := 0; i < 2; i++ {
			f := st.Field(i)
			if f.Embedded() && types.TypeString(f.Type(), nil) == "hash.Hash" {
				emb++
			}
			if b, ok := f.Type().Underlying().(*types.Basic); ok && b.Info()&types.IsInteger != 0 {
				ints++
			}
		}
		if emb == 1 && ints == 1 {
			cands = append(cands, nt)
		}
	}
	return cands
}

// keyMaterialType is the concrete implementation of AdditionalKeyMaterialGenerator.
func (c *Ctx) keyMaterialType() *types.Named {
	return c.namedOr("", "additionalKeyMaterialGenerator", c.implementors("", "", "AdditionalKeyMaterialGenerator", "K"))
}

// globalByType returns the package-level variable of module package rel with
// today's name, or else the unique one whose type prints as typ.
func (ir *initReader) globalByType(rel, fallback, typ string) (*GVal, *ssa.Global) {
	v, g := ir.globalByType0(rel, fallback, typ)
	if g == nil && strings.HasPrefix(typ, "map[") {
		// the same table written as an array or slice indexed by the key
		if i := strings.Index(typ, "]"); i > 0 {
			valT := typ[i+1:]
			if p := ir.c.Pkg(rel); p != nil {
				var found *ssa.Global
				n := 0
				for _, m := range p.Members {
					gg, ok := m.(*ssa.Global)
					if !ok {
						continue
					}
					pt, ok := gg.Type().(*types.Pointer)
					if !ok {
						continue
					}
					var elem types.Type
					switch t := pt.Elem().Underlying().(type) {
					case *types.Array:
						elem = t.Elem()
					case *types.Slice:
						elem = t.Elem()
					}
					if elem != nil && types.TypeString(elem, nil) == valT {
						found = gg
						n++
					}
				}
				if n == 1 {
					v, g = ir.global(found), found
				}
			}
		}
	}
	// present an indexed table as the map it stands for: index → element
	if g != nil && v != nil && v.Kind == "slice" && strings.HasPrefix(typ, "map[") {
		out := &GVal{Kind: "map", Type: v.Type, Pos: v.Pos}
		for i, el := range v.Elems {
			if el == nil || el.Kind == "zero" || (el.Kind == "const" && el.Const == nil) {
				continue // a hole: no entry for this key
			}
			out.Entries = append(out.Entries, GEntry{K: &GVal{Kind: "const", Const: constant.MakeInt64(int64(i))}, V: el})
		}
		return out, g
	}
	return v, g
}

func (ir *initReader) globalByType0(rel, fallback, typ string) (*GVal, *ssa.Global) {
	if v, g := ir.GlobalInit(rel, fallback); g != nil {
		return v, g
	}
	byType := func(rel string) (found *ssa.Global, many bool) {
		p := ir.c.Pkg(rel)
		if p == nil {
			return nil, false
		}
		var names []string
		for n := range p.Members {
			names = append(names, n)
		}
		sort.Strings(names)
		for _, n := range names {
			if g, ok := p.Members[n].(*ssa.Global); ok {
				if pt, ok := g.Type().(*types.Pointer); ok && types.TypeString(pt.Elem(), nil) == typ {
					if found != nil {
						return nil, true
					}
					found = g
				}
			}
		}
		return found, false
	}
	found, many := byType(rel)
	if found == nil && !many {
		// the table moved to another library package of the module: unique by type there
		n := 0
		for _, other := range ir.c.libPkgRels() {
			if other == rel {
				continue
			}
			if g, m := byType(other); g != nil {
				found = g
				n++
			} else if m {
				n += 2
			}
		}
		if n != 1 {
			found = nil
		}
	}
	if found == nil {
		return nil, nil
	}
	return ir.global(found), found
}
