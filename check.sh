#!/bin/sh
# usage: check.sh <property-id> <quick|thorough>
# Rebuilds the analyser if needed, then analyses /repo's current working tree.
set -e
cd "$(dirname "$0")"
export GOFLAGS=-mod=mod GOPROXY=off GOSUMDB=off GOTOOLCHAIN=local GOWORK=off CGO_ENABLED=0
unset GOWORK_FILE 2>/dev/null || true
if [ ! -x bin/bmcverif ] || [ -n "$(find checker -newer bin/bmcverif -name '*.go' 2>/dev/null | head -1)" ]; then
  mkdir -p bin
  (cd checker && go build -o ../bin/bmcverif .)
fi
if [ -n "$VERIF_OUT" ]; then
  # (atomic: several checks may share one output directory)
  mkdir -p "$VERIF_OUT" && cp known_findings.jsonl "$VERIF_OUT/.kf.$$" 2>/dev/null && mv -f "$VERIF_OUT/.kf.$$" "$VERIF_OUT/known_findings.jsonl" || true
  exec ./bin/bmcverif check -p "$1" -tier "${2:-quick}" -repo "${VERIF_REPO:-/repo}" -out "$VERIF_OUT"
fi
exec ./bin/bmcverif check -p "$1" -tier "${2:-quick}" -repo "${VERIF_REPO:-/repo}"
