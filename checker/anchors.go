package main

import (
	"go/token"
	"go/types"
	"sort"

	"golang.org/x/tools/go/ssa"
)

const (
	fnBackoffRetry     = "github.com/cenkalti/backoff/v4.Retry"
	fnBackoffWithCtx   = "github.com/cenkalti/backoff/v4.WithContext"
	fnBackoffReset     = "(github.com/cenkalti/backoff/v4.BackOff).Reset"
	fnTransportSend    = "(github.com/gebn/bmc/internal/pkg/transport.Transport).Send"
	fnSerializeLayers  = "github.com/google/gopacket.SerializeLayers"
	fnDLCPut           = "(github.com/google/gopacket.DecodingLayerContainer).Put"
	fnDLCLayersDecoder = "(github.com/google/gopacket.DecodingLayerContainer).LayersDecoder"
	fnHmacEqual        = "crypto/hmac.Equal"
	fnSubtleCompare    = "crypto/subtle.ConstantTimeCompare"
	fnCtxWithTimeout   = "context.WithTimeout"
	fnCtxWithDeadline  = "context.WithDeadline"
	fnCtxBackground    = "context.Background"
	fnCtxTODO          = "context.TODO"
	fnInnermostEquals  = "(github.com/gebn/bmc/pkg/layerexts.DecodedTypes).InnermostEquals"
	fnCounterInc       = "(github.com/prometheus/client_golang/prometheus.Counter).Inc"
	fnGaugeInc         = "(github.com/prometheus/client_golang/prometheus.Gauge).Inc"
	fnGaugeDec         = "(github.com/prometheus/client_golang/prometheus.Gauge).Dec"
	fnCounterVecWLV    = "(*github.com/prometheus/client_golang/prometheus.CounterVec).WithLabelValues"
	fnIsTemporary      = "(github.com/gebn/bmc/pkg/ipmi.CompletionCode).IsTemporary"
)

// SendClosure is a function value passed as the operation to backoff.Retry
// that (itself) contains a call to Transport.Send.
type SendClosure struct {
	Fn      *ssa.Function // the closure
	Parent  *ssa.Function // function that calls backoff.Retry
	Retry   *ssa.Call
	Send    *ssa.Call
	Session bool // parent's receiver is *bmc.V2Session (in-session traffic)
	Command bool // parent takes an ipmi.Command (else ipmi.Payload)
}

// retryOp resolves the function passed as first argument of a backoff.Retry call.
func retryOp(call *ssa.Call) *ssa.Function {
	if len(call.Call.Args) < 1 {
		return nil
	}
	return closureFn(call.Call.Args[0])
}

type RetrySite struct {
	Parent *ssa.Function
	Call   *ssa.Call
	Op     *ssa.Function
}

func (c *Ctx) RetrySites() []RetrySite {
	var out []RetrySite
	for _, fn := range c.LibFuncs() {
		for _, b := range fn.Blocks {
			for _, in := range b.Instrs {
				if call, ok := in.(*ssa.Call); ok && isCallTo(in, fnBackoffRetry) {
					if op := retryOp(call); op != nil || len(call.Call.Args) == 0 {
						out = append(out, RetrySite{Parent: fn, Call: call, Op: op})
						continue
					}
					// the operation is handed to this function by its callers (a `retry(ctx, op)`
					// helper): each caller that passes a function it makes is a site of its own
					prm, isPrm := stripConv(call.Call.Args[0]).(*ssa.Parameter)
					if !isPrm || !unexportedName(fn) {
						out = append(out, RetrySite{Parent: fn, Call: call})
						continue
					}
					idx := -1
					for j, q := range fn.Params {
						if q == prm {
							idx = j
						}
					}
					n := 0
					for _, caller := range c.LibFuncs() {
						rawInstrs(caller, false, func(in2 ssa.Instruction) {
							c2, isCall := in2.(*ssa.Call)
							if !isCall || c2.Call.StaticCallee() != fn || idx < 0 || idx >= len(c2.Call.Args) {
								return
							}
							if op := closureFn(c2.Call.Args[idx]); op != nil {
								out = append(out, RetrySite{Parent: caller, Call: call, Op: op})
								n++
							}
						})
					}
					if n == 0 {
						out = append(out, RetrySite{Parent: fn, Call: call})
					}
				}
			}
		}
	}
	return out
}

func recvNamed(fn *ssa.Function) *types.Named {
	if fn == nil || fn.Signature.Recv() == nil {
		return nil
	}
	t := fn.Signature.Recv().Type()
	if p, ok := t.(*types.Pointer); ok {
		t = p.Elem()
	}
	n, _ := t.(*types.Named)
	return n
}

func hasParamOfType(fn *ssa.Function, t types.Type) bool {
	for _, p := range fn.Params {
		if types.Identical(p.Type(), t) {
			return true
		}
	}
	return false
}

func (c *Ctx) SendClosures() []SendClosure {
	var out []SendClosure
	v2s := c.Named("", "V2Session")
	cmdT := c.Named("pkg/ipmi", "Command")
	for _, rs := range c.RetrySites() {
		if rs.Op == nil {
			continue
		}
		var send *ssa.Call
		n := 0
		allInstrs(rs.Op, false, func(in ssa.Instruction) {
			if call, ok := in.(*ssa.Call); ok && isCallTo(in, fnTransportSend) {
				send = call
				n++
			}
		})
		if n == 0 {
			continue
		}
		sc := SendClosure{Fn: rs.Op, Parent: rs.Parent, Retry: rs.Call, Send: send}
		if rn := recvNamed(rs.Parent); rn != nil && v2s != nil && rn.Obj() == v2s.Obj() {
			sc.Session = true
		}
		if cmdT != nil && hasParamOfType(rs.Parent, cmdT) {
			sc.Command = true
		}
		out = append(out, sc)
	}
	sort.Slice(out, func(i, j int) bool { return out[i].Fn.Pos() < out[j].Fn.Pos() })
	return out
}

// sendCount counts Transport.Send calls inside fn.
func sendCount(fn *ssa.Function) int {
	_, n := fnContainsCallTo(fn, fnTransportSend)
	return n
}

// decodeCall finds, in fn, calls of a function value loaded from a field of
// type gopacket.DecodingLayerFunc (the connection's `decode`).
func isDecodeCall(in ssa.Instruction) bool {
	call, ok := in.(*ssa.Call)
	if !ok || call.Call.IsInvoke() || call.Call.StaticCallee() != nil {
		return false
	}
	t := call.Call.Value.Type()
	if n, ok := t.(*types.Named); ok {
		return n.Obj().Pkg() != nil && n.Obj().Pkg().Path() == "github.com/google/gopacket" && n.Obj().Name() == "DecodingLayerFunc"
	}
	return false
}

// registeredLayerFields lists, for a constructor function, the selector
// strings of the struct fields whose address is passed to
// DecodingLayerContainer.Put (these are overwritten by every decode) and whose
// layer type carries decoded state into its serialiser (see carriesDecodedState).
func (c *Ctx) registeredLayerFields(fn *ssa.Function) []string {
	var out []string
	allInstrs(fn, false, func(in ssa.Instruction) {
		if !isCallTo(in, fnDLCPut) {
			return
		}
		cc := asCall(in)
		if len(cc.Args) != 1 {
			return
		}
		a := apOf(cc.Args[0])
		if len(a.Sel) == 0 {
			return
		}
		if !c.layerCarriesDecodedState(c.layerTypesOf(stripConv(cc.Args[0]))) {
			return
		}
		out = append(out, a.SelString())
	})
	return out
}

// layerCarriesDecodedState: can a value of static type t, after a decode,
// serialise differently than a fresh one? True when, for (one of) the concrete
// layer type(s), the serialiser reads a field the decoder writes. A layer whose
// serialiser looks only at configuration the decoder never touches (the AES
// layer: its cipher) is the same whether or not it has decoded anything.
func (c *Ctx) layerCarriesDecodedState(ts []types.Type) bool {
	if len(ts) == 0 {
		return true
	}
	for _, t := range ts {
		if c.typeCarriesDecodedState(t) {
			return true
		}
	}
	return false
}

// layerTypesOf: the static type of a registered layer value or, when that is
// an interface held in a struct field, the concrete types that are ever stored
// into that field anywhere in the module (nil: could not be determined).
func (c *Ctx) layerTypesOf(v ssa.Value) []types.Type {
	if !types.IsInterface(v.Type()) {
		return []types.Type{v.Type()}
	}
	ld, ok := v.(*ssa.UnOp)
	if !ok || ld.Op != token.MUL {
		return nil
	}
	fa, ok := ld.X.(*ssa.FieldAddr)
	if !ok {
		return nil
	}
	fld := structField(fa.X.Type(), fa.Field)
	if fld == nil {
		return nil
	}
	var out []types.Type
	seen := map[ssa.Value]bool{}
	unknown := false
	var flow func(x ssa.Value, depth int)
	flow = func(x ssa.Value, depth int) {
		if seen[x] || depth > 12 {
			return
		}
		seen[x] = true
		if isNilConst(x) {
			return
		}
		switch y := x.(type) {
		case *ssa.MakeInterface:
			out = append(out, y.X.Type())
		case *ssa.ChangeInterface:
			flow(y.X, depth+1)
		case *ssa.Phi:
			for _, e := range y.Edges {
				flow(e, depth+1)
			}
		case *ssa.Call:
			f := y.Call.StaticCallee()
			if f == nil || f.Blocks == nil || !c.InModule(f) {
				unknown = true
				return
			}
			for _, ret := range returnsOf(f) {
				if len(ret.Results) >= 1 {
					flow(ret.Results[0], depth+1)
				}
			}
		case *ssa.Extract:
			call, ok := y.Tuple.(*ssa.Call)
			if !ok {
				unknown = true
				return
			}
			f := call.Call.StaticCallee()
			if f == nil || f.Blocks == nil || !c.InModule(f) {
				unknown = true
				return
			}
			for _, ret := range returnsOf(f) {
				if y.Index < len(ret.Results) {
					flow(ret.Results[y.Index], depth+1)
				} else if len(ret.Results) == 1 {
					// return g(...) forwarding a tuple
					flow(&ssa.Extract{Tuple: ret.Results[0], Index: y.Index}, depth+1)
				}
			}
		default:
			if !types.IsInterface(x.Type()) {
				out = append(out, x.Type())
				return
			}
			unknown = true
		}
	}
	n := 0
	for _, fn := range c.ModFn {
		if fn.Blocks == nil {
			continue
		}
		rawInstrs(fn, false, func(in ssa.Instruction) {
			st, ok := in.(*ssa.Store)
			if !ok {
				return
			}
			fa2, ok := st.Addr.(*ssa.FieldAddr)
			if !ok || structField(fa2.X.Type(), fa2.Field) != fld {
				return
			}
			n++
			flow(st.Val, 0)
		})
	}
	if unknown || n == 0 {
		return nil
	}
	return out
}

func (c *Ctx) typeCarriesDecodedState(t types.Type) bool {
	var cands []*types.Named
	if pt, ok := t.Underlying().(*types.Pointer); ok {
		if n, ok := pt.Elem().(*types.Named); ok {
			cands = append(cands, n)
		}
	}
	if n, ok := t.(*types.Named); ok {
		if iface, isI := n.Underlying().(*types.Interface); isI {
			for _, p := range c.ModulePackages() {
				names := p.Types.Scope().Names()
				sort.Strings(names)
				for _, nm := range names {
					tn, ok := p.Types.Scope().Lookup(nm).(*types.TypeName)
					if !ok || tn.IsAlias() {
						continue
					}
					nt, ok := tn.Type().(*types.Named)
					if !ok || types.IsInterface(nt) {
						continue
					}
					if types.Implements(types.NewPointer(nt), iface) || types.Implements(nt, iface) {
						cands = append(cands, nt)
					}
				}
			}
		} else {
			cands = append(cands, n)
		}
	}
	if len(cands) == 0 {
		return true // unknown layer type: assume it does
	}
	for _, n := range cands {
		ser, dec := c.MethodOf(n, "SerializeTo"), c.MethodOf(n, "DecodeFromBytes")
		if ser == nil || dec == nil || ser.Blocks == nil || dec.Blocks == nil {
			continue
		}
		rd, _ := receiverFieldUse(ser)
		_, wr := receiverFieldUse(dec)
		for f := range rd {
			if wr[f] {
				return true
			}
		}
	}
	return false
}

// receiverFieldUse lists the receiver's top-level fields that a method's
// flattened view reads and writes. A field whose address escapes into a call
// counts as both.
func receiverFieldUse(m *ssa.Function) (reads, writes map[string]bool) {
	reads, writes = map[string]bool{}, map[string]bool{}
	if len(m.Params) == 0 {
		return
	}
	recv := ssa.Value(m.Params[0])
	allInstrs(m, false, func(in ssa.Instruction) {
		fa, ok := in.(*ssa.FieldAddr)
		if !ok {
			return
		}
		ap := flatAP(m, fa)
		if ap.Root != recv || len(ap.Sel) == 0 {
			if cp := cellParam0(ap.Root); cp == nil || ssa.Value(cp) != recv || len(ap.Sel) == 0 {
				return
			}
		}
		top := ap.Sel[0]
		var walk func(v ssa.Value, depth int)
		walk = func(v ssa.Value, depth int) {
			refs := v.Referrers()
			if refs == nil || depth > 6 {
				return
			}
			for _, ref := range *refs {
				switch x := ref.(type) {
				case *ssa.Store:
					if x.Addr == v {
						writes[top] = true
					} else {
						reads[top] = true
					}
				case *ssa.UnOp:
					reads[top] = true
				case *ssa.FieldAddr:
					if x != fa || depth > 0 {
						walk(x, depth+1)
					}
				case *ssa.IndexAddr, *ssa.Slice:
					walk(x.(ssa.Value), depth+1)
					if _, isSl := x.(*ssa.Slice); isSl {
						reads[top] = true
					}
				case *ssa.DebugRef:
				default:
					reads[top], writes[top] = true, true
				}
			}
		}
		walk(fa, 0)
	})
	return
}

// cellParam0: the parameter a spilled-receiver cell holds, if v is such a cell.
func cellParam0(v ssa.Value) *ssa.Parameter {
	if al, ok := v.(*ssa.Alloc); ok {
		return cellParam(al)
	}
	return nil
}

// wholeStore: a Store whose address is a struct-typed field location (whole
// value overwrite of a layer).
func storeSel(in ssa.Instruction) (sel string, root ssa.Value, st *ssa.Store, ok bool) {
	st, ok = in.(*ssa.Store)
	if !ok {
		return "", nil, nil, false
	}
	a := apOf(st.Addr)
	return a.SelString(), a.Root, st, true
}

// socket primitives (type-resolved names; net.UDPConn embeds net.conn)
var sockWrites = []string{"(*net.conn).Write", "(*net.UDPConn).Write", "(*net.UDPConn).WriteTo", "(*net.UDPConn).WriteToUDP", "(*net.UDPConn).WriteMsgUDP", "(*net.UDPConn).WriteToUDPAddrPort", "(*net.UDPConn).WriteMsgUDPAddrPort"}
var sockReads = []string{"(*net.conn).Read", "(*net.UDPConn).Read", "(*net.UDPConn).ReadFrom", "(*net.UDPConn).ReadFromUDP", "(*net.UDPConn).ReadMsgUDP", "(*net.UDPConn).ReadFromUDPAddrPort", "(*net.UDPConn).ReadMsgUDPAddrPort"}
var sockWriteDeadline = []string{"(*net.conn).SetWriteDeadline", "(*net.conn).SetDeadline", "(*net.UDPConn).SetWriteDeadline", "(*net.UDPConn).SetDeadline"}
var sockReadDeadline = []string{"(*net.conn).SetReadDeadline", "(*net.conn).SetDeadline", "(*net.UDPConn).SetReadDeadline", "(*net.UDPConn).SetDeadline"}
