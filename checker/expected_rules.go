// Code generated from the rule lists of a run on the reference tree (tools/mkexpectedrules.py); edit by regenerating.

package main

// expectedRules: every rule a property's check declares on the reference tree. A run that
// does not reach one of them (an early return on a shape the check did not anticipate) has
// not decided the property: reported as undecided, never as a pass.
var expectedRules = map[string][]string{
	"C01": {"hash-transcripts", "role-byte-wire", "key-wiring", "algorithm-tables", "driver-order"},
	"C02": {"rakp2-authcode-verified", "rakp4-icv-verified", "mismatch-errors", "key-wiring", "algorithm-tables", "handshake-reply-validated", "handshake-decoders-in-bounds"},
	"C03": {"session-wrapper-literal", "layer-stack", "serialize-options", "sent-only-if-serialised", "fresh-layers", "integrity-trailer-order", "integrity-pad-congruence", "integrity-pad-bytes", "aes-iv-and-pad", "aes-pad-convention", "hash-always-reset", "algorithm-tables", "package-tables-read-only", "one-write-one-read", "buffer-views", "session-header-layout", "message-layout", "build-literals"},
	"C04": {"accept-authenticated", "accept-session-id", "signature-verified", "signature-operands", "pad-validated", "reject-undecodable", "retry-failure-returned", "send-sites", "algorithm-tables", "errors-examined"},
	"C05": {"entry-points", "in-bounds", "loops-terminate", "field-facts", "layers-consume-input", "nil-hash-guarded", "chunk-loop"},
	"C06": {"request-layouts", "message-layout", "session-header-layout", "driver-order", "helper-request-fields", "package-tables-read-only", "operation-table", "request-passed-whole", "command-bindings", "build-literals", "fresh-layers", "open-session-payload-order", "username-guard", "username-encoding"},
	"C07": {"response-layouts", "decoders-overwrite", "id-string-header", "latin1-is-a-copy", "packed-string-extraction", "dcmi-version-guards", "rejected-layers-not-added", "response-always-decoded", "accepts-minimal-encoding", "checksums-verified", "wrappers-in-bounds", "v1-length-honoured"},
	"C08": {"mutual-inverse", "serialiser-writes-every-byte", "serialisers-overwrite", "buffer-views", "decoder-accepts-serialised", "decoded-pad-consistent", "aes-pad-convention", "aes-pad-arithmetic", "decode-overwrites-everything"},
	"C09": {"counter-writers", "inc-before-send", "sequence-is-incremented-counter", "inc-implies-send", "sessionless-null-wrapper", "sessionless-serialised-afresh", "one-write-one-read", "send-sites"},
	"C10": {"temporary-codes", "closure-exits", "temporary-tested", "terminal-error-returned", "backoff-policy-default", "reset-before-retry", "code-from-message-layer", "fresh-layers", "retry-bounded-by-context", "reply-matches-request", "retry-failure-returned", "one-write-one-read", "send-sites", "context-undiminished"},
	"C11": {"reply-matches-request", "one-write-one-read", "retry-failure-returned"},
	"C12": {"default-suites", "preferences-unaltered", "selector", "proposal", "confirmation", "response-algorithm-layout", "recorded", "algorithm-tables", "no-nil-algorithm", "chunk-loop", "parser-errors", "record-grammar", "expansion-order", "parser-progress"},
	"C13": {"closure-exits", "temporary-tested", "terminal-error-returned", "errors-examined", "socket-deadlines", "per-attempt-timeout", "retry-bounded-by-context", "ctx-threading", "context-undiminished", "no-other-blocking", "loops-ctx-bound", "walk-errors-abort", "retry-failure-returned", "send-sites", "success-needs-exchange"},
	"C14": {"id-string-header", "latin1-is-a-copy", "temporary-codes", "key-is-record-id", "value-is-decoded-record", "store-guards", "reservation", "next-chain", "walk-errors-abort", "retrieval-errors-examined", "errors-abort", "consistent-snapshot", "snapshots-distinct"},
	"C15": {"formula", "linearisers", "analog-parsers", "linearisation-classes", "reader-selection", "constructor-errors", "response-always-decoded", "read-flags", "reading-flags-layout", "record-factors-layout"},
	"C16": {"chunk-loop", "parser-errors", "record-grammar", "expansion-order", "parser-progress", "entity-tables", "fallback", "per-entity-map", "instance-paging", "page-decoders-overwrite", "paging-wire-layouts"},
	"C17": {"definite-assignment", "fresh-layers", "serialisers-overwrite", "hash-always-reset", "closure-exits", "temporary-tested", "terminal-error-returned", "chunk-loop", "walk-fills-own-map", "response-always-decoded", "code-after-exchange"},
	"C18": {"metrics-resolved", "sendcommand-accounting", "payload-closure-silent", "closure-accounting", "first-attempt-flag", "close-accounting", "open-accounting", "no-stray-updates", "send-sites"},
	"C19": {"globals-census", "no-writes-to-package-state", "allow-listed-writer", "taint-positive-control", "accessor-taint", "no-goroutines"},
	"C20": {"bcd-plus-table", "decoder-table", "latin1-is-a-copy", "empty-string-decodes", "entity-instance-classes", "entity-instance-boundaries", "twos-complement-widths", "time-unit-table", "period-encoder-arms", "period-byte-on-the-wire", "extension-parsers", "twos-is-sign-extension", "packed-string-extraction", "checksum-on-the-wire", "read-flags", "bcd-normal-form", "string-decoders-in-bounds", "checksum-shape"},
}
